package cctfe

import (
	"bytes"
	"context"
	"crypto/sha256"
	"database/sql"
	"encoding/json"
	"errors"
	"fmt"
	"net/http/httptest"
	"net/url"
	"os"
	"runtime"
	"strings"
	"sync"
	"testing"
	"time"

	ct "github.com/google/certificate-transparency-go"
	"github.com/google/certificate-transparency-go/trillian/ctfe/cache"
	"github.com/google/certificate-transparency-go/trillian/ctfe/cache/lru"
	"github.com/google/certificate-transparency-go/trillian/ctfe/cache/noop"
	"github.com/google/certificate-transparency-go/trillian/ctfe/storage"
	mysqlstore "github.com/google/certificate-transparency-go/trillian/ctfe/storage/mysql"
	pgstore "github.com/google/certificate-transparency-go/trillian/ctfe/storage/postgresql"
	"github.com/google/trillian"
	"google.golang.org/protobuf/proto"

	"verifharness/ctfeenv"
	"verifharness/pki"
	"verifharness/sqlfake"
	"verifharness/vh"
)

// MemStore is an in-memory IssuanceChainStorage with fault injection and call counting.
type MemStore struct {
	mu       sync.Mutex
	rows     map[string][]byte
	Adds     int
	Finds    int
	FailAdd  bool
	FailFind bool
	LastKey  []byte
}

func newMemStore() *MemStore { return &MemStore{rows: map[string][]byte{}} }

// FindByKey implements storage.IssuanceChainStorage; an unknown key is an error as in the SQL stores.
func (m *MemStore) FindByKey(_ context.Context, key []byte) ([]byte, error) {
	m.mu.Lock()
	defer m.mu.Unlock()
	m.Finds++
	if m.FailFind {
		m.FailFind = false
		return nil, errors.New("injected storage fault on FindByKey")
	}
	v, ok := m.rows[string(key)]
	if !ok {
		return nil, errors.New("sql: no rows in result set")
	}
	return append([]byte{}, v...), nil
}

// Add implements storage.IssuanceChainStorage (idempotent, like INSERT ... ON DUPLICATE KEY).
func (m *MemStore) Add(_ context.Context, key []byte, chain []byte) error {
	m.mu.Lock()
	defer m.mu.Unlock()
	m.Adds++
	m.LastKey = append([]byte{}, key...)
	if m.FailAdd {
		m.FailAdd = false
		return errors.New("injected storage fault on Add")
	}
	m.rows[string(key)] = append([]byte{}, chain...)
	return nil
}

// damaged computes what a damaged row holds; other is the well-formed value of another key (class "swapped").
func damaged(v []byte, class string, other []byte) []byte {
	switch class {
	case "trailing":
		return append(append([]byte{}, v...), 0)
	case "notDER":
		return []byte("this is not DER at all")
	case "truncated":
		if len(v) > 3 {
			return append([]byte{}, v[:len(v)-3]...)
		}
		return append([]byte{}, v[:1]...)
	case "empty":
		return []byte{}
	case "swapped":
		return append([]byte{}, other...)
	case "contentFlip":
		v = append([]byte{}, v...)
		if len(v) > 40 {
			v[len(v)/2] ^= 0x01 // inside a certificate's bytes: the ASN.1 structure of the row stays intact
			return v
		}
		return []byte("this is not DER at all") // the empty chain has no content to flip
	}
	return v
}

// storeCtl is the harness' handle on the storage below the external-storage twin: the object the instance talks to
// (Impl: the in-memory stand-in, or the real MySQL / PostgreSQL IssuanceChainStorage of the repository on the
// in-process database of package sqlfake) and the table behind it.
type storeCtl interface {
	Impl() storage.IssuanceChainStorage
	Reopen() storage.IssuanceChainStorage // what a restarted front end gets: the same table through a new handle
	row(key []byte) ([]byte, bool)
	setRow(key, v []byte)
	dropRow(key []byte)
	arm(fault string, variant int, cancel func())
	disarm()
	shut()
	sql() *sqlfake.DB // nil for the in-memory stand-in
}

func (m *MemStore) Impl() storage.IssuanceChainStorage   { return m }
func (m *MemStore) Reopen() storage.IssuanceChainStorage { return m }
func (m *MemStore) sql() *sqlfake.DB                     { return nil }
func (m *MemStore) shut()                                {}
func (m *MemStore) row(key []byte) ([]byte, bool) {
	m.mu.Lock()
	defer m.mu.Unlock()
	v, ok := m.rows[string(key)]
	return append([]byte{}, v...), ok
}
func (m *MemStore) setRow(key, v []byte) { m.mu.Lock(); m.rows[string(key)] = v; m.mu.Unlock() }
func (m *MemStore) dropRow(key []byte)   { m.mu.Lock(); delete(m.rows, string(key)); m.mu.Unlock() }
func (m *MemStore) arm(fault string, _ int, _ func()) {
	m.mu.Lock()
	defer m.mu.Unlock()
	switch fault {
	case "addError":
		m.FailAdd = true
	case "findError":
		m.FailFind = true
	default:
		panic("the in-memory storage has no fault class " + fault)
	}
}
func (m *MemStore) disarm() { m.mu.Lock(); m.FailAdd, m.FailFind = false, false; m.mu.Unlock() }

// sqlStore is the real SQL storage implementation of the repository on the in-process database.
type sqlStore struct {
	db   *sqlfake.DB
	h    *sql.DB
	impl storage.IssuanceChainStorage
}

func newSQLStore(dialect string) *sqlStore {
	s := &sqlStore{db: sqlfake.New(sqlfake.Dialect(dialect))}
	s.Reopen()
	return s
}

func (s *sqlStore) Impl() storage.IssuanceChainStorage { return s.impl }
func (s *sqlStore) Reopen() storage.IssuanceChainStorage {
	if s.h != nil {
		s.h.Close()
	}
	s.h = s.db.Open()
	if s.db.Dialect == sqlfake.MySQL {
		s.impl = mysqlstore.NewIssuanceChainStorageFromDBForVerif(s.h)
	} else {
		s.impl = pgstore.NewIssuanceChainStorageFromDBForVerif(s.h)
	}
	return s.impl
}
func (s *sqlStore) sql() *sqlfake.DB              { return s.db }
func (s *sqlStore) shut()                         { s.h.Close() }
func (s *sqlStore) row(key []byte) ([]byte, bool) { return s.db.Row(key) }
func (s *sqlStore) setRow(key, v []byte)          { s.db.SetRow(key, v) }
func (s *sqlStore) dropRow(key []byte)            { s.db.DeleteRow(key) }
func (s *sqlStore) disarm()                       { s.db.Disarm() }
func (s *sqlStore) arm(fault string, variant int, cancel func()) {
	on := "exec"
	if strings.HasPrefix(fault, "find") {
		on = "query"
	}
	kind := map[string]string{"Error": "error", "Cancel": "cancel", "LateCancel": "lateCancel", "RowsError": "rowsError", "ConnDown": "down", "ConnLost": "badconn"}[strings.TrimPrefix(strings.TrimPrefix(fault, "add"), "find")]
	if kind == "" {
		panic("no SQL fault class " + fault)
	}
	s.db.Arm(sqlfake.Fault{Kind: kind, On: on, Variant: variant, Cancel: cancel})
}

// layerRec sits between the issuance chain service and the storage implementation and records what the storage
// layer was asked and what it answered: the specification says, per step, whether the layer is called and whether
// it answers with data / ok or with an error (reply.add / find / layer / layers).
type layerRec struct {
	mu    sync.Mutex
	inner storage.IssuanceChainStorage
	calls []layerCall
}

type layerCall struct {
	op   string // "add" | "find"
	key  []byte
	data []byte // add: the chain handed in; find: the bytes handed back
	err  error
}

func (l *layerRec) cur() storage.IssuanceChainStorage {
	l.mu.Lock()
	defer l.mu.Unlock()
	return l.inner
}
func (l *layerRec) set(s storage.IssuanceChainStorage) { l.mu.Lock(); l.inner = s; l.mu.Unlock() }

// FindByKey implements storage.IssuanceChainStorage.
func (l *layerRec) FindByKey(ctx context.Context, key []byte) ([]byte, error) {
	data, err := l.cur().FindByKey(ctx, key)
	l.mu.Lock()
	l.calls = append(l.calls, layerCall{"find", append([]byte{}, key...), data, err})
	l.mu.Unlock()
	return data, err
}

// Add implements storage.IssuanceChainStorage.
func (l *layerRec) Add(ctx context.Context, key []byte, chain []byte) error {
	err := l.cur().Add(ctx, key, chain)
	l.mu.Lock()
	l.calls = append(l.calls, layerCall{"add", append([]byte{}, key...), append([]byte{}, chain...), err})
	l.mu.Unlock()
	return err
}

func (l *layerRec) mark() int { l.mu.Lock(); defer l.mu.Unlock(); return len(l.calls) }
func (l *layerRec) since(n int, op string) []layerCall {
	l.mu.Lock()
	defer l.mu.Unlock()
	var out []layerCall
	for _, c := range l.calls[n:] {
		if c.op == op {
			out = append(out, c)
		}
	}
	return out
}

// GateCache wraps a real cache; Set (called from the detached goroutine) blocks until the harness fires it.
type GateCache struct {
	real    cache.IssuanceChainCache
	mu      sync.Mutex
	tickets []*ticket
	arrived chan struct{}
	vouch   func(key, chain []byte) bool
}

type ticket struct {
	sound   bool // at arrival the storage held exactly this chain under this key
	chain   []byte
	key     string
	release chan struct{}
	done    chan struct{}
}

func newGateCache(real cache.IssuanceChainCache) *GateCache {
	return &GateCache{real: real, arrived: make(chan struct{}, 1024)}
}

// Get passes through.
func (g *GateCache) Get(ctx context.Context, key []byte) ([]byte, error) { return g.real.Get(ctx, key) }

// Set waits at the gate.
func (g *GateCache) Set(ctx context.Context, key []byte, chain []byte) error {
	sum := sha256.Sum256(chain)
	t := &ticket{key: string(key), chain: append([]byte{}, chain...), sound: bytes.Equal(sum[:], key) && (g.vouch == nil || g.vouch(key, chain)), release: make(chan struct{}), done: make(chan struct{})}
	g.mu.Lock()
	g.tickets = append(g.tickets, t)
	g.mu.Unlock()
	g.arrived <- struct{}{}
	<-t.release
	err := g.real.Set(ctx, key, chain)
	close(t.done)
	return err
}

// Fire lets one pending Set for key run to completion.
func (g *GateCache) Fire(key []byte) error {
	deadline := time.Now().Add(5 * time.Second)
	for {
		g.mu.Lock()
		for i, t := range g.tickets {
			if t.key == string(key) {
				g.tickets = append(g.tickets[:i], g.tickets[i+1:]...)
				g.mu.Unlock()
				close(t.release)
				<-t.done
				return nil
			}
		}
		g.mu.Unlock()
		if time.Now().After(deadline) {
			return errors.New("no pending cache.Set for that chain arrived at the gate")
		}
		select {
		case <-g.arrived:
		case <-time.After(50 * time.Millisecond):
		}
	}
}

// Settle waits until at least want detached Sets have arrived at the gate (they are started with `go`, so they
// arrive some time after the request returned), gives stragglers a moment, and returns how many wait there.
func (g *GateCache) Settle(want int) int {
	deadline := time.Now().Add(5 * time.Second)
	for {
		g.mu.Lock()
		n := len(g.tickets)
		g.mu.Unlock()
		if n >= want || time.Now().After(deadline) {
			break
		}
		select {
		case <-g.arrived:
		case <-time.After(20 * time.Millisecond):
		}
	}
	for i := 0; i < 20; i++ {
		runtime.Gosched()
	}
	time.Sleep(200 * time.Microsecond)
	g.mu.Lock()
	defer g.mu.Unlock()
	return len(g.tickets)
}

// Unsound tells whether a write waiting at the gate carried, when it arrived, a chain the storage did not hold.
func (g *GateCache) Unsound() bool {
	g.mu.Lock()
	defer g.mu.Unlock()
	for _, t := range g.tickets {
		if !t.sound {
			return true
		}
	}
	return false
}

// ReleaseAll lets every pending Set run (end of a behaviour).
func (g *GateCache) ReleaseAll() {
	g.mu.Lock()
	ts := g.tickets
	g.tickets = nil
	g.mu.Unlock()
	for _, t := range ts {
		close(t.release)
		<-t.done
	}
}

// CSStep mirrors a step of ChainStore.tla.
type CSStep struct {
	Op   string `json:"op"`
	Args struct {
		Cert  string `json:"cert"`
		Fault string `json:"fault"`
		K     int    `json:"k"`
		Index int    `json:"index"`
		To    int    `json:"to"`
		Via   string `json:"via"`
		Chain string `json:"chain"`
		Class string `json:"class"`
	} `json:"args"`
	Reply struct {
		Status int      `json:"status"`
		Add    bool     `json:"add"`
		Find   bool     `json:"find"`
		Finds  int      `json:"finds"`
		Sets   int      `json:"sets"`
		Cert   string   `json:"cert"`
		Path   string   `json:"path"`   // Submit: "hit" | "inserted" | the dialect's de-duplication path | "error"
		Layer  string   `json:"layer"`  // what the storage layer answers: "none" (not called) | "ok" / "data" | "error"
		Layers []string `json:"layers"` // ReadRange: the same, lookup by lookup
	} `json:"reply"`
}

// CSBehaviour is one exported behaviour.
type CSBehaviour struct {
	Cap     int      `json:"cap"`
	Dialect string   `json:"dialect"` // storage layer below the external twin: "memory" (also when absent) | "mysql" | "postgresql"
	Steps   []CSStep `json:"steps"`
	Cold    []bool   `json:"cold"` // per integrated entry: can a front end with a cold cache serve it from the final state (ServableCold)
}

type twin struct {
	d, x, l *World // direct, external, legacy-leaf builder (direct mode, separate backend)
	dialect string
	store   storeCtl
	rec     *layerRec
	gate    *GateCache
	keys    map[string][]byte // chain id -> storage key (learned from the first Add of that chain)
	vals    map[string][]byte // chain id -> stored value (likewise)
	restart func() error      // replaces x by a new instance (same backend, same store) with a cold cache
}

// chain ids of MCChainOf
var chainOf = map[string]string{"x1": "cA", "x2": "cA", "x3": "c0", "p1": "cB", "p2": "cA"}

// holds tells whether the table has exactly chain under key.
func (tw *twin) holds(key, chain []byte) bool {
	v, ok := tw.store.row(key)
	return ok && bytes.Equal(v, chain)
}

// damage rewrites or removes a stored row.
func (tw *twin) damage(chain, class string, pick int) {
	key := tw.keys[chain]
	if class == "drop" {
		tw.store.dropRow(key)
		return
	}
	v, ok := tw.store.row(key)
	if !ok {
		return
	}
	// "swapped": the well-formed value of another key - the empty chain's (SEQUENCE of nothing), another stored
	// chain's, or for the empty chain itself a one-element chain
	other := []byte{0x30, 0x00}
	var known [][]byte
	for _, id := range []string{"c0", "cA", "cB"} {
		if o, ok := tw.vals[id]; ok && id != chain {
			known = append(known, o)
		}
	}
	switch {
	case chain == "c0" && len(known) == 0:
		other = []byte{0x30, 0x04, 0x30, 0x02, 0x04, 0x00}
	case chain == "c0" || (len(known) > 0 && pick%2 == 1):
		other = known[pick%len(known)]
	}
	tw.store.setRow(key, damaged(v, class, other))
}

func newTwin(dir string, capacity int, seedSalt int64, realTTL time.Duration, dialect string) (*twin, error) {
	ids := []string{"p1", "p2", "x1", "x2", "x3"}
	pre := map[string]bool{"p1": true, "p2": true}
	root := pki.NewRoot(pki.Opts{CN: "twin root"})
	iA := root.Issue(pki.Opts{CN: "issuer A", IsCA: true})
	iB0 := root.Issue(pki.Opts{CN: "issuer B0", IsCA: true, KeyType: "rsa2048"})
	iB := iB0.Issue(pki.Opts{CN: "issuer B", IsCA: true, KeyType: "rsa2048"}) // a long chain: two RSA intermediates and the root
	logKey := pki.NewKey("p256")
	clock := &ctfeenv.Clock{}
	clock.Set(ctfeenv.BaseTime())
	var real cache.IssuanceChainCache
	if capacity < 0 {
		real = &noop.IssuanceChainCache{}
	} else {
		real = lru.NewIssuanceChainCache(lru.CacheOption{Size: capacity, TTL: realTTL})
	}
	tw := &twin{dialect: dialect, gate: newGateCache(real), keys: map[string][]byte{}, vals: map[string][]byte{}}
	switch dialect {
	case "", "memory":
		tw.dialect, tw.store = "memory", newMemStore()
	case "mysql", "postgresql":
		tw.store = newSQLStore(dialect)
	default:
		return nil, fmt.Errorf("unknown storage dialect %q", dialect)
	}
	tw.rec = &layerRec{inner: tw.store.Impl()}
	tw.gate.vouch = tw.holds
	subs := map[string]*Sub{}
	for _, id := range ids {
		s := &Sub{ID: id, Pre: pre[id]}
		o := pki.Opts{CN: "leaf " + id, DNS: []string{id + ".twin.test"}}
		if s.Pre {
			o.Poison = "ok"
		}
		var leaf *pki.Node
		switch chainOf[id] {
		case "cA": // [issuer A, root]
			leaf = iA.Issue(o)
			s.Chain = pki.DERs(leaf.Chain(id != "x2")) // root omitted for one of them: same validated path
			s.Path = pki.DERs(leaf.Chain(true))
		case "cB":
			leaf = iB.Issue(o)
			s.Chain, s.Path = pki.DERs(leaf.Chain(true)), pki.DERs(leaf.Chain(true))
		case "c0": // the trusted root itself: a leaf-only path, empty issuance chain
			s.Chain, s.Path = [][]byte{root.DER}, [][]byte{root.DER}
		}
		s.Shape = chainOf[id]
		subs[id] = s
	}
	mk := func(o ctfeenv.Opts) (*World, error) {
		o.Dir, o.LogKey, o.Roots, o.Clock = dir, logKey, []*pki.Node{root}, clock
		o.Prefix = "twin"
		env, err := ctfeenv.New(o)
		if err != nil {
			return nil, err
		}
		return &World{Root: root, Subs: subs, Env: env, Base: clock.Now(), rng: vh.Rand(seedSalt)}, nil
	}
	var err error
	if tw.d, err = mk(ctfeenv.Opts{}); err != nil {
		return nil, err
	}
	if tw.l, err = mk(ctfeenv.Opts{}); err != nil {
		return nil, err
	}
	if tw.x, err = mk(ctfeenv.Opts{Storage: tw.rec, Cache: tw.gate}); err != nil {
		return nil, err
	}
	tw.restart = func() error {
		old := tw.gate
		var fresh cache.IssuanceChainCache
		if capacity < 0 {
			fresh = &noop.IssuanceChainCache{}
		} else {
			fresh = lru.NewIssuanceChainCache(lru.CacheOption{Size: capacity, TTL: realTTL})
		}
		tw.gate = newGateCache(fresh)
		tw.gate.vouch = tw.holds
		tw.rec.set(tw.store.Reopen()) // the new process opens its own database handle on the same table
		x, err := mk(ctfeenv.Opts{Storage: tw.rec, Cache: tw.gate, Backend: tw.x.Env.Backend})
		if err != nil {
			return err
		}
		tw.x = x
		old.ReleaseAll() // writes of the dead process go to the dead cache
		return nil
	}
	return tw, nil
}

// doCtx is Env.Do with a request context the harness can cancel (the SQL fault classes "cancel in flight").
func doCtx(ctx context.Context, e *ctfeenv.Env, method, path string, qv url.Values, body []byte) (code int, rbody []byte, err error) {
	h, ok := e.Inst.Handlers[e.Prefix+path]
	if !ok {
		return 404, nil, nil
	}
	target := e.Prefix + path
	if qv != nil {
		target += "?" + qv.Encode()
	}
	req := httptest.NewRequest(method, target, bytes.NewReader(body)).WithContext(ctx)
	rec := httptest.NewRecorder()
	defer func() {
		if r := recover(); r != nil {
			err = fmt.Errorf("panic in %s %s: %v", method, path, r)
			code = 0
		}
	}()
	h.ServeHTTP(rec, req)
	return rec.Code, rec.Body.Bytes(), nil
}

func addChainCtx(ctx context.Context, e *ctfeenv.Env, chain [][]byte, pre bool) (int, []byte, error) {
	body, _ := json.Marshal(ct.AddChainRequest{Chain: chain})
	path := ct.AddChainPath
	if pre {
		path = ct.AddPreChainPath
	}
	code, rb, err := doCtx(ctx, e, "POST", path, nil, body)
	if err != nil || code != 200 {
		return code, rb, err
	}
	var rsp ct.AddChainResponse
	if err := json.Unmarshal(rb, &rsp); err != nil {
		return code, rb, fmt.Errorf("add-chain reply is not JSON: %v", err)
	}
	return code, rb, nil
}

func readEntry(w *World, via string, index, size int) (int, []byte, []byte, error) {
	return readEntryCtx(context.Background(), w, via, index, size)
}

func readEntryCtx(ctx context.Context, w *World, via string, index, size int) (int, []byte, []byte, error) {
	if via == "proof" {
		code, body, err := doCtx(ctx, w.Env, "GET", ct.GetEntryAndProofPath, q("leaf_index", index, "tree_size", size), nil)
		if err != nil || code != 200 {
			return code, nil, nil, err
		}
		var r ct.GetEntryAndProofResponse
		if err := json.Unmarshal(body, &r); err != nil {
			return code, nil, nil, err
		}
		return code, r.LeafInput, r.ExtraData, nil
	}
	code, body, err := doCtx(ctx, w.Env, "GET", ct.GetEntriesPath, q("start", index, "end", index), nil)
	if err != nil || code != 200 {
		return code, nil, nil, err
	}
	var r ct.GetEntriesResponse
	if err := json.Unmarshal(body, &r); err != nil || len(r.Entries) != 1 {
		return code, nil, nil, fmt.Errorf("get-entries reply: %v (%d entries)", err, len(r.Entries))
	}
	return code, r.Entries[0].LeafInput, r.Entries[0].ExtraData, nil
}

func readRange(ctx context.Context, w *World, from, to int) (int, []ct.LeafEntry, error) {
	code, body, err := doCtx(ctx, w.Env, "GET", ct.GetEntriesPath, q("start", from, "end", to), nil)
	if err != nil || code != 200 {
		return code, nil, err
	}
	var r ct.GetEntriesResponse
	if err := json.Unmarshal(body, &r); err != nil {
		return code, nil, err
	}
	return code, r.Entries, nil
}

func lastRangeCause(s CSStep) string {
	if s.Args.Fault != "none" && s.Args.Fault != "" {
		return s.Args.Fault
	}
	if s.Reply.Status != 200 {
		return "damaged-or-missing-row"
	}
	return "none"
}

func runChainStore(t *testing.T, beh CSBehaviour, idx int, rep *vh.Report, dir string) {
	tw, err := newTwin(dir, beh.Cap, int64(idx), 0, beh.Dialect)
	if err != nil {
		t.Fatalf("twin: %v", err)
	}
	defer func() { tw.gate.ReleaseAll(); reportSQL(rep, tw); tw.store.shut() }()
	rep.Add("behaviours_on_"+tw.dialect+"_storage", 1)
	kinds := map[string]bool{}
	diverged := false
	viol := func(n int, fp, what string) {
		diverged = true // once implementation and specification disagree the rest of the behaviour has no meaning
		if tw.dialect != "memory" {
			what = "[storage: the repository's " + tw.dialect + " IssuanceChainStorage on the in-process database] " + what
		}
		rep.Violate("chainstore:"+fp, what, map[string]any{"behaviour": CSBehaviour{Cap: beh.Cap, Dialect: beh.Dialect, Steps: beh.Steps[:n+1]}, "step": n})
	}
	// the storage layer against the specification's reply.layer: was it called, did it answer with an error or not,
	// and (FindByKey) are the bytes it handed back the bytes of the row.  cause names the situation for the fingerprint.
	layerCheck := func(n int, op string, calls []layerCall, want []string, cause string) {
		nw := 0
		for _, w := range want {
			if w != "none" && w != "" {
				nw++
			}
		}
		if len(calls) != nw {
			return // the call counts are judged by the add-calls / find-calls checks
		}
		k := 0
		for _, w := range want {
			if w == "none" || w == "" {
				continue
			}
			c := calls[k]
			k++
			fp := fmt.Sprintf("storage:%s:%s:%s", tw.dialect, op, cause)
			switch {
			case w == "error" && c.err == nil:
				what := "Add returned no error"
				if op == "find" {
					what = fmt.Sprintf("FindByKey returned no error and %d bytes", len(c.data))
				}
				viol(n, fp+":returned-no-error", fmt.Sprintf("storage layer (%s), %s: the specification's storage layer answers with an error here, %s", tw.dialect, cause, what))
			case w != "error" && c.err != nil:
				viol(n, fp+":returned-error", fmt.Sprintf("storage layer (%s), %s: the specification's storage layer succeeds here, the implementation returned the error %q", tw.dialect, cause, c.err.Error()))
			case w == "error" && op == "find" && len(c.data) > 0:
				viol(n, fp+":error-with-data", fmt.Sprintf("storage layer (%s), %s: FindByKey returned an error together with %d bytes", tw.dialect, cause, len(c.data)))
			case w == "data":
				if row, ok := tw.store.row(c.key); !ok || !bytes.Equal(row, c.data) {
					viol(n, fp+":data-differs", fmt.Sprintf("storage layer (%s), %s: FindByKey handed back %d bytes that are not the ChainValue of the row with that IdentityHash (%d bytes, row present: %v)", tw.dialect, cause, len(c.data), len(row), ok))
				}
			}
		}
	}
	rowCause := func(chain string) string {
		v, ok := tw.store.row(tw.keys[chain])
		switch {
		case !ok:
			return "missing-row"
		case !bytes.Equal(v, tw.vals[chain]):
			return "damaged-row"
		}
		return "intact-row"
	}
	outstanding := 0 // detached cache writes the specification has started and not yet fired (counted for the noop cache too)
	unmodelled := false
	settle := func(n int, what string) {
		if got := tw.gate.Settle(outstanding); got > outstanding {
			// a cache write the specification does not know.  It is a violation when it is unsound: the cache is told
			// about a chain that the store does not hold under that key (the cache stands for "stored", see add()).
			// A sound extra write only means the implementation caches more eagerly than the model: the hit / miss
			// predictions of this behaviour no longer apply, nothing more.
			{
				if tw.gate.Unsound() {
					viol(n, "cache-write:unsound:"+what, fmt.Sprintf("a detached cache write carries a chain the storage does not hold under that hash (%d writes on their way, the specification knows of %d): a later submission of that chain is acknowledged from the cache alone and its entry cannot be served by a front end with a cold cache", got, outstanding))
					return
				}
			}
			unmodelled = true
			rep.Add("behaviours_cut_at_unmodelled_cache_write", 1)
			if os.Getenv("VERIF_DEBUG") != "" {
				b, _ := json.Marshal(beh.Steps[:n+1])
				fmt.Printf("UNMODELLED %s got=%d want=%d cap=%d %s\n", what, got, outstanding, beh.Cap, b)
			}
		}
	}
	for n, s := range beh.Steps {
		if diverged || unmodelled {
			break
		}
		kinds[fmt.Sprintf("%s/%d/%s", s.Op, s.Reply.Status, s.Args.Fault)] = true
		switch s.Op {
		case "Submit":
			sub := tw.d.Subs[s.Args.Cert]
			chain := chainOf[s.Args.Cert]
			m0 := tw.rec.mark()
			rowBefore, presentBefore := tw.store.row(tw.keys[chain])
			var st0 sqlfake.Stats
			if db := tw.store.sql(); db != nil {
				st0 = db.Stats()
			}
			ctx, cancel := context.WithCancel(context.Background())
			if s.Args.Fault != "none" {
				tw.store.arm(s.Args.Fault, idx*31+n, cancel)
			}
			q0 := tw.x.Env.Backend.CallCount("QueueLeaf")
			codeX, bodyX, errX := addChainCtx(ctx, tw.x.Env, sub.Chain, sub.Pre)
			cancel()
			tw.store.disarm()
			adds := tw.rec.since(m0, "add")
			if errX != nil && codeX == 0 {
				viol(n, "submit:panic", errX.Error())
				continue
			}
			if errX != nil {
				viol(n, "submit:reply-not-json", errX.Error())
				continue
			}
			if len(adds) > 0 {
				tw.keys[chain] = adds[len(adds)-1].key
				if _, ok := tw.vals[chain]; !ok {
					tw.vals[chain] = adds[len(adds)-1].data
				}
			}
			cause := s.Reply.Path
			if s.Args.Fault != "none" {
				cause = s.Args.Fault
			}
			layerCheck(n, "add", adds, []string{s.Reply.Layer}, cause)
			if s.Reply.Layer == "ok" && s.Reply.Path == "inserted" && len(adds) == 1 && adds[0].err == nil && !tw.holds(adds[0].key, adds[0].data) {
				row, ok := tw.store.row(adds[0].key)
				viol(n, fmt.Sprintf("storage:%s:add:inserted:row-differs", tw.dialect), fmt.Sprintf("storage layer (%s): Add of a new key returned no error, but the table does not hold the chain (%d bytes) under that IdentityHash (row present: %v, %d bytes)", tw.dialect, len(adds[0].data), ok, len(row)))
			}
			if s.Reply.Status == 200 && codeX != 200 {
				viol(n, fmt.Sprintf("submit:status:got%d", codeX), fmt.Sprintf("submission of %s with external chain storage answered %d: %s", s.Args.Cert, codeX, bodyX))
				continue
			}
			if s.Reply.Status != 200 {
				if codeX < 500 || tw.x.Env.Backend.CallCount("QueueLeaf") != q0 {
					viol(n, "submit:storage-fault-not-5xx", fmt.Sprintf("storage Add failed (%s) but the submission answered %d (backend called: %v)", s.Args.Fault, codeX, tw.x.Env.Backend.CallCount("QueueLeaf") != q0))
				} else if len(adds) != 1 {
					viol(n, "submit:add-calls:want=true", fmt.Sprintf("submission of %s: storage.Add called %d times, specification says once (with fault %s)", s.Args.Cert, len(adds), s.Args.Fault))
				}
				// the specification leaves the twin-visible state unchanged: the direct twin does not get this submission either
				settle(n, "after-failed-add")
				continue
			}
			if codeD, _, bodyD, errD := tw.d.Env.AddChain(sub.Chain, sub.Pre); errD != nil || codeD != 200 {
				t.Fatalf("direct instance rejected %s: %d %v %s", s.Args.Cert, codeD, errD, bodyD)
			}
			if (len(adds) == 1) != s.Reply.Add {
				viol(n, fmt.Sprintf("submit:add-calls:want=%v", s.Reply.Add), fmt.Sprintf("submission of %s: storage.Add called %d times, specification says cache %s", s.Args.Cert, len(adds), map[bool]string{true: "miss (Add)", false: "hit (no Add)"}[s.Reply.Add]))
			}
			if db := tw.store.sql(); db != nil && !diverged && s.Reply.Add {
				// which path the database took: the de-duplication path is exactly the dialect's, and it leaves the row as it was
				st1 := db.Stats()
				got := fmt.Sprintf("inserted=%d,dupError=%d,conflictSkipped=%d,rewritten=%d,rejected=%d", st1.Inserted-st0.Inserted, st1.DupErrors-st0.DupErrors,
					st1.ConflictsSkipped-st0.ConflictsSkipped, st1.Updated-st0.Updated, st1.SyntaxErrors+st1.Unsupported-st0.SyntaxErrors-st0.Unsupported)
				want := map[string]string{"inserted": "inserted=1,dupError=0,conflictSkipped=0,rewritten=0,rejected=0", "dupKeyError": "inserted=0,dupError=1,conflictSkipped=0,rewritten=0,rejected=0",
					"conflictSkipped": "inserted=0,dupError=0,conflictSkipped=1,rewritten=0,rejected=0"}[s.Reply.Path]
				if got != want {
					viol(n, fmt.Sprintf("submit:dedup-path:%s:want=%s:got:%s", tw.dialect, s.Reply.Path, got), fmt.Sprintf("submission of %s (chain %s, row present before: %v): the specification's %s storage takes the path %q, the database saw %s", s.Args.Cert, chain, presentBefore, tw.dialect, s.Reply.Path, got))
				}
				if rowAfter, _ := tw.store.row(tw.keys[chain]); presentBefore && !bytes.Equal(rowAfter, rowBefore) {
					viol(n, "submit:dedup-row-changed:"+tw.dialect, fmt.Sprintf("submission of %s: the Add of a key the table already holds changed the stored row (%d -> %d bytes)", s.Args.Cert, len(rowBefore), len(rowAfter)))
				}
				if s.Args.Fault == "addConnLost" && st1.BadConnExec-st0.BadConnExec != 1 {
					t.Fatalf("the connection loss did not strike once: %+v", st1)
				}
				kinds["path/"+s.Reply.Path] = true
			}
			if s.Reply.Add {
				outstanding++
			}
			settle(n, "after-submit")
		case "Restart":
			if err := tw.restart(); err != nil {
				t.Fatalf("restart: %v", err)
			}
			outstanding = 0
		case "Sequence":
			nanos := tw.d.Nanos(1, 0)
			tw.d.Env.Backend.Sequence(s.Args.K, nanos, nil)
			tw.x.Env.Backend.Sequence(s.Args.K, nanos, nil)
		case "Legacy":
			sub := tw.l.Subs[s.Args.Cert]
			n0 := tw.l.Env.Backend.NumCalls()
			if c, _, b, e := tw.l.Env.AddChain(sub.Chain, sub.Pre); e != nil || c != 200 {
				t.Fatalf("legacy builder rejected %s: %d %v %s", s.Args.Cert, c, e, b)
			}
			req := tw.l.Env.Backend.CallsSince(n0)[0].Req.(*trillian.QueueLeafRequest)
			nanos := tw.d.Nanos(1, 0)
			tw.d.Env.Backend.InjectLeaf(req.Leaf.LeafValue, req.Leaf.ExtraData, nanos, req.Leaf.LeafIdentityHash)
			tw.x.Env.Backend.InjectLeaf(req.Leaf.LeafValue, req.Leaf.ExtraData, nanos, req.Leaf.LeafIdentityHash)
		case "Read":
			size := tw.d.Env.Backend.Size()
			if tw.x.Env.Backend.Size() != size {
				t.Fatalf("twin trees diverged: %d vs %d", size, tw.x.Env.Backend.Size())
			}
			codeD, leafD, extraD, errD := readEntry(tw.d, s.Args.Via, s.Args.Index, size)
			if errD != nil || codeD != 200 {
				// the default (in-backend) mode is the repository's code too: an in-tree read that is not answered 200
				// with a well-formed body is a violation of what C06 / C07 / C14 all presuppose, not a harness failure
				viol(n, "direct-read:"+s.Args.Via, fmt.Sprintf("the default-mode instance did not serve stored entry %d (tree size %d): status %d %v", s.Args.Index, size, codeD, errD))
				continue
			}
			ctx, cancel := context.WithCancel(context.Background())
			if s.Args.Fault != "none" {
				tw.store.arm(s.Args.Fault, idx*31+n, cancel)
			}
			m0 := tw.rec.mark()
			cause := s.Args.Fault
			if cause == "none" || strings.HasSuffix(cause, "ConnLost") {
				cause = rowCause(chainOf[s.Reply.Cert])
			}
			codeX, leafX, extraX, errX := readEntryCtx(ctx, tw.x, s.Args.Via, s.Args.Index, size)
			cancel()
			tw.store.disarm()
			finds := tw.rec.since(m0, "find")
			f0, f1 := 0, len(finds)
			if errX != nil && codeX == 0 {
				viol(n, "read:panic:"+s.Args.Via, errX.Error())
				continue
			}
			fpc := fmt.Sprintf("%s:%s", s.Args.Via, chainOf[s.Reply.Cert])
			layerCheck(n, "find", finds, []string{s.Reply.Layer}, cause)
			if s.Reply.Status == 200 {
				if codeX != 200 {
					viol(n, fmt.Sprintf("read:status:%s:got%d", fpc, codeX), fmt.Sprintf("reading index %d (%s) with external chain storage answered %d, the direct mode serves it", s.Args.Index, s.Args.Via, codeX))
					continue
				}
				if !bytes.Equal(leafX, leafD) || !bytes.Equal(extraX, extraD) {
					viol(n, "read:differs:"+fpc, fmt.Sprintf("index %d (%s): extra_data served with external chain storage (%d bytes) differs from the direct mode (%d bytes)", s.Args.Index, s.Args.Via, len(extraX), len(extraD)))
				}
			} else if codeX == 200 {
				what := "altered"
				if bytes.Equal(extraX, extraD) {
					what = "unaltered"
				}
				viol(n, "read:fault-served-200:"+fpc+":"+lastDamage(beh.Steps[:n+1], s.Args.Fault), fmt.Sprintf("index %d (%s): the stored chain is missing / damaged / unreadable (%s) but the entry was served with status 200 and %s chain data", s.Args.Index, s.Args.Via, lastDamage(beh.Steps[:n+1], s.Args.Fault), what))
			} else if codeX < 500 {
				viol(n, fmt.Sprintf("read:fault-status:%s:got%d", fpc, codeX), fmt.Sprintf("storage fault answered %d, expected 5xx", codeX))
			}
			if s.Reply.Status == 200 && s.Reply.Find {
				outstanding++
			}
			if !diverged {
				settle(n, "after-read")
			}
			if (f1-f0 == 1) != s.Reply.Find {
				viol(n, fmt.Sprintf("read:find-calls:%s:want=%v", fpc, s.Reply.Find), fmt.Sprintf("index %d (%s): storage.FindByKey called %d times, specification says %v (cache capacity %d)", s.Args.Index, s.Args.Via, f1-f0, s.Reply.Find, beh.Cap))
			}
		case "ReadRange":
			size := tw.d.Env.Backend.Size()
			codeD, entsD, errD := readRange(context.Background(), tw.d, s.Args.Index, s.Args.To)
			if errD != nil || codeD != 200 || len(entsD) != s.Args.To-s.Args.Index+1 {
				// the default mode is the repository's code too: an in-tree range (well below the batch limit) that is
				// not served completely with 200 is a violation of C07's range law, not a harness failure
				viol(n, "direct-readrange", fmt.Sprintf("the default-mode instance did not serve the in-tree range [%d, %d] of a tree of %d completely: status %d, %d entries, %v", s.Args.Index, s.Args.To, size, codeD, len(entsD), errD))
				continue
			}
			ctx, cancel := context.WithCancel(context.Background())
			if s.Args.Fault != "none" {
				tw.store.arm(s.Args.Fault, idx*31+n, cancel)
			}
			m0 := tw.rec.mark()
			codeX, entsX, errX := readRange(ctx, tw.x, s.Args.Index, s.Args.To)
			cancel()
			tw.store.disarm()
			finds := tw.rec.since(m0, "find")
			f0, f1 := 0, len(finds)
			fpr := fmt.Sprintf("range:%s", lastRangeCause(s))
			if errX != nil && codeX == 0 {
				viol(n, "readrange:panic", errX.Error())
				continue
			}
			layerCheck(n, "find", finds, s.Reply.Layers, "range:"+lastRangeCause(s))
			// whatever the status: chain data that is served is the direct mode's, entry by entry
			if codeX == 200 {
				if len(entsX) == 0 || len(entsX) > len(entsD) {
					viol(n, "readrange:count:"+fpr, fmt.Sprintf("get-entries(%d,%d) with external chain storage served %d entries, the direct mode %d", s.Args.Index, s.Args.To, len(entsX), len(entsD)))
					continue
				}
				bad := false
				for i := range entsX {
					if !bytes.Equal(entsX[i].LeafInput, entsD[i].LeafInput) || !bytes.Equal(entsX[i].ExtraData, entsD[i].ExtraData) {
						viol(n, "readrange:differs:"+fpr, fmt.Sprintf("get-entries(%d,%d): entry %d served with external chain storage carries %d bytes of extra_data, the direct mode %d (specification: status %d)", s.Args.Index, s.Args.To, s.Args.Index+i, len(entsX[i].ExtraData), len(entsD[i].ExtraData), s.Reply.Status))
						bad = true
						break
					}
				}
				if bad {
					continue
				}
			}
			if s.Reply.Status == 200 && (codeX != 200 || len(entsX) != len(entsD)) {
				viol(n, fmt.Sprintf("readrange:status:got%d", codeX), fmt.Sprintf("get-entries(%d,%d) with external chain storage answered %d with %d entries, the direct mode serves %d", s.Args.Index, s.Args.To, codeX, len(entsX), len(entsD)))
				continue
			}
			if s.Reply.Status != 200 && codeX != 200 && codeX < 500 {
				viol(n, fmt.Sprintf("readrange:fault-status:got%d", codeX), fmt.Sprintf("storage fault answered %d, expected 5xx", codeX))
				continue
			}
			if s.Reply.Status != 200 && codeX == 200 {
				// a correct proper prefix would be a legitimate short read; the model answers with an error, so the rest of
				// the behaviour (cache state) no longer applies
				unmodelled = true
				continue
			}
			if f1-f0 != s.Reply.Finds {
				viol(n, fmt.Sprintf("readrange:find-calls:want=%d", s.Reply.Finds), fmt.Sprintf("get-entries(%d,%d): storage.FindByKey called %d times, specification says %d (cache capacity %d)", s.Args.Index, s.Args.To, f1-f0, s.Reply.Finds, beh.Cap))
				continue
			}
			// every storage lookup that succeeded is followed by a detached cache write (also with the noop cache)
			outstanding += s.Reply.Finds
			if s.Reply.Status != 200 {
				outstanding--
			}
			settle(n, "after-readrange")
		case "CacheSetFires":
			key, ok := tw.keys[s.Args.Chain]
			if !ok {
				viol(n, "cachesetfires:never-stored", "the specification expects a detached cache.Set for chain "+s.Args.Chain+" but that chain was never handed to the storage")
				continue
			}
			if err := tw.gate.Fire(key); err != nil {
				viol(n, "cachesetfires:missing", "the specification expects a detached cache.Set for chain "+s.Args.Chain+" but none arrived: "+err.Error())
			}
			outstanding--
		case "DropRow":
			tw.damage(s.Args.Chain, "drop", 0)
		case "Corrupt":
			tw.damage(s.Args.Chain, s.Args.Class, idx+n)
		}
	}
	if !diverged && !unmodelled && len(beh.Cold) == tw.x.Env.Backend.Size() {
		// the specification's own continuation: every detached write lands, the front end is replaced by one with a
		// cold cache (restart / another replica), every integrated entry is read; ServableCold says which must be served
		tw.gate.ReleaseAll()
		if err := tw.restart(); err != nil {
			t.Fatalf("restart: %v", err)
		}
		size := tw.d.Env.Backend.Size()
		n := len(beh.Steps) - 1
		for i, servable := range beh.Cold {
			for _, via := range []string{"entries", "proof"} {
				codeD, leafD, extraD, errD := readEntry(tw.d, via, i, size)
				if errD != nil || codeD != 200 {
					viol(n, "direct-read:"+via, fmt.Sprintf("the default-mode instance did not serve stored entry %d (tree size %d): status %d %v", i, size, codeD, errD))
					continue
				}
				codeX, leafX, extraX, errX := readEntry(tw.x, via, i, size)
				switch {
				case errX != nil && codeX == 0:
					viol(n, "cold:panic:"+via, errX.Error())
				case servable && codeX != 200:
					viol(n, "cold:unserved:"+via, fmt.Sprintf("after a restart (cold cache) index %d is answered %d over %s although its chain was stored and no storage damage touched it: the entry was acknowledged, sequenced and is no longer served", i, codeX, via))
				case codeX == 200 && (!bytes.Equal(leafX, leafD) || !bytes.Equal(extraX, extraD)):
					viol(n, "cold:differs:"+via, fmt.Sprintf("after a restart index %d is served with other bytes than the direct mode (%s)", i, via))
				case !servable && codeX != 200 && codeX < 500:
					viol(n, "cold:fault-status:"+via, fmt.Sprintf("damaged / missing stored chain answered %d, expected 5xx", codeX))
				}
			}
		}
		kinds["ColdAudit/0/"] = true
	}
	key := ""
	if len(kinds) >= 3 {
		ks := []string{}
		for k := range kinds {
			ks = append(ks, k)
		}
		key = fmt.Sprintf("%s:cap%d:%s", tw.dialect, beh.Cap, strings.Join(sortedStrings(ks), ","))
	}
	rep.Eval(key)
}

// reportSQL adds what the in-process database of one behaviour saw to the report.
func reportSQL(rep *vh.Report, tw *twin) {
	db := tw.store.sql()
	if db == nil {
		return
	}
	st := db.Stats()
	pre := "sql_" + tw.dialect + "_"
	for k, v := range map[string]int{"statements": st.Execs + st.Queries, "rows_inserted": st.Inserted, "duplicate_key_errors": st.DupErrors, "conflicts_skipped": st.ConflictsSkipped,
		"selects_without_row": st.NoRows, "rows_returned": st.RowsReturned, "connections": st.Connects, "connections_lost": st.BadConnExec + st.BadConnQuery, "faults_struck": st.FaultsStruck,
		"statements_rejected": st.SyntaxErrors + st.Unsupported} {
		rep.Add(pre+k, v)
	}
	for text := range db.Statements() {
		rep.Add("sql_text: "+text, 1)
	}
}

func lastDamage(steps []CSStep, fault string) string {
	if fault != "none" && fault != "" && !strings.HasSuffix(fault, "ConnLost") {
		return fault
	}
	// the damage that still applies to the chain being read: the last DropRow / Corrupt of that chain
	// that no later successful Add of the same chain repaired
	last := steps[len(steps)-1]
	chain := chainOf[last.Reply.Cert]
	for i := len(steps) - 2; i >= 0; i-- {
		st := steps[i]
		switch {
		case st.Op == "DropRow" && st.Args.Chain == chain:
			return "unknownHash"
		case st.Op == "Corrupt" && st.Args.Chain == chain:
			return st.Args.Class
		}
	}
	return "?"
}

func sortedStrings(a []string) []string {
	b := append([]string{}, a...)
	for i := range b {
		for j := i + 1; j < len(b); j++ {
			if b[j] < b[i] {
				b[i], b[j] = b[j], b[i]
			}
		}
	}
	return b
}

// TestChainStore replays ChainStore.tla behaviours on twin instances.
func TestChainStore(t *testing.T) {
	path := os.Getenv("VERIF_BEHAVIOURS")
	if path == "" {
		t.Skip("VERIF_BEHAVIOURS not set")
	}
	behs, err := vh.LoadNDJSON[CSBehaviour](path)
	if err != nil {
		t.Fatal(err)
	}
	rep := vh.NewReport("cctfe-chainstore", "behaviours of ChainStore.tla (submissions, sequencing, legacy full-chain entries, reads through both read endpoints, detached cache writes fired at chosen points, storage faults / dropped / damaged rows) replayed on two real instances (direct and external chain storage with the real LRU/noop cache behind a gate) fed the same submissions; the external instance stores through the layer the behaviour names (Dialect): the in-memory stand-in, or the repository's MySQL / PostgreSQL IssuanceChainStorage on an in-process database/sql driver with the dialect's semantics and fault classes (statement error, cancellation in flight / after the commit, lost connection, database down, result-set error); every served entry compared byte for byte, every answer of the storage layer and the path the database took (inserted / duplicate-key error / conflict skipped) compared with the specification; non-trivial = distinct (storage layer, cache capacity, set of (operation, status, fault) triples and de-duplication paths >= 3)")
	dir := t.TempDir()
	// one goroutine per behaviour behind a semaphore: a t.Fatalf inside a behaviour (an infrastructure failure) ends
	// that goroutine only and can never leave the feeder blocked
	var wg sync.WaitGroup
	sem := make(chan struct{}, runtime.NumCPU())
	for i := range behs {
		sem <- struct{}{}
		wg.Add(1)
		go func(i int) {
			defer wg.Done()
			defer func() { <-sem }()
			runChainStore(t, behs[i], i, rep, dir)
		}(i)
	}
	wg.Wait()
	rep.Replayed = len(behs)
	if len(behs) > 0 {
		rep.Sample(behs[0])
	}
	if err := rep.Write(); err != nil {
		t.Fatal(err)
	}
}

// TestChainStoreConcurrent: concurrent writers and readers against the external-storage instance with the
// real cache (tiny capacity and TTL, no gate), under the race detector; afterwards every entry must equal
// what the direct mode serves for the same leaf.
func TestChainStoreConcurrent(t *testing.T) {
	rep := vh.NewReport("cctfe-chainstore-concurrent", "concurrent submissions and reads on the external-storage instance (storage in turn: in-memory, the repository's MySQL and PostgreSQL IssuanceChainStorage on the in-process database; real LRU, capacity 1-2, TTL 1-3 ms, ungated detached cache writes, -race); every served entry compared with the direct mode by leaf; non-trivial = round with at least 3 distinct chains served")
	rounds := vh.EnvInt("VERIF_ROUNDS", 6)
	for r := 0; r < rounds; r++ {
		dialect := []string{"memory", "mysql", "postgresql"}[r%3]
		tw, err := newTwin(t.TempDir(), 1+r%2, int64(1000+r), time.Duration(1+(r/2)%3)*time.Millisecond, dialect)
		if err != nil {
			t.Fatal(err)
		}
		tw.gate.arrived = make(chan struct{}, 1<<16)
		stop := make(chan struct{})
		go func() { // ungated: fire everything as it arrives
			for {
				select {
				case <-stop:
					return
				case <-tw.gate.arrived:
					tw.gate.ReleaseAll()
				}
			}
		}()
		ids := []string{"p1", "p2", "x1", "x2", "x3"}
		for _, id := range ids {
			s := tw.d.Subs[id]
			if c, _, b, e := tw.d.Env.AddChain(s.Chain, s.Pre); e != nil || c != 200 {
				t.Fatalf("direct: %d %v %s", c, e, b)
			}
		}
		tw.d.Env.Backend.Sequence(5, tw.d.Nanos(1, 0), nil)
		want := map[string][]byte{}
		for i := 0; i < 5; i++ {
			_, leaf, extra, err := readEntry(tw.d, "entries", i, 5)
			if err != nil {
				t.Fatal(err)
			}
			want[string(leaf)] = extra
		}
		var wg sync.WaitGroup
		for g := 0; g < 4; g++ {
			wg.Add(1)
			go func(g int) {
				defer wg.Done()
				rng := vh.Rand(int64(r*10 + g))
				for k := 0; k < 40; k++ {
					id := ids[rng.Intn(len(ids))]
					s := tw.x.Subs[id]
					if rng.Intn(2) == 0 {
						if c, _, b, e := tw.x.Env.AddChain(s.Chain, s.Pre); e != nil || c != 200 {
							rep.Violate("chainstore:concurrent:submit", fmt.Sprintf("concurrent submission answered %d %v %s", c, e, b), nil)
						}
						if rng.Intn(3) == 0 {
							tw.x.Env.Backend.Sequence(1, tw.x.Nanos(1, 0), nil)
						}
					} else if n := tw.x.Env.Backend.Size(); n > 0 {
						i := rng.Intn(n)
						via := []string{"entries", "proof"}[rng.Intn(2)]
						c, leaf, extra, e := readEntry(tw.x, via, i, n)
						if e != nil || c != 200 {
							rep.Violate("chainstore:concurrent:read-status", fmt.Sprintf("concurrent read answered %d %v", c, e), nil)
						} else if w, ok := want[string(leaf)]; !ok || !bytes.Equal(w, extra) {
							rep.Violate("chainstore:concurrent:differs", fmt.Sprintf("concurrent read of index %d (%s) served extra_data that differs from the direct mode", i, via), nil)
						}
						time.Sleep(time.Duration(rng.Intn(3)) * time.Millisecond)
					}
				}
			}(g)
		}
		wg.Wait()
		close(stop)
		tw.gate.ReleaseAll()
		reportSQL(rep, tw)
		tw.store.shut()
		rep.Eval(fmt.Sprintf("round-%d", r))
	}
	rep.Replayed = rounds
	if err := rep.Write(); err != nil {
		t.Fatal(err)
	}
}

// TestChainStoreBackendFaults: with external chain storage the read endpoints post-process the
// backend's reply (FixLogLeaf) before the handler's own sanity checks; absent parts of a reply must
// still give an error status, never a crash (C08 matrix rows for the external-storage mode, C14).
func TestChainStoreBackendFaults(t *testing.T) {
	rep := vh.NewReport("cctfe-chainstore-backendfaults", "external-storage instance: get-entry-and-proof / get-entries with backend replies lacking the leaf, the proof or the root; non-trivial = each fault class executed")
	tw, err := newTwin(t.TempDir(), 2, 77, 0, "memory")
	if err != nil {
		t.Fatal(err)
	}
	defer tw.gate.ReleaseAll()
	for _, id := range []string{"x1", "p1", "x3"} {
		s := tw.x.Subs[id]
		if c, _, b, e := tw.x.Env.AddChain(s.Chain, s.Pre); e != nil || c != 200 {
			t.Fatalf("submit: %d %v %s", c, e, b)
		}
	}
	tw.x.Env.Backend.Sequence(3, tw.x.Nanos(1, 0), nil)
	faults := map[string]func(m proto.Message){
		"nilLeaf":   func(m proto.Message) { m.(*trillian.GetEntryAndProofResponse).Leaf = nil },
		"nilProof":  func(m proto.Message) { m.(*trillian.GetEntryAndProofResponse).Proof = nil },
		"rootOnly":  func(m proto.Message) { r := m.(*trillian.GetEntryAndProofResponse); r.Leaf, r.Proof = nil, nil },
		"emptyLeaf": func(m proto.Message) { m.(*trillian.GetEntryAndProofResponse).Leaf = &trillian.LogLeaf{} },
	}
	for name, f := range faults {
		tw.x.Env.Backend.Intercept = func(seq int, method string, req, rsp proto.Message, err error) (proto.Message, error) {
			if method == "GetEntryAndProof" && rsp != nil {
				f(rsp)
			}
			return rsp, err
		}
		code, body, _, err := tw.x.Env.Do("GET", ct.GetEntryAndProofPath, q("leaf_index", 1, "tree_size", 3), nil)
		if err != nil {
			rep.Violate("chainstore:backendfault:"+name+":panic", "get-entry-and-proof with external chain storage: "+err.Error(), nil)
		} else if code == 200 {
			rep.Violate("chainstore:backendfault:"+name+":200", fmt.Sprintf("get-entry-and-proof answered 200 to a backend reply with %s: %s", name, body), nil)
		}
		rep.Eval("entry-and-proof/" + name)
	}
	for name, f := range map[string]func(r *trillian.GetLeavesByRangeResponse){
		"emptyLeafStruct": func(r *trillian.GetLeavesByRangeResponse) {
			r.Leaves[0] = &trillian.LogLeaf{LeafIndex: r.Leaves[0].LeafIndex}
		},
		"noExtraData": func(r *trillian.GetLeavesByRangeResponse) { r.Leaves[0].ExtraData = nil },
	} {
		tw.x.Env.Backend.Intercept = func(seq int, method string, req, rsp proto.Message, err error) (proto.Message, error) {
			if method == "GetLeavesByRange" && rsp != nil {
				f(rsp.(*trillian.GetLeavesByRangeResponse))
			}
			return rsp, err
		}
		code, body, _, err := tw.x.Env.Do("GET", ct.GetEntriesPath, q("start", 0, "end", 1), nil)
		if err != nil {
			rep.Violate("chainstore:backendfault:"+name+":panic", "get-entries with external chain storage: "+err.Error(), nil)
		} else if code == 200 {
			rep.Violate("chainstore:backendfault:"+name+":200", fmt.Sprintf("get-entries answered 200 to a backend leaf with %s: %.80s", name, body), nil)
		}
		rep.Eval("entries/" + name)
	}
	tw.x.Env.Backend.Intercept = nil
	rep.Replayed = 6
	if err := rep.Write(); err != nil {
		t.Fatal(err)
	}
}
