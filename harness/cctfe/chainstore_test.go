package cctfe

import (
	"bytes"
	"context"
	"crypto/sha256"
	"database/sql"
	"encoding/json"
	"errors"
	"fmt"
	"net/http/httptest"
	"net/url"
	"os"
	"runtime"
	"strconv"
	"strings"
	"sync"
	"sync/atomic"
	"testing"
	"time"

	ct "github.com/google/certificate-transparency-go"
	"github.com/google/certificate-transparency-go/trillian/ctfe"
	"github.com/google/certificate-transparency-go/trillian/ctfe/cache"
	"github.com/google/certificate-transparency-go/trillian/ctfe/storage"
	mysqlstore "github.com/google/certificate-transparency-go/trillian/ctfe/storage/mysql"
	pgstore "github.com/google/certificate-transparency-go/trillian/ctfe/storage/postgresql"
	"github.com/google/trillian"
	"google.golang.org/protobuf/proto"

	"verifharness/ctfeenv"
	"verifharness/pki"
	"verifharness/sqlfake"
	"verifharness/vh"
)

// MemStore is an in-memory IssuanceChainStorage with fault injection and call counting.
type MemStore struct {
	mu       sync.Mutex
	rows     map[string][]byte
	Adds     int
	Finds    int
	FailAdd  bool
	FailFind bool
	LastKey  []byte
}

func newMemStore() *MemStore { return &MemStore{rows: map[string][]byte{}} }

// FindByKey implements storage.IssuanceChainStorage; an unknown key is an error as in the SQL stores.
func (m *MemStore) FindByKey(_ context.Context, key []byte) ([]byte, error) {
	m.mu.Lock()
	defer m.mu.Unlock()
	m.Finds++
	if m.FailFind {
		m.FailFind = false
		return nil, errors.New("injected storage fault on FindByKey")
	}
	v, ok := m.rows[string(key)]
	if !ok {
		return nil, errors.New("sql: no rows in result set")
	}
	return append([]byte{}, v...), nil
}

// Add implements storage.IssuanceChainStorage (idempotent, like INSERT ... ON DUPLICATE KEY).
func (m *MemStore) Add(_ context.Context, key []byte, chain []byte) error {
	m.mu.Lock()
	defer m.mu.Unlock()
	m.Adds++
	m.LastKey = append([]byte{}, key...)
	if m.FailAdd {
		m.FailAdd = false
		return errors.New("injected storage fault on Add")
	}
	m.rows[string(key)] = append([]byte{}, chain...)
	return nil
}

// damaged computes what a damaged row holds; other is the well-formed value of another key (class "swapped").
func damaged(v []byte, class string, other []byte) []byte {
	switch class {
	case "trailing":
		return append(append([]byte{}, v...), 0)
	case "notDER":
		return []byte("this is not DER at all")
	case "truncated":
		if len(v) > 3 {
			return append([]byte{}, v[:len(v)-3]...)
		}
		return append([]byte{}, v[:1]...)
	case "empty":
		return []byte{}
	case "swapped":
		return append([]byte{}, other...)
	case "contentFlip":
		v = append([]byte{}, v...)
		if len(v) > 40 {
			v[len(v)/2] ^= 0x01 // inside a certificate's bytes: the ASN.1 structure of the row stays intact
			return v
		}
		return []byte("this is not DER at all") // the empty chain has no content to flip
	}
	return v
}

// storeCtl is the harness' handle on the storage below the external-storage twin: the object the instance talks to
// (Impl: the in-memory stand-in, or the real MySQL / PostgreSQL IssuanceChainStorage of the repository on the
// in-process database of package sqlfake) and the table behind it.
type storeCtl interface {
	Impl() storage.IssuanceChainStorage
	Reopen() storage.IssuanceChainStorage // what a restarted front end gets: the same table through a new handle
	row(key []byte) ([]byte, bool)
	setRow(key, v []byte)
	dropRow(key []byte)
	arm(fault string, variant int, cancel func())
	disarm()
	shut()
	sql() *sqlfake.DB // nil for the in-memory stand-in
}

func (m *MemStore) Impl() storage.IssuanceChainStorage   { return m }
func (m *MemStore) Reopen() storage.IssuanceChainStorage { return m }
func (m *MemStore) sql() *sqlfake.DB                     { return nil }
func (m *MemStore) shut()                                {}
func (m *MemStore) row(key []byte) ([]byte, bool) {
	m.mu.Lock()
	defer m.mu.Unlock()
	v, ok := m.rows[string(key)]
	return append([]byte{}, v...), ok
}
func (m *MemStore) setRow(key, v []byte) { m.mu.Lock(); m.rows[string(key)] = v; m.mu.Unlock() }
func (m *MemStore) dropRow(key []byte)   { m.mu.Lock(); delete(m.rows, string(key)); m.mu.Unlock() }
func (m *MemStore) arm(fault string, _ int, _ func()) {
	m.mu.Lock()
	defer m.mu.Unlock()
	switch fault {
	case "addError":
		m.FailAdd = true
	case "findError":
		m.FailFind = true
	default:
		panic("the in-memory storage has no fault class " + fault)
	}
}
func (m *MemStore) disarm() { m.mu.Lock(); m.FailAdd, m.FailFind = false, false; m.mu.Unlock() }

// sqlStore is the real SQL storage implementation of the repository on the in-process database.
type sqlStore struct {
	db   *sqlfake.DB
	h    *sql.DB
	impl storage.IssuanceChainStorage
}

func newSQLStore(dialect string) *sqlStore {
	s := &sqlStore{db: sqlfake.New(sqlfake.Dialect(dialect))}
	s.Reopen()
	return s
}

func (s *sqlStore) Impl() storage.IssuanceChainStorage { return s.impl }
func (s *sqlStore) Reopen() storage.IssuanceChainStorage {
	if s.h != nil {
		s.h.Close()
	}
	s.h = s.db.Open()
	if s.db.Dialect == sqlfake.MySQL {
		s.impl = mysqlstore.NewIssuanceChainStorageFromDBForVerif(s.h)
	} else {
		s.impl = pgstore.NewIssuanceChainStorageFromDBForVerif(s.h)
	}
	return s.impl
}
func (s *sqlStore) sql() *sqlfake.DB              { return s.db }
func (s *sqlStore) shut()                         { s.h.Close() }
func (s *sqlStore) row(key []byte) ([]byte, bool) { return s.db.Row(key) }
func (s *sqlStore) setRow(key, v []byte)          { s.db.SetRow(key, v) }
func (s *sqlStore) dropRow(key []byte)            { s.db.DeleteRow(key) }
func (s *sqlStore) disarm()                       { s.db.Disarm() }
func (s *sqlStore) arm(fault string, variant int, cancel func()) {
	on := "exec"
	if strings.HasPrefix(fault, "find") {
		on = "query"
	}
	kind := map[string]string{"Error": "error", "Cancel": "cancel", "LateCancel": "lateCancel", "RowsError": "rowsError", "ConnDown": "down", "ConnLost": "badconn"}[strings.TrimPrefix(strings.TrimPrefix(fault, "add"), "find")]
	if kind == "" {
		panic("no SQL fault class " + fault)
	}
	s.db.Arm(sqlfake.Fault{Kind: kind, On: on, Variant: variant, Cancel: cancel})
}

// reqTag is the context key under which the harness tags an HTTP request; the front end hands the request context to
// the storage layer and to the cache, so both can tell which request a call belongs to.
type reqTag struct{}

var reqSeq int64

func tagged(ctx context.Context) (context.Context, int64) {
	id := atomic.AddInt64(&reqSeq, 1)
	return context.WithValue(ctx, reqTag{}, id), id
}

func tagOf(ctx context.Context) int64 {
	id, _ := ctx.Value(reqTag{}).(int64)
	return id
}

// layerRec sits between the issuance chain service and the storage implementation and records what the storage
// layer was asked and what it answered: the specification says, per step, whether the layer is called and whether
// it answers with data / ok or with an error (reply.add / find / layer / layers).  It is also where the latency of the
// storage shows: delay (if set) says how long an answer is held back, per operation, key and outcome - the completion
// order of the per-leaf work of a get-entries page (ChainStore.tla, Orders).
type layerRec struct {
	mu    sync.Mutex
	inner storage.IssuanceChainStorage
	calls []layerCall
	delay func(op string, key []byte, err error) time.Duration
}

type layerCall struct {
	op   string // "add" | "find"
	key  []byte
	data []byte // add: the chain handed in; find: the bytes handed back
	err  error
	req  int64 // tag of the request the call was made for (0: none)
}

func (l *layerRec) cur() storage.IssuanceChainStorage {
	l.mu.Lock()
	defer l.mu.Unlock()
	return l.inner
}
func (l *layerRec) set(s storage.IssuanceChainStorage) { l.mu.Lock(); l.inner = s; l.mu.Unlock() }
func (l *layerRec) setDelay(f func(op string, key []byte, err error) time.Duration) {
	l.mu.Lock()
	l.delay = f
	l.mu.Unlock()
}

func (l *layerRec) done(c layerCall) {
	l.mu.Lock()
	l.calls = append(l.calls, c)
	d := l.delay
	l.mu.Unlock()
	if d != nil {
		if w := d(c.op, c.key, c.err); w > 0 {
			time.Sleep(w) // a latency, never a verdict: the laws hold for every completion order
		}
	}
}

// FindByKey implements storage.IssuanceChainStorage.
func (l *layerRec) FindByKey(ctx context.Context, key []byte) ([]byte, error) {
	data, err := l.cur().FindByKey(ctx, key)
	l.done(layerCall{"find", append([]byte{}, key...), data, err, tagOf(ctx)})
	return data, err
}

// Add implements storage.IssuanceChainStorage.
func (l *layerRec) Add(ctx context.Context, key []byte, chain []byte) error {
	err := l.cur().Add(ctx, key, chain)
	l.done(layerCall{"add", append([]byte{}, key...), append([]byte{}, chain...), err, tagOf(ctx)})
	return err
}

func (l *layerRec) mark() int { l.mu.Lock(); defer l.mu.Unlock(); return len(l.calls) }
func (l *layerRec) since(n int, op string) []layerCall {
	l.mu.Lock()
	defer l.mu.Unlock()
	var out []layerCall
	for _, c := range l.calls[n:] {
		if c.op == op {
			out = append(out, c)
		}
	}
	return out
}

// justified tells whether the request with that tag got this chain into or out of the storage under this key: the
// only thing that entitles it to tell the cache about the chain.
func (l *layerRec) justified(req int64, key, chain []byte) bool {
	l.mu.Lock()
	defer l.mu.Unlock()
	for _, c := range l.calls {
		if c.req == req && c.err == nil && bytes.Equal(c.key, key) && bytes.Equal(c.data, chain) {
			return true
		}
	}
	return false
}

// GateCache wraps a real cache; Set (called from the detached goroutine) blocks until the harness fires it.
// Every write that arrives is remembered and judged: the cache stands for "stored" (add() skips the storage when the
// cache has the chain), so a write is sound only if the request that makes it got exactly this chain into or out of
// the storage of this log under exactly this key.
type GateCache struct {
	real      cache.IssuanceChainCache
	mu        sync.Mutex
	tickets   []*ticket // waiting at the gate
	seen      []*ticket // every write that ever arrived (waiting, landed inside its request, let through by the watchdog)
	judged    int       // seen[:judged] have been judged
	arrived   chan struct{}
	vouch     func(key, chain []byte) bool            // the table holds chain under key right now
	justified func(req int64, key, chain []byte) bool // the request with that tag had a successful Add / FindByKey of (key, chain)
	inReq     int64                                   // goroutine of the request the harness is sending right now (0: none)
	forced    bool                                    // the watchdog let a write through: nothing is judged any more
}

type ticket struct {
	key     string
	chain   []byte
	req     int64 // tag of the request context the write was made with (0: none)
	hashOK  bool  // key = SHA-256(chain)
	vouched bool  // at arrival the storage held exactly this chain under this key
	just    bool  // at arrival the request had already got the chain into / out of the storage
	inside  bool  // Set was called by the goroutine of the request itself: the request waits for the cache
	release chan struct{}
	done    chan struct{}
}

// gateWatchdog bounds how long a cache write waits at the gate.  It is no verdict: a write it lets through ends the
// judging of that behaviour (a request of a changed implementation that waits for its own detached write would
// otherwise hang the run).
const gateWatchdog = 120 * time.Second

// gateMissed: an expected write did not arrive within the generous wait once; later waits of this process are short
// (a front end that never makes the write would otherwise cost the generous wait at every step).
var gateMissed atomic.Bool

func gateWait() time.Duration {
	if gateMissed.Load() {
		return 5 * time.Second
	}
	return gateWatchdog
}

func newGateCache(real cache.IssuanceChainCache) *GateCache {
	return &GateCache{real: real, arrived: make(chan struct{}, 4096)}
}

func goid() int64 {
	var buf [64]byte
	n := runtime.Stack(buf[:], false)
	f := strings.Fields(string(buf[:n])) // "goroutine 123 [running]:"
	if len(f) < 2 {
		return -1
	}
	id, _ := strconv.ParseInt(f[1], 10, 64)
	return id
}

// during marks the calling goroutine as the one of the request being sent (until the returned function is called).
func (g *GateCache) during() func() {
	g.mu.Lock()
	g.inReq = goid()
	g.mu.Unlock()
	return func() { g.mu.Lock(); g.inReq = 0; g.mu.Unlock() }
}

// Get passes through.
func (g *GateCache) Get(ctx context.Context, key []byte) ([]byte, error) { return g.real.Get(ctx, key) }

// Set waits at the gate - unless the request itself is the caller: then it goes through at once (the request could
// never finish otherwise) and is remembered as a write inside the request.
func (g *GateCache) Set(ctx context.Context, key []byte, chain []byte) error {
	sum := sha256.Sum256(chain)
	t := &ticket{key: string(key), chain: append([]byte{}, chain...), req: tagOf(ctx), hashOK: bytes.Equal(sum[:], key), release: make(chan struct{}), done: make(chan struct{})}
	t.vouched = g.vouch == nil || g.vouch(key, chain)
	t.just = t.req != 0 && g.justified != nil && g.justified(t.req, key, chain)
	g.mu.Lock()
	t.inside = g.inReq != 0 && g.inReq == goid()
	g.seen = append(g.seen, t)
	if !t.inside {
		g.tickets = append(g.tickets, t)
	}
	g.mu.Unlock()
	if t.inside {
		return g.real.Set(ctx, key, chain)
	}
	select {
	case g.arrived <- struct{}{}: // a wake-up hint only (Fire and Settle poll as well): never wait for a reader
	default:
	}
	select {
	case <-t.release:
	case <-time.After(gateWatchdog):
		g.mu.Lock()
		g.forced = true
		for i, o := range g.tickets {
			if o == t {
				g.tickets = append(g.tickets[:i], g.tickets[i+1:]...)
				break
			}
		}
		g.mu.Unlock()
	}
	err := g.real.Set(ctx, key, chain)
	close(t.done)
	return err
}

// Judge looks at the writes that arrived since the last call: how many are unsound, how many of them and of the
// sound ones were made inside their request.
func (g *GateCache) Judge() (unsound, inside int, forced bool) {
	g.mu.Lock()
	ts := g.seen[g.judged:]
	g.judged = len(g.seen)
	forced = g.forced
	just := g.justified
	g.mu.Unlock()
	for _, t := range ts {
		bad := !t.hashOK
		switch {
		case bad:
		case t.req != 0 && just != nil && t.inside:
			bad = !t.just // what counts is what the request had achieved when it told the cache
		case t.req != 0 && just != nil:
			bad = !just(t.req, []byte(t.key), t.chain)
		default:
			bad = !t.vouched
		}
		if bad {
			unsound++
		}
		if t.inside {
			inside++
		}
	}
	return
}

// Fire lets one pending Set for key run to completion.
func (g *GateCache) Fire(key []byte) error {
	deadline := time.Now().Add(gateWait()) // generous: the write arrives within microseconds; a short wait is a wall-clock judgment on a loaded machine
	for {
		g.mu.Lock()
		for i, t := range g.tickets {
			if t.key == string(key) {
				g.tickets = append(g.tickets[:i], g.tickets[i+1:]...)
				g.mu.Unlock()
				close(t.release)
				<-t.done
				return nil
			}
		}
		g.mu.Unlock()
		if time.Now().After(deadline) {
			gateMissed.Store(true)
			return errors.New("no pending cache.Set for that chain arrived at the gate")
		}
		select {
		case <-g.arrived:
		case <-time.After(50 * time.Millisecond):
		}
	}
}

// FireKey lets every Set for key that waits at the gate run to completion and returns how many there were (a long
// get-entries page starts one detached write per lookup, many of them for the same chain).
func (g *GateCache) FireKey(key []byte) int {
	g.mu.Lock()
	var mine, rest []*ticket
	for _, t := range g.tickets {
		if t.key == string(key) {
			mine = append(mine, t)
		} else {
			rest = append(rest, t)
		}
	}
	g.tickets = rest
	g.mu.Unlock()
	for _, t := range mine {
		close(t.release)
		<-t.done
	}
	return len(mine)
}

// insideSeen tells whether a write made inside its request has arrived since the last Judge.
func (g *GateCache) insideSeen() bool {
	g.mu.Lock()
	defer g.mu.Unlock()
	for _, t := range g.seen[g.judged:] {
		if t.inside {
			return true
		}
	}
	return false
}

// Waiting is the number of Sets at the gate.
func (g *GateCache) Waiting() int {
	g.mu.Lock()
	defer g.mu.Unlock()
	return len(g.tickets)
}

// Settle waits until at least want detached Sets have arrived at the gate (they are started with `go`, so they
// arrive some time after the request returned), gives stragglers a moment, and returns how many wait there.
func (g *GateCache) Settle(want int) int {
	deadline := time.Now().Add(5 * time.Second) // no verdict hangs on this wait: a write that is late here is seen at the next look
	for {
		g.mu.Lock()
		n := len(g.tickets)
		for _, t := range g.seen[g.judged:] {
			if t.inside {
				n++ // a write made inside its request has arrived (and landed) too: nothing more to wait for
			}
		}
		g.mu.Unlock()
		if n >= want || time.Now().After(deadline) {
			break
		}
		select {
		case <-g.arrived:
		case <-time.After(20 * time.Millisecond):
		}
	}
	for i := 0; i < 20; i++ {
		runtime.Gosched()
	}
	time.Sleep(200 * time.Microsecond)
	g.mu.Lock()
	defer g.mu.Unlock()
	return len(g.tickets)
}

// ReleaseAll lets every pending Set run (end of a behaviour).
func (g *GateCache) ReleaseAll() {
	g.mu.Lock()
	ts := g.tickets
	g.tickets = nil
	g.mu.Unlock()
	for _, t := range ts {
		close(t.release)
		<-t.done
	}
}

// CSStep mirrors a step of ChainStore.tla.
type CSStep struct {
	Op   string `json:"op"`
	Args struct {
		Log    string `json:"log"` // the log of the process the step is about ("" in behaviours of one log: "X")
		Cert   string `json:"cert"`
		Fault  string `json:"fault"`
		K      int    `json:"k"`
		Index  int    `json:"index"`
		To     int    `json:"to"`
		Via    string `json:"via"`
		Chain  string `json:"chain"`
		Class  string `json:"class"`
		Order  string `json:"order"` // ReadRange: completion order of the per-leaf work (latencies of the storage lookups)
		Garble *struct {
			Pos   int    `json:"pos"` // index of the leaf the backend returns garbled (-1: none)
			Class string `json:"class"`
		} `json:"garble"`
	} `json:"args"`
	Reply struct {
		Status int      `json:"status"`
		Add    bool     `json:"add"`
		Find   bool     `json:"find"`
		Finds  int      `json:"finds"`
		Sets   int      `json:"sets"`
		Cert   string   `json:"cert"`
		Path   string   `json:"path"`   // Submit: "hit" | "inserted" | the dialect's de-duplication path | "error"
		Layer  string   `json:"layer"`  // what the storage layer answers: "none" (not called) | "ok" / "data" | "error"
		Layers []string `json:"layers"` // ReadRange: the same, lookup by lookup
		Stored *bool    `json:"stored"` // Submit: the table of the log holds the chain when the submission is answered
	} `json:"reply"`
}

func (s *CSStep) log() string {
	if s.Args.Log == "" {
		return "X"
	}
	return s.Args.Log
}

func (s *CSStep) garbled() (int, string) {
	if s.Args.Garble == nil || s.Args.Garble.Class == "" || s.Args.Garble.Class == "none" {
		return -1, ""
	}
	return s.Args.Garble.Pos, s.Args.Garble.Class
}

// CSBehaviour is one exported behaviour.
type CSBehaviour struct {
	Cap     int             `json:"cap"`
	Dialect string          `json:"dialect"` // storage layer below the external twin: "memory" (also when absent) | "mysql" | "postgresql"
	Logs    []string        `json:"logs"`    // the logs the process serves (absent: one log, "X")
	Steps   []CSStep        `json:"steps"`
	Cold    json.RawMessage `json:"cold"` // per log, per integrated entry: can a front end with a cold cache serve it from the final state (ServableCold)
}

func (b *CSBehaviour) logs() []string {
	if len(b.Logs) == 0 {
		return []string{"X"}
	}
	return sortedStrings(b.Logs)
}

// cold decodes the export: an object log -> []bool, or (behaviours of one log recorded before there were several) a plain array.
func (b *CSBehaviour) cold() map[string][]bool {
	out := map[string][]bool{}
	if len(b.Cold) == 0 {
		return nil
	}
	if json.Unmarshal(b.Cold, &out) == nil {
		return out
	}
	var one []bool
	if json.Unmarshal(b.Cold, &one) == nil {
		return map[string][]bool{"X": one}
	}
	return nil
}

// twin is one log of the process: the same submissions go to a default-mode instance (d) and to an instance with
// external chain storage (x), each on its own backend.
type twin struct {
	name    string
	d, x, l *World // direct, external, legacy-leaf builder (direct mode, separate backend; shared by the logs)
	dialect string
	store   storeCtl
	rec     *layerRec
	gate    *GateCache
	keys    map[string][]byte // chain id -> storage key (learned from the first Add of that chain)
	vals    map[string][]byte // chain id -> stored value (likewise)
	mkX     func(backend *ctfeenv.Backend) (*World, error)
	// outstanding: detached cache writes the specification has started and not yet fired (counted for the noop cache too)
	outstanding int
}

// proc is one process serving several logs: one PKI, one log key and clock, and for every log its own backends, its
// own storage table and its own cache - every cache built by the repository's constructor from the same options, as
// setUpLogInfo does with the process-wide cache flags.
type proc struct {
	logs    map[string]*twin
	names   []string
	gen     int // restarts so far
	newGate func(gen int) (*GateCache, error)
}

// restart replaces the external-storage instance of every log by a new one (same backend, same table through a new
// database handle) with a cold cache: the caches and the detached writes still on their way die with the process.
func (p *proc) restart() error {
	p.gen++
	for _, name := range p.names {
		tw := p.logs[name]
		old := tw.gate
		g, err := p.newGate(p.gen)
		if err != nil {
			return err
		}
		tw.gate = g
		tw.gate.vouch, tw.gate.justified = tw.holds, tw.rec.justified
		tw.rec.set(tw.store.Reopen()) // the new process opens its own database handle on the same table
		x, err := tw.mkX(tw.x.Env.Backend)
		if err != nil {
			return err
		}
		tw.x = x
		tw.outstanding = 0
		old.ReleaseAll() // writes of the dead process go to the dead cache
	}
	return nil
}

func (p *proc) shut(rep *vh.Report) {
	for _, name := range p.names {
		tw := p.logs[name]
		tw.gate.ReleaseAll()
		if rep != nil {
			reportSQL(rep, tw)
		}
		tw.store.shut()
	}
}

// chain ids of MCChainOf
var chainOf = map[string]string{"x1": "cA", "x2": "cA", "x3": "c0", "p1": "cB", "p2": "cA"}

// holds tells whether the table has exactly chain under key.
func (tw *twin) holds(key, chain []byte) bool {
	v, ok := tw.store.row(key)
	return ok && bytes.Equal(v, chain)
}

// damage rewrites or removes a stored row.
func (tw *twin) damage(chain, class string, pick int) {
	key := tw.keys[chain]
	if class == "drop" {
		tw.store.dropRow(key)
		return
	}
	v, ok := tw.store.row(key)
	if !ok {
		return
	}
	// "swapped": the well-formed value of another key - the empty chain's (SEQUENCE of nothing), another stored
	// chain's, or for the empty chain itself a one-element chain
	other := []byte{0x30, 0x00}
	var known [][]byte
	for _, id := range []string{"c0", "cA", "cB"} {
		if o, ok := tw.vals[id]; ok && id != chain {
			known = append(known, o)
		}
	}
	switch {
	case chain == "c0" && len(known) == 0:
		other = []byte{0x30, 0x04, 0x30, 0x02, 0x04, 0x00}
	case chain == "c0" || (len(known) > 0 && pick%2 == 1):
		other = known[pick%len(known)]
	}
	tw.store.setRow(key, damaged(v, class, other))
}

// cacheSerial makes the cache options of every process the harness starts distinct (a different TTL, far beyond
// the length of a run): the logs of one process get equal options, two processes never do.
var cacheSerial int64

// newCache builds a cache the way setUpLogInfo does: through cache.NewIssuanceChainCache.
func newCache(capacity int, ttl time.Duration) (cache.IssuanceChainCache, error) {
	if capacity < 0 {
		return cache.NewIssuanceChainCache(context.Background(), cache.NOOP, cache.Option{})
	}
	return cache.NewIssuanceChainCache(context.Background(), cache.LRU, cache.Option{Size: capacity, TTL: ttl})
}

// popLeaf is one certificate of a population: its id, entry type and issuance chain ("cA": one intermediate, "cB":
// two RSA intermediates, "c0": the empty chain - a trusted root logged alone -, any other id: an intermediate of its own).
type popLeaf struct {
	ID    string
	Pre   bool
	Chain string
}

// newProc builds a process with the given logs.  realTTL = 0: entries never expire within a run.
func newProc(dir string, capacity int, seedSalt int64, realTTL time.Duration, dialect string, names []string) (*proc, error) {
	return newProcPop(dir, capacity, seedSalt, realTTL, dialect, names, nil)
}

// newProcPop is newProc with a population of its own (nil: the five certificates of MCChainOf).
func newProcPop(dir string, capacity int, seedSalt int64, realTTL time.Duration, dialect string, names []string, pop []popLeaf) (*proc, error) {
	ids := []string{"p1", "p2", "x1", "x2", "x3"}
	pre := map[string]bool{"p1": true, "p2": true}
	chainID := chainOf
	if pop != nil {
		ids, pre, chainID = nil, map[string]bool{}, map[string]string{}
		for _, l := range pop {
			ids = append(ids, l.ID)
			pre[l.ID] = l.Pre
			chainID[l.ID] = l.Chain
		}
	}
	root := pki.NewRoot(pki.Opts{CN: "twin root"})
	roots := []*pki.Node{root}
	issuers := map[string]*pki.Node{}
	iA := root.Issue(pki.Opts{CN: "issuer A", IsCA: true})
	iB0 := root.Issue(pki.Opts{CN: "issuer B0", IsCA: true, KeyType: "rsa2048"})
	iB := iB0.Issue(pki.Opts{CN: "issuer B", IsCA: true, KeyType: "rsa2048"}) // a long chain: two RSA intermediates and the root
	logKey := pki.NewKey("p256")
	clock := &ctfeenv.Clock{}
	clock.Set(ctfeenv.BaseTime())
	subs := map[string]*Sub{}
	for n, id := range ids {
		s := &Sub{ID: id, Pre: pre[id]}
		o := pki.Opts{CN: "leaf " + id, DNS: []string{id + ".twin.test"}}
		if s.Pre {
			o.Poison = "ok"
		}
		var leaf *pki.Node
		switch chainID[id] {
		case "cA": // [issuer A, root]
			leaf = iA.Issue(o)
			s.Chain = pki.DERs(leaf.Chain(id != "x2" && (pop == nil || n%3 != 1))) // root omitted for some of them: same validated path
			s.Path = pki.DERs(leaf.Chain(true))
		case "cB":
			leaf = iB.Issue(o)
			s.Chain, s.Path = pki.DERs(leaf.Chain(true)), pki.DERs(leaf.Chain(true))
		case "c0": // a trusted root itself: a leaf-only path, empty issuance chain (a population has several such roots)
			r := root
			if pop != nil {
				if s.Pre {
					return nil, fmt.Errorf("population: %s: the empty chain belongs to a root logged alone, which is no precertificate", id)
				}
				r = pki.NewRoot(pki.Opts{CN: "twin root " + id})
				roots = append(roots, r)
			}
			s.Chain, s.Path = [][]byte{r.DER}, [][]byte{r.DER}
		default: // an issuer of its own directly below the root
			iss := issuers[chainID[id]]
			if iss == nil {
				iss = root.Issue(pki.Opts{CN: "issuer " + chainID[id], IsCA: true})
				issuers[chainID[id]] = iss
			}
			leaf = iss.Issue(o)
			s.Chain = pki.DERs(leaf.Chain(n%2 == 0))
			s.Path = pki.DERs(leaf.Chain(true))
		}
		s.Shape = chainID[id]
		subs[id] = s
	}
	mk := func(o ctfeenv.Opts, prefix string) (*World, error) {
		o.Dir, o.LogKey, o.Roots, o.Clock = dir, logKey, roots, clock
		o.Prefix = prefix
		env, err := ctfeenv.New(o)
		if err != nil {
			return nil, err
		}
		return &World{Root: root, Subs: subs, Env: env, Base: clock.Now(), rng: vh.Rand(seedSalt)}, nil
	}
	p := &proc{logs: map[string]*twin{}, names: names}
	// equal options for every log of this process (and of its restarts: the flags do not change), other options
	// than any other process of this run
	ttl := realTTL
	if ttl == 0 {
		ttl = 1000*time.Hour + time.Duration(atomic.AddInt64(&cacheSerial, 1))*time.Microsecond
	}
	p.newGate = func(gen int) (*GateCache, error) {
		t := ttl
		if realTTL == 0 {
			t += time.Duration(gen) * time.Nanosecond // a restarted process is another process
		}
		c, err := newCache(capacity, t)
		if err != nil {
			return nil, fmt.Errorf("cache.NewIssuanceChainCache: %v", err)
		}
		return newGateCache(c), nil
	}
	legacy, err := mk(ctfeenv.Opts{}, "twin")
	if err != nil {
		return nil, err
	}
	for _, name := range names {
		tw := &twin{name: name, dialect: dialect, l: legacy, keys: map[string][]byte{}, vals: map[string][]byte{}}
		if tw.gate, err = p.newGate(0); err != nil {
			return nil, err
		}
		switch dialect {
		case "", "memory":
			tw.dialect, tw.store = "memory", newMemStore()
		case "mysql", "postgresql":
			tw.store = newSQLStore(dialect)
		default:
			return nil, fmt.Errorf("unknown storage dialect %q", dialect)
		}
		tw.rec = &layerRec{inner: tw.store.Impl()}
		tw.gate.vouch, tw.gate.justified = tw.holds, tw.rec.justified
		if tw.d, err = mk(ctfeenv.Opts{}, "twin"+name); err != nil {
			return nil, err
		}
		tw.mkX = func(b *ctfeenv.Backend) (*World, error) {
			return mk(ctfeenv.Opts{Storage: tw.rec, Cache: tw.gate, Backend: b}, "twin"+tw.name)
		}
		if tw.x, err = tw.mkX(nil); err != nil {
			return nil, err
		}
		p.logs[name] = tw
	}
	return p, nil
}

// newTwin builds a process with a single log.
func newTwin(dir string, capacity int, seedSalt int64, realTTL time.Duration, dialect string) (*twin, *proc, error) {
	p, err := newProc(dir, capacity, seedSalt, realTTL, dialect, []string{"X"})
	if err != nil {
		return nil, nil, err
	}
	return p.logs["X"], p, nil
}

// chainCerts decodes a stored issuance chain value with a reader of its own that knows DER lengths and nothing of the
// repository's ASN.1 package: one SEQUENCE without trailing bytes whose elements are the certificates, each possibly
// wrapped in further SEQUENCE / OCTET STRING layers (the stored form wraps every certificate in a structure of one
// OCTET STRING).  want tells where the wrapping ends: the element must come down to exactly that certificate.
func chainCerts(v []byte, want [][]byte) error {
	tlv := func(b []byte) (tag byte, content, rest []byte, err error) {
		if len(b) < 2 {
			return 0, nil, nil, errors.New("truncated")
		}
		tag = b[0]
		n := int(b[1])
		b = b[2:]
		if n >= 0x80 {
			k := n & 0x7f
			if k == 0 || k > 3 || len(b) < k {
				return 0, nil, nil, errors.New("bad length")
			}
			n = 0
			for i := 0; i < k; i++ {
				n = n<<8 | int(b[i])
			}
			b = b[k:]
		}
		if n > len(b) {
			return 0, nil, nil, fmt.Errorf("length %d beyond the %d bytes left", n, len(b))
		}
		return tag, b[:n], b[n:], nil
	}
	tag, body, rest, err := tlv(v)
	if err != nil || tag != 0x30 || len(rest) != 0 {
		return fmt.Errorf("not one DER SEQUENCE (tag %#x, %d trailing bytes, %v)", tag, len(rest), err)
	}
	for i, w := range want {
		if len(body) == 0 {
			return fmt.Errorf("%d certificates, want %d", i, len(want))
		}
		_, _, after, err := tlv(body)
		if err != nil {
			return fmt.Errorf("element %d: %v", i, err)
		}
		el := body[:len(body)-len(after)]
		body = after
		for depth := 0; !bytes.Equal(el, w); depth++ {
			t, c, r, err := tlv(el)
			if err != nil || len(r) != 0 || (t != 0x30 && t != 0x04) || depth > 3 {
				return fmt.Errorf("element %d is not certificate %d of the submitted chain", i, i+1)
			}
			if bytes.Equal(c, w) {
				break
			}
			el = c
		}
	}
	if len(body) != 0 {
		return fmt.Errorf("more than the %d certificates of the submitted chain", len(want))
	}
	return nil
}

// doCtx is Env.Do with a request context the harness can cancel (the SQL fault classes "cancel in flight") and tags
// (the storage layer and the cache see which request a call belongs to).  gate, if not nil, is told that the calling
// goroutine is the request: a cache write made by that goroutine goes through instead of waiting at the gate.
func doCtx(ctx context.Context, e *ctfeenv.Env, gate *GateCache, method, path string, qv url.Values, body []byte) (code int, rbody []byte, err error) {
	h, ok := e.Inst.Handlers[e.Prefix+path]
	if !ok {
		return 404, nil, nil
	}
	target := e.Prefix + path
	if qv != nil {
		target += "?" + qv.Encode()
	}
	ctx, _ = tagged(ctx)
	req := httptest.NewRequest(method, target, bytes.NewReader(body)).WithContext(ctx)
	rec := httptest.NewRecorder()
	if gate != nil {
		defer gate.during()()
	}
	defer func() {
		if r := recover(); r != nil {
			err = fmt.Errorf("panic in %s %s: %v", method, path, r)
			code = 0
		}
	}()
	h.ServeHTTP(rec, req)
	return rec.Code, rec.Body.Bytes(), nil
}

// addChainCtx submits to the external-storage instance of a log.
func addChainCtx(ctx context.Context, tw *twin, chain [][]byte, pre bool) (int, []byte, error) {
	body, _ := json.Marshal(ct.AddChainRequest{Chain: chain})
	path := ct.AddChainPath
	if pre {
		path = ct.AddPreChainPath
	}
	code, rb, err := doCtx(ctx, tw.x.Env, tw.gate, "POST", path, nil, body)
	if err != nil || code != 200 {
		return code, rb, err
	}
	var rsp ct.AddChainResponse
	if err := json.Unmarshal(rb, &rsp); err != nil {
		return code, rb, fmt.Errorf("add-chain reply is not JSON: %v", err)
	}
	return code, rb, nil
}

func readEntry(w *World, via string, index, size int) (int, []byte, []byte, error) {
	return readEntryOn(context.Background(), w, nil, via, index, size)
}

// readEntryCtx reads from the external-storage instance of a log.
func readEntryCtx(ctx context.Context, tw *twin, via string, index, size int) (int, []byte, []byte, error) {
	return readEntryOn(ctx, tw.x, tw.gate, via, index, size)
}

func readEntryOn(ctx context.Context, w *World, gate *GateCache, via string, index, size int) (int, []byte, []byte, error) {
	if via == "proof" {
		code, body, err := doCtx(ctx, w.Env, gate, "GET", ct.GetEntryAndProofPath, q("leaf_index", index, "tree_size", size), nil)
		if err != nil || code != 200 {
			return code, nil, nil, err
		}
		var r ct.GetEntryAndProofResponse
		if err := json.Unmarshal(body, &r); err != nil {
			return code, nil, nil, err
		}
		return code, r.LeafInput, r.ExtraData, nil
	}
	code, body, err := doCtx(ctx, w.Env, gate, "GET", ct.GetEntriesPath, q("start", index, "end", index), nil)
	if err != nil || code != 200 {
		return code, nil, nil, err
	}
	var r ct.GetEntriesResponse
	if err := json.Unmarshal(body, &r); err != nil || len(r.Entries) != 1 {
		return code, nil, nil, fmt.Errorf("get-entries reply: %v (%d entries)", err, len(r.Entries))
	}
	return code, r.Entries[0].LeafInput, r.Entries[0].ExtraData, nil
}

// readRange: tw (may be nil) names the log whose external-storage instance w is.
func readRange(ctx context.Context, w *World, tw *twin, from, to int) (int, []ct.LeafEntry, error) {
	var gate *GateCache
	if tw != nil {
		gate = tw.gate
	}
	code, body, err := doCtx(ctx, w.Env, gate, "GET", ct.GetEntriesPath, q("start", from, "end", to), nil)
	if err != nil || code != 200 {
		return code, nil, err
	}
	var r ct.GetEntriesResponse
	if err := json.Unmarshal(body, &r); err != nil {
		return code, nil, err
	}
	return code, r.Entries, nil
}

func lastRangeCause(s CSStep) string {
	if _, class := s.garbled(); class != "" {
		return "garbled-leaf"
	}
	if s.Args.Fault != "none" && s.Args.Fault != "" {
		return s.Args.Fault
	}
	if s.Reply.Status != 200 {
		return "damaged-or-missing-row"
	}
	return "none"
}

// posClass names where in a page an index lies.
func posClass(from, to, at int) string {
	switch {
	case from == to:
		return "only"
	case at == from:
		return "first"
	case at == to:
		return "last"
	}
	return "middle"
}

// garbleLeaf is what the backend hands out instead of a stored leaf (GarbleClasses of ChainStore.tla): extra data that
// is none of the four layouts, a hash layout cut short, no extra data, an empty leaf, the hash of nothing stored.
func garbleLeaf(leaf *trillian.LogLeaf, class string, salt int) *trillian.LogLeaf {
	out := proto.Clone(leaf).(*trillian.LogLeaf)
	switch class {
	case "garbageExtra":
		// three 0xff: read as a 24-bit or as a 16-bit length they point beyond the end, whichever layout is tried
		n := 5 + salt%60
		out.ExtraData = bytes.Repeat([]byte{0xff}, 3)
		for k := 0; k < n; k++ {
			out.ExtraData = append(out.ExtraData, byte(salt*31+k*7))
		}
	case "truncatedHash":
		ed := leaf.ExtraData
		if len(ed) >= 34 && ed[len(ed)-34] == 0 && ed[len(ed)-33] == 32 && (len(ed) == 34 || len(ed) > 40) {
			out.ExtraData = append([]byte{}, ed[:len(ed)-1-salt%3]...) // the stored hash layout without its last bytes
		}
		if len(ed) != 34 {
			// a full-chain (legacy) or precertificate leaf: the certificate-chain hash layout, one byte short
			out.ExtraData = append([]byte{0, 32}, bytes.Repeat([]byte{byte(0xa0 + salt%16)}, 31)...)
		}
	case "noExtraData":
		out.ExtraData = nil
	case "emptyLeaf":
		out = &trillian.LogLeaf{LeafIndex: leaf.LeafIndex}
	case "unknownHash":
		h := sha256.Sum256([]byte(fmt.Sprintf("a chain nobody ever stored %d", salt)))
		out.ExtraData = append([]byte{0, 32}, h[:]...)
	}
	return out
}

// pageDelays turns a completion order into latencies of the storage lookups of one page.
func pageDelays(order string, keyRank map[string]int, n int) func(op string, key []byte, err error) time.Duration {
	const unit = 400 * time.Microsecond
	return func(op string, key []byte, err error) time.Duration {
		if op != "find" {
			return 0
		}
		r, ok := keyRank[string(key)]
		if !ok {
			r = n // a key the page is not known to need (the hash of a garbled leaf)
		}
		switch order {
		case "asc":
			return time.Duration(r+1) * unit
		case "desc":
			return time.Duration(n+1-r) * unit
		case "failFast":
			if err == nil {
				return 4 * unit
			}
		case "failSlow":
			if err != nil {
				return 4 * unit
			}
		}
		return 0
	}
}

func runChainStore(t *testing.T, beh CSBehaviour, idx int, rep *vh.Report, dir string) {
	names := beh.logs()
	pr, err := newProc(dir, beh.Cap, int64(idx), 0, beh.Dialect, names)
	if err != nil {
		t.Errorf("twin: %v", err)
		return
	}
	defer pr.shut(rep)
	dialect := pr.logs[names[0]].dialect
	rep.Add("behaviours_on_"+dialect+"_storage", 1)
	if len(names) > 1 {
		rep.Add("behaviours_with_several_logs_in_one_process", 1)
	}
	kinds := map[string]bool{}
	diverged := false
	unmodelled := false
	infra := func(format string, a ...any) { // a failure of the harness itself: not a verdict
		diverged = true
		t.Errorf(format, a...)
	}
	viol := func(n int, fp, what string) {
		diverged = true // once implementation and specification disagree the rest of the behaviour has no meaning
		for _, name := range names {
			pr.logs[name].gate.mu.Lock()
			forced := pr.logs[name].gate.forced
			pr.logs[name].gate.mu.Unlock()
			if forced {
				rep.Add("behaviours_cut_by_the_gate_watchdog", 1)
				return
			}
		}
		if dialect != "memory" {
			what = "[storage: the repository's " + dialect + " IssuanceChainStorage on the in-process database] " + what
		}
		if len(names) > 1 {
			what = fmt.Sprintf("[process serving logs %v, every log with its own table and its own cache built by cache.NewIssuanceChainCache from equal options; step on log %s] ", names, beh.Steps[n].log()) + what
		}
		rep.Violate("chainstore:"+fp, what, map[string]any{"behaviour": CSBehaviour{Cap: beh.Cap, Dialect: beh.Dialect, Logs: beh.Logs, Steps: beh.Steps[:n+1]}, "step": n})
	}
	// the storage layer against the specification's reply.layer: was it called, did it answer with an error or not,
	// and (FindByKey) are the bytes it handed back the bytes of the row.  cause names the situation for the fingerprint.
	layerCheck := func(tw *twin, n int, op string, calls []layerCall, want []string, cause string) {
		nw := 0
		for _, w := range want {
			if w != "none" && w != "" {
				nw++
			}
		}
		if len(calls) != nw {
			return // the call counts are judged by the add-calls / find-calls checks
		}
		k := 0
		for _, w := range want {
			if w == "none" || w == "" {
				continue
			}
			c := calls[k]
			k++
			fp := fmt.Sprintf("storage:%s:%s:%s", tw.dialect, op, cause)
			switch {
			case w == "error" && c.err == nil:
				what := "Add returned no error"
				if op == "find" {
					what = fmt.Sprintf("FindByKey returned no error and %d bytes", len(c.data))
				}
				viol(n, fp+":returned-no-error", fmt.Sprintf("storage layer (%s), %s: the specification's storage layer answers with an error here, %s", tw.dialect, cause, what))
			case w != "error" && c.err != nil:
				viol(n, fp+":returned-error", fmt.Sprintf("storage layer (%s), %s: the specification's storage layer succeeds here, the implementation returned the error %q", tw.dialect, cause, c.err.Error()))
			case w == "error" && op == "find" && len(c.data) > 0:
				viol(n, fp+":error-with-data", fmt.Sprintf("storage layer (%s), %s: FindByKey returned an error together with %d bytes", tw.dialect, cause, len(c.data)))
			case w == "data":
				if row, ok := tw.store.row(c.key); !ok || !bytes.Equal(row, c.data) {
					viol(n, fp+":data-differs", fmt.Sprintf("storage layer (%s), %s: FindByKey handed back %d bytes that are not the ChainValue of the row with that IdentityHash (%d bytes, row present: %v)", tw.dialect, cause, len(c.data), len(row), ok))
				}
			}
		}
	}
	rowCause := func(tw *twin, chain string) string {
		v, ok := tw.store.row(tw.keys[chain])
		switch {
		case !ok:
			return "missing-row"
		case !bytes.Equal(v, tw.vals[chain]):
			return "damaged-row"
		}
		return "intact-row"
	}
	// settle waits for the detached cache writes the specification has started, then judges every write that has
	// arrived since the last look - on every log of the process: a write is sound only if the request that made it
	// got that very chain into or out of the storage of that log (the cache stands for "stored", see add()).  An
	// unsound write is a violation whenever it shows up; a sound one the specification does not know (or one made
	// inside the request) only means the implementation caches more eagerly than the model: the hit / miss
	// predictions of this behaviour no longer apply, nothing more.
	settle := func(cur *twin, n int, what string) {
		for _, name := range names {
			tw := pr.logs[name]
			got := tw.gate.Settle(tw.outstanding)
			unsound, inside, forced := tw.gate.Judge()
			where := ""
			if tw != cur {
				where = ":on-another-log-of-the-process"
			}
			switch {
			case forced:
				unmodelled = true
				rep.Add("behaviours_cut_by_the_gate_watchdog", 1)
			case unsound > 0 && inside > 0:
				viol(n, "cache-write:unsound:"+what+":inside-the-request"+where, fmt.Sprintf("log %s: the request itself told the cache about a chain before (or without) getting that chain into or out of the storage under that hash (%d such writes): the cache stands for \"stored\", so a later submission of that chain - the retry, another leaf of the same issuer - is acknowledged from the cache alone and its entry cannot be served by a front end with a cold cache", name, unsound))
			case unsound > 0:
				viol(n, "cache-write:unsound:"+what+where, fmt.Sprintf("log %s: a detached cache write carries a chain that its request did not get into or out of the storage under that hash (%d unsound writes; %d writes on their way, the specification knows of %d): a later submission of that chain is acknowledged from the cache alone and its entry cannot be served by a front end with a cold cache", name, unsound, got, tw.outstanding))
			case got > tw.outstanding || inside > 0:
				unmodelled = true
				rep.Add("behaviours_cut_at_unmodelled_cache_write", 1)
				if os.Getenv("VERIF_DEBUG") != "" {
					b, _ := json.Marshal(beh.Steps[:n+1])
					fmt.Printf("UNMODELLED %s log=%s got=%d want=%d inside=%d cap=%d %s\n", what, name, got, tw.outstanding, inside, beh.Cap, b)
				}
			}
			if diverged || unmodelled {
				return
			}
		}
	}
	for n, s := range beh.Steps {
		if diverged || unmodelled {
			break
		}
		kinds[fmt.Sprintf("%s/%d/%s", s.Op, s.Reply.Status, s.Args.Fault)] = true
		tw := pr.logs[s.log()]
		if tw == nil && s.Op != "Restart" {
			infra("behaviour %d step %d names the unknown log %q", idx, n, s.log())
			break
		}
		if len(names) > 1 && s.Op != "Restart" {
			kinds["log/"+s.log()] = true
		}
		switch s.Op {
		case "Submit":
			sub := tw.d.Subs[s.Args.Cert]
			chain := chainOf[s.Args.Cert]
			m0 := tw.rec.mark()
			rowBefore, presentBefore := tw.store.row(tw.keys[chain])
			var st0 sqlfake.Stats
			if db := tw.store.sql(); db != nil {
				st0 = db.Stats()
			}
			ctx, cancel := context.WithCancel(context.Background())
			if s.Args.Fault != "none" {
				tw.store.arm(s.Args.Fault, idx*31+n, cancel)
			}
			q0 := tw.x.Env.Backend.CallCount("QueueLeaf")
			c0 := tw.x.Env.Backend.NumCalls()
			codeX, bodyX, errX := addChainCtx(ctx, tw, sub.Chain, sub.Pre)
			cancel()
			tw.store.disarm()
			adds := tw.rec.since(m0, "add")
			if errX != nil && codeX == 0 {
				viol(n, "submit:panic", errX.Error())
				continue
			}
			if errX != nil {
				viol(n, "submit:reply-not-json", errX.Error())
				continue
			}
			if len(adds) > 0 {
				tw.keys[chain] = adds[len(adds)-1].key
				if _, ok := tw.vals[chain]; !ok {
					tw.vals[chain] = adds[len(adds)-1].data
				}
			}
			// StoredRowIsChain: what is handed to the storage is the submitted chain (the validated path after the
			// leaf, root included) under the SHA-256 of exactly those bytes - whatever else the process is doing at
			// the same time (the behaviours are replayed side by side in one process)
			for _, a := range adds {
				sum := sha256.Sum256(a.data)
				if err := chainCerts(a.data, sub.Path[1:]); err != nil {
					viol(n, "submit:stored-chain-not-the-submitted-chain:"+chain, fmt.Sprintf("submission of %s: the %d bytes handed to the issuance chain storage do not decode to the %d certificates of the submitted chain: %v", s.Args.Cert, len(a.data), len(sub.Path)-1, err))
				} else if !bytes.Equal(sum[:], a.key) {
					viol(n, "submit:storage-key-not-the-hash-of-the-chain:"+chain, fmt.Sprintf("submission of %s: the chain is stored under a key that is not the SHA-256 of the stored bytes", s.Args.Cert))
				}
			}
			if diverged {
				continue
			}
			cause := s.Reply.Path
			if s.Args.Fault != "none" {
				cause = s.Args.Fault
			}
			layerCheck(tw, n, "add", adds, []string{s.Reply.Layer}, cause)
			if s.Reply.Layer == "ok" && s.Reply.Path == "inserted" && len(adds) == 1 && adds[0].err == nil && !tw.holds(adds[0].key, adds[0].data) {
				row, ok := tw.store.row(adds[0].key)
				viol(n, fmt.Sprintf("storage:%s:add:inserted:row-differs", tw.dialect), fmt.Sprintf("storage layer (%s): Add of a new key returned no error, but the table does not hold the chain (%d bytes) under that IdentityHash (row present: %v, %d bytes)", tw.dialect, len(adds[0].data), ok, len(row)))
			}
			if s.Reply.Status == 200 && codeX != 200 {
				viol(n, fmt.Sprintf("submit:status:got%d", codeX), fmt.Sprintf("submission of %s with external chain storage answered %d: %s", s.Args.Cert, codeX, bodyX))
				continue
			}
			if s.Reply.Status != 200 {
				if codeX < 500 || tw.x.Env.Backend.CallCount("QueueLeaf") != q0 {
					viol(n, "submit:storage-fault-not-5xx", fmt.Sprintf("storage Add failed (%s) but the submission answered %d (backend called: %v)", s.Args.Fault, codeX, tw.x.Env.Backend.CallCount("QueueLeaf") != q0))
				} else if len(adds) != 1 {
					viol(n, "submit:add-calls:want=true", fmt.Sprintf("submission of %s: storage.Add called %d times, specification says once (with fault %s)", s.Args.Cert, len(adds), s.Args.Fault))
				}
				// the specification leaves the twin-visible state unchanged: the direct twin does not get this submission either.
				// AddErrorIs5xx: no cache write is started either - settle judges whatever arrives, now or later
				if !diverged {
					settle(tw, n, "after-failed-add")
				}
				continue
			}
			if codeD, _, bodyD, errD := tw.d.Env.AddChain(sub.Chain, sub.Pre); errD != nil || codeD != 200 {
				// the default mode is the repository's code too: a chain both instances were built to accept and the
				// external-storage instance has just accepted is a violation when refused, not a harness failure
				viol(n, "direct-submit:"+chain, fmt.Sprintf("the default-mode instance did not accept %s, which the external-storage instance accepted: status %d %v %.200s", s.Args.Cert, codeD, errD, bodyD))
				continue
			}
			// AckedIsStored: the leaf that was queued carries a hash; when the submission is answered the table of THIS
			// log holds a row under that hash (unless storage damage removed it: reply.stored)
			if s.Reply.Stored != nil && *s.Reply.Stored && !diverged {
				var ed []byte
				for _, c := range tw.x.Env.Backend.CallsSince(c0) {
					if r, ok := c.Req.(*trillian.QueueLeafRequest); ok && r.Leaf != nil {
						ed = r.Leaf.ExtraData
					}
				}
				switch {
				case len(ed) < 34 || ed[len(ed)-34] != 0 || ed[len(ed)-33] != 32:
					viol(n, "submit:queued-leaf-without-chain-hash", fmt.Sprintf("submission of %s with external chain storage was acknowledged, but the leaf handed to the backend does not end in a 32-byte chain hash (%d bytes of extra data)", s.Args.Cert, len(ed)))
				default:
					if _, ok := tw.store.row(ed[len(ed)-32:]); !ok {
						viol(n, "submit:acked-chain-not-stored:"+map[bool]string{true: "storage-called", false: "storage-not-called"}[len(adds) > 0], fmt.Sprintf("submission of %s to log %s was answered 200 and its leaf queued, but the issuance chain table of that log holds no row under the hash the leaf carries (storage.Add called %d times for this request): once the chain has left the cache (restart, eviction, expiry, another replica) the entry cannot be served", s.Args.Cert, tw.name, len(adds)))
					}
				}
			}
			if (len(adds) == 1) != s.Reply.Add && !diverged {
				retry := ""
				if n > 0 && beh.Steps[n-1].Op == "Submit" && beh.Steps[n-1].Reply.Status != 200 && chainOf[beh.Steps[n-1].Args.Cert] == chain {
					retry = ":retry-after-failed-add"
				}
				viol(n, fmt.Sprintf("submit:add-calls:want=%v%s", s.Reply.Add, retry), fmt.Sprintf("submission of %s to log %s: storage.Add called %d times, specification says cache %s", s.Args.Cert, tw.name, len(adds), map[bool]string{true: "miss (Add)", false: "hit (no Add)"}[s.Reply.Add]))
			}
			if db := tw.store.sql(); db != nil && !diverged && s.Reply.Add {
				// which path the database took: the de-duplication path is exactly the dialect's, and it leaves the row as it was
				st1 := db.Stats()
				got := fmt.Sprintf("inserted=%d,dupError=%d,conflictSkipped=%d,rewritten=%d,rejected=%d", st1.Inserted-st0.Inserted, st1.DupErrors-st0.DupErrors,
					st1.ConflictsSkipped-st0.ConflictsSkipped, st1.Updated-st0.Updated, st1.SyntaxErrors+st1.Unsupported-st0.SyntaxErrors-st0.Unsupported)
				want := map[string]string{"inserted": "inserted=1,dupError=0,conflictSkipped=0,rewritten=0,rejected=0", "dupKeyError": "inserted=0,dupError=1,conflictSkipped=0,rewritten=0,rejected=0",
					"conflictSkipped": "inserted=0,dupError=0,conflictSkipped=1,rewritten=0,rejected=0"}[s.Reply.Path]
				if got != want {
					viol(n, fmt.Sprintf("submit:dedup-path:%s:want=%s:got:%s", tw.dialect, s.Reply.Path, got), fmt.Sprintf("submission of %s (chain %s, row present before: %v): the specification's %s storage takes the path %q, the database saw %s", s.Args.Cert, chain, presentBefore, tw.dialect, s.Reply.Path, got))
				}
				if rowAfter, _ := tw.store.row(tw.keys[chain]); presentBefore && !bytes.Equal(rowAfter, rowBefore) {
					viol(n, "submit:dedup-row-changed:"+tw.dialect, fmt.Sprintf("submission of %s: the Add of a key the table already holds changed the stored row (%d -> %d bytes)", s.Args.Cert, len(rowBefore), len(rowAfter)))
				}
				if s.Args.Fault == "addConnLost" && st1.BadConnExec-st0.BadConnExec != 1 {
					infra("the connection loss did not strike once: %+v", st1)
				}
				kinds["path/"+s.Reply.Path] = true
			}
			if n > 0 && beh.Steps[n-1].Op == "Submit" && beh.Steps[n-1].Reply.Status != 200 && beh.Steps[n-1].log() == s.log() && chainOf[beh.Steps[n-1].Args.Cert] == chain {
				kinds["retry-after-failed-add"] = true
			}
			if s.Reply.Add {
				tw.outstanding++
			}
			if !diverged {
				settle(tw, n, "after-submit")
			}
		case "Restart":
			if err := pr.restart(); err != nil {
				infra("restart: %v", err)
			}
		case "Sequence":
			nanos := tw.d.Nanos(1, 0)
			tw.d.Env.Backend.Sequence(s.Args.K, nanos, nil)
			tw.x.Env.Backend.Sequence(s.Args.K, nanos, nil)
		case "Legacy":
			sub := tw.l.Subs[s.Args.Cert]
			n0 := tw.l.Env.Backend.NumCalls()
			if c, _, b, e := tw.l.Env.AddChain(sub.Chain, sub.Pre); e != nil || c != 200 {
				viol(n, "direct-submit:legacy:"+chainOf[s.Args.Cert], fmt.Sprintf("a default-mode instance did not accept %s: status %d %v %.200s", s.Args.Cert, c, e, b))
				continue
			}
			calls := tw.l.Env.Backend.CallsSince(n0)
			if len(calls) == 0 {
				infra("legacy builder: no backend call")
				continue
			}
			req := calls[0].Req.(*trillian.QueueLeafRequest)
			nanos := tw.d.Nanos(1, 0)
			tw.d.Env.Backend.InjectLeaf(req.Leaf.LeafValue, req.Leaf.ExtraData, nanos, req.Leaf.LeafIdentityHash)
			tw.x.Env.Backend.InjectLeaf(req.Leaf.LeafValue, req.Leaf.ExtraData, nanos, req.Leaf.LeafIdentityHash)
		case "Read":
			size := tw.d.Env.Backend.Size()
			if tw.x.Env.Backend.Size() != size {
				infra("twin trees diverged: %d vs %d", size, tw.x.Env.Backend.Size())
				continue
			}
			codeD, leafD, extraD, errD := readEntry(tw.d, s.Args.Via, s.Args.Index, size)
			if errD != nil || codeD != 200 {
				// the default (in-backend) mode is the repository's code too: an in-tree read that is not answered 200
				// with a well-formed body is a violation of what C06 / C07 / C14 all presuppose, not a harness failure
				viol(n, "direct-read:"+s.Args.Via, fmt.Sprintf("the default-mode instance did not serve stored entry %d (tree size %d): status %d %v", s.Args.Index, size, codeD, errD))
				continue
			}
			ctx, cancel := context.WithCancel(context.Background())
			if s.Args.Fault != "none" {
				tw.store.arm(s.Args.Fault, idx*31+n, cancel)
			}
			m0 := tw.rec.mark()
			cause := s.Args.Fault
			if cause == "none" || strings.HasSuffix(cause, "ConnLost") {
				cause = rowCause(tw, chainOf[s.Reply.Cert])
			}
			codeX, leafX, extraX, errX := readEntryCtx(ctx, tw, s.Args.Via, s.Args.Index, size)
			cancel()
			tw.store.disarm()
			finds := tw.rec.since(m0, "find")
			f0, f1 := 0, len(finds)
			if errX != nil && codeX == 0 {
				viol(n, "read:panic:"+s.Args.Via, errX.Error())
				continue
			}
			fpc := fmt.Sprintf("%s:%s", s.Args.Via, chainOf[s.Reply.Cert])
			layerCheck(tw, n, "find", finds, []string{s.Reply.Layer}, cause)
			if s.Reply.Status == 200 {
				if codeX != 200 {
					viol(n, fmt.Sprintf("read:status:%s:got%d", fpc, codeX), fmt.Sprintf("reading index %d (%s) with external chain storage answered %d, the direct mode serves it", s.Args.Index, s.Args.Via, codeX))
					continue
				}
				if !bytes.Equal(leafX, leafD) || !bytes.Equal(extraX, extraD) {
					viol(n, "read:differs:"+fpc, fmt.Sprintf("index %d (%s): extra_data served with external chain storage (%d bytes) differs from the direct mode (%d bytes)", s.Args.Index, s.Args.Via, len(extraX), len(extraD)))
				}
			} else if codeX == 200 {
				what := "altered"
				if bytes.Equal(extraX, extraD) {
					what = "unaltered"
				}
				viol(n, "read:fault-served-200:"+fpc+":"+lastDamage(beh.Steps[:n+1], s.Args.Fault), fmt.Sprintf("index %d (%s): the stored chain is missing / damaged / unreadable (%s) but the entry was served with status 200 and %s chain data", s.Args.Index, s.Args.Via, lastDamage(beh.Steps[:n+1], s.Args.Fault), what))
			} else if codeX < 500 {
				viol(n, fmt.Sprintf("read:fault-status:%s:got%d", fpc, codeX), fmt.Sprintf("storage fault answered %d, expected 5xx", codeX))
			}
			if s.Reply.Status == 200 && s.Reply.Find {
				tw.outstanding++
			}
			if !diverged {
				settle(tw, n, "after-read")
			}
			if (f1-f0 == 1) != s.Reply.Find && !diverged && !unmodelled {
				viol(n, fmt.Sprintf("read:find-calls:%s:want=%v", fpc, s.Reply.Find), fmt.Sprintf("index %d (%s) of log %s: storage.FindByKey called %d times, specification says %v (cache capacity %d)", s.Args.Index, s.Args.Via, tw.name, f1-f0, s.Reply.Find, beh.Cap))
			}
		case "ReadRange":
			size := tw.d.Env.Backend.Size()
			codeD, entsD, errD := readRange(context.Background(), tw.d, nil, s.Args.Index, s.Args.To)
			if errD != nil || codeD != 200 || len(entsD) != s.Args.To-s.Args.Index+1 {
				// the default mode is the repository's code too: an in-tree range (well below the batch limit) that is
				// not served completely with 200 is a violation of C07's range law, not a harness failure
				viol(n, "direct-readrange", fmt.Sprintf("the default-mode instance did not serve the in-tree range [%d, %d] of a tree of %d completely: status %d, %d entries, %v", s.Args.Index, s.Args.To, size, codeD, len(entsD), errD))
				continue
			}
			gpos, gclass := s.garbled()
			if gclass != "" {
				kinds["garbled/"+gclass+"/"+posClass(s.Args.Index, s.Args.To, gpos)] = true
				tw.x.Env.Backend.Intercept = func(seq int, method string, req, rsp proto.Message, err error) (proto.Message, error) {
					if r, ok := rsp.(*trillian.GetLeavesByRangeResponse); ok && method == "GetLeavesByRange" && err == nil {
						for k, lf := range r.Leaves {
							if lf != nil && lf.LeafIndex == int64(gpos) {
								r.Leaves[k] = garbleLeaf(lf, gclass, idx*131+n)
							}
						}
					}
					return rsp, err
				}
			}
			// the completion order of the per-leaf work: latencies of the storage lookups, by the place of the key in the page
			if s.Args.Order != "" {
				rank := map[string]int{}
				for i := s.Args.Index; i <= s.Args.To; i++ {
					if lf := tw.x.Env.Backend.Leaf(i); lf != nil && len(lf.ExtraData) >= 32 {
						if _, ok := rank[string(lf.ExtraData[len(lf.ExtraData)-32:])]; !ok {
							rank[string(lf.ExtraData[len(lf.ExtraData)-32:])] = i - s.Args.Index
						}
					}
				}
				tw.rec.setDelay(pageDelays(s.Args.Order, rank, s.Args.To-s.Args.Index+1))
				kinds["order/"+s.Args.Order] = true
			}
			ctx, cancel := context.WithCancel(context.Background())
			if s.Args.Fault != "none" {
				tw.store.arm(s.Args.Fault, idx*31+n, cancel)
			}
			m0 := tw.rec.mark()
			codeX, entsX, errX := readRange(ctx, tw.x, tw, s.Args.Index, s.Args.To)
			cancel()
			tw.store.disarm()
			tw.rec.setDelay(nil)
			tw.x.Env.Backend.Intercept = nil
			finds := tw.rec.since(m0, "find")
			f0, f1 := 0, len(finds)
			fpr := fmt.Sprintf("range:%s", lastRangeCause(s))
			if errX != nil && codeX == 0 {
				viol(n, "readrange:panic", errX.Error())
				continue
			}
			if gclass != "" {
				// GarbledLeafIsError: whatever the position of the leaf and the completion order of the others
				if codeX == 200 {
					viol(n, fmt.Sprintf("readrange:garbled-leaf-served-200:%s:%s", gclass, posClass(s.Args.Index, s.Args.To, gpos)), fmt.Sprintf("get-entries(%d,%d) with external chain storage: the backend returned leaf %d (%s of the page) with %s, which cannot be fixed up, yet the page was answered 200 with %d entries (completion order of the other leaves: %s)", s.Args.Index, s.Args.To, gpos, posClass(s.Args.Index, s.Args.To, gpos), gclass, len(entsX), s.Args.Order))
					continue
				}
				if codeX < 500 {
					viol(n, fmt.Sprintf("readrange:garbled-leaf-status:%s:got%d", gclass, codeX), fmt.Sprintf("get-entries(%d,%d): a backend leaf that cannot be fixed up (%s) answered %d, expected 5xx", s.Args.Index, s.Args.To, gclass, codeX))
					continue
				}
			}
			layerCheck(tw, n, "find", finds, s.Reply.Layers, "range:"+lastRangeCause(s))
			// whatever the status: chain data that is served is the direct mode's, entry by entry
			if codeX == 200 {
				if len(entsX) == 0 || len(entsX) > len(entsD) {
					viol(n, "readrange:count:"+fpr, fmt.Sprintf("get-entries(%d,%d) with external chain storage served %d entries, the direct mode %d", s.Args.Index, s.Args.To, len(entsX), len(entsD)))
					continue
				}
				bad := false
				for i := range entsX {
					if !bytes.Equal(entsX[i].LeafInput, entsD[i].LeafInput) || !bytes.Equal(entsX[i].ExtraData, entsD[i].ExtraData) {
						fp := "readrange:differs:" + fpr
						if s.Reply.Status != 200 {
							fp = fmt.Sprintf("readrange:unfixed-leaf-served-200:%s:%s", fpr, posClass(s.Args.Index, s.Args.To, s.Args.Index+i))
						}
						viol(n, fp, fmt.Sprintf("get-entries(%d,%d): entry %d served with external chain storage carries %d bytes of extra_data, the direct mode %d (specification: status %d; completion order %s)", s.Args.Index, s.Args.To, s.Args.Index+i, len(entsX[i].ExtraData), len(entsD[i].ExtraData), s.Reply.Status, s.Args.Order))
						bad = true
						break
					}
				}
				if bad {
					continue
				}
			}
			if s.Reply.Status == 200 && (codeX != 200 || len(entsX) != len(entsD)) {
				viol(n, fmt.Sprintf("readrange:status:got%d", codeX), fmt.Sprintf("get-entries(%d,%d) with external chain storage answered %d with %d entries, the direct mode serves %d", s.Args.Index, s.Args.To, codeX, len(entsX), len(entsD)))
				continue
			}
			if s.Reply.Status != 200 && codeX != 200 && codeX < 500 {
				viol(n, fmt.Sprintf("readrange:fault-status:got%d", codeX), fmt.Sprintf("storage fault answered %d, expected 5xx", codeX))
				continue
			}
			if s.Reply.Status != 200 && codeX == 200 {
				// a correct proper prefix would be a legitimate short read; the model answers with an error, so the rest of
				// the behaviour (cache state) no longer applies
				unmodelled = true
				continue
			}
			if f1-f0 != s.Reply.Finds {
				viol(n, fmt.Sprintf("readrange:find-calls:want=%d", s.Reply.Finds), fmt.Sprintf("get-entries(%d,%d): storage.FindByKey called %d times, specification says %d (cache capacity %d, completion order %s)", s.Args.Index, s.Args.To, f1-f0, s.Reply.Finds, beh.Cap, s.Args.Order))
				continue
			}
			// every storage lookup that handed back an intact row is followed by a detached cache write (also with the noop cache)
			tw.outstanding += s.Reply.Sets
			settle(tw, n, "after-readrange")
		case "CacheSetFires":
			key, ok := tw.keys[s.Args.Chain]
			if !ok {
				viol(n, "cachesetfires:never-stored", "the specification expects a detached cache.Set for chain "+s.Args.Chain+" but that chain was never handed to the storage")
				continue
			}
			if err := tw.gate.Fire(key); err != nil {
				viol(n, "cachesetfires:missing", "the specification expects a detached cache.Set for chain "+s.Args.Chain+" but none arrived: "+err.Error())
			}
			tw.outstanding--
		case "DropRow":
			tw.damage(s.Args.Chain, "drop", 0)
		case "Corrupt":
			tw.damage(s.Args.Chain, s.Args.Class, idx+n)
		}
	}
	cold := beh.cold()
	sizes := true
	for _, name := range names {
		if len(cold[name]) != pr.logs[name].x.Env.Backend.Size() {
			sizes = false
		}
	}
	if !diverged && !unmodelled && cold != nil && sizes {
		// the specification's own continuation: every detached write lands, the process is replaced by one with
		// cold caches (restart / another replica), every integrated entry of every log is read; ServableCold says
		// which must be served
		for _, name := range names {
			pr.logs[name].gate.ReleaseAll()
		}
		if err := pr.restart(); err != nil {
			infra("restart: %v", err)
			return
		}
		n := len(beh.Steps) - 1
		for _, name := range names {
			tw := pr.logs[name]
			size := tw.d.Env.Backend.Size()
			for i, servable := range cold[name] {
				for _, via := range []string{"entries", "proof"} {
					codeD, leafD, extraD, errD := readEntry(tw.d, via, i, size)
					if errD != nil || codeD != 200 {
						viol(n, "direct-read:"+via, fmt.Sprintf("the default-mode instance did not serve stored entry %d (tree size %d): status %d %v", i, size, codeD, errD))
						continue
					}
					codeX, leafX, extraX, errX := readEntryCtx(context.Background(), tw, via, i, size)
					switch {
					case errX != nil && codeX == 0:
						viol(n, "cold:panic:"+via, errX.Error())
					case servable && codeX != 200:
						viol(n, "cold:unserved:"+via, fmt.Sprintf("after a restart (cold cache) index %d of log %s is answered %d over %s although its chain was stored and no storage damage touched it: the entry was acknowledged, sequenced and is no longer served", i, name, codeX, via))
					case codeX == 200 && (!bytes.Equal(leafX, leafD) || !bytes.Equal(extraX, extraD)):
						viol(n, "cold:differs:"+via, fmt.Sprintf("after a restart index %d of log %s is served with other bytes than the direct mode (%s)", i, name, via))
					case !servable && codeX != 200 && codeX < 500:
						viol(n, "cold:fault-status:"+via, fmt.Sprintf("damaged / missing stored chain answered %d, expected 5xx", codeX))
					}
				}
			}
		}
		kinds["ColdAudit/0/"] = true
	}
	key := ""
	if len(kinds) >= 3 {
		ks := []string{}
		for k := range kinds {
			ks = append(ks, k)
		}
		key = fmt.Sprintf("%s:cap%d:%s", dialect, beh.Cap, strings.Join(sortedStrings(ks), ","))
	}
	rep.Eval(key)
}

// reportSQL adds what the in-process database of one behaviour saw to the report.
func reportSQL(rep *vh.Report, tw *twin) {
	db := tw.store.sql()
	if db == nil {
		return
	}
	st := db.Stats()
	pre := "sql_" + tw.dialect + "_"
	for k, v := range map[string]int{"statements": st.Execs + st.Queries, "rows_inserted": st.Inserted, "duplicate_key_errors": st.DupErrors, "conflicts_skipped": st.ConflictsSkipped,
		"selects_without_row": st.NoRows, "rows_returned": st.RowsReturned, "connections": st.Connects, "connections_lost": st.BadConnExec + st.BadConnQuery, "faults_struck": st.FaultsStruck,
		"statements_rejected": st.SyntaxErrors + st.Unsupported} {
		rep.Add(pre+k, v)
	}
	for text := range db.Statements() {
		rep.Add("sql_text: "+text, 1)
	}
}

func lastDamage(steps []CSStep, fault string) string {
	if fault != "none" && fault != "" && !strings.HasSuffix(fault, "ConnLost") {
		return fault
	}
	// the damage that still applies to the chain being read: the last DropRow / Corrupt of that chain
	// that no later successful Add of the same chain repaired
	last := steps[len(steps)-1]
	chain := chainOf[last.Reply.Cert]
	for i := len(steps) - 2; i >= 0; i-- {
		st := steps[i]
		switch {
		case st.Op == "DropRow" && st.Args.Chain == chain:
			return "unknownHash"
		case st.Op == "Corrupt" && st.Args.Chain == chain:
			return st.Args.Class
		}
	}
	return "?"
}

func sortedStrings(a []string) []string {
	b := append([]string{}, a...)
	for i := range b {
		for j := i + 1; j < len(b); j++ {
			if b[j] < b[i] {
				b[i], b[j] = b[j], b[i]
			}
		}
	}
	return b
}

// TestChainStore replays ChainStore.tla behaviours on twin instances.
func TestChainStore(t *testing.T) {
	path := os.Getenv("VERIF_BEHAVIOURS")
	if path == "" {
		t.Skip("VERIF_BEHAVIOURS not set")
	}
	behs, err := vh.LoadNDJSON[CSBehaviour](path)
	if err != nil {
		t.Fatal(err)
	}
	rep := vh.NewReport("cctfe-chainstore", "behaviours of ChainStore.tla (submissions, sequencing, legacy full-chain entries, reads through both read endpoints, detached cache writes fired at chosen points, storage faults / dropped / damaged rows) replayed on two real instances (direct and external chain storage with the real LRU/noop cache behind a gate) fed the same submissions; the external instance stores through the layer the behaviour names (Dialect): the in-memory stand-in, or the repository's MySQL / PostgreSQL IssuanceChainStorage on an in-process database/sql driver with the dialect's semantics and fault classes (statement error, cancellation in flight / after the commit, lost connection, database down, result-set error); every served entry compared byte for byte, every answer of the storage layer and the path the database took (inserted / duplicate-key error / conflict skipped) compared with the specification; the process serves the logs the behaviour names (two in the simulated behaviours), each with its own backend, table and cache - caches built by cache.NewIssuanceChainCache from equal options; a failed storage.Add is followed by the re-submission (same leaf or a sibling); every cache write arriving at the gate is judged sound only if its own request got that chain into or out of the storage under that hash; what is acknowledged is looked up in the table of that log; what is handed to a storage must decode to the submitted chain under its own SHA-256; get-entries pages are read under the completion order the behaviour names (latencies of the storage lookups) and with the leaf the behaviour names garbled by the backend; non-trivial = distinct (storage layer, cache capacity, set of (operation, status, fault) triples and de-duplication paths >= 3)")
	dir := t.TempDir()
	// one goroutine per behaviour behind a semaphore: a t.Fatalf inside a behaviour (an infrastructure failure) ends
	// that goroutine only and can never leave the feeder blocked
	var wg sync.WaitGroup
	sem := make(chan struct{}, runtime.NumCPU())
	for i := range behs {
		sem <- struct{}{}
		wg.Add(1)
		go func(i int) {
			defer wg.Done()
			defer func() { <-sem }()
			runChainStore(t, behs[i], i, rep, dir)
		}(i)
	}
	wg.Wait()
	rep.Replayed = len(behs)
	if len(behs) > 0 {
		rep.Sample(behs[0])
	}
	if err := rep.Write(); err != nil {
		t.Fatal(err)
	}
}

// TestChainStoreConcurrent: a process with two logs (own tables, caches from the same constructor and options), the
// real cache with tiny capacity and TTL and NO gate (detached writes land when they land), under the race detector.
// Phases per round: (1) every chain meets a failing storage.Add, the submission is sent again once the dust has
// settled (same leaf or another leaf of the same issuer) - what is acknowledged is in the table of that log; (2)
// bursts of submissions released together (chains with two RSA intermediates and the root among them) to both logs;
// (3) writers and readers at random; (4) everything handed to a storage decodes to a submitted chain under its own
// hash; (5) the process is restarted and every entry of both logs is read cold.  Law throughout: what is served is
// what the direct mode serves for the same leaf; what is acknowledged is stored.
func TestChainStoreConcurrent(t *testing.T) {
	rep := vh.NewReport("cctfe-chainstore-concurrent", "a process serving two logs with external chain storage (storage in turn: in-memory, the repository's MySQL and PostgreSQL IssuanceChainStorage on the in-process database; caches built by cache.NewIssuanceChainCache from equal options: LRU capacity 1-2, TTL 1-3 ms; ungated detached cache writes; -race): failed storage.Add followed by the re-submission with the cache as the implementation left it, bursts of overlapping submissions (chains of 0, 1 and 3 certificates) to both logs, random writers and readers, audit of every chain handed to a storage, cold reads of every entry after a restart; every served entry compared with the direct mode by leaf, every acknowledged submission looked up in the table of its log; non-trivial = round with at least 3 distinct chains served")
	rounds := vh.EnvInt("VERIF_ROUNDS", 6)
	ids := []string{"p1", "p2", "x1", "x2", "x3"}
	for r := 0; r < rounds; r++ {
		dialect := []string{"memory", "mysql", "postgresql"}[r%3]
		pr, err := newProc(t.TempDir(), 1+r%2, int64(1000+r), time.Duration(1+(r/2)%3)*time.Millisecond, dialect, []string{"X", "Y"})
		if err != nil {
			t.Fatal(err)
		}
		viol := func(fp, what string) {
			rep.Violate("chainstore:concurrent:"+fp, fmt.Sprintf("[round %d, %s storage] ", r, dialect)+what, nil)
		}
		stop := make(chan struct{})
		ungate := func(stop chan struct{}) {
			for _, name := range pr.names {
				g := pr.logs[name].gate
				g.arrived = make(chan struct{}, 1<<16)
				go func() { // ungated: fire everything as it arrives
					for {
						select {
						case <-stop:
							return
						case <-g.arrived:
							g.ReleaseAll()
						}
					}
				}()
			}
		}
		ungate(stop)
		X := pr.logs["X"]
		direct := true
		for _, id := range ids {
			s := X.d.Subs[id]
			if c, _, b, e := X.d.Env.AddChain(s.Chain, s.Pre); e != nil || c != 200 {
				viol("direct-submit:"+chainOf[id], fmt.Sprintf("the default-mode instance did not accept %s: %d %v %.200s", id, c, e, b))
				direct = false
			}
		}
		want := map[string][]byte{}
		if direct {
			X.d.Env.Backend.Sequence(5, X.d.Nanos(1, 0), nil)
			for i := 0; i < 5; i++ {
				c, leaf, extra, err := readEntry(X.d, "entries", i, 5)
				if err != nil || c != 200 {
					viol("direct-read", fmt.Sprintf("the default-mode instance did not serve entry %d: %d %v", i, c, err))
					direct = false
					break
				}
				want[string(leaf)] = extra
			}
		}
		if !direct {
			close(stop)
			pr.shut(rep)
			rep.Eval("")
			continue
		}
		// the key every chain is stored under: learned from the first Add (on any log) that hands over bytes which
		// decode to that chain
		var kmu sync.Mutex
		keyOf := map[string][]byte{}
		audited := map[string]int{}
		audit := func() {
			kmu.Lock()
			defer kmu.Unlock()
			for _, name := range pr.names {
				tw := pr.logs[name]
				calls := tw.rec.since(audited[name], "add")
				audited[name] = tw.rec.mark()
				for _, a := range calls {
					sum := sha256.Sum256(a.data)
					var chain string
					for _, id := range ids {
						if chainCerts(a.data, tw.x.Subs[id].Path[1:]) == nil {
							chain = chainOf[id]
							break
						}
					}
					switch {
					case chain == "":
						viol("stored-chain-not-a-submitted-chain", fmt.Sprintf("log %s: %d bytes were handed to the issuance chain storage that decode to none of the submitted chains (overlapping submissions)", name, len(a.data)))
					case !bytes.Equal(sum[:], a.key):
						viol("storage-key-not-the-hash-of-the-chain", fmt.Sprintf("log %s: chain %s handed to the storage under a key that is not the SHA-256 of its bytes", name, chain))
					case a.err == nil:
						if _, ok := keyOf[chain]; !ok {
							keyOf[chain] = a.key
						}
					}
				}
			}
		}
		// acked: a submission of id to log tw was answered 200 just now
		acked := func(tw *twin, id, phase string) {
			audit()
			kmu.Lock()
			key, ok := keyOf[chainOf[id]]
			kmu.Unlock()
			if !ok {
				viol("acked-chain-not-stored:"+phase, fmt.Sprintf("submission of %s to log %s was answered 200, but its issuance chain was never handed to any storage successfully", id, tw.name))
			} else if _, ok := tw.store.row(key); !ok {
				viol("acked-chain-not-stored:"+phase, fmt.Sprintf("submission of %s to log %s was answered 200 and its leaf queued, but the issuance chain table of that log holds no row for the chain: once the chain has left the cache the entry cannot be served", id, tw.name))
			}
		}
		submit := func(tw *twin, id, phase string) int {
			s := tw.x.Subs[id]
			c, b, e := addChainCtx(context.Background(), tw, s.Chain, s.Pre)
			switch {
			case e != nil && c == 0:
				viol("submit:panic:"+phase, e.Error())
			case e != nil:
				viol("submit:reply:"+phase, e.Error())
			case c == 200:
				acked(tw, id, phase)
			}
			_ = b
			return c
		}
		// (1) failed Add, then the re-submission, detached writes landing as they please
		for k, pair := range [][2]string{{"x1", "x2"}, {"p1", "p1"}, {"x3", "x3"}} {
			tw := pr.logs[pr.names[(r+k)%2]]
			tw.store.arm("addError", r*7+k, func() {})
			c := submit(tw, pair[0], "failed-add")
			tw.store.disarm()
			if c == 200 || (c != 0 && c < 500) {
				viol(fmt.Sprintf("submit:storage-fault-not-5xx:got%d", c), fmt.Sprintf("storage.Add failed but the submission of %s answered %d", pair[0], c))
			}
			// let a write that should not exist arrive and land (it is let through as it arrives); no verdict hangs on it
			for y := 0; y < 50; y++ {
				runtime.Gosched()
			}
			time.Sleep(2 * time.Millisecond)
			if c := submit(tw, pair[1], "retry-after-failed-add"); c != 200 && c != 0 {
				viol(fmt.Sprintf("submit:status:retry:got%d", c), fmt.Sprintf("the re-submission (%s) after a failed storage.Add answered %d", pair[1], c))
			}
		}
		// (2) bursts: submissions released together
		for burst := 0; burst < 3; burst++ {
			var wg sync.WaitGroup
			start := make(chan struct{})
			for g := 0; g < 8; g++ {
				wg.Add(1)
				go func(g int) {
					defer wg.Done()
					tw := pr.logs[pr.names[(g+burst)%2]]
					id := []string{"p1", "x1", "p1", "p2", "p1", "x3", "p1", "x2"}[(g+burst)%8]
					<-start
					if c := submit(tw, id, "burst"); c != 200 && c != 0 {
						viol(fmt.Sprintf("submit:status:burst:got%d", c), fmt.Sprintf("overlapping submission of %s to log %s answered %d", id, tw.name, c))
					}
				}(g)
			}
			close(start)
			wg.Wait()
		}
		// (3) writers and readers at random
		var wg sync.WaitGroup
		for g := 0; g < 4; g++ {
			wg.Add(1)
			go func(g int) {
				defer wg.Done()
				rng := vh.Rand(int64(r*10 + g))
				for k := 0; k < 30; k++ {
					id := ids[rng.Intn(len(ids))]
					tw := pr.logs[pr.names[rng.Intn(4)/3]] // mostly the first log
					if rng.Intn(2) == 0 {
						if c := submit(tw, id, "mixed"); c != 200 && c != 0 {
							viol("submit", fmt.Sprintf("concurrent submission of %s answered %d", id, c))
						}
						if rng.Intn(3) == 0 {
							tw.x.Env.Backend.Sequence(1, tw.x.Nanos(1, 0), nil)
						}
					} else if n := tw.x.Env.Backend.Size(); n > 0 {
						i := rng.Intn(n)
						via := []string{"entries", "proof"}[rng.Intn(2)]
						c, leaf, extra, e := readEntryCtx(context.Background(), tw, via, i, n)
						if e != nil || c != 200 {
							viol("read-status", fmt.Sprintf("concurrent read of index %d of log %s answered %d %v", i, tw.name, c, e))
						} else if w, ok := want[string(leaf)]; !ok || !bytes.Equal(w, extra) {
							viol("differs", fmt.Sprintf("concurrent read of index %d (%s) of log %s served extra_data that differs from the direct mode", i, via, tw.name))
						}
						time.Sleep(time.Duration(rng.Intn(3)) * time.Millisecond)
					}
				}
			}(g)
		}
		wg.Wait()
		audit()
		// (5) restart, cold reads of everything
		for _, name := range pr.names {
			tw := pr.logs[name]
			tw.x.Env.Backend.Sequence(tw.x.Env.Backend.Queued(), tw.x.Nanos(2, 0), nil)
		}
		close(stop)
		stop = make(chan struct{})
		if err := pr.restart(); err != nil {
			t.Fatal(err)
		}
		ungate(stop)
		served := map[string]bool{}
		for _, name := range pr.names {
			tw := pr.logs[name]
			n := tw.x.Env.Backend.Size()
			for i := 0; i < n; i++ {
				for _, via := range []string{"entries", "proof"} {
					c, leaf, extra, e := readEntryCtx(context.Background(), tw, via, i, n)
					if e != nil || c != 200 {
						viol("cold-unserved:"+via, fmt.Sprintf("after a restart (cold caches) index %d of log %s is answered %d %v: the entry was acknowledged, sequenced and is not served", i, name, c, e))
					} else if w, ok := want[string(leaf)]; !ok || !bytes.Equal(w, extra) {
						viol("cold-differs:"+via, fmt.Sprintf("after a restart index %d of log %s is served with other bytes than the direct mode", i, name))
					} else {
						served[string(extra)] = true
					}
				}
			}
		}
		close(stop)
		pr.shut(rep)
		key := ""
		if len(served) >= 3 {
			key = fmt.Sprintf("round-%d", r)
		}
		rep.Eval(key)
	}
	rep.Replayed = rounds
	if err := rep.Write(); err != nil {
		t.Fatal(err)
	}
}

func sameEntries(a, b []ct.LeafEntry) bool {
	if len(a) != len(b) {
		return false
	}
	for i := range a {
		if !bytes.Equal(a[i].LeafInput, b[i].LeafInput) || !bytes.Equal(a[i].ExtraData, b[i].ExtraData) {
			return false
		}
	}
	return true
}

// TestChainStoreBackendFaults: with external chain storage the read endpoints post-process the
// backend's reply (FixLogLeaf) before the handler's own sanity checks; absent parts of a reply must
// still give an error status, never a crash (C08 matrix rows for the external-storage mode, C14).
// get-entries pages: exactly one leaf of the page (first / middle / last) cannot be fixed up - garbled by the backend
// (GarbleClasses), its chain missing from the storage, its row damaged - under every completion order of the per-leaf
// work (Orders, as latencies of the storage lookups): 5xx, never 200.
func TestChainStoreBackendFaults(t *testing.T) {
	rep := vh.NewReport("cctfe-chainstore-backendfaults", "external-storage instance: get-entry-and-proof / get-entries with backend replies lacking the leaf, the proof or the root; get-entries pages of three leaves with three different chains where exactly one leaf (first / middle / last) cannot be fixed up (five garble classes, missing row, damaged row) x four completion orders of the per-leaf work; non-trivial = each fault class executed")
	tw, pr, err := newTwin(t.TempDir(), 2, 77, 0, "memory")
	if err != nil {
		t.Fatal(err)
	}
	defer pr.shut(nil)
	page := []string{"x1", "p1", "x3"} // three leaves, three different chains
	for _, id := range page {
		s := tw.x.Subs[id]
		if c, b, e := addChainCtx(context.Background(), tw, s.Chain, s.Pre); e != nil || c != 200 {
			rep.Violate("chainstore:backendfault:submit", fmt.Sprintf("external-storage instance did not accept %s: %d %v %.200s", id, c, e, b), nil)
			rep.Eval("")
			if err := rep.Write(); err != nil {
				t.Fatal(err)
			}
			return
		}
	}
	tw.x.Env.Backend.Sequence(3, tw.x.Nanos(1, 0), nil)
	if adds := tw.rec.since(0, "add"); len(adds) == len(page) {
		for i, id := range page {
			tw.keys[chainOf[id]] = adds[i].key
		}
	} else {
		rep.Violate("chainstore:backendfault:submit:add-calls", fmt.Sprintf("three submissions of three different chains to a cold external-storage instance called storage.Add %d times", len(adds)), nil)
		if err := rep.Write(); err != nil {
			t.Fatal(err)
		}
		return
	}
	faults := map[string]func(m proto.Message){
		"nilLeaf":   func(m proto.Message) { m.(*trillian.GetEntryAndProofResponse).Leaf = nil },
		"nilProof":  func(m proto.Message) { m.(*trillian.GetEntryAndProofResponse).Proof = nil },
		"rootOnly":  func(m proto.Message) { r := m.(*trillian.GetEntryAndProofResponse); r.Leaf, r.Proof = nil, nil },
		"emptyLeaf": func(m proto.Message) { m.(*trillian.GetEntryAndProofResponse).Leaf = &trillian.LogLeaf{} },
	}
	for name, f := range faults {
		tw.x.Env.Backend.Intercept = func(seq int, method string, req, rsp proto.Message, err error) (proto.Message, error) {
			if method == "GetEntryAndProof" && rsp != nil {
				f(rsp)
			}
			return rsp, err
		}
		code, body, err := doCtx(context.Background(), tw.x.Env, tw.gate, "GET", ct.GetEntryAndProofPath, q("leaf_index", 1, "tree_size", 3), nil)
		if err != nil {
			rep.Violate("chainstore:backendfault:"+name+":panic", "get-entry-and-proof with external chain storage: "+err.Error(), nil)
		} else if code == 200 {
			rep.Violate("chainstore:backendfault:"+name+":200", fmt.Sprintf("get-entry-and-proof answered 200 to a backend reply with %s: %s", name, body), nil)
		}
		rep.Eval("entry-and-proof/" + name)
	}
	tw.x.Env.Backend.Intercept = nil
	// what the intact page serves (three lookups; their detached cache writes stay at the gate)
	codeG, good, errG := readRange(context.Background(), tw.x, tw, 0, 2)
	if errG != nil || codeG != 200 || len(good) != 3 {
		rep.Violate("chainstore:backendfault:page:untouched", fmt.Sprintf("get-entries(0,2) of an intact page answered %d with %d entries %v", codeG, len(good), errG), nil)
		if err := rep.Write(); err != nil {
			t.Fatal(err)
		}
		return
	}
	n := 0
	classes := []string{"garbageExtra", "truncatedHash", "noExtraData", "emptyLeaf", "unknownHash", "missingRow", "damagedRow"}
	for _, class := range classes {
		for pos := 0; pos < 3; pos++ {
			for _, order := range []string{"asc", "desc", "failFast", "failSlow"} {
				n++
				chain := chainOf[page[pos]]
				key := tw.keys[chain]
				orig, _ := tw.store.row(key)
				switch class {
				case "missingRow":
					tw.store.dropRow(key)
				case "damagedRow":
					tw.store.setRow(key, damaged(orig, []string{"trailing", "notDER", "truncated", "empty"}[n%4], nil))
				default:
					tw.x.Env.Backend.Intercept = func(seq int, method string, req, rsp proto.Message, err error) (proto.Message, error) {
						if r, ok := rsp.(*trillian.GetLeavesByRangeResponse); ok && method == "GetLeavesByRange" && err == nil && len(r.Leaves) > pos {
							r.Leaves[pos] = garbleLeaf(r.Leaves[pos], class, n)
						}
						return rsp, err
					}
				}
				rank := map[string]int{}
				for i, id := range page {
					rank[string(tw.keys[chainOf[id]])] = i
				}
				tw.rec.setDelay(pageDelays(order, rank, 3))
				code, ents, err := readRange(context.Background(), tw.x, tw, 0, 2)
				tw.rec.setDelay(nil)
				tw.x.Env.Backend.Intercept = nil
				tw.store.setRow(key, orig)
				at := []string{"first", "middle", "last"}[pos]
				switch {
				case err != nil && code == 0:
					rep.Violate(fmt.Sprintf("chainstore:backendfault:page:%s:%s:panic", class, at), "get-entries with external chain storage: "+err.Error(), nil)
				case code == 200 && (class == "missingRow" || class == "damagedRow") && sameEntries(ents, good):
					// served whole and right: the chain came from a cache that (unlike the gated one of this harness'
					// model) already held it - no fault of the page; the case is not counted
					rep.Add("page_cases_served_from_a_warm_cache", 1)
					continue
				case code == 200:
					rep.Violate(fmt.Sprintf("chainstore:backendfault:page:%s:%s:200", class, at), fmt.Sprintf("get-entries(0,2) with external chain storage: the %s leaf of the page cannot be fixed up (%s), yet the page was answered 200 with %d entries (completion order of the per-leaf work: %s)", at, class, len(ents), order), nil)
				case code < 500:
					rep.Violate(fmt.Sprintf("chainstore:backendfault:page:%s:%s:got%d", class, at, code), fmt.Sprintf("get-entries(0,2): a leaf that cannot be fixed up (%s) answered %d, expected 5xx", class, code), nil)
				}
				rep.Eval(fmt.Sprintf("entries/%s/%s/%s", class, at, order))
				// (the detached writes of the lookups that succeeded stay at the gate: every case meets a cold cache, so the
				// missing / damaged row is what the page depends on)
			}
		}
	}
	// the request's context ends while the per-leaf lookups are under way (the client went away, the deadline passed)
	// and the lookups still answer: the page is refused or served whole - never 200 with leaves left in the stored
	// form.  The context is ended from inside the k-th lookup, so no clock is involved.
	for _, via := range []string{"entries", "proof"} {
		for k := 1; k <= 3; k++ {
			if via == "proof" && k > 1 {
				continue // one leaf, one lookup
			}
			n++
			cctx, cancel := context.WithCancel(context.Background())
			var seen atomic.Int32
			tw.rec.setDelay(func(op string, key []byte, err error) time.Duration {
				if op == "find" && int(seen.Add(1)) == k {
					cancel()
				}
				return 0
			})
			var code int
			var ents []ct.LeafEntry
			var err error
			if via == "entries" {
				code, ents, err = readRange(cctx, tw.x, tw, 0, 2)
			} else {
				var li, ex []byte
				code, li, ex, err = readEntryCtx(cctx, tw, "proof", 1, 3)
				ents = []ct.LeafEntry{{LeafInput: li, ExtraData: ex}}
			}
			tw.rec.setDelay(nil)
			cancel()
			want := good
			if via == "proof" {
				want = good[1:2]
			}
			switch {
			case err != nil && code == 0:
				rep.Violate(fmt.Sprintf("chainstore:cancelled-read:%s:panic", via), "read with external chain storage whose context ends during the lookups: "+err.Error(), nil)
			case code == 200 && !sameEntries(ents, want):
				rep.Violate(fmt.Sprintf("chainstore:cancelled-read:%s:200-unfixed", via), fmt.Sprintf("the context of the request ended during lookup %d of the per-leaf work; the answer is 200 with entries that are not the ones the intact read serves (leaves left in the stored hash form)", k), nil)
			}
			rep.Eval(fmt.Sprintf("%s/cancelled/%d", via, k))
		}
	}
	// the untouched page is served (the cases above left nothing behind)
	if code, ents, err := readRange(context.Background(), tw.x, tw, 0, 2); err != nil || code != 200 || len(ents) != 3 {
		rep.Violate("chainstore:backendfault:page:untouched", fmt.Sprintf("get-entries(0,2) of an intact page answered %d with %d entries %v", code, len(ents), err), nil)
	}
	rep.Replayed = 4 + n
	if err := rep.Write(); err != nil {
		t.Fatal(err)
	}
}

// ---------------------------------------------------------------------------------------------------------------------
// ChainStorePaging.tla: the page dimension of get-entries over external chain storage.

// PGStep mirrors a step of ChainStorePaging.tla.
type PGStep struct {
	Op   string `json:"op"`
	Args struct {
		Start   int    `json:"start"`
		To      int    `json:"to"`
		Workers int    `json:"workers"` // how the model organised the per-leaf work: no input to the implementation
		Split   string `json:"split"`
		Garble  *struct {
			Pos   int    `json:"pos"` // position in the response of the leaf the backend returns garbled (-1: none)
			Class string `json:"class"`
		} `json:"garble"`
		Fault bool   `json:"fault"` // a storage fault strikes one lookup of the request
		Index int    `json:"index"`
		Via   string `json:"via"`
		Chain string `json:"chain"`
		Class string `json:"class"`
	} `json:"args"`
	Reply struct {
		Status  int `json:"status"`
		Count   int `json:"count"`
		Finds   int `json:"finds"`
		Unfixed int `json:"unfixed"`
	} `json:"reply"`
}

// PGBehaviour is one exported behaviour of MCChainStorePaging.tla.
type PGBehaviour struct {
	Cap     int    `json:"cap"`
	Dialect string `json:"dialect"`
	Tree    int    `json:"tree"`
	MaxPage int    `json:"maxPage"`
	Pattern []struct {
		Kind   string `json:"kind"`
		Chain  string `json:"chain"`
		Layout string `json:"layout"`
	} `json:"pattern"`
	Steps []PGStep `json:"steps"`
}

// lenClass names the length class of a response.
func lenClass(n int) string {
	switch {
	case n <= 1:
		return "1"
	case n <= 8:
		return "2-8"
	case n <= 32:
		return "9-32"
	case n <= 64:
		return "33-64"
	case n <= 128:
		return "65-128"
	case n <= 256:
		return "129-256"
	}
	return "257+"
}

// extraForm says what a served extra_data looks like from outside (for the description of a violation only).
func extraForm(ed []byte) string {
	if len(ed) >= 34 && ed[len(ed)-34] == 0 && ed[len(ed)-33] == 32 {
		return "ends in a 32-byte hash structure (the stored form)"
	}
	return "no trailing hash structure"
}

func runPaging(t *testing.T, beh PGBehaviour, idx int, rep *vh.Report, dir string) {
	infra := func(format string, a ...any) { t.Errorf("paging behaviour %d: "+format, append([]any{idx}, a...)...) }
	if len(beh.Pattern) == 0 || beh.Tree <= 0 {
		infra("no tree")
		return
	}
	leafAt := func(i int) (kind, chain, layout string) {
		p := beh.Pattern[i%len(beh.Pattern)]
		return p.Kind, p.Chain, p.Layout
	}
	pop := make([]popLeaf, beh.Tree)
	for i := range pop {
		kind, chain, _ := leafAt(i)
		pop[i] = popLeaf{ID: fmt.Sprintf("L%d", i), Pre: kind == "precert", Chain: chain}
	}
	pr, err := newProcPop(dir, beh.Cap, int64(5000+idx), 0, beh.Dialect, []string{"X"}, pop)
	if err != nil {
		infra("twin: %v", err)
		return
	}
	defer pr.shut(nil)
	tw := pr.logs["X"]
	diverged, unmodelled := false, false
	viol := func(n int, fp, what string) {
		diverged = true
		tw.gate.mu.Lock()
		forced := tw.gate.forced
		tw.gate.mu.Unlock()
		if forced {
			rep.Add("behaviours_cut_by_the_gate_watchdog", 1)
			return
		}
		what = fmt.Sprintf("[tree of %d leaves: entry types x chains x layouts in a period of %d; %s storage, cache capacity %d, get-entries limit %d] ", beh.Tree, len(beh.Pattern), tw.dialect, beh.Cap, beh.MaxPage) + what
		upto := n + 1
		if upto > len(beh.Steps) {
			upto = len(beh.Steps)
		}
		b := beh
		b.Steps = beh.Steps[:upto]
		rep.Violate("chainstore:paging:"+fp, what, map[string]any{"paging": b, "step": n})
	}
	// ---- the tree: every leaf in hash form is submitted to both twins, every legacy leaf is written by a default-mode
	// instance and put into both backends as it is
	queued := 0
	flush := func() {
		if queued > 0 {
			nanos := tw.d.Nanos(1, 0)
			tw.d.Env.Backend.Sequence(queued, nanos, nil)
			tw.x.Env.Backend.Sequence(queued, nanos, nil)
			queued = 0
		}
	}
	for i := 0; i < beh.Tree && !diverged; i++ {
		_, chain, layout := leafAt(i)
		sub := tw.d.Subs[pop[i].ID]
		if layout == "full" {
			flush()
			n0 := tw.l.Env.Backend.NumCalls()
			if c, _, b, e := tw.l.Env.AddChain(sub.Chain, sub.Pre); e != nil || c != 200 {
				viol(-1, "load:direct-submit:legacy:"+chain, fmt.Sprintf("a default-mode instance did not accept leaf %d: status %d %v %.200s", i, c, e, b))
				break
			}
			calls := tw.l.Env.Backend.CallsSince(n0)
			if len(calls) == 0 {
				infra("legacy builder: no backend call")
				return
			}
			req := calls[0].Req.(*trillian.QueueLeafRequest)
			nanos := tw.d.Nanos(1, 0)
			tw.d.Env.Backend.InjectLeaf(req.Leaf.LeafValue, req.Leaf.ExtraData, nanos, req.Leaf.LeafIdentityHash)
			tw.x.Env.Backend.InjectLeaf(req.Leaf.LeafValue, req.Leaf.ExtraData, nanos, req.Leaf.LeafIdentityHash)
			continue
		}
		m0 := tw.rec.mark()
		codeX, bodyX, errX := addChainCtx(context.Background(), tw, sub.Chain, sub.Pre)
		if errX != nil || codeX != 200 {
			viol(-1, fmt.Sprintf("load:submit:status:got%d", codeX), fmt.Sprintf("submission of leaf %d (chain %s) with external chain storage answered %d %v %.200s", i, chain, codeX, errX, bodyX))
			break
		}
		if c, _, b, e := tw.d.Env.AddChain(sub.Chain, sub.Pre); e != nil || c != 200 {
			viol(-1, "load:direct-submit:"+chain, fmt.Sprintf("the default-mode instance did not accept leaf %d, which the external-storage instance accepted: status %d %v %.200s", i, c, e, b))
			break
		}
		queued++
		for _, a := range tw.rec.since(m0, "add") {
			sum := sha256.Sum256(a.data)
			if err := chainCerts(a.data, sub.Path[1:]); err != nil {
				viol(-1, "load:stored-chain-not-the-submitted-chain:"+chain, fmt.Sprintf("submission of leaf %d: the %d bytes handed to the issuance chain storage do not decode to the %d certificates of the submitted chain: %v", i, len(a.data), len(sub.Path)-1, err))
			} else if !bytes.Equal(sum[:], a.key) {
				viol(-1, "load:storage-key-not-the-hash-of-the-chain:"+chain, fmt.Sprintf("submission of leaf %d: the chain is stored under a key that is not the SHA-256 of the stored bytes", i))
			} else if a.err == nil {
				if _, ok := tw.keys[chain]; !ok {
					tw.keys[chain], tw.vals[chain] = a.key, a.data
				}
			}
		}
	}
	flush()
	if diverged {
		rep.Eval("")
		return
	}
	if tw.d.Env.Backend.Size() != beh.Tree || tw.x.Env.Backend.Size() != beh.Tree {
		infra("trees of %d / %d leaves, want %d", tw.d.Env.Backend.Size(), tw.x.Env.Backend.Size(), beh.Tree)
		return
	}
	// the specification starts with a cold cache and nothing on its way: the process that took the submissions is
	// replaced (its detached writes die with it)
	if err := pr.restart(); err != nil {
		infra("restart: %v", err)
		return
	}
	// settle: every detached write that has arrived is judged (sound only if its request got that chain out of the
	// storage under that hash); a write made inside its request means the implementation caches more eagerly than the
	// model - the lookups predicted for the rest of the behaviour no longer apply
	// arrive waits for the detached writes the served lookups have started (started with `go`: on a loaded machine
	// they may take their time; the bound only ends the wait, no verdict is taken from it)
	arrive := func(want int) bool {
		for k := 0; k < 24; k++ {
			if tw.gate.Settle(want) >= want || tw.gate.insideSeen() {
				return true
			}
		}
		return false
	}
	settle := func(n int, want int, what string) {
		if !arrive(want) {
			unmodelled = true // fewer detached writes than lookups served: the cache states of the model no longer apply
			rep.Add("behaviours_cut_waiting_for_detached_writes", 1)
			return
		}
		unsound, inside, forced := tw.gate.Judge()
		switch {
		case forced:
			unmodelled = true
			rep.Add("behaviours_cut_by_the_gate_watchdog", 1)
		case unsound > 0:
			viol(n, "cache-write:unsound:"+what, fmt.Sprintf("%d cache writes carry a chain that their request did not get out of the storage under that hash", unsound))
		case inside > 0:
			unmodelled = true
			rep.Add("behaviours_cut_at_unmodelled_cache_write", 1)
		}
	}
	classes := map[string]bool{}
	for n, s := range beh.Steps {
		if diverged || unmodelled {
			break
		}
		switch s.Op {
		case "Page":
			from, to := s.Args.Start, s.Args.To
			codeD, entsD, errD := readRange(context.Background(), tw.d, nil, from, to)
			if errD != nil || codeD != 200 || len(entsD) != s.Reply.Count {
				viol(n, "direct-count", fmt.Sprintf("get-entries(%d,%d) on the default-mode instance: status %d, %d entries, %v; the specification (Clip) has %d", from, to, codeD, len(entsD), errD, s.Reply.Count))
				continue
			}
			gpos, gclass := -1, ""
			if g := s.Args.Garble; g != nil && g.Class != "" && g.Class != "none" {
				gpos, gclass = from+g.Pos, g.Class
				tw.x.Env.Backend.Intercept = func(seq int, method string, req, rsp proto.Message, err error) (proto.Message, error) {
					if r, ok := rsp.(*trillian.GetLeavesByRangeResponse); ok && method == "GetLeavesByRange" && err == nil {
						for k, lf := range r.Leaves {
							if lf != nil && lf.LeafIndex == int64(gpos) {
								r.Leaves[k] = garbleLeaf(lf, gclass, idx*131+n)
							}
						}
					}
					return rsp, err
				}
			}
			ctx, cancel := context.WithCancel(context.Background())
			if s.Args.Fault {
				tw.store.arm("findError", idx*31+n, cancel)
			}
			before := tw.gate.Waiting()
			m0 := tw.rec.mark()
			codeX, entsX, errX := readRange(ctx, tw.x, tw, from, to)
			cancel()
			tw.store.disarm()
			tw.x.Env.Backend.Intercept = nil
			finds := len(tw.rec.since(m0, "find"))
			lc := lenClass(s.Reply.Count)
			cause := "damaged-or-missing-row"
			switch {
			case gclass != "":
				cause = "garbled-leaf:" + gclass
			case s.Args.Fault:
				cause = "findError"
			}
			if errX != nil && codeX == 0 {
				viol(n, "panic:len="+lc, errX.Error())
				continue
			}
			if s.Reply.Status == 200 {
				if codeX != 200 {
					viol(n, fmt.Sprintf("status:got%d:len=%s", codeX, lc), fmt.Sprintf("get-entries(%d,%d) with external chain storage answered %d %v, the direct mode serves %d entries", from, to, codeX, errX, len(entsD)))
					continue
				}
				if len(entsX) != len(entsD) {
					viol(n, "count:len="+lc, fmt.Sprintf("get-entries(%d,%d) with external chain storage served %d entries, the direct mode %d", from, to, len(entsX), len(entsD)))
					continue
				}
				wrong, first := 0, -1
				for i := range entsX {
					if !bytes.Equal(entsX[i].LeafInput, entsD[i].LeafInput) || !bytes.Equal(entsX[i].ExtraData, entsD[i].ExtraData) {
						if first < 0 {
							first = i
						}
						wrong++
					}
				}
				rep.Add("paging_entries_compared", len(entsX))
				if wrong > 0 {
					kind, chain, layout := leafAt(from + first)
					viol(n, fmt.Sprintf("entry-differs:len=%s:%s", lc, posClass(from, from+len(entsX)-1, from+first)), fmt.Sprintf("get-entries(%d,%d), a response of %d entries: %d of them differ from the direct mode, the first at position %d of the response (index %d, %s, chain %s, stored in %s form): extra_data of %d bytes (%s), the direct mode serves %d bytes", from, to, len(entsX), wrong, first, from+first, kind, chain, layout, len(entsX[first].ExtraData), extraForm(entsX[first].ExtraData), len(entsD[first].ExtraData)))
					continue
				}
				settle(n, before+finds, "after-page")
				if diverged || unmodelled {
					continue
				}
				if finds != s.Reply.Finds {
					viol(n, fmt.Sprintf("find-calls:len=%s", lc), fmt.Sprintf("get-entries(%d,%d): storage.FindByKey called %d times, the specification (Lookups) says %d: one per leaf in hash form whose chain the cache does not hold", from, to, finds, s.Reply.Finds))
					continue
				}
				classes[lc] = true
				rep.Add("paging_pages_served_len_"+lc, 1)
				if s.Reply.Count%4 != 0 && s.Reply.Count > 8 {
					rep.Add("paging_pages_served_longer_than_8_not_a_multiple_of_4", 1)
				}
				if from+s.Reply.Count == beh.Tree {
					rep.Add("paging_pages_ending_at_the_head_of_the_tree", 1)
				}
				if to-from+1 > s.Reply.Count {
					rep.Add("paging_pages_cut_by_the_limit_or_the_head", 1)
				}
				continue
			}
			// the specification answers with an error
			pc := "none"
			if gpos >= 0 {
				pc = posClass(from, from+s.Reply.Count-1, gpos)
			}
			switch {
			case codeX == 200:
				wrong, first := 0, -1
				for i := range entsX {
					if i >= len(entsD) || !bytes.Equal(entsX[i].LeafInput, entsD[i].LeafInput) || !bytes.Equal(entsX[i].ExtraData, entsD[i].ExtraData) {
						if first < 0 {
							first = i
						}
						wrong++
					}
				}
				if wrong > 0 || gclass != "" {
					viol(n, fmt.Sprintf("unfixed-leaf-served-200:%s:len=%s:%s", cause, lc, pc), fmt.Sprintf("get-entries(%d,%d): a leaf of the response cannot be fixed (%s), yet it was answered 200 with %d entries, %d of them not what the direct mode serves (first at position %d)", from, to, cause, len(entsX), wrong, first))
				} else {
					unmodelled = true // served whole and right from a cache that is ahead of the model
					rep.Add("behaviours_cut_at_unmodelled_cache_write", 1)
				}
			case codeX < 500:
				viol(n, fmt.Sprintf("fault-status:%s:got%d", cause, codeX), fmt.Sprintf("get-entries(%d,%d): a leaf that cannot be fixed (%s) answered %d, expected 5xx", from, to, cause, codeX))
			default:
				rep.Add("paging_pages_refused_"+strings.SplitN(cause, ":", 2)[0], 1)
				// the lookups that succeeded before the failure have started their detached writes: which, depends on the
				// order of the per-leaf work; they wait at the gate and are judged like any other
				settle(n, before, "after-failed-page")
			}
		case "Read":
			i := s.Args.Index
			codeD, leafD, extraD, errD := readEntry(tw.d, s.Args.Via, i, beh.Tree)
			if errD != nil || codeD != 200 {
				viol(n, "direct-read:"+s.Args.Via, fmt.Sprintf("the default-mode instance did not serve stored entry %d (tree size %d): status %d %v", i, beh.Tree, codeD, errD))
				continue
			}
			before := tw.gate.Waiting()
			m0 := tw.rec.mark()
			codeX, leafX, extraX, errX := readEntryCtx(context.Background(), tw, s.Args.Via, i, beh.Tree)
			finds := len(tw.rec.since(m0, "find"))
			_, chain, _ := leafAt(i)
			switch {
			case errX != nil && codeX == 0:
				viol(n, "read:panic:"+s.Args.Via, errX.Error())
			case s.Reply.Status == 200 && codeX != 200:
				viol(n, fmt.Sprintf("read:status:%s:%s:got%d", s.Args.Via, chain, codeX), fmt.Sprintf("reading index %d (%s) with external chain storage answered %d, the direct mode serves it", i, s.Args.Via, codeX))
			case codeX == 200 && (!bytes.Equal(leafX, leafD) || !bytes.Equal(extraX, extraD)):
				viol(n, fmt.Sprintf("read:differs:%s:%s", s.Args.Via, chain), fmt.Sprintf("index %d (%s): extra_data served with external chain storage (%d bytes, %s) differs from the direct mode (%d bytes)", i, s.Args.Via, len(extraX), extraForm(extraX), len(extraD)))
			case s.Reply.Status != 200 && codeX == 200:
				unmodelled = true
			case s.Reply.Status != 200 && codeX < 500:
				viol(n, fmt.Sprintf("read:fault-status:%s:got%d", s.Args.Via, codeX), fmt.Sprintf("index %d: damaged / missing stored chain answered %d, expected 5xx", i, codeX))
			case s.Reply.Status == 200:
				settle(n, before+finds, "after-read")
				if !diverged && !unmodelled && finds != s.Reply.Finds {
					viol(n, fmt.Sprintf("read:find-calls:%s:want=%d", s.Args.Via, s.Reply.Finds), fmt.Sprintf("index %d (%s): storage.FindByKey called %d times, specification says %d (cache capacity %d)", i, s.Args.Via, finds, s.Reply.Finds, beh.Cap))
				}
				rep.Add("paging_single_reads_"+s.Args.Via, 1)
			}
		case "Fire":
			key, ok := tw.keys[s.Args.Chain]
			if !ok {
				infra("Fire of chain %s that was never stored", s.Args.Chain)
				return
			}
			if tw.gate.FireKey(key) == 0 { // (the response that looked the chain up has waited for its writes to arrive)
				viol(n, "fire:missing", "the specification expects detached cache writes for chain "+s.Args.Chain+" (looked up by a response that was served) but none waits at the gate")
			}
		case "DropRow":
			tw.damage(s.Args.Chain, "drop", 0)
		case "Corrupt":
			tw.damage(s.Args.Chain, s.Args.Class, idx+n)
		case "Repair":
			tw.store.setRow(tw.keys[s.Args.Chain], append([]byte{}, tw.vals[s.Args.Chain]...))
		case "Restart":
			if err := pr.restart(); err != nil {
				infra("restart: %v", err)
				return
			}
		}
	}
	key := ""
	if len(classes) >= 3 {
		ks := []string{}
		for k := range classes {
			ks = append(ks, k)
		}
		key = fmt.Sprintf("%s:cap%d:%s", tw.dialect, beh.Cap, strings.Join(sortedStrings(ks), ","))
	}
	rep.Eval(key)
}

// TestChainStorePaging replays MCChainStorePaging.tla behaviours: twin instances over a long tree, get-entries
// responses of every length class at aligned and unaligned starts, up to and over the head of the tree and the limit.
func TestChainStorePaging(t *testing.T) {
	path := os.Getenv("VERIF_BEHAVIOURS")
	if path == "" {
		t.Skip("VERIF_BEHAVIOURS not set")
	}
	behs, err := vh.LoadNDJSON[PGBehaviour](path)
	if err != nil {
		t.Fatal(err)
	}
	rep := vh.NewReport("cctfe-chainstore-paging", "behaviours of ChainStorePaging.tla replayed on two real instances (direct and external chain storage: in-memory stand-in / the repository's MySQL / PostgreSQL IssuanceChainStorage on the in-process database; noop cache, LRU without bound, LRU of one entry, behind the gate) over a long tree (entry types x four issuance chains incl. the empty one x hash / legacy full-chain layout in a period of 9, every leaf in hash form submitted through add-chain / add-pre-chain): get-entries responses of the length classes around the powers of two and multiples of four (+-1..3), round sizes, the limit and beyond, at aligned and unaligned starts, ending at and running over the head of the tree, meeting cold, partly warm and warm caches, lost / damaged rows, a storage fault, a leaf the backend returns garbled at the first / second / middle / last positions; EVERY entry of every response compared byte for byte with the direct mode, the number of entries and of storage lookups with the specification; single reads over both read endpoints anywhere in the tree; non-trivial = behaviour with responses of at least 3 length classes served")
	if len(behs) == 0 {
		t.Fatal("no behaviours")
	}
	for _, b := range behs {
		if b.MaxPage != behs[0].MaxPage {
			t.Fatal("behaviours of different get-entries limits in one run")
		}
	}
	defer func(old int64) { ctfe.MaxGetEntriesAllowed = old }(ctfe.MaxGetEntriesAllowed)
	ctfe.MaxGetEntriesAllowed = int64(behs[0].MaxPage)
	dir := t.TempDir()
	var wg sync.WaitGroup
	sem := make(chan struct{}, runtime.NumCPU())
	for i := range behs {
		sem <- struct{}{}
		wg.Add(1)
		go func(i int) {
			defer wg.Done()
			defer func() { <-sem }()
			runPaging(t, behs[i], i, rep, dir)
		}(i)
	}
	wg.Wait()
	rep.Replayed = len(behs)
	rep.Sample(map[string]any{"cap": behs[0].Cap, "dialect": behs[0].Dialect, "tree": behs[0].Tree, "steps": behs[0].Steps})
	if err := rep.Write(); err != nil {
		t.Fatal(err)
	}
}
