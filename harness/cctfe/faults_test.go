package cctfe

import (
	"crypto/sha256"
	"encoding/binary"
	"encoding/json"
	"errors"
	"fmt"
	"net/url"
	"os"
	"strconv"
	"strings"
	"testing"

	ct "github.com/google/certificate-transparency-go"
	"github.com/google/certificate-transparency-go/trillian/ctfe"
	"github.com/google/trillian"
	"github.com/google/trillian/types"
	"google.golang.org/grpc/codes"
	"google.golang.org/grpc/status"
	"google.golang.org/protobuf/proto"

	"verifharness/ctfeenv"
	"verifharness/ref"
	"verifharness/vh"
)

// FaultCase mirrors a case of CTFEFaults.tla.
type FaultCase struct {
	C struct {
		T     string `json:"t"`
		Ep    string `json:"ep"`
		Fault struct {
			Kind  string `json:"kind"`
			Code  int    `json:"code"`
			Class string `json:"class"`
			Echo  *Echo  `json:"echo"`
			// a get-proof-by-hash reply described proof by proof (CTFEFaults!ProofLists)
			Proofs []ProofDesc `json:"proofs"`
			// get-entry-and-proof: the request shape the absent part is crossed with (CTFEFaults!EntryShapes)
			Shape *EntryShape `json:"shape"`
		} `json:"fault"`
		Pos   int    `json:"pos"`
		Mask  bool   `json:"mask"`
		Class string `json:"class"`
		// the method token of a wrongMethodToken case (CTFEFaults!MethodTokens)
		Method string `json:"method"`
		// the configured InstanceOptions.ErrorMapper (CTFEFaults!Mappers; "" = none) and what it says to the injected
		// error (0: it declines / there is none)
		Mapper string `json:"mapper"`
		Mapped int    `json:"mapped"`
	} `json:"c"`
	Expect string `json:"expect"`
}

// Echo mirrors an element of CTFEFaults!Echoes: the leaf QueueLeaf echoes, field by field.
type Echo struct {
	Version   int    `json:"version"`
	LeafType  int    `json:"leafType"`
	EntryType int    `json:"entryType"`
	Len       string `json:"len"`
	Ext       string `json:"ext"`
	Body      string `json:"body"`
}

// EntryShape mirrors an element of CTFEFaults!EntryShapes: the (leaf_index, tree_size) of a get-entry-and-proof request.
type EntryShape struct {
	Leaf int `json:"leaf"`
	Size int `json:"size"`
}

// Name is the stable description of a shape: which leaf of what kind of tree (the numbers themselves do not matter).
func (s *EntryShape) Name() string {
	leaf, tree := "later-leaf", "larger-tree"
	if s.Leaf == 0 {
		leaf = "first-leaf"
	}
	if s.Size == 1 {
		tree = "single-leaf-tree"
	}
	return leaf + "," + tree
}

// methodTokenName is the stable description of a wrong method token.
func methodTokenName(ep, tok string) string {
	right := "GET"
	if strings.HasPrefix(ep, "add-") {
		right = "POST"
	}
	switch {
	case strings.ToUpper(tok) == right:
		return "case-variant-of-own-method"
	case tok != strings.ToUpper(tok):
		return "case-variant-of-other-method"
	case tok == "GET" || tok == "POST":
		return "other-ct-method"
	}
	return "other-standard-method"
}

// ProofDesc mirrors one proof of CTFEFaults!ProofList: the leaf index it is for, whether (and how) one of its nodes has
// the wrong size, and which node.
type ProofDesc struct {
	Idx int    `json:"idx"`
	Bad string `json:"bad"` // none, size31, size33, empty
	At  string `json:"at"`  // first, last
}

// proofListName is the stable description of a proof list: how many proofs, which of them are malformed and how,
// whether a malformed one is the first, and whether one has the (strictly) lowest leaf index.
func proofListName(pl []ProofDesc) string {
	bad, kind, at := "", "", ""
	lowest, lowestBad, lowestUnique := 0, false, true
	for i, p := range pl {
		if p.Bad != "none" {
			bad += fmt.Sprint(i + 1)
			kind, at = p.Bad, p.At
		}
		switch {
		case i == 0 || p.Idx < pl[lowest].Idx:
			lowest, lowestBad, lowestUnique = i, p.Bad != "none", true
		case p.Idx == pl[lowest].Idx:
			lowestUnique = false
			lowestBad = lowestBad || p.Bad != "none"
		}
	}
	order := "equal-indices"
	if len(pl) > 1 && pl[0].Idx < pl[1].Idx {
		order = "ascending"
	} else if len(pl) > 1 && pl[0].Idx > pl[1].Idx {
		order = "descending"
	} else if len(pl) == 1 {
		order = "single"
	}
	if bad == "" {
		return fmt.Sprintf("n=%d,%s,none-malformed", len(pl), order)
	}
	name := fmt.Sprintf("n=%d,%s,malformed=%s,%s-node-%s", len(pl), order, bad, at, kind)
	if lowestBad && lowestUnique && lowest != 0 {
		name += ",lowest-index-proof-malformed-not-first"
	}
	return name
}

// proofList writes the proofs a description stands for: genuine audit paths of the backend's tree for the described
// leaf indices at the requested tree size, one node of a malformed proof cut to 31 octets, grown to 33 or emptied.
func proofList(pl []ProofDesc, tree *ref.Tree, size int) []*trillian.Proof {
	var out []*trillian.Proof
	for _, d := range pl {
		var hashes [][]byte
		for _, h := range tree.Inclusion(d.Idx, size) {
			hashes = append(hashes, append([]byte{}, h...))
		}
		if len(hashes) < 2 {
			panic("harness: audit path too short to tell its first node from its last")
		}
		k := 0
		if d.At == "last" {
			k = len(hashes) - 1
		}
		switch d.Bad {
		case "none":
		case "size31":
			hashes[k] = hashes[k][:31]
		case "size33":
			hashes[k] = append(hashes[k], 0x5a)
		case "empty":
			hashes[k] = []byte{}
		default:
			panic("harness: unknown malformed node " + d.Bad)
		}
		out = append(out, &trillian.Proof{LeafIndex: int64(d.Idx), Hashes: hashes})
	}
	return out
}

// servedProof judges a 200 answer of get-proof-by-hash to a reply with the described proofs: every node of the
// audit_path has 32 octets, and (leaf_index, audit_path) is one well-formed proof of the reply.
func servedProof(body []byte, pl []ProofDesc, sent []*trillian.Proof) (clause, msg string) {
	var pr ct.GetProofByHashResponse
	if err := json.Unmarshal(body, &pr); err != nil {
		return "200-not-json", "the 200 answer does not decode: " + err.Error()
	}
	for i, h := range pr.AuditPath {
		if len(h) != sha256.Size {
			return "200-malformed-audit-path", fmt.Sprintf("200 answer (leaf_index %d) whose audit_path[%d] has %d octets", pr.LeafIndex, i, len(h))
		}
	}
	for i, p := range sent {
		if pl[i].Bad != "none" || p.LeafIndex != pr.LeafIndex || len(p.Hashes) != len(pr.AuditPath) {
			continue
		}
		same := true
		for j := range p.Hashes {
			same = same && string(p.Hashes[j]) == string(pr.AuditPath[j])
		}
		if same {
			return "", ""
		}
	}
	return "200-not-a-proof-of-the-reply", fmt.Sprintf("200 answer (leaf_index %d, %d nodes) is none of the well-formed proofs the backend sent", pr.LeafIndex, len(pr.AuditPath))
}

// The ErrorMappers of CTFEFaults!Mappers.  mapperSays is the table (0: declines); errorMapper the function configured.
func mapperSays(name string, code int) int {
	switch name {
	case "partial":
		switch codes.Code(code) {
		case codes.NotFound:
			return 410
		case codes.Aborted:
			return 503
		case codes.Internal:
			return 502
		}
	case "total":
		switch codes.Code(code) {
		case codes.Canceled, codes.DeadlineExceeded:
			return 504
		case codes.ResourceExhausted:
			return 429
		case codes.Unavailable:
			return 503
		case codes.InvalidArgument, codes.NotFound, codes.AlreadyExists, codes.PermissionDenied, codes.FailedPrecondition,
			codes.Aborted, codes.OutOfRange, codes.Unauthenticated:
			return 422
		}
		return 502
	}
	return 0
}

const plainErrorCode = 17 // CTFEFaults!Codes: an error that carries no gRPC status

func errorMapper(name string) func(error) (int, bool) {
	if name == "" || name == "none" {
		return nil
	}
	return func(err error) (int, bool) {
		code := plainErrorCode
		if st, ok := status.FromError(err); ok {
			code = int(st.Code())
		}
		if s := mapperSays(name, code); s != 0 {
			return s, true
		}
		return 0, false
	}
}

// Deviations names the ways in which the description is not a v1 MerkleTreeLeaf (the stable part of a fingerprint:
// which honest values surround the deviation does not matter to it).
func (e *Echo) Deviations() string {
	var d []string
	if e.Version != 0 {
		d = append(d, "version-not-v1")
	}
	if e.LeafType != 0 {
		d = append(d, "unknown-leaf-type")
		if e.Body == "absent" {
			d = append(d, "nothing-after-leaf-type")
		}
	}
	switch e.EntryType {
	case 0, 1:
	case 32768:
		d = append(d, "json-entry-type")
	default:
		d = append(d, "unknown-entry-type")
	}
	if e.Len == "zero" {
		switch e.EntryType {
		case 0:
			d = append(d, "zero-length-certificate")
		case 1:
			d = append(d, "zero-length-tbs")
		default:
			d = append(d, "zero-length-entry")
		}
	}
	return strings.Join(d, "+")
}

func (e *Echo) String() string {
	return fmt.Sprintf("version=%d,leaf_type=%d,entry_type=%d,len=%s,ext=%s,body=%s", e.Version, e.LeafType, e.EntryType, e.Len, e.Ext, e.Body)
}

// echoLeaf writes the MerkleTreeLeaf a description stands for with the RFC 5246 primitives of harness/ref: every
// length prefix is honoured and nothing follows the last field.  Timestamp and the octets of the certificate /
// TBSCertificate vector (for len = own) are those of the honest leaf the backend would have echoed; a precert arm
// under an honest x509 leaf takes the SHA-256 of those octets as its issuer_key_hash.
func echoLeaf(e *Echo, honest []byte) ([]byte, error) {
	if len(honest) < 15 || honest[0] != 0 || honest[1] != 0 {
		return nil, fmt.Errorf("honest echoed leaf is not a v1 timestamped entry")
	}
	ts, htype, rest := honest[2:10], binary.BigEndian.Uint16(honest[10:12]), honest[12:]
	var ikh []byte
	if htype == 1 {
		if len(rest) < 35 {
			return nil, fmt.Errorf("honest precert leaf too short")
		}
		ikh, rest = rest[:32], rest[32:]
	}
	n := int(rest[0])<<16 | int(rest[1])<<8 | int(rest[2])
	if htype > 1 || n == 0 || len(rest) != 3+n+2 {
		return nil, fmt.Errorf("honest echoed leaf has an unexpected layout")
	}
	body := rest[3 : 3+n]
	if ikh == nil {
		h := sha256.Sum256(body)
		ikh = h[:]
	}
	out := ref.Cat(ref.U(uint64(e.Version), 1), ref.U(uint64(e.LeafType), 1))
	if e.Body == "absent" {
		return out, nil
	}
	if e.Len == "zero" {
		body = nil
	}
	var ext []byte
	if e.Ext == "some" {
		ext = []byte{0xca, 0xfe, 0x01}
	}
	out = ref.Cat(out, ts, ref.U(uint64(e.EntryType), 2))
	if e.EntryType == 1 {
		out = ref.Cat(out, ikh)
	}
	return ref.Cat(out, ref.Vec(body, 3), ref.Vec(ext, 2)), nil
}

func garbleRoot(size uint64, hashLen int) *trillian.SignedLogRoot {
	r := types.LogRootV1{TreeSize: size, RootHash: make([]byte, hashLen), TimestampNanos: 1}
	b, _ := r.MarshalBinary()
	return &trillian.SignedLogRoot{LogRoot: b}
}

// inject turns the honest reply into the fault of the case.
func inject(fc *FaultCase, req, rsp proto.Message, be *ctfeenv.Backend) (proto.Message, error) {
	f := fc.C.Fault
	if f.Kind == "code" {
		if f.Code == plainErrorCode {
			return nil, errors.New("injected backend fault without a gRPC status")
		}
		return nil, status.Error(codes.Code(f.Code), "injected backend fault")
	}
	switch r := rsp.(type) {
	case *trillian.QueueLeafResponse:
		switch f.Class {
		case "nilQueuedLeaf":
			r.QueuedLeaf = nil
		case "queuedLeafWithoutLeaf":
			r.QueuedLeaf.Leaf = nil
		case "echoedLeafUndecodable":
			r.QueuedLeaf.Leaf.LeafValue = []byte{0, 0, 1, 2, 3}
		case "echoedLeafTrailing":
			r.QueuedLeaf.Leaf.LeafValue = append(r.QueuedLeaf.Leaf.LeafValue, 0)
		case "echoedLeafEmpty":
			r.QueuedLeaf.Leaf.LeafValue = nil
		case "echoedLeafFields":
			lv, err := echoLeaf(f.Echo, r.QueuedLeaf.Leaf.LeafValue)
			if err != nil {
				panic("harness: " + err.Error())
			}
			r.QueuedLeaf.Leaf.LeafValue = lv
		default:
			panic("harness: unknown malformed QueueLeaf class " + f.Class)
		}
	case *trillian.GetLatestSignedLogRootResponse:
		switch f.Class {
		case "noRoot":
			r.SignedLogRoot = nil
		case "garbledRoot":
			r.SignedLogRoot = &trillian.SignedLogRoot{LogRoot: []byte{0, 1, 2}}
		case "rootHashSize31":
			r.SignedLogRoot = garbleRoot(5, 31)
		case "rootHashSize33":
			r.SignedLogRoot = garbleRoot(5, 33)
		case "rootHashEmpty":
			r.SignedLogRoot = garbleRoot(5, 0)
		}
	case *trillian.GetConsistencyProofResponse:
		switch f.Class {
		case "noRoot":
			r.SignedLogRoot = nil
		case "garbledRoot":
			r.SignedLogRoot = &trillian.SignedLogRoot{LogRoot: []byte{0, 1, 2}}
		case "treeSmaller":
			r.SignedLogRoot, r.Proof = garbleRoot(3, 32), nil
		case "nilProof":
			r.Proof = nil
		case "proofHashSize31":
			r.Proof.Hashes[0] = r.Proof.Hashes[0][:31]
		case "proofHashSize33":
			r.Proof.Hashes[0] = append(append([]byte{}, r.Proof.Hashes[0]...), 0x5a)
		case "proofHashEmpty":
			r.Proof.Hashes[0] = nil
		}
	case *trillian.GetInclusionProofByHashResponse:
		switch f.Class {
		case "noRoot":
			r.SignedLogRoot = nil
		case "garbledRoot":
			r.SignedLogRoot = &trillian.SignedLogRoot{LogRoot: []byte{0, 1, 2}}
		case "treeSmaller":
			r.SignedLogRoot, r.Proof = garbleRoot(3, 32), nil
		case "emptyProofList":
			r.Proof = nil
		case "proofHashSize31":
			r.Proof[0].Hashes[0] = r.Proof[0].Hashes[0][:31]
		case "proofHashEmpty":
			r.Proof[0].Hashes[0] = nil
		case "proofList":
			r.Proof = proofList(f.Proofs, be.Tree(), int(req.(*trillian.GetInclusionProofByHashRequest).TreeSize))
		}
	case *trillian.GetLeavesByRangeResponse:
		switch f.Class {
		case "noRoot":
			r.SignedLogRoot = nil
		case "garbledRoot":
			r.SignedLogRoot = &trillian.SignedLogRoot{LogRoot: []byte{0, 1, 2}}
		case "treeSmaller":
			r.SignedLogRoot, r.Leaves = garbleRoot(1, 32), nil
		case "surplusLeaves":
			extra := proto.Clone(r.Leaves[len(r.Leaves)-1]).(*trillian.LogLeaf)
			extra.LeafIndex++
			r.Leaves = append(r.Leaves, extra)
		case "misIndexedLeaf":
			r.Leaves[1].LeafIndex += 7
		}
	case *trillian.GetEntryAndProofResponse:
		switch f.Class {
		case "noRoot":
			r.SignedLogRoot = nil
		case "garbledRoot":
			r.SignedLogRoot = &trillian.SignedLogRoot{LogRoot: []byte{0, 1, 2}}
		case "treeSmaller":
			r.SignedLogRoot, r.Proof, r.Leaf = garbleRoot(3, 32), nil, nil
		case "nilLeaf":
			r.Leaf = nil
		case "emptyLeafValue":
			r.Leaf.LeafValue = nil
		case "nilProof":
			r.Proof = nil
		case "emptyProofHashes":
			r.Proof.Hashes = nil
		}
	}
	return rsp, nil
}

func inClass(code int, class string) bool {
	if n, err := strconv.Atoi(class); err == nil {
		return code == n // an exact status: 429 / 503 / 504 of the property's table, or the configured mapper's word
	}
	switch class {
	case "4xx", "4xx-nobackend":
		return code >= 400 && code <= 499 && code != 429 && code != 408
	case "5xx":
		return code >= 500 && code <= 599 && code != 503 && code != 504
	}
	return false
}

type faultWorld struct {
	w      *World
	valid  map[string]func() (int, []byte, error)
	method map[string]string
}

func newFaultWorld(t *testing.T, mask bool, mapper string) *faultWorld {
	ids := []string{"p1", "p2", "x1", "x2", "x3"}
	w, err := NewWorld(t.TempDir(), ids, map[string]bool{"p1": true, "p2": true}, "p256", vh.Rand(11), ctfeenv.Opts{Mask: mask,
		InstOptsMod: func(io *ctfe.InstanceOptions) { io.ErrorMapper = errorMapper(mapper) }})
	if err != nil {
		t.Fatal(err)
	}
	env := w.Env
	for _, id := range ids {
		s := w.Subs[id]
		if code, _, body, err := env.AddChain(s.Chain, s.Pre); err != nil || code != 200 {
			t.Fatalf("add-chain %s: %d %v %s", id, code, err, body)
		}
	}
	env.Backend.Sequence(5, w.Nanos(1, 0), nil)
	fw := &faultWorld{w: w, valid: map[string]func() (int, []byte, error){}}
	do := func(path string, qv url.Values) func() (int, []byte, error) {
		return func() (int, []byte, error) { c, b, _, err := env.Do("GET", path, qv, nil); return c, b, err }
	}
	fw.valid["add-chain"] = func() (int, []byte, error) {
		c, _, b, err := env.AddChain(w.Subs["x1"].Chain, false)
		return c, b, err
	}
	fw.valid["add-pre-chain"] = func() (int, []byte, error) {
		c, _, b, err := env.AddChain(w.Subs["p1"].Chain, true)
		return c, b, err
	}
	fw.valid["get-sth"] = do(ct.GetSTHPath, nil)
	fw.valid["get-sth-consistency"] = do(ct.GetSTHConsistencyPath, q("first", 2, "second", 4))
	fw.valid["get-proof-by-hash"] = do(ct.GetProofByHashPath, q("hash", w.Subs["p2"].LeafHashAt(w.Ms(0)), "tree_size", 4))
	fw.valid["get-entries"] = do(ct.GetEntriesPath, q("start", 1, "end", 3))
	fw.valid["get-entry-and-proof"] = do(ct.GetEntryAndProofPath, q("leaf_index", 1, "tree_size", 4))
	fw.valid["get-roots"] = do(ct.GetRootsPath, nil)
	return fw
}

var epPath = map[string]string{"add-chain": ct.AddChainPath, "add-pre-chain": ct.AddPreChainPath, "get-sth": ct.GetSTHPath,
	"get-sth-consistency": ct.GetSTHConsistencyPath, "get-proof-by-hash": ct.GetProofByHashPath, "get-entries": ct.GetEntriesPath,
	"get-roots": ct.GetRootsPath, "get-entry-and-proof": ct.GetEntryAndProofPath}

// badRequest renders a parameter class of CTFEFaults.tla.
func badRequest(w *World, ep, class string) (method, rawQuery string, body []byte) {
	method = "GET"
	if strings.HasPrefix(ep, "add-") {
		method = "POST"
		chain := w.Subs["x1"].Chain
		if ep == "add-pre-chain" {
			chain = w.Subs["p1"].Chain
		}
		body, _ = json.Marshal(ct.AddChainRequest{Chain: chain})
	}
	hash := url.QueryEscape(ctfeenv.B64(w.Subs["p2"].LeafHashAt(w.Ms(0))))
	valid := map[string]string{
		"get-sth-consistency": "first=2&second=4", "get-proof-by-hash": "hash=" + hash + "&tree_size=4",
		"get-entries": "start=1&end=3", "get-entry-and-proof": "leaf_index=1&tree_size=4",
	}
	rawQuery = valid[ep]
	const over = "9223372036854775808"
	switch class {
	case "wrongMethodToken":
		method = "" // the caller sets the token of the case; query / body stay the valid ones
	case "wrongMethod":
		if method == "GET" {
			method = "POST"
		} else {
			method = "GET"
		}
	case "badEscape":
		if rawQuery != "" {
			rawQuery += "&"
		}
		rawQuery += "x=%zz"
	case "semicolonSeparator":
		if rawQuery != "" {
			rawQuery += "&"
		}
		rawQuery += "x=a;b"
	case "notJSON":
		body = []byte("this is not json")
	case "emptyObject":
		body = []byte("{}")
	case "emptyBody":
		body = []byte{}
	case "truncatedJSON":
		body = body[:len(body)-2]
	case "jsonThenGarbage":
		body = append(body, []byte(" trailing-garbage")...)
	case "jsonTwice":
		body = append(append(body, '\n'), body...)
	case "nullChain":
		body = []byte(`{"chain":null}`)
	case "chainWrongType":
		body = []byte(`{"chain":"` + ctfeenv.B64(w.Subs["x1"].Chain[0]) + `"}`)
	case "chainElementNumber":
		body = []byte(`{"chain":[1,2]}`)
	case "emptyChain":
		body = []byte(`{"chain":[]}`)
	case "chainNotBase64":
		body = []byte(`{"chain":["!!!not-base64!!!"]}`)
	case "garbageCert":
		body, _ = json.Marshal(ct.AddChainRequest{Chain: [][]byte{[]byte("garbage that is not DER")}})
	case "trailingJunkCert":
		c := w.Subs["x1"].Chain
		if ep == "add-pre-chain" {
			c = w.Subs["p1"].Chain
		}
		cc := append([][]byte{append(append([]byte{}, c[0]...), 0, 0)}, c[1:]...)
		body, _ = json.Marshal(ct.AddChainRequest{Chain: cc})
	case "missingFirst":
		rawQuery = "second=4"
	case "missingSecond":
		rawQuery = "first=2"
	case "emptyFirst":
		rawQuery = "first=&second=4"
	case "negativeFirst":
		rawQuery = "first=-1&second=4"
	case "negativeSecond":
		rawQuery = "first=2&second=-4"
	case "overflowSecond":
		rawQuery = "first=2&second=" + over
	case "nonNumericFirst":
		rawQuery = "first=two&second=4"
	case "firstGreaterThanSecond":
		rawQuery = "first=4&second=2"
	case "missingHash":
		rawQuery = "tree_size=4"
	case "emptyHash":
		rawQuery = "hash=&tree_size=4"
	case "badBase64Hash":
		rawQuery = "hash=%21%21notbase64&tree_size=4"
	case "missingTreeSize":
		if ep == "get-proof-by-hash" {
			rawQuery = "hash=" + hash
		} else {
			rawQuery = "leaf_index=1"
		}
	case "zeroTreeSize":
		if ep == "get-proof-by-hash" {
			rawQuery = "hash=" + hash + "&tree_size=0"
		} else {
			rawQuery = "leaf_index=0&tree_size=0"
		}
	case "negativeTreeSize":
		if ep == "get-proof-by-hash" {
			rawQuery = "hash=" + hash + "&tree_size=-4"
		} else {
			rawQuery = "leaf_index=1&tree_size=-4"
		}
	case "overflowTreeSize":
		if ep == "get-proof-by-hash" {
			rawQuery = "hash=" + hash + "&tree_size=" + over
		} else {
			rawQuery = "leaf_index=1&tree_size=" + over
		}
	case "nonNumericTreeSize":
		rawQuery = "hash=" + hash + "&tree_size=four"
	case "missingStart":
		rawQuery = "end=3"
	case "missingEnd":
		rawQuery = "start=1"
	case "negativeStart":
		rawQuery = "start=-1&end=3"
	case "negativeEnd":
		rawQuery = "start=1&end=-3"
	case "overflowEnd":
		rawQuery = "start=1&end=" + over
	case "nonNumericStart":
		rawQuery = "start=one&end=3"
	case "startGreaterThanEnd":
		rawQuery = "start=3&end=1"
	case "missingIndex":
		rawQuery = "tree_size=4"
	case "negativeIndex":
		rawQuery = "leaf_index=-1&tree_size=4"
	case "nonNumericIndex":
		rawQuery = "leaf_index=one&tree_size=4"
	case "indexNotBelowTreeSize":
		rawQuery = "leaf_index=4&tree_size=4"
	default:
		panic("unknown parameter class " + class)
	}
	return
}

// TestFaults replays the complete matrix of CTFEFaults.tla.
func TestFaults(t *testing.T) {
	path := os.Getenv("VERIF_CASES")
	if path == "" {
		t.Skip("VERIF_CASES not set")
	}
	cases, err := vh.LoadNDJSON[FaultCase](path)
	if err != nil {
		t.Fatal(err)
	}
	rep := vh.NewReport("cctfe-faults", "complete matrix of CTFEFaults.tla: endpoint x backend RPC x (16 gRPC codes and an error without a gRPC status, each under no / an all-declining / a partial / a total InstanceOptions.ErrorMapper; malformed-reply classes incl. get-proof-by-hash replies of 1-3 proofs with ascending / descending / equal leaf indices and any subset of them malformed) and get-entry-and-proof replies with an absent part x the request shape (first / later / last leaf of a tree of 1, 2, 4, 5 leaves) x fault position in a three-request sequence x masking, and endpoint x bad-parameter class incl. every wrong method TOKEN (other standard methods and the letter-case variants of GET and POST); executed on a real instance whose backend replies are rewritten by an interceptor; non-trivial = distinct (endpoint, fault or parameter class, expected status class)")
	// one instance per configuration: masking on / off x the configured ErrorMapper
	worlds := map[string]*faultWorld{}
	for i := range cases {
		fc := &cases[i]
		c := fc.C
		if c.Mapper == "" {
			c.Mapper = "none"
		}
		wk := fmt.Sprint(c.Mask, "/", c.Mapper)
		if worlds[wk] == nil {
			worlds[wk] = newFaultWorld(t, c.Mask, c.Mapper)
		}
		fw := worlds[wk]
		if c.T == "fault" && c.Fault.Kind == "code" && c.Mapped != mapperSays(c.Mapper, c.Fault.Code) {
			t.Fatalf("harness: mapper %s says %d to code %d, the specification's says %d", c.Mapper, mapperSays(c.Mapper, c.Fault.Code), c.Fault.Code, c.Mapped)
		}
		env, be := fw.w.Env, fw.w.Env.Backend
		if c.T == "param" {
			method, raw, body := badRequest(fw.w, c.Ep, c.Class)
			fp := fmt.Sprintf("param:%s:%s", c.Ep, c.Class)
			tokNote := ""
			if c.Class == "wrongMethodToken" {
				if c.Method == "" {
					t.Fatalf("harness: wrongMethodToken case without a token: %+v", c)
				}
				method = c.Method
				fp += "(" + methodTokenName(c.Ep, c.Method) + ")"
				tokNote = " (method token " + strconv.Quote(c.Method) + ")"
			}
			n0 := be.NumCalls()
			nrec := len(env.ReqLog.Recs)
			code, rbody, err := env.DoRaw(method, epPath[c.Ep], raw, body)
			if err != nil {
				rep.Violate(fp+":panic", err.Error(), fc)
			} else if !inClass(code, "4xx") || be.NumCalls() != n0 {
				rep.Violate(fp, fmt.Sprintf("%s with %s%s: expected 4xx before any backend call, got %d with %d backend calls: %s", c.Ep, c.Class, tokNote, code, be.NumCalls()-n0, rbody), fc)
			}
			for _, r := range env.ReqLog.Recs[nrec:] {
				if len(r.SCTs) > 0 {
					rep.Violate(fp+":sct", "an SCT was recorded as issued for a rejected request", fc)
				}
			}
			rep.Eval(fp)
			continue
		}
		fname := c.Fault.Class
		if c.Fault.Kind == "code" {
			fname = codes.Code(c.Fault.Code).String()
			if c.Fault.Code == plainErrorCode {
				fname = "ErrorWithoutStatus"
			}
			if c.Mapper != "none" {
				// the configuration is part of the fault's name: which mapper, and whether it has an opinion on this error
				if c.Mapped != 0 {
					fname += fmt.Sprintf("[mapper=%s:says-%d]", c.Mapper, c.Mapped)
				} else {
					fname += fmt.Sprintf("[mapper=%s:declines]", c.Mapper)
				}
			}
		}
		if c.Fault.Class == "proofList" {
			fname += "(" + proofListName(c.Fault.Proofs) + ")"
		}
		request := fw.valid[c.Ep]
		if sh := c.Fault.Shape; sh != nil {
			// the absent part is crossed with the request: all three requests of the sequence have the case's shape
			fname += "(" + sh.Name() + ")"
			qv := q("leaf_index", sh.Leaf, "tree_size", sh.Size)
			request = func() (int, []byte, error) {
				c, b, _, err := env.Do("GET", ct.GetEntryAndProofPath, qv, nil)
				return c, b, err
			}
		}
		fdesc := fname
		if sh := c.Fault.Shape; sh != nil {
			fdesc = fmt.Sprintf("%s(leaf_index=%d,tree_size=%d)", c.Fault.Class, sh.Leaf, sh.Size)
		}
		if c.Fault.Echo != nil {
			fname += "(" + c.Fault.Echo.Deviations() + ")"
			fdesc += "(" + c.Fault.Echo.String() + ")"
		}
		fp := fmt.Sprintf("fault:%s:%s", c.Ep, fname)
		seen := 0
		var sentProofs []*trillian.Proof
		be.Intercept = func(seq int, method string, req, rsp proto.Message, err error) (proto.Message, error) {
			seen++
			if seen == c.Pos {
				out, oerr := inject(fc, req, rsp, be)
				if r, ok := out.(*trillian.GetInclusionProofByHashResponse); ok {
					sentProofs = r.Proof
				}
				return out, oerr
			}
			return rsp, err
		}
		for k := 1; k <= 3; k++ {
			nrec := len(env.ReqLog.Recs)
			code, body, err := request()
			var rl *ctfeenv.ReqRecord
			if len(env.ReqLog.Recs) > nrec {
				rl = env.ReqLog.Recs[nrec]
			}
			if err != nil {
				rep.Violate(fp+":panic", fmt.Sprintf("%s with backend fault %s: %v", c.Ep, fdesc, err), fc)
				continue
			}
			if k != c.Pos {
				if code != 200 {
					rep.Violate(fp+":neighbour-request-failed", fmt.Sprintf("request %d of the sequence (no fault injected, fault at %d) answered %d: %s", k, c.Pos, code, body), fc)
				}
				continue
			}
			if fc.Expect == "unasserted" {
				// a named clause of the specification: the status is recorded, not judged; what holds for every outcome is
				rep.Add(fmt.Sprintf("unasserted %s %s -> %d", c.Ep, fname, code), 1)
				if code == 200 {
					if rl != nil && (len(rl.Statuses) != 1 || rl.Statuses[0] != code) {
						rep.Violate(fp+":requestlog-status", fmt.Sprintf("RequestLog.Status %v for HTTP %d", rl.Statuses, code), fc)
					}
					continue
				}
			} else if fc.Expect == "5xx-or-wellformed" {
				// named clause ServedProofUnasserted: 5xx, or one well-formed proof of the reply
				if code == 200 {
					rep.Add(fmt.Sprintf("proof list %s -> 200", proofListName(c.Fault.Proofs)), 1)
					if clause, msg := servedProof(body, c.Fault.Proofs, sentProofs); clause != "" {
						rep.Violate(fp+":"+clause, fmt.Sprintf("%s with backend reply %s: %s", c.Ep, fdesc, msg), fc)
					}
					if rl != nil && (len(rl.Statuses) != 1 || rl.Statuses[0] != code) {
						rep.Violate(fp+":requestlog-status", fmt.Sprintf("RequestLog.Status %v for HTTP %d", rl.Statuses, code), fc)
					}
					continue
				}
				if !inClass(code, "5xx") {
					rep.Violate(fp+fmt.Sprintf(":want=5xx-or-a-well-formed-proof:got=%d", code), fmt.Sprintf("%s with backend reply %s: status %d: %s", c.Ep, fdesc, code, strings.TrimSpace(string(body))), fc)
				}
			} else if fc.Expect == "200" {
				// named clause SingleLeafEmptyPath: for tree_size = 1 the reply without proof hashes is the honest one
				if c.Fault.Shape == nil || c.Fault.Shape.Size != 1 || c.Fault.Class != "emptyProofHashes" {
					t.Fatalf("harness: the specification demands 200 for a case that is not SingleLeafEmptyPath: %+v", c)
				}
				var er ct.GetEntryAndProofResponse
				if code != 200 {
					rep.Violate(fp+fmt.Sprintf(":want=200:got=%d", code), fmt.Sprintf("%s with the honest reply %s: status %d: %s", c.Ep, fdesc, code, strings.TrimSpace(string(body))), fc)
				} else if err := json.Unmarshal(body, &er); err != nil || len(er.AuditPath) != 0 || len(er.LeafInput) == 0 {
					rep.Violate(fp+":200-not-the-single-leaf-answer", fmt.Sprintf("%s %s: 200 whose body is not (leaf_input, empty audit_path): %s", c.Ep, fdesc, body), fc)
				}
				if rl != nil && (len(rl.Statuses) != 1 || rl.Statuses[0] != code) {
					rep.Violate(fp+":requestlog-status", fmt.Sprintf("RequestLog.Status %v for HTTP %d", rl.Statuses, code), fc)
				}
				continue
			} else if !inClass(code, fc.Expect) {
				rep.Violate(fp+fmt.Sprintf(":want=%s:got=%d", fc.Expect, code), fmt.Sprintf("%s with backend fault %s: status %d, the property demands %s: %s", c.Ep, fdesc, code, fc.Expect, strings.TrimSpace(string(body))), fc)
			}
			if rl != nil {
				if len(rl.SCTs) > 0 {
					rep.Violate(fp+":sct-recorded", "RequestLog.IssueSCT was called although the request did not answer 200", fc)
				}
				if len(rl.Statuses) != 1 || rl.Statuses[0] != code {
					rep.Violate(fp+":requestlog-status", fmt.Sprintf("RequestLog.Status %v for HTTP %d", rl.Statuses, code), fc)
				}
			}
			if strings.Contains(string(body), `"signature"`) {
				rep.Violate(fp+":sct-in-body", "a failed submission response carries an SCT", fc)
			}
			if code == 500 {
				masked := string(body) == "Internal Server Error\n"
				if c.Mask && !masked {
					rep.Violate(fp+":mask", fmt.Sprintf("masking is enabled but the 500 response carries internal error text: %q", body), fc)
				}
				if !c.Mask && masked {
					rep.Violate(fp+":mask-off", "masking is disabled but the 500 response carries no error text", fc)
				}
			}
		}
		be.Intercept = nil
		rep.Eval(fmt.Sprintf("fault:%s:%s:%s", c.Ep, fdesc, fc.Expect))
		if len(rep.Samples) < 3 && c.Fault.Kind == "malformed" {
			rep.Sample(fc)
		}
	}
	rep.Replayed = len(cases)
	if err := rep.Write(); err != nil {
		t.Fatal(err)
	}
}
