package cctfe

import (
	"crypto/sha256"
	"encoding/binary"
	"encoding/json"
	"fmt"
	"net/url"
	"os"
	"strings"
	"testing"

	ct "github.com/google/certificate-transparency-go"
	"github.com/google/trillian"
	"github.com/google/trillian/types"
	"google.golang.org/grpc/codes"
	"google.golang.org/grpc/status"
	"google.golang.org/protobuf/proto"

	"verifharness/ctfeenv"
	"verifharness/ref"
	"verifharness/vh"
)

// FaultCase mirrors a case of CTFEFaults.tla.
type FaultCase struct {
	C struct {
		T     string `json:"t"`
		Ep    string `json:"ep"`
		Fault struct {
			Kind  string `json:"kind"`
			Code  int    `json:"code"`
			Class string `json:"class"`
			Echo  *Echo  `json:"echo"`
		} `json:"fault"`
		Pos   int    `json:"pos"`
		Mask  bool   `json:"mask"`
		Class string `json:"class"`
	} `json:"c"`
	Expect string `json:"expect"`
}

// Echo mirrors an element of CTFEFaults!Echoes: the leaf QueueLeaf echoes, field by field.
type Echo struct {
	Version   int    `json:"version"`
	LeafType  int    `json:"leafType"`
	EntryType int    `json:"entryType"`
	Len       string `json:"len"`
	Ext       string `json:"ext"`
	Body      string `json:"body"`
}

// Deviations names the ways in which the description is not a v1 MerkleTreeLeaf (the stable part of a fingerprint:
// which honest values surround the deviation does not matter to it).
func (e *Echo) Deviations() string {
	var d []string
	if e.Version != 0 {
		d = append(d, "version-not-v1")
	}
	if e.LeafType != 0 {
		d = append(d, "unknown-leaf-type")
		if e.Body == "absent" {
			d = append(d, "nothing-after-leaf-type")
		}
	}
	switch e.EntryType {
	case 0, 1:
	case 32768:
		d = append(d, "json-entry-type")
	default:
		d = append(d, "unknown-entry-type")
	}
	if e.Len == "zero" {
		switch e.EntryType {
		case 0:
			d = append(d, "zero-length-certificate")
		case 1:
			d = append(d, "zero-length-tbs")
		default:
			d = append(d, "zero-length-entry")
		}
	}
	return strings.Join(d, "+")
}

func (e *Echo) String() string {
	return fmt.Sprintf("version=%d,leaf_type=%d,entry_type=%d,len=%s,ext=%s,body=%s", e.Version, e.LeafType, e.EntryType, e.Len, e.Ext, e.Body)
}

// echoLeaf writes the MerkleTreeLeaf a description stands for with the RFC 5246 primitives of harness/ref: every
// length prefix is honoured and nothing follows the last field.  Timestamp and the octets of the certificate /
// TBSCertificate vector (for len = own) are those of the honest leaf the backend would have echoed; a precert arm
// under an honest x509 leaf takes the SHA-256 of those octets as its issuer_key_hash.
func echoLeaf(e *Echo, honest []byte) ([]byte, error) {
	if len(honest) < 15 || honest[0] != 0 || honest[1] != 0 {
		return nil, fmt.Errorf("honest echoed leaf is not a v1 timestamped entry")
	}
	ts, htype, rest := honest[2:10], binary.BigEndian.Uint16(honest[10:12]), honest[12:]
	var ikh []byte
	if htype == 1 {
		if len(rest) < 35 {
			return nil, fmt.Errorf("honest precert leaf too short")
		}
		ikh, rest = rest[:32], rest[32:]
	}
	n := int(rest[0])<<16 | int(rest[1])<<8 | int(rest[2])
	if htype > 1 || n == 0 || len(rest) != 3+n+2 {
		return nil, fmt.Errorf("honest echoed leaf has an unexpected layout")
	}
	body := rest[3 : 3+n]
	if ikh == nil {
		h := sha256.Sum256(body)
		ikh = h[:]
	}
	out := ref.Cat(ref.U(uint64(e.Version), 1), ref.U(uint64(e.LeafType), 1))
	if e.Body == "absent" {
		return out, nil
	}
	if e.Len == "zero" {
		body = nil
	}
	var ext []byte
	if e.Ext == "some" {
		ext = []byte{0xca, 0xfe, 0x01}
	}
	out = ref.Cat(out, ts, ref.U(uint64(e.EntryType), 2))
	if e.EntryType == 1 {
		out = ref.Cat(out, ikh)
	}
	return ref.Cat(out, ref.Vec(body, 3), ref.Vec(ext, 2)), nil
}

func garbleRoot(size uint64, hashLen int) *trillian.SignedLogRoot {
	r := types.LogRootV1{TreeSize: size, RootHash: make([]byte, hashLen), TimestampNanos: 1}
	b, _ := r.MarshalBinary()
	return &trillian.SignedLogRoot{LogRoot: b}
}

// inject turns the honest reply into the fault of the case.
func inject(fc *FaultCase, rsp proto.Message) (proto.Message, error) {
	f := fc.C.Fault
	if f.Kind == "code" {
		return nil, status.Error(codes.Code(f.Code), "injected backend fault")
	}
	switch r := rsp.(type) {
	case *trillian.QueueLeafResponse:
		switch f.Class {
		case "nilQueuedLeaf":
			r.QueuedLeaf = nil
		case "queuedLeafWithoutLeaf":
			r.QueuedLeaf.Leaf = nil
		case "echoedLeafUndecodable":
			r.QueuedLeaf.Leaf.LeafValue = []byte{0, 0, 1, 2, 3}
		case "echoedLeafTrailing":
			r.QueuedLeaf.Leaf.LeafValue = append(r.QueuedLeaf.Leaf.LeafValue, 0)
		case "echoedLeafEmpty":
			r.QueuedLeaf.Leaf.LeafValue = nil
		case "echoedLeafFields":
			lv, err := echoLeaf(f.Echo, r.QueuedLeaf.Leaf.LeafValue)
			if err != nil {
				panic("harness: " + err.Error())
			}
			r.QueuedLeaf.Leaf.LeafValue = lv
		default:
			panic("harness: unknown malformed QueueLeaf class " + f.Class)
		}
	case *trillian.GetLatestSignedLogRootResponse:
		switch f.Class {
		case "noRoot":
			r.SignedLogRoot = nil
		case "garbledRoot":
			r.SignedLogRoot = &trillian.SignedLogRoot{LogRoot: []byte{0, 1, 2}}
		case "rootHashSize31":
			r.SignedLogRoot = garbleRoot(5, 31)
		case "rootHashSize33":
			r.SignedLogRoot = garbleRoot(5, 33)
		case "rootHashEmpty":
			r.SignedLogRoot = garbleRoot(5, 0)
		}
	case *trillian.GetConsistencyProofResponse:
		switch f.Class {
		case "noRoot":
			r.SignedLogRoot = nil
		case "garbledRoot":
			r.SignedLogRoot = &trillian.SignedLogRoot{LogRoot: []byte{0, 1, 2}}
		case "treeSmaller":
			r.SignedLogRoot, r.Proof = garbleRoot(3, 32), nil
		case "nilProof":
			r.Proof = nil
		case "proofHashSize31":
			r.Proof.Hashes[0] = r.Proof.Hashes[0][:31]
		case "proofHashEmpty":
			r.Proof.Hashes[0] = nil
		}
	case *trillian.GetInclusionProofByHashResponse:
		switch f.Class {
		case "noRoot":
			r.SignedLogRoot = nil
		case "garbledRoot":
			r.SignedLogRoot = &trillian.SignedLogRoot{LogRoot: []byte{0, 1, 2}}
		case "treeSmaller":
			r.SignedLogRoot, r.Proof = garbleRoot(3, 32), nil
		case "emptyProofList":
			r.Proof = nil
		case "proofHashSize31":
			r.Proof[0].Hashes[0] = r.Proof[0].Hashes[0][:31]
		case "proofHashEmpty":
			r.Proof[0].Hashes[0] = nil
		}
	case *trillian.GetLeavesByRangeResponse:
		switch f.Class {
		case "noRoot":
			r.SignedLogRoot = nil
		case "garbledRoot":
			r.SignedLogRoot = &trillian.SignedLogRoot{LogRoot: []byte{0, 1, 2}}
		case "treeSmaller":
			r.SignedLogRoot, r.Leaves = garbleRoot(1, 32), nil
		case "surplusLeaves":
			extra := proto.Clone(r.Leaves[len(r.Leaves)-1]).(*trillian.LogLeaf)
			extra.LeafIndex++
			r.Leaves = append(r.Leaves, extra)
		case "misIndexedLeaf":
			r.Leaves[1].LeafIndex += 7
		}
	case *trillian.GetEntryAndProofResponse:
		switch f.Class {
		case "noRoot":
			r.SignedLogRoot = nil
		case "garbledRoot":
			r.SignedLogRoot = &trillian.SignedLogRoot{LogRoot: []byte{0, 1, 2}}
		case "treeSmaller":
			r.SignedLogRoot, r.Proof, r.Leaf = garbleRoot(3, 32), nil, nil
		case "nilLeaf":
			r.Leaf = nil
		case "emptyLeafValue":
			r.Leaf.LeafValue = nil
		case "nilProof":
			r.Proof = nil
		case "emptyProofHashes":
			r.Proof.Hashes = nil
		}
	}
	return rsp, nil
}

func inClass(code int, class string) bool {
	switch class {
	case "429", "503", "504":
		return fmt.Sprint(code) == class
	case "4xx", "4xx-nobackend":
		return code >= 400 && code <= 499 && code != 429 && code != 408
	case "5xx":
		return code >= 500 && code <= 599 && code != 503 && code != 504
	}
	return false
}

type faultWorld struct {
	w      *World
	valid  map[string]func() (int, []byte, error)
	method map[string]string
}

func newFaultWorld(t *testing.T, mask bool) *faultWorld {
	ids := []string{"p1", "p2", "x1", "x2", "x3"}
	w, err := NewWorld(t.TempDir(), ids, map[string]bool{"p1": true, "p2": true}, "p256", vh.Rand(11), ctfeenv.Opts{Mask: mask})
	if err != nil {
		t.Fatal(err)
	}
	env := w.Env
	for _, id := range ids {
		s := w.Subs[id]
		if code, _, body, err := env.AddChain(s.Chain, s.Pre); err != nil || code != 200 {
			t.Fatalf("add-chain %s: %d %v %s", id, code, err, body)
		}
	}
	env.Backend.Sequence(5, w.Nanos(1, 0), nil)
	fw := &faultWorld{w: w, valid: map[string]func() (int, []byte, error){}}
	do := func(path string, qv url.Values) func() (int, []byte, error) {
		return func() (int, []byte, error) { c, b, _, err := env.Do("GET", path, qv, nil); return c, b, err }
	}
	fw.valid["add-chain"] = func() (int, []byte, error) {
		c, _, b, err := env.AddChain(w.Subs["x1"].Chain, false)
		return c, b, err
	}
	fw.valid["add-pre-chain"] = func() (int, []byte, error) {
		c, _, b, err := env.AddChain(w.Subs["p1"].Chain, true)
		return c, b, err
	}
	fw.valid["get-sth"] = do(ct.GetSTHPath, nil)
	fw.valid["get-sth-consistency"] = do(ct.GetSTHConsistencyPath, q("first", 2, "second", 4))
	fw.valid["get-proof-by-hash"] = do(ct.GetProofByHashPath, q("hash", w.Subs["p2"].LeafHashAt(w.Ms(0)), "tree_size", 4))
	fw.valid["get-entries"] = do(ct.GetEntriesPath, q("start", 1, "end", 3))
	fw.valid["get-entry-and-proof"] = do(ct.GetEntryAndProofPath, q("leaf_index", 1, "tree_size", 4))
	fw.valid["get-roots"] = do(ct.GetRootsPath, nil)
	return fw
}

var epPath = map[string]string{"add-chain": ct.AddChainPath, "add-pre-chain": ct.AddPreChainPath, "get-sth": ct.GetSTHPath,
	"get-sth-consistency": ct.GetSTHConsistencyPath, "get-proof-by-hash": ct.GetProofByHashPath, "get-entries": ct.GetEntriesPath,
	"get-roots": ct.GetRootsPath, "get-entry-and-proof": ct.GetEntryAndProofPath}

// badRequest renders a parameter class of CTFEFaults.tla.
func badRequest(w *World, ep, class string) (method, rawQuery string, body []byte) {
	method = "GET"
	if strings.HasPrefix(ep, "add-") {
		method = "POST"
		chain := w.Subs["x1"].Chain
		if ep == "add-pre-chain" {
			chain = w.Subs["p1"].Chain
		}
		body, _ = json.Marshal(ct.AddChainRequest{Chain: chain})
	}
	hash := url.QueryEscape(ctfeenv.B64(w.Subs["p2"].LeafHashAt(w.Ms(0))))
	valid := map[string]string{
		"get-sth-consistency": "first=2&second=4", "get-proof-by-hash": "hash=" + hash + "&tree_size=4",
		"get-entries": "start=1&end=3", "get-entry-and-proof": "leaf_index=1&tree_size=4",
	}
	rawQuery = valid[ep]
	const over = "9223372036854775808"
	switch class {
	case "wrongMethod":
		if method == "GET" {
			method = "POST"
		} else {
			method = "GET"
		}
	case "badEscape":
		if rawQuery != "" {
			rawQuery += "&"
		}
		rawQuery += "x=%zz"
	case "semicolonSeparator":
		if rawQuery != "" {
			rawQuery += "&"
		}
		rawQuery += "x=a;b"
	case "notJSON":
		body = []byte("this is not json")
	case "emptyObject":
		body = []byte("{}")
	case "emptyBody":
		body = []byte{}
	case "truncatedJSON":
		body = body[:len(body)-2]
	case "jsonThenGarbage":
		body = append(body, []byte(" trailing-garbage")...)
	case "jsonTwice":
		body = append(append(body, '\n'), body...)
	case "nullChain":
		body = []byte(`{"chain":null}`)
	case "chainWrongType":
		body = []byte(`{"chain":"` + ctfeenv.B64(w.Subs["x1"].Chain[0]) + `"}`)
	case "chainElementNumber":
		body = []byte(`{"chain":[1,2]}`)
	case "emptyChain":
		body = []byte(`{"chain":[]}`)
	case "chainNotBase64":
		body = []byte(`{"chain":["!!!not-base64!!!"]}`)
	case "garbageCert":
		body, _ = json.Marshal(ct.AddChainRequest{Chain: [][]byte{[]byte("garbage that is not DER")}})
	case "trailingJunkCert":
		c := w.Subs["x1"].Chain
		if ep == "add-pre-chain" {
			c = w.Subs["p1"].Chain
		}
		cc := append([][]byte{append(append([]byte{}, c[0]...), 0, 0)}, c[1:]...)
		body, _ = json.Marshal(ct.AddChainRequest{Chain: cc})
	case "missingFirst":
		rawQuery = "second=4"
	case "missingSecond":
		rawQuery = "first=2"
	case "emptyFirst":
		rawQuery = "first=&second=4"
	case "negativeFirst":
		rawQuery = "first=-1&second=4"
	case "negativeSecond":
		rawQuery = "first=2&second=-4"
	case "overflowSecond":
		rawQuery = "first=2&second=" + over
	case "nonNumericFirst":
		rawQuery = "first=two&second=4"
	case "firstGreaterThanSecond":
		rawQuery = "first=4&second=2"
	case "missingHash":
		rawQuery = "tree_size=4"
	case "emptyHash":
		rawQuery = "hash=&tree_size=4"
	case "badBase64Hash":
		rawQuery = "hash=%21%21notbase64&tree_size=4"
	case "missingTreeSize":
		if ep == "get-proof-by-hash" {
			rawQuery = "hash=" + hash
		} else {
			rawQuery = "leaf_index=1"
		}
	case "zeroTreeSize":
		if ep == "get-proof-by-hash" {
			rawQuery = "hash=" + hash + "&tree_size=0"
		} else {
			rawQuery = "leaf_index=0&tree_size=0"
		}
	case "negativeTreeSize":
		if ep == "get-proof-by-hash" {
			rawQuery = "hash=" + hash + "&tree_size=-4"
		} else {
			rawQuery = "leaf_index=1&tree_size=-4"
		}
	case "overflowTreeSize":
		if ep == "get-proof-by-hash" {
			rawQuery = "hash=" + hash + "&tree_size=" + over
		} else {
			rawQuery = "leaf_index=1&tree_size=" + over
		}
	case "nonNumericTreeSize":
		rawQuery = "hash=" + hash + "&tree_size=four"
	case "missingStart":
		rawQuery = "end=3"
	case "missingEnd":
		rawQuery = "start=1"
	case "negativeStart":
		rawQuery = "start=-1&end=3"
	case "negativeEnd":
		rawQuery = "start=1&end=-3"
	case "overflowEnd":
		rawQuery = "start=1&end=" + over
	case "nonNumericStart":
		rawQuery = "start=one&end=3"
	case "startGreaterThanEnd":
		rawQuery = "start=3&end=1"
	case "missingIndex":
		rawQuery = "tree_size=4"
	case "negativeIndex":
		rawQuery = "leaf_index=-1&tree_size=4"
	case "nonNumericIndex":
		rawQuery = "leaf_index=one&tree_size=4"
	case "indexNotBelowTreeSize":
		rawQuery = "leaf_index=4&tree_size=4"
	default:
		panic("unknown parameter class " + class)
	}
	return
}

// TestFaults replays the complete matrix of CTFEFaults.tla.
func TestFaults(t *testing.T) {
	path := os.Getenv("VERIF_CASES")
	if path == "" {
		t.Skip("VERIF_CASES not set")
	}
	cases, err := vh.LoadNDJSON[FaultCase](path)
	if err != nil {
		t.Fatal(err)
	}
	rep := vh.NewReport("cctfe-faults", "complete matrix of CTFEFaults.tla: endpoint x backend RPC x (16 gRPC codes + malformed-reply classes) x fault position in a three-request sequence x masking, and endpoint x bad-parameter class; executed on a real instance whose backend replies are rewritten by an interceptor; non-trivial = distinct (endpoint, fault or parameter class, expected status class)")
	worlds := map[bool]*faultWorld{false: newFaultWorld(t, false), true: newFaultWorld(t, true)}
	for i := range cases {
		fc := &cases[i]
		c := fc.C
		fw := worlds[c.Mask]
		env, be := fw.w.Env, fw.w.Env.Backend
		if c.T == "param" {
			method, raw, body := badRequest(fw.w, c.Ep, c.Class)
			n0 := be.NumCalls()
			nrec := len(env.ReqLog.Recs)
			code, rbody, err := env.DoRaw(method, epPath[c.Ep], raw, body)
			fp := fmt.Sprintf("param:%s:%s", c.Ep, c.Class)
			if err != nil {
				rep.Violate(fp+":panic", err.Error(), fc)
			} else if !inClass(code, "4xx") || be.NumCalls() != n0 {
				rep.Violate(fp, fmt.Sprintf("%s with %s: expected 4xx before any backend call, got %d with %d backend calls: %s", c.Ep, c.Class, code, be.NumCalls()-n0, rbody), fc)
			}
			for _, r := range env.ReqLog.Recs[nrec:] {
				if len(r.SCTs) > 0 {
					rep.Violate(fp+":sct", "an SCT was recorded as issued for a rejected request", fc)
				}
			}
			rep.Eval(fp)
			continue
		}
		fname := c.Fault.Class
		if c.Fault.Kind == "code" {
			fname = codes.Code(c.Fault.Code).String()
		}
		fdesc := fname
		if c.Fault.Echo != nil {
			fname += "(" + c.Fault.Echo.Deviations() + ")"
			fdesc += "(" + c.Fault.Echo.String() + ")"
		}
		fp := fmt.Sprintf("fault:%s:%s", c.Ep, fname)
		seen := 0
		be.Intercept = func(seq int, method string, req, rsp proto.Message, err error) (proto.Message, error) {
			seen++
			if seen == c.Pos {
				return inject(fc, rsp)
			}
			return rsp, err
		}
		for k := 1; k <= 3; k++ {
			nrec := len(env.ReqLog.Recs)
			code, body, err := fw.valid[c.Ep]()
			var rl *ctfeenv.ReqRecord
			if len(env.ReqLog.Recs) > nrec {
				rl = env.ReqLog.Recs[nrec]
			}
			if err != nil {
				rep.Violate(fp+":panic", fmt.Sprintf("%s with backend fault %s: %v", c.Ep, fdesc, err), fc)
				continue
			}
			if k != c.Pos {
				if code != 200 {
					rep.Violate(fp+":neighbour-request-failed", fmt.Sprintf("request %d of the sequence (no fault injected, fault at %d) answered %d: %s", k, c.Pos, code, body), fc)
				}
				continue
			}
			if fc.Expect == "unasserted" {
				// a named clause of the specification: the status is recorded, not judged; what holds for every outcome is
				rep.Add(fmt.Sprintf("unasserted %s %s -> %d", c.Ep, fname, code), 1)
				if code == 200 {
					if rl != nil && (len(rl.Statuses) != 1 || rl.Statuses[0] != code) {
						rep.Violate(fp+":requestlog-status", fmt.Sprintf("RequestLog.Status %v for HTTP %d", rl.Statuses, code), fc)
					}
					continue
				}
			} else if !inClass(code, fc.Expect) {
				rep.Violate(fp+fmt.Sprintf(":want=%s:got=%d", fc.Expect, code), fmt.Sprintf("%s with backend fault %s: status %d, the property demands %s: %s", c.Ep, fdesc, code, fc.Expect, strings.TrimSpace(string(body))), fc)
			}
			if rl != nil {
				if len(rl.SCTs) > 0 {
					rep.Violate(fp+":sct-recorded", "RequestLog.IssueSCT was called although the request did not answer 200", fc)
				}
				if len(rl.Statuses) != 1 || rl.Statuses[0] != code {
					rep.Violate(fp+":requestlog-status", fmt.Sprintf("RequestLog.Status %v for HTTP %d", rl.Statuses, code), fc)
				}
			}
			if strings.Contains(string(body), `"signature"`) {
				rep.Violate(fp+":sct-in-body", "a failed submission response carries an SCT", fc)
			}
			if code == 500 {
				masked := string(body) == "Internal Server Error\n"
				if c.Mask && !masked {
					rep.Violate(fp+":mask", fmt.Sprintf("masking is enabled but the 500 response carries internal error text: %q", body), fc)
				}
				if !c.Mask && masked {
					rep.Violate(fp+":mask-off", "masking is disabled but the 500 response carries no error text", fc)
				}
			}
		}
		be.Intercept = nil
		rep.Eval(fmt.Sprintf("fault:%s:%s:%s", c.Ep, fdesc, fc.Expect))
		if len(rep.Samples) < 3 && c.Fault.Kind == "malformed" {
			rep.Sample(fc)
		}
	}
	rep.Replayed = len(cases)
	if err := rep.Write(); err != nil {
		t.Fatal(err)
	}
}
