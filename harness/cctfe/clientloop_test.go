package cctfe

import (
	"bytes"
	"context"
	"fmt"
	"net/http"
	"net/http/httptest"
	"os"
	"strings"
	"testing"

	ct "github.com/google/certificate-transparency-go"
	"github.com/google/certificate-transparency-go/client"
	"github.com/google/certificate-transparency-go/ctutil"
	"github.com/google/certificate-transparency-go/jsonclient"
	"github.com/google/certificate-transparency-go/loglist3"

	"verifharness/ctfeenv"
	"verifharness/ref"
	"verifharness/vh"
)

// instTransport routes HTTP requests of the library's own clients to the instance's handlers in process.
type instTransport struct{ env *ctfeenv.Env }

func (t instTransport) RoundTrip(r *http.Request) (*http.Response, error) {
	h, ok := t.env.Inst.Handlers[r.URL.Path]
	rec := httptest.NewRecorder()
	if !ok {
		rec.WriteHeader(404)
	} else {
		h.ServeHTTP(rec, r)
	}
	res := rec.Result()
	res.Request = r
	return res, nil
}

// TestClientLoop composes the two sides the repository ships: the library's log client (holding the log
// key) and ctutil.LogInfo talk to a real front end instance while a CTFE.tla behaviour unfolds.  Submissions
// go through client.LogClient (which verifies the SCT); at the end the client audits the log the way C06
// phrases it: the STH verifies, every certificate with an SCT that has been sequenced is found by
// LogInfo.VerifyInclusionLatest at exactly the index where the backend holds it, and get-entries decodes to
// the submitted certificate and chain.
func TestClientLoop(t *testing.T) {
	path := os.Getenv("VERIF_BEHAVIOURS")
	if path == "" {
		t.Skip("VERIF_BEHAVIOURS not set")
	}
	behs, err := vh.LoadNDJSON[[]Step](path)
	if err != nil {
		t.Fatal(err)
	}
	rep := vh.NewReport("cctfe-clientloop", "CTFE.tla behaviours with the repository's own client.LogClient and ctutil.LogInfo as the client side (in-process transport): submissions through the verifying client, final audit (STH, inclusion of every sequenced SCT at the backend's index, decoded entries, consistency between published sizes); non-trivial = behaviour with at least two sequenced certificates holding SCTs")
	limit := vh.EnvInt("VERIF_LOOP_BEHAVIOURS", 300)
	if len(behs) > limit {
		behs = behs[:limit]
	}
	for idx, beh := range behs {
		ids, pre := []string{}, map[string]bool{}
		seen := map[string]bool{}
		for _, s := range beh {
			if c := s.Args.Cert; c != "" && !seen[c] {
				seen[c] = true
				ids = append(ids, c)
				pre[c] = strings.HasPrefix(c, "p")
			}
		}
		w, err := NewWorld(t.TempDir(), ids, pre, []string{"p256", "rsa2048"}[idx%2], vh.Rand(int64(idx)), ctfeenv.Opts{})
		if err != nil {
			t.Fatal(err)
		}
		be := w.Env.Backend
		// one verifying library client per front end instance of the log (same key, same backend)
		type side struct {
			env *ctfeenv.Env
			lc  *client.LogClient
			li  *ctutil.LogInfo
		}
		sides := map[string]*side{}
		sideOf := func(name string) *side {
			name = feName(name)
			if sd, ok := sides[name]; ok {
				return sd
			}
			e, err := w.FE(name)
			if err != nil {
				t.Fatal(err)
			}
			hc := &http.Client{Transport: instTransport{e}}
			lc, err := client.New("http://log.test"+e.Prefix, hc, jsonclient.Options{PublicKeyDER: e.KeyDER})
			if err != nil {
				t.Fatal(err)
			}
			li, err := ctutil.NewLogInfo(&loglist3.Log{URL: "https://log.test" + e.Prefix, Key: e.KeyDER, Description: "verif"}, hc)
			if err != nil {
				t.Fatal(err)
			}
			sides[name] = &side{e, lc, li}
			return sides[name]
		}
		lc, li := sideOf("A").lc, sideOf("A").li
		ctx := context.Background()
		scts := map[string]*ct.SignedCertificateTimestamp{}
		viol := func(fp, what string) {
			rep.Violate("C06:clientloop:"+fp, what, map[string]any{"behaviour": beh, "shapes": shapes(w)})
		}
		asn1Chain := func(s *Sub) []ct.ASN1Cert {
			var out []ct.ASN1Cert
			for _, d := range s.Chain {
				out = append(out, ct.ASN1Cert{Data: d})
			}
			return out
		}
		for _, s := range beh {
			switch s.Op {
			case "Tick":
				// the backend's clock (s.Pre.Now of the Sequence / Resign steps)
			case "ClockSet":
				w.SetTickFE(sideOf(s.Args.Fe).env, s.Args.T)
			case "Sequence":
				be.Sequence(s.Args.K, w.Nanos(s.Pre.Now, s.Args.Rem), nil)
			case "Resign":
				be.Sequence(0, w.Nanos(s.Pre.Now, s.Args.Rem), nil)
			case "AddChain":
				sub := w.Subs[s.Args.Cert]
				sd := sideOf(s.Args.Fe)
				if s.Reply.Status != 200 {
					// a submission that fails after the backend has the leaf (the signer fails, the reply is lost)
					// still changes the log: it is made directly, the library client (which retries) is not involved
					if s.Reply.Status != 400 && (s.Args.Fault == "sign" || s.Args.Fault == "lostReply") {
						disarm := arm(sd.env, s.Args.Fault)
						code, _, _, _ := sd.env.AddChain(sub.Chain, s.Args.Ep == "add-pre-chain")
						disarm()
						if code != s.Reply.Status {
							viol("addchain-fault-status", fmt.Sprintf("%s while %s: specification %d, implementation %d", s.Args.Ep, faultText(s.Args.Fault), s.Reply.Status, code))
						}
					}
					continue
				}
				var sct *ct.SignedCertificateTimestamp
				var err error
				if sub.Pre {
					sct, err = sd.lc.AddPreChain(ctx, asn1Chain(sub))
				} else {
					sct, err = sd.lc.AddChain(ctx, asn1Chain(sub))
				}
				if err != nil {
					viol("addchain:"+sub.Shape, fmt.Sprintf("the library's client rejects the front end's answer to %s (%s): %v", s.Args.Ep, sub.Shape, err))
					continue
				}
				if sct.Timestamp != w.Ms(s.Reply.TS) {
					viol("addchain-ts", fmt.Sprintf("SCT timestamp %d, specification %d", sct.Timestamp, w.Ms(s.Reply.TS)))
				}
				scts[sub.ID] = sct
			}
		}
		// the audit
		sth, err := lc.GetSTH(ctx)
		if err != nil {
			viol("getsth", "client.GetSTH (verifying) fails: "+err.Error())
			rep.Eval("")
			continue
		}
		if int(sth.TreeSize) != be.Size() || !bytes.Equal(sth.SHA256RootHash[:], be.Tree().Root(be.Size())) {
			viol("getsth-state", "the STH the client accepted is not the backend's tree head")
		}
		found := 0
		for id, sct := range scts {
			sub := w.Subs[id]
			etype := ct.X509LogEntryType
			if sub.Pre {
				etype = ct.PrecertLogEntryType
			}
			// what a client computes from the certificate chain and the SCT alone
			leaf, err := ct.MerkleTreeLeafFromRawChain(asn1Chain(&Sub{Chain: sub.Path}), etype, sct.Timestamp)
			if err != nil {
				viol("clientleaf:"+sub.Shape, "MerkleTreeLeafFromRawChain: "+err.Error())
				continue
			}
			if err := li.VerifySCTSignature(*sct, *leaf); err != nil {
				viol("sct-vs-clientleaf:"+sub.Shape, "the SCT does not verify over the leaf the client derives from the chain: "+err.Error())
			}
			at := -1
			for i := 0; i < be.Size(); i++ {
				if bytes.Equal(be.Leaf(i).LeafIdentityHash, ref.LeafHashRawSHA256(sub.Chain[0])) {
					at = i
				}
			}
			idx, err := li.VerifyInclusionLatest(ctx, *leaf, sct.Timestamp)
			switch {
			case at >= 0 && err != nil:
				viol("inclusion-missing:"+sub.Shape, fmt.Sprintf("certificate %s has an SCT and is sequenced at %d, but LogInfo.VerifyInclusionLatest fails: %v", id, at, err))
			case at >= 0 && int(idx) != at:
				viol("inclusion-index", fmt.Sprintf("certificate %s is at index %d, the client found it at %d", id, at, idx))
			case at < 0 && err == nil:
				viol("inclusion-phantom", fmt.Sprintf("certificate %s is not sequenced but the client verified its inclusion at %d", id, idx))
			}
			if at >= 0 {
				found++
			}
		}
		if n := be.Size(); n > 0 {
			entries, err := lc.GetEntries(ctx, 0, int64(n-1))
			if err != nil || len(entries) != n {
				viol("getentries", fmt.Sprintf("client.GetEntries(0,%d): %d entries, %v", n-1, len(entries), err))
			} else {
				for i, e := range entries {
					var sub *Sub
					for _, s := range w.Subs {
						if bytes.Equal(be.Leaf(i).LeafIdentityHash, ref.LeafHashRawSHA256(s.Chain[0])) {
							sub = s
						}
					}
					var got []byte
					if e.X509Cert != nil {
						got = e.X509Cert.Raw
					} else if e.Precert != nil {
						got = e.Precert.Submitted.Data
					}
					if sub == nil || !bytes.Equal(got, sub.Chain[0]) || len(e.Chain) != len(sub.Path)-1 {
						viol("getentries-decode", fmt.Sprintf("entry %d decoded by the client is not the submitted certificate with its chain", i))
						continue
					}
					for j := range e.Chain {
						if !bytes.Equal(e.Chain[j].Data, sub.Path[j+1]) {
							viol("getentries-chain", fmt.Sprintf("entry %d: chain certificate %d differs from the submitted path", i, j))
						}
					}
				}
			}
			for _, p := range be.Roots {
				if p.Size == 0 || p.Size >= n {
					continue
				}
				proof, err := lc.GetSTHConsistency(ctx, uint64(p.Size), uint64(n))
				if err != nil || ref.VerifyConsistency(uint64(p.Size), uint64(n), be.Tree().Root(p.Size), be.Tree().Root(n), proof) != nil {
					viol("consistency", fmt.Sprintf("consistency between published sizes %d and %d: %v", p.Size, n, err))
				}
			}
		}
		key := ""
		if found >= 2 {
			key = fmt.Sprintf("beh-%d", idx)
		}
		rep.Eval(key)
	}
	rep.Replayed = len(behs)
	if err := rep.Write(); err != nil {
		t.Fatal(err)
	}
}
