package cctfe

import (
	"bytes"
	"context"
	"crypto/sha256"
	stdx509 "crypto/x509"
	"crypto/x509/pkix"
	"encoding/asn1"
	"encoding/json"
	"fmt"
	"math/big"
	"net/http"
	"os"
	"sort"
	"testing"
	"time"

	ct "github.com/google/certificate-transparency-go"
	"github.com/google/certificate-transparency-go/client"
	"github.com/google/certificate-transparency-go/jsonclient"
	"github.com/google/certificate-transparency-go/trillian/ctfe/cache"
	"github.com/google/certificate-transparency-go/trillian/ctfe/cache/lru"
	"github.com/google/certificate-transparency-go/trillian/ctfe/cache/noop"
	ctx509 "github.com/google/certificate-transparency-go/x509"
	"github.com/google/trillian"

	"verifharness/ctfeenv"
	"verifharness/pki"
	"verifharness/ref"
	"verifharness/vh"
)

// ShapeCase mirrors EntryShapes!Case.
type ShapeCase struct {
	Shape struct {
		Kind    string `json:"kind"`
		Iss     string `json:"iss"`
		Tail    string `json:"tail"`
		Key     string `json:"key"`
		Quirk   string `json:"quirk"`
		Storage string `json:"storage"`
		Trust   string `json:"trust"`
		Wire    string `json:"wire"`
		Order   string `json:"order"`
		Valid   struct {
			NB timeForm `json:"nb"`
			NA timeForm `json:"na"`
		} `json:"valid"`
		Tbs string `json:"tbs"`
	} `json:"shape"`
	Admit        bool     `json:"admit"`
	Submitted    []string `json:"submitted"`
	Path         []string `json:"path"`
	Trusted      []string `json:"trusted"`
	EntryType    string   `json:"entryType"`
	FinalIssuer  string   `json:"finalIssuer"`
	ViaPreIssuer bool     `json:"viaPreIssuer"`
	// the extended key usage list of the certificate that signed the leaf, in the order it is written
	// (EntryShapes!SignerEkuSeq; empty: the certificate has no such extension)
	SignerEkus []string `json:"signerEkus"`
	// how notBefore / notAfter stand in the logged entry (EntryShapes!LoggedValidity) and the content octets of its
	// serial number (0: not singled out)
	Validity  []writtenTime `json:"validity"`
	SerialLen int           `json:"serialLen"`
}

// timeForm mirrors EntryShapes!TimeForms (a calendar year and the first / a middle / the last second of it).
type timeForm struct {
	Y    int    `json:"y"`
	Edge string `json:"edge"`
}

func (tf timeForm) instant() time.Time {
	switch tf.Edge {
	case "first":
		return time.Date(tf.Y, 1, 1, 0, 0, 0, 0, time.UTC)
	case "mid":
		return time.Date(tf.Y, 6, 1, 12, 0, 0, 0, time.UTC)
	case "last":
		return time.Date(tf.Y, 12, 31, 23, 59, 59, 0, time.UTC)
	}
	panic("unknown edge " + tf.Edge)
}

// writtenTime mirrors EntryShapes!Written: tag and number of year digits of a time as the CA writes it.
type writtenTime struct {
	Tag  string `json:"tag"`
	Yd   int    `json:"yd"`
	Y    int    `json:"y"`
	Edge string `json:"edge"`
}

// der is the DER element the written form stands for (the digits are written here, not by a time library).
func (w writtenTime) der() []byte {
	t := timeForm{w.Y, w.Edge}.instant()
	rest := fmt.Sprintf("%02d%02d%02d%02d%02dZ", int(t.Month()), t.Day(), t.Hour(), t.Minute(), t.Second())
	switch {
	case w.Tag == "UTCTime" && w.Yd == 2:
		return append([]byte{0x17, 13}, []byte(fmt.Sprintf("%02d", w.Y%100)+rest)...)
	case w.Tag == "GeneralizedTime" && w.Yd == 4:
		return append([]byte{0x18, 15}, []byte(fmt.Sprintf("%04d", w.Y)+rest)...)
	}
	panic("written time form " + w.Tag)
}

var stdValidity = [2]timeForm{{2020, "first"}, {2040, "first"}}

// tbsFormOpts renders EntryShapes!TbsForms.
func tbsFormOpts(form string, o *pki.Opts) *big.Int {
	switch form {
	case "", "std":
	case "serialOne":
		o.SerialBig = big.NewInt(1)
	case "serial7f":
		o.SerialBig = big.NewInt(0x7f)
	case "serial80":
		o.SerialBig = big.NewInt(0x80)
	case "serialMax20":
		o.SerialBig = new(big.Int).Sub(new(big.Int).Lsh(big.NewInt(1), 159), big.NewInt(1))
	case "bigOidExt":
		o.Extra = append(o.Extra, pkix.Extension{Id: asn1.ObjectIdentifier{2, 999, 2147483647, 1}, Value: []byte{0x04, 0x02, 0xbe, 0xef}})
	default:
		panic("unknown TBS form " + form)
	}
	return o.SerialBig
}

// fieldForms compares validity and serial number of an entry (a leaf_input) with the form the specification says the
// CA wrote (EntryShapes!FieldsVerbatim); it returns the violated clause and what was found.
func fieldForms(c ShapeCase, serial *big.Int, leafInput []byte, pre bool) (clause, msg string) {
	if len(c.Validity) != 2 {
		return "", ""
	}
	nb, na, ser, err := loggedFields(leafInput, pre)
	switch {
	case err != nil:
		return "logged-fields", "the entry cannot be taken apart: " + err.Error()
	case !bytes.Equal(nb, c.Validity[0].der()) || !bytes.Equal(na, c.Validity[1].der()):
		return "validity-form", fmt.Sprintf("validity of the logged entry is written as tag %#x %q / tag %#x %q; the CA wrote %s with %d year digits / %s with %d year digits (%q / %q)",
			nb[0], nb[2:], na[0], na[2:], c.Validity[0].Tag, c.Validity[0].Yd, c.Validity[1].Tag, c.Validity[1].Yd, c.Validity[0].der()[2:], c.Validity[1].der()[2:])
	case c.SerialLen != 0 && (len(ser) != c.SerialLen || new(big.Int).SetBytes(ser).Cmp(serial) != 0):
		return "serial-form", fmt.Sprintf("serial number of the logged entry is %x (%d content octets); the CA wrote %x in %d", ser, len(ser), serial, c.SerialLen)
	}
	return "", ""
}

// loggedFields reads validity and serial number out of a served leaf_input with cryptobyte only: the two time
// elements verbatim and the content octets of the serial number INTEGER.
func loggedFields(leafInput []byte, pre bool) (nb, na, serial []byte, err error) {
	if len(leafInput) < 15 {
		return nil, nil, nil, fmt.Errorf("short leaf_input")
	}
	b := leafInput[12:]
	if pre {
		if len(b) < 35 {
			return nil, nil, nil, fmt.Errorf("short precert entry")
		}
		b = b[32:]
	}
	n := int(b[0])<<16 | int(b[1])<<8 | int(b[2])
	if len(b) < 3+n {
		return nil, nil, nil, fmt.Errorf("short entry vector")
	}
	var parts *ref.CertParts
	if pre {
		parts, err = ref.SplitTBS(b[3 : 3+n])
	} else {
		parts, err = ref.SplitCert(b[3 : 3+n])
	}
	if err != nil {
		return nil, nil, nil, err
	}
	v := parts.Mid[0]
	if len(v) < 2 || v[0] != 0x30 || int(v[1]) != len(v)-2 || len(v) < 4 {
		return nil, nil, nil, fmt.Errorf("validity is not a short-form SEQUENCE")
	}
	v = v[2:]
	l1 := 2 + int(v[1])
	if l1 > len(v) {
		return nil, nil, nil, fmt.Errorf("notBefore overruns the validity")
	}
	ser := parts.Pre[len(parts.Pre)-2]
	if len(ser) < 3 || ser[0] != 0x02 || int(ser[1]) != len(ser)-2 {
		return nil, nil, nil, fmt.Errorf("serial number is not a short-form INTEGER")
	}
	return v[:l1], v[l1:], ser[2:], nil
}

func (c ShapeCase) fp() string {
	st := "external"
	if c.Shape.Storage == "direct" {
		st = "direct"
	}
	fp := fmt.Sprintf("%s:%s:%s:%s:%s:%s", c.Shape.Kind, c.Shape.Iss, c.Shape.Tail, c.Shape.Quirk, c.Shape.Wire, st)
	if c.Shape.Order != "" && c.Shape.Order != "std" {
		fp += ":" + c.Shape.Order
	}
	if v := c.Shape.Valid; v.NB.Y != 0 && [2]timeForm{v.NB, v.NA} != stdValidity {
		fp += fmt.Sprintf(":validity=%d..%d", v.NB.Y, v.NA.Y)
	}
	if c.Shape.Tbs != "" && c.Shape.Tbs != "std" {
		fp += ":" + c.Shape.Tbs
	}
	return fp
}

// KeyPurposeIds of EntryShapes!EkuSeq.
var ekuOID = map[string]asn1.ObjectIdentifier{"ct": pki.OIDEKUCT, "any": pki.OIDEKUAny, "server": pki.OIDEKUServer, "client": pki.OIDEKUClient}

// writtenEKUs reads the extended key usage list of a certificate off its DER with cryptobyte / encoding/asn1 only
// (harness/ref.SplitCert; no certificate parser, in particular not the repository's): the purposes in the order they
// are written, by the names of the specification, and whether the CT purpose is among them - which is what makes the
// signer of a precertificate a precertificate signing certificate (RFC 6962 3.1).
func writtenEKUs(der []byte) (list []string, hasCT bool, err error) {
	parts, err := ref.SplitCert(der)
	if err != nil {
		return nil, false, err
	}
	list = []string{}
	for i, oid := range parts.ExtOIDs {
		if !bytes.Equal(oid, []byte{0x55, 0x1d, 0x25}) { // 2.5.29.37
			continue
		}
		var purposes []asn1.ObjectIdentifier
		if rest, err := asn1.Unmarshal(parts.ExtValues[i], &purposes); err != nil || len(rest) != 0 {
			return nil, false, fmt.Errorf("extended key usage extension: %v", err)
		}
		for _, pu := range purposes {
			name := pu.String()
			for n, o := range ekuOID {
				if o.Equal(pu) {
					name = n
				}
			}
			list = append(list, name)
			hasCT = hasCT || pu.Equal(pki.OIDEKUCT)
		}
	}
	return list, hasCT, nil
}

var quirkExt = map[string]pkix.Extension{
	// subjectAltName with an iPAddress of 3 bytes
	"ip3": {Id: asn1.ObjectIdentifier{2, 5, 29, 17}, Value: []byte{0x30, 0x05, 0x87, 0x03, 1, 2, 3}},
	// AuthorityInfoAccess with no access descriptions
	"emptyAIA": {Id: asn1.ObjectIdentifier{1, 3, 6, 1, 5, 5, 7, 1, 1}, Value: []byte{0x30, 0x00}},
}

// TestShapes executes every case of EntryShapes.tla: the shape is built with real keys, submitted, sequenced
// (all shapes that share trusted roots and storage mode live in one log, so that the single-entry LRU is
// evicted constantly), read back over get-entries, get-entry-and-proof and get-proof-by-hash, and decoded
// with the library's entry parser.  Expected path, entry type and final issuer come from the specification;
// expected bytes from the harness' own encoders.
func TestShapes(t *testing.T) {
	path := os.Getenv("VERIF_CASES")
	if path == "" {
		t.Skip("VERIF_CASES not set")
	}
	prop := os.Getenv("VERIF_PROP")
	cases, err := vh.LoadNDJSON[ShapeCase](path)
	if err != nil {
		t.Fatal(err)
	}
	rep := vh.NewReport("cctfe-shapes-"+prop, "every case of EntryShapes.tla (entry kind x issuance x submitted tail incl. a cross-signed twin of a trusted root x key type x non-fatal oddity x chain storage mode x trusted set x validity years on both sides of 1950 / 2000 / 2050 and 9999 x serial number / extension identifier forms x the extended key usage list of the signing certificate: CT purpose alone / before / after / between anyExtendedKeyUsage and specific purposes, and lists without it) built, submitted to a real instance, sequenced, read back and decoded; non-trivial = distinct (kind, issuance, tail, oddity, storage class, validity years, field form)")
	r1 := pki.NewRoot(pki.Opts{CN: "R1"})
	r2 := pki.NewRoot(pki.Opts{CN: "R2", KeyType: "p384"})
	nodes := map[string]*pki.Node{"R1": r1, "R2": r2}
	nodes["R1x"] = r2.CrossSign(r1, "R1x")
	nodes["I1"] = r1.Issue(pki.Opts{CN: "I1", IsCA: true})
	nodes["I2"] = nodes["I1"].Issue(pki.Opts{CN: "I2", IsCA: true, KeyType: "rsa2048"})
	nodes["P"] = nodes["I1"].Issue(pki.Opts{CN: "P pre-issuer", IsCA: true, OtherEKUs: pki.OIDEKUCTs()})
	nodes["Pf"] = nodes["I1"].Issue(pki.Opts{CN: "Pf pre-issuer", IsCA: true, OtherEKUs: pki.OIDEKUCTs(), FullAKID: true})
	nodes["Pm"] = nodes["I1"].Issue(pki.Opts{CN: "Pm pre-issuer", IsCA: true, EKUs: []stdx509.ExtKeyUsage{stdx509.ExtKeyUsageServerAuth}, OtherEKUs: pki.OIDEKUCTs()})

	groups := map[string][]int{}
	for i, c := range cases {
		k := c.Shape.Trust + "/" + c.Shape.Storage
		groups[k] = append(groups[k], i)
	}
	var gkeys []string
	for k := range groups {
		gkeys = append(gkeys, k)
	}
	sort.Strings(gkeys)
	logKey := pki.NewKey("p256")
	for gi, gk := range gkeys {
		idxs := groups[gk]
		first := cases[idxs[0]]
		opts := ctfeenv.Opts{Dir: t.TempDir(), LogKey: logKey, Prefix: fmt.Sprintf("shapes%d", gi)}
		for _, id := range first.Trusted {
			opts.Roots = append(opts.Roots, nodes[id])
		}
		var cch cache.IssuanceChainCache
		switch first.Shape.Storage {
		case "lru1":
			cch = lru.NewIssuanceChainCache(lru.CacheOption{Size: 1, TTL: time.Hour})
		case "lruBig":
			cch = lru.NewIssuanceChainCache(lru.CacheOption{Size: 1000, TTL: time.Hour})
		case "noop":
			cch = &noop.IssuanceChainCache{}
		}
		if cch != nil {
			opts.Storage, opts.Cache = newMemStore(), cch
		}
		env, err := ctfeenv.New(opts)
		if err != nil {
			t.Fatal(err)
		}
		be := env.Backend
		// the library's own client (the second observation point of the decoding clause), in process
		lc, err := client.New("http://log.test"+env.Prefix, &http.Client{Transport: instTransport{env}}, jsonclient.Options{PublicKeyDER: env.KeyDER})
		if err != nil {
			t.Fatal(err)
		}
		w := &World{Env: env, Base: env.Clock.Now(), rng: vh.Rand(int64(gi))}
		type made struct {
			c        ShapeCase
			sub      *Sub
			ts       uint64
			pathDERs [][]byte
			ok       bool
			serial   *big.Int
		}
		var ms []*made
		for n, ci := range idxs {
			c := cases[ci]
			viol := func(clause, what string) {
				rep.Violate(prop+":shape:"+clause+":"+c.fp(), what, map[string]any{"case": c})
			}
			o := pki.Opts{CN: fmt.Sprintf("leaf %d", ci), DNS: []string{fmt.Sprintf("l%d.shapes.test", ci)}, KeyType: c.Shape.Key}
			if c.Shape.Kind == "precert" {
				o.Poison = "ok"
			}
			if c.Shape.Order != "" && c.Shape.Order != "std" {
				o.ExtOrder = c.Shape.Order
			}
			if q, ok := quirkExt[c.Shape.Quirk]; ok {
				o.Extra = append(o.Extra, q)
				o.Unparsable = true
				if c.Shape.Quirk == "ip3" {
					o.DNS = nil // the odd subjectAltName replaces the generated one
				}
			}
			if c.Shape.Valid.NB.Y != 0 {
				o.NotBefore, o.NotAfter = c.Shape.Valid.NB.instant(), c.Shape.Valid.NA.instant()
			}
			serial := tbsFormOpts(c.Shape.Tbs, &o)
			// the certificate that signs the leaf: those of the extended-key-usage dimension are issued here, with the list
			// of the specification written in its order
			signer, known := nodes[c.Submitted[1]]
			if !known {
				so := pki.Opts{CN: c.Submitted[1] + " eku", IsCA: true}
				for _, u := range c.SignerEkus {
					so.EKUOIDs = append(so.EKUOIDs, ekuOID[u])
				}
				if len(so.EKUOIDs) == 0 || len(c.Submitted) < 3 {
					t.Fatalf("harness: no certificate %s for %s", c.Submitted[1], c.fp())
				}
				signer = nodes[c.Submitted[2]].Issue(so)
				nodes[c.Submitted[1]] = signer
			}
			// what is on the wire is what the specification wrote; whether the signer is a precertificate signing
			// certificate is read off its DER, and that reading - not the model's word - goes into the expected entry
			wrote, signerHasCT, err := writtenEKUs(signer.DER)
			if err != nil || fmt.Sprint(wrote) != fmt.Sprint(c.SignerEkus) {
				t.Fatalf("harness: %s carries the extended key usages %v (%v), the specification wrote %v", c.Submitted[1], wrote, err, c.SignerEkus)
			}
			viaPre := c.Shape.Kind == "precert" && signerHasCT
			if viaPre != c.ViaPreIssuer {
				t.Fatalf("harness / specification: %s: CT purpose in the signer's list %v, the specification says pre-issuer = %v", c.fp(), signerHasCT, c.ViaPreIssuer)
			}
			leaf := signer.Issue(o)
			if c.Shape.Wire == "laxSerial" || c.Shape.Wire == "laxSerialTrailing" {
				leaf = pki.NonMinimalSerial(leaf)
			}
			nodes["L"] = leaf
			m := &made{c: c, serial: serial, sub: &Sub{ID: fmt.Sprintf("c%d", ci), Pre: c.Shape.Kind == "precert", Shape: c.fp(), PreIssuer: viaPre}}
			for _, id := range c.Submitted {
				m.sub.Chain = append(m.sub.Chain, nodes[id].DER)
			}
			for _, id := range c.Path {
				m.pathDERs = append(m.pathDERs, nodes[id].DER)
			}
			m.sub.Path = m.pathDERs
			ms = append(ms, m)
			if c.Shape.Wire == "trailing" || c.Shape.Wire == "laxSerialTrailing" {
				// further octets inside the leaf's chain element
				m.sub.Chain[0] = append(append([]byte{}, leaf.DER...), 0xde, 0xad, 0xbe, 0xef)
			}
			if !c.Admit {
				// the specification refuses this submission.  Whatever the status, C01's law is conditional on 200:
				// then the SCT must verify over the entry derived from the octets that were submitted.
				w.SetTick(n)
				code, rsp, body, err := env.AddChain(m.sub.Chain, m.sub.Pre)
				switch {
				case err != nil:
					viol("submit-panic", err.Error())
				case code == 200:
					msg := "no RFC 6962 entry can be derived from the submitted octets"
					path := append([][]byte{m.sub.Chain[0]}, m.pathDERs[1:]...)
					if e, err := ref.EntryForChain(path, viaPre); err == nil {
						m.sub.Entry = e
						msg = w.CheckSCT(m.sub, rsp, w.Ms(n))
					}
					if msg != "" {
						viol("not-a-certificate-200", fmt.Sprintf("the leaf element is not one certificate (%s), the log answered 200 and an SCT that does not bind the submitted octets: %s", c.Shape.Wire, msg))
					}
				case code < 400 || code > 499:
					viol("not-a-certificate-status", fmt.Sprintf("the leaf element is not one certificate (%s): expected 4xx, got %d %s", c.Shape.Wire, code, body))
				}
				continue
			}
			e, err := ref.EntryForChain(m.pathDERs, viaPre)
			if err != nil {
				t.Fatalf("independent entry for %s: %v", c.fp(), err)
			}
			m.sub.Entry = e
			if m.sub.Pre {
				// the specification names the final issuer; its key is what issuer_key_hash commits to
				spki := sha256.Sum256(nodes[c.FinalIssuer].Cert.RawSubjectPublicKeyInfo)
				if !bytes.Equal(e.IssuerKeyHash, spki[:]) {
					t.Fatalf("harness: independent entry names another issuer key than the specification (%s)", c.fp())
				}
			}
			w.SetTick(n)
			ncalls := be.NumCalls()
			code, rsp, body, err := env.AddChain(m.sub.Chain, m.sub.Pre)
			if err != nil {
				viol("submit-panic", err.Error())
				continue
			}
			if code != 200 {
				viol("submit-status", fmt.Sprintf("submission of an admissible %s answered %d: %s", c.fp(), code, body))
				continue
			}
			m.ts = rsp.Timestamp
			if msg := w.CheckSCT(m.sub, rsp, w.Ms(n)); msg != "" {
				clause := "sct"
				// which field of the entry handed to the backend is not as the CA wrote it (if it is one of those the
				// specification singles out)
				for _, call := range be.CallsSince(ncalls) {
					if req, ok := call.Req.(*trillian.QueueLeafRequest); ok && req.Leaf != nil {
						if fc, fm := fieldForms(c, m.serial, req.Leaf.LeafValue, m.sub.Pre); fc != "" {
							clause, msg = "sct-"+fc, msg+"; in the leaf handed to the backend "+fm
						}
					}
				}
				viol(clause, msg)
				continue
			}
			m.ok = true
			// sequence in irregular batches
			if n%3 == 2 || n == len(idxs)-1 {
				be.Sequence(be.Queued(), w.Nanos(n, 1), nil)
			}
		}
		size := be.Size()
		for _, m := range ms {
			if !m.ok {
				rep.Eval("")
				continue
			}
			c := m.c
			viol := func(clause, what string) {
				rep.Violate(prop+":shape:"+clause+":"+c.fp(), what, map[string]any{"case": c})
			}
			at := -1
			for i := 0; i < size; i++ {
				if bytes.Equal(be.Leaf(i).LeafIdentityHash, ref.LeafHashRawSHA256(m.sub.Chain[0])) {
					at = i
				}
			}
			if at < 0 {
				// every accepted submission was sequenced above, so the leaf is in the tree - under another identity
				viol("identity", "the accepted submission is not in the backend under the SHA-256 of the submitted leaf certificate (the identity the property names for de-duplication): the front end queued it under another LeafIdentityHash")
				continue
			}
			wantLeaf := m.sub.ExpectedLeaf(m.ts)
			wantExtra := m.sub.ExpectedExtra()
			// found by the hash a client computes from the certificate and the SCT alone, at that single index
			code, body, _, err := env.Do("GET", ct.GetProofByHashPath, q("hash", ref.LeafHash(wantLeaf), "tree_size", size), nil)
			var pr ct.GetProofByHashResponse
			if err != nil || code != 200 || json.Unmarshal(body, &pr) != nil {
				viol("proof-by-hash-status", fmt.Sprintf("get-proof-by-hash for the client-computed leaf hash: %d %v", code, err))
			} else if int(pr.LeafIndex) != at || ref.VerifyInclusion(uint64(at), uint64(size), ref.LeafHash(wantLeaf), pr.AuditPath, be.Tree().Root(size)) != nil {
				viol("proof-by-hash", fmt.Sprintf("client-computed leaf hash found at %d (stored at %d) or its audit path does not verify", pr.LeafIndex, at))
			}
			code, leafIn, extra, err := readEntry(w, "entries", at, size)
			if err != nil || code != 200 {
				viol("get-entries-status", fmt.Sprintf("get-entries(%d,%d): %d %v", at, at, code, err))
				rep.Eval("")
				continue
			}
			if !bytes.Equal(leafIn, wantLeaf) {
				viol("leaf-input", "served leaf_input is not the entry an independent client derives from the submission")
			}
			// validity and serial number stand in the logged entry as the specification says the CA wrote them
			if clause, msg := fieldForms(c, m.serial, leafIn, m.sub.Pre); clause != "" {
				viol(clause, msg)
			}
			if !bytes.Equal(extra, wantExtra) {
				viol("extra-data", fmt.Sprintf("served extra_data is not the specification's path %v", c.Path))
			}
			code2, leafIn2, extra2, err := readEntry(w, "proof", at, size)
			if err != nil || code2 != 200 || !bytes.Equal(leafIn2, leafIn) || !bytes.Equal(extra2, extra) {
				viol("entry-and-proof", fmt.Sprintf("get-entry-and-proof(%d) does not return the bytes get-entries serves (%d %v)", at, code2, err))
			}
			// the library's entry parser
			le, err := ct.LogEntryFromLeaf(int64(at), &ct.LeafEntry{LeafInput: leafIn, ExtraData: extra})
			if le == nil || ctx509.IsFatal(err) {
				viol("decode", fmt.Sprintf("ct.LogEntryFromLeaf recovers nothing from the served entry: %v", err))
				rep.Eval("")
				continue
			}
			// ... and through client.LogClient.GetEntries: the same entry, not an empty slot, whatever non-fatal
			// remarks the certificate parser has about it
			if es, err := lc.GetEntries(context.Background(), int64(at), int64(at)); err != nil || len(es) != 1 {
				viol("client-getentries", fmt.Sprintf("client.LogClient.GetEntries(%d,%d) of the served entry: %d entries, %v", at, at, len(es), err))
			} else {
				var got []byte
				if es[0].X509Cert != nil {
					got = es[0].X509Cert.Raw
				} else if es[0].Precert != nil {
					got = es[0].Precert.Submitted.Data
				}
				if !bytes.Equal(got, m.sub.Chain[0]) || es[0].Index != int64(at) || es[0].Leaf.TimestampedEntry == nil || es[0].Leaf.TimestampedEntry.Timestamp != m.ts || len(es[0].Chain) != len(le.Chain) {
					viol("client-getentries", fmt.Sprintf("client.LogClient.GetEntries(%d,%d) does not recover the submitted (pre)certificate, its chain, index and timestamp (what ct.LogEntryFromLeaf recovers from the same bytes)", at, at))
				}
			}
			var gotCert, gotIKH, gotIssuer []byte
			wantType := ct.X509LogEntryType
			if m.sub.Pre {
				wantType = ct.PrecertLogEntryType
				if le.Precert != nil {
					gotCert, gotIKH = le.Precert.Submitted.Data, le.Precert.IssuerKeyHash[:]
					if le.Precert.TBSCertificate != nil {
						gotIssuer = le.Precert.TBSCertificate.RawIssuer
					}
				}
			} else if le.X509Cert != nil {
				gotCert = le.X509Cert.Raw
			}
			if le.Leaf.TimestampedEntry.EntryType != wantType || le.Leaf.TimestampedEntry.Timestamp != m.ts || le.Index != int64(at) {
				viol("decode-type-ts", fmt.Sprintf("decoded entry type %v / timestamp %d / index %d, expected %v / %d / %d", le.Leaf.TimestampedEntry.EntryType, le.Leaf.TimestampedEntry.Timestamp, le.Index, wantType, m.ts, at))
			}
			if !bytes.Equal(gotCert, m.sub.Chain[0]) {
				viol("decode-cert", "the decoded entry does not carry the submitted (pre)certificate")
			}
			if m.sub.Pre {
				fin := nodes[c.FinalIssuer]
				spki := sha256.Sum256(fin.Cert.RawSubjectPublicKeyInfo)
				if !bytes.Equal(gotIKH, spki[:]) {
					viol("decode-issuer-key-hash", "issuer_key_hash of the decoded precert entry is not the key hash of the final issuer "+c.FinalIssuer)
				}
				if !bytes.Equal(gotIssuer, fin.Cert.RawSubject) {
					viol("decode-tbs-issuer", "the logged TBSCertificate does not name the final issuer "+c.FinalIssuer)
				}
			}
			if len(le.Chain) != len(m.pathDERs)-1 {
				viol("decode-chain", fmt.Sprintf("decoded chain has %d certificates, the specification's path %v has %d after the leaf", len(le.Chain), c.Path, len(m.pathDERs)-1))
			} else {
				for j := range le.Chain {
					if !bytes.Equal(le.Chain[j].Data, m.pathDERs[j+1]) {
						viol("decode-chain", fmt.Sprintf("decoded chain certificate %d is not %s", j, c.Path[j+1]))
						break
					}
				}
			}
			rep.Eval(c.fp())
		}
	}
	rep.Replayed = len(cases)
	if len(cases) > 0 {
		rep.Sample(cases[0])
	}
	if err := rep.Write(); err != nil {
		t.Fatal(err)
	}
}
