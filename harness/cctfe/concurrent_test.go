package cctfe

import (
	"bytes"
	"encoding/json"
	"fmt"
	"sync"
	"testing"

	ct "github.com/google/certificate-transparency-go"
	"github.com/google/trillian"

	"verifharness/ctfeenv"
	"verifharness/ref"
	"verifharness/vh"
)

type reply struct {
	code int
	body []byte
	op   string
	args map[string]any
}

// TestConcurrent drives one real instance from several goroutines (submissions, reads, sequencing) under
// the race detector, joins the backend's call log (the linearization order) with the HTTP replies, verifies
// signatures and proofs for real, and writes the history as a trace for CTFETrace.tla.
func TestConcurrent(t *testing.T) {
	rounds := vh.EnvInt("VERIF_ROUNDS", 6)
	traces := vh.EnvInt("VERIF_TRACES", 8)
	rec, err := vh.NewRecorder("traces.ndjson")
	if err != nil {
		t.Fatal(err)
	}
	rep := vh.NewReport("cctfe-concurrent", "concurrent clients (4 goroutines of random submissions and reads, one sequencer) on one real ctfe.Instance under -race; backend call order = linearization order; every reply verified (STH / SCT signatures, proofs with the harness' verifiers, entry bytes) and the history validated by CTFETrace.tla; non-trivial = trace with at least one sequencing step overlapping reads")
	ids := []string{"p1", "p2", "x1", "x2", "x3"}
	pre := map[string]bool{"p1": true, "p2": true}
	for tr := 0; tr < traces; tr++ {
		rng := vh.Rand(int64(9000 + tr))
		w, err := NewWorld(t.TempDir(), ids, pre, []string{"p256", "rsa2048"}[tr%2], rng, ctfeenv.Opts{})
		if err != nil {
			t.Fatal(err)
		}
		env, be := w.Env, w.Env.Backend
		// projection of real leaf bytes back to (certificate id, tick)
		leafOf := map[string][2]any{}
		for tick := 0; tick <= rounds; tick++ {
			for _, id := range ids {
				leafOf[string(w.Subs[id].ExpectedLeaf(w.Ms(tick)))] = [2]any{id, tick}
			}
		}
		replies := map[string]*reply{}
		var mu sync.Mutex
		rec.Emit(map[string]any{"ev": "Reset", "t": tr})
		ncallsBefore := 0
		overlapped := false
		for r := 0; r < rounds; r++ {
			if r > 0 {
				w.SetTick(r)
				be.Calls = append(be.Calls, ctfeenv.Call{Method: "Tick"}) // no request in flight here
			}
			var wg sync.WaitGroup
			for g := 0; g < 4; g++ {
				wg.Add(1)
				go func(g int) {
					defer wg.Done()
					grng := vh.Rand(int64(tr*1000 + r*10 + g))
					for k := 0; k < 6; k++ {
						id := fmt.Sprintf("t%d-r%d-g%d-k%d", tr, r, g, k)
						rp := &reply{args: map[string]any{}}
						size := be.Size()
						switch grng.Intn(7) {
						case 0, 1:
							c := ids[grng.Intn(len(ids))]
							s := w.Subs[c]
							body, _ := json.Marshal(ct.AddChainRequest{Chain: s.Chain})
							path := ct.AddChainPath
							if s.Pre {
								path = ct.AddPreChainPath
							}
							rp.op, rp.args["cert"] = "AddChain", c
							rp.args["ep"] = map[bool]string{true: "add-pre-chain", false: "add-chain"}[s.Pre]
							rp.code, rp.body, _ = env.DoTagged(id, "POST", path, nil, body)
						case 2:
							rp.op = "GetSTH"
							rp.code, rp.body, _ = env.DoTagged(id, "GET", ct.GetSTHPath, nil, nil)
						case 3:
							if size < 1 {
								continue
							}
							s2 := 1 + grng.Intn(size+1)
							f := 1 + grng.Intn(s2)
							rp.op, rp.args["first"], rp.args["second"] = "GetConsistency", f, s2
							rp.code, rp.body, _ = env.DoTagged(id, "GET", ct.GetSTHConsistencyPath, q("first", f, "second", s2), nil)
						case 4:
							c := ids[grng.Intn(len(ids))]
							tick := grng.Intn(r + 1)
							n := 1 + grng.Intn(size+2)
							rp.op, rp.args["cert"], rp.args["ts"], rp.args["size"] = "GetProofByHash", c, tick, n
							rp.code, rp.body, _ = env.DoTagged(id, "GET", ct.GetProofByHashPath, q("hash", w.Subs[c].LeafHashAt(w.Ms(tick)), "tree_size", n), nil)
						case 5:
							a := grng.Intn(size + 2)
							b := a + grng.Intn(3)
							rp.op, rp.args["start"], rp.args["end"] = "GetEntries", a, b
							rp.code, rp.body, _ = env.DoTagged(id, "GET", ct.GetEntriesPath, q("start", a, "end", b), nil)
						default:
							n := 1 + grng.Intn(size+2)
							i := grng.Intn(n)
							rp.op, rp.args["index"], rp.args["size"] = "GetEntryAndProof", i, n
							rp.code, rp.body, _ = env.DoTagged(id, "GET", ct.GetEntryAndProofPath, q("leaf_index", i, "tree_size", n), nil)
						}
						if rp.code == 0 {
							rep.Violate("C06:concurrent:panic:"+rp.op, "panic in a concurrent "+rp.op, nil)
						}
						mu.Lock()
						replies[id] = rp
						mu.Unlock()
					}
				}(g)
			}
			wg.Add(1)
			go func() { // the sequencer integrates while clients read
				defer wg.Done()
				srng := vh.Rand(int64(tr*77 + r))
				for k := 0; k < 3; k++ {
					if n := be.Queued(); n > 0 {
						be.Sequence(1+srng.Intn(n), w.Nanos(r, []int{0, 999999}[srng.Intn(2)]), nil)
					}
				}
			}()
			wg.Wait()
			_ = ncallsBefore
		}
		// join the backend's order with the replies and emit the trace
		calls := be.CallsSince(0)
		for i, c := range calls {
			if c.Method == "Sequence" && i > 0 && i+1 < len(calls) && calls[i-1].Method != "Tick" && calls[i+1].Method != "Tick" {
				overlapped = true
			}
			switch c.Method {
			case "Tick":
				rec.Emit(map[string]any{"ev": "Tick"})
				continue
			case "Sequence":
				rq := c.Req.(*trillian.GetLeavesByRangeRequest)
				var rem uint64
				for _, p := range be.Roots {
					if p.Size == int(rq.StartIndex) {
						rem = p.Nanos % 1000000
					}
				}
				rec.Emit(map[string]any{"ev": "Sequence", "k": rq.Count, "rem": rem})
				continue
			}
			rp := replies[c.ReqID]
			if rp == nil {
				rep.Violate("C06:concurrent:untagged-call", "a backend call could not be attributed to a request: "+c.Method, nil)
				continue
			}
			ev := map[string]any{"ev": rp.op, "status": rp.code}
			for k, v := range rp.args {
				ev[k] = v
			}
			bad := func(fp, what string) {
				rep.Violate("C06:concurrent:"+fp, what, map[string]any{"op": rp.op, "args": rp.args, "status": rp.code})
			}
			switch rp.op {
			case "AddChain":
				ev["ts"] = -1
				if rp.code == 200 {
					var a ct.AddChainResponse
					if json.Unmarshal(rp.body, &a) != nil {
						bad("addchain-json", "add-chain reply is not JSON")
						continue
					}
					sub := w.Subs[rp.args["cert"].(string)]
					tick := int((a.Timestamp - w.Ms(0)) / 1000)
					ev["ts"] = tick
					if msg := w.CheckSCT(sub, &a, w.Ms(tick)); msg != "" {
						bad("sct:"+short(msg), msg)
					}
				}
			case "GetSTH":
				var s STH
				if rp.code != 200 || json.Unmarshal(rp.body, &s) != nil {
					bad("getsth-status", fmt.Sprintf("get-sth answered %d", rp.code))
					continue
				}
				if err := ref.Verify(env.LogKey.Public(), ref.STHSignatureInput(s.Timestamp, s.TreeSize, s.Root), s.Sig); err != nil {
					bad("sth-signature", "served STH does not verify: "+err.Error())
				}
				if int(s.TreeSize) > be.Size() || !bytes.Equal(s.Root, be.Tree().Root(int(s.TreeSize))) {
					bad("sth-root", "served STH root is not the root of the backend's tree at that size")
				}
				ev["size"], ev["ts"] = s.TreeSize, int((s.Timestamp-w.Ms(0))/1000)
			case "GetConsistency":
				if rp.code == 200 {
					var r ct.GetSTHConsistencyResponse
					f, s2 := rp.args["first"].(int), rp.args["second"].(int)
					if json.Unmarshal(rp.body, &r) != nil || ref.VerifyConsistency(uint64(f), uint64(s2), be.Tree().Root(f), be.Tree().Root(s2), r.Consistency) != nil {
						bad("consistency-invalid", fmt.Sprintf("served consistency proof (%d,%d) does not verify", f, s2))
					}
				}
			case "GetProofByHash":
				ev["index"] = -1
				if rp.code == 200 {
					var r ct.GetProofByHashResponse
					n := rp.args["size"].(int)
					h := w.Subs[rp.args["cert"].(string)].LeafHashAt(w.Ms(rp.args["ts"].(int)))
					if json.Unmarshal(rp.body, &r) != nil || ref.VerifyInclusion(uint64(r.LeafIndex), uint64(n), h, r.AuditPath, be.Tree().Root(n)) != nil {
						bad("inclusion-invalid", "served audit path does not verify")
					}
					ev["index"] = r.LeafIndex
				}
			case "GetEntries":
				ents := []map[string]any{}
				if rp.code == 200 {
					var r ct.GetEntriesResponse
					if json.Unmarshal(rp.body, &r) != nil {
						bad("entries-json", "get-entries reply is not JSON")
						continue
					}
					for i, e := range r.Entries {
						p, ok := leafOf[string(e.LeafInput)]
						if !ok {
							bad("entries-unknown-leaf", "get-entries served a leaf that is not the entry of any submission")
							p = [2]any{"?", -1}
						} else if !bytes.Equal(e.ExtraData, w.Subs[p[0].(string)].ExpectedExtra()) {
							bad("entries-extra", fmt.Sprintf("entry %d: extra_data is not the submitted chain", rp.args["start"].(int)+i))
						}
						ents = append(ents, map[string]any{"cert": p[0], "ts": p[1]})
					}
				}
				ev["entries"] = ents
			case "GetEntryAndProof":
				ev["entry"] = map[string]any{"cert": "?", "ts": -1}
				if rp.code == 200 {
					var r ct.GetEntryAndProofResponse
					i, n := rp.args["index"].(int), rp.args["size"].(int)
					if json.Unmarshal(rp.body, &r) != nil || ref.VerifyInclusion(uint64(i), uint64(n), ref.LeafHash(r.LeafInput), r.AuditPath, be.Tree().Root(n)) != nil {
						bad("entryproof-invalid", "get-entry-and-proof served an audit path that does not verify")
					}
					if p, ok := leafOf[string(r.LeafInput)]; ok {
						ev["entry"] = map[string]any{"cert": p[0], "ts": p[1]}
					} else {
						bad("entryproof-unknown-leaf", "get-entry-and-proof served a leaf that is not the entry of any submission")
					}
				}
			}
			rec.Emit(ev)
		}
		key := ""
		if overlapped {
			key = fmt.Sprintf("trace-%d", tr)
		}
		rep.Eval(key)
	}
	if err := rec.Close(); err != nil {
		t.Fatal(err)
	}
	rep.Extra["events"] = rec.N
	if err := rep.Write(); err != nil {
		t.Fatal(err)
	}
}
