package cctfe

import (
	"bytes"
	"context"
	"encoding/json"
	"fmt"
	mrand "math/rand"
	"net/url"
	"os"
	"sync"
	"testing"
	"time"

	ct "github.com/google/certificate-transparency-go"
	"github.com/google/trillian"
	"google.golang.org/grpc/status"

	"verifharness/ctfeenv"
	"verifharness/ref"
	"verifharness/vh"
)

// creq is one HTTP request of a concurrent run.
type creq struct {
	id     string
	op     string
	fe     string
	args   map[string]any // the arguments in the specification's terms (the Inv event)
	method string
	path   string
	query  url.Values
	post   []byte
	code   int
	body   []byte
}

// cev is one entry of the real-time event log of a run: Inv / Ret are appended by the client goroutines around the
// handler call, Call / Sequence by the backend under its own mutex (so their order is the order in which the backend
// served them), Tick / ClockSet by the driver while nothing is in flight.
type cev struct {
	kind  string
	req   *creq
	call  ctfeenv.Call
	fault string // Call: what the backend did to it ("none", a refusal, "lostReply")
	fe    string
	t     int
}

type clog struct {
	mu  sync.Mutex
	evs []cev
}

func (l *clog) add(e cev) { l.mu.Lock(); l.evs = append(l.evs, e); l.mu.Unlock() }

// gate parks the backend call of one request until the driver releases it.
type gate struct {
	arrived chan struct{}
	release chan struct{}
}

// sched is what the driver tells the backend about individual requests: which RPC to park, which to fail.
type sched struct {
	mu      sync.Mutex
	faults  map[string]string // request id -> fault of its backend call
	applied map[string]bool   // request id -> the fault took place
	gates   map[string]*gate
}

func (s *sched) install(be *ctfeenv.Backend, log *clog) {
	idOf := func(ctx context.Context) string { id, _ := ctx.Value(ctfeenv.ReqIDKey{}).(string); return id }
	be.Gate = func(ctx context.Context, method string) {
		s.mu.Lock()
		g := s.gates[idOf(ctx)]
		delete(s.gates, idOf(ctx))
		s.mu.Unlock()
		if g != nil {
			close(g.arrived)
			<-g.release
		}
	}
	be.Refuse = func(ctx context.Context, method string) error {
		s.mu.Lock()
		defer s.mu.Unlock()
		f := s.faults[idOf(ctx)]
		if c, ok := rpcFaultCode[f]; ok && f != "lostReply" {
			s.applied[idOf(ctx)] = true
			return status.Error(c, "injected: backend refuses the call")
		}
		return nil
	}
	be.LoseReply = func(ctx context.Context, method string) error {
		s.mu.Lock()
		defer s.mu.Unlock()
		if s.faults[idOf(ctx)] == "lostReply" {
			s.applied[idOf(ctx)] = true
			return status.Error(rpcFaultCode["lostReply"], "injected: reply lost")
		}
		return nil
	}
	be.OnFinish = func(c ctfeenv.Call) {
		if c.Method == "Sequence" {
			log.add(cev{kind: "Sequence", call: c})
			return
		}
		s.mu.Lock()
		f := "none"
		if s.applied[c.ReqID] {
			f = s.faults[c.ReqID]
		}
		s.mu.Unlock()
		log.add(cev{kind: "Call", call: c, fault: f})
	}
}

var readFaults = []string{"unavailable", "deadline", "exhausted", "internal"}

// TestConcurrent drives the two front end instances of one log from several goroutines (submissions, reads,
// sequencing, backend calls that are refused or whose reply is lost) under the race detector.  In every round
// there are also staged overlaps: the backend call of one request is parked inside the backend, further requests
// (mostly to the same endpoint of the same front end) are sent while it is parked, and only then the parked call
// is let go - to fail.  The run is logged as Inv / Call / Ret events in real-time order (Call = the backend serving
// the RPC of a tagged request, in backend order), every reply is verified for real (STH / SCT signatures, proofs
// with the harness' verifiers, entry bytes) and the history is validated by CTFETrace.tla.
func TestConcurrent(t *testing.T) {
	rounds := vh.EnvInt("VERIF_ROUNDS", 6)
	traces := vh.EnvInt("VERIF_TRACES", 8)
	episodes := vh.EnvInt("VERIF_EPISODES", 4)
	prop := os.Getenv("VERIF_PROP")
	if prop == "" {
		prop = "C06"
	}
	rec, err := vh.NewRecorder("traces.ndjson")
	if err != nil {
		t.Fatal(err)
	}
	rep := vh.NewReport("cctfe-concurrent", "concurrent clients (4 goroutines of random submissions and reads on two front end instances with different clocks, one sequencer, refused backend calls and lost replies) plus staged overlaps (a backend call parked inside the backend while further requests arrive, then failed) on real ctfe.Instances under -race; Inv / Call / Ret events in real-time order, Call order = backend order = linearization order; every reply verified (STH / SCT signatures, proofs with the harness' verifiers, entry bytes) and the history validated by CTFETrace.tla; non-trivial = trace with a sequencing step overlapping reads and a failed parked call overlapped by another request to the same endpoint")
	ids := []string{"p1", "p2", "x1", "x2", "x3"}
	pre := map[string]bool{"p1": true, "p2": true}
	feNames := []string{"A", "B"}
	for tr := 0; tr < traces; tr++ {
		rng := vh.Rand(int64(9000 + tr))
		w, err := NewWorld(t.TempDir(), ids, pre, []string{"p256", "rsa2048"}[tr%2], rng, ctfeenv.Opts{})
		if err != nil {
			t.Fatal(err)
		}
		be := w.Env.Backend
		envs := map[string]*ctfeenv.Env{}
		for _, f := range feNames {
			if envs[f], err = w.FE(f); err != nil {
				t.Fatal(err)
			}
		}
		// projection of real leaf bytes back to (certificate id, tick)
		leafOf := map[string][2]any{}
		for tick := 0; tick <= rounds; tick++ {
			for _, id := range ids {
				leafOf[string(w.Subs[id].ExpectedLeaf(w.Ms(tick)))] = [2]any{id, tick}
			}
		}
		log := &clog{}
		sc := &sched{faults: map[string]string{}, applied: map[string]bool{}, gates: map[string]*gate{}}
		sc.install(be, log)

		// one request in the specification's terms and as HTTP; kind < 0 draws the endpoint
		mk := func(g *mrand.Rand, id, fe string, kind int) *creq {
			rq := &creq{id: id, fe: fe, args: map[string]any{}, method: "GET"}
			size := be.Size()
			if kind < 0 {
				kind = g.Intn(16)
			}
			switch kind {
			case 0, 1, 2, 3:
				c := ids[g.Intn(len(ids))]
				s := w.Subs[c]
				ep := s.Pre
				if kind == 3 && g.Intn(3) == 0 {
					ep = !ep // the wrong endpoint for this kind of certificate: rejected without the backend
				}
				rq.op, rq.method, rq.args["cert"] = "AddChain", "POST", c
				rq.args["ep"] = map[bool]string{true: "add-pre-chain", false: "add-chain"}[ep]
				rq.path = map[bool]string{true: ct.AddPreChainPath, false: ct.AddChainPath}[ep]
				rq.post, _ = json.Marshal(ct.AddChainRequest{Chain: s.Chain})
			case 4, 5, 6:
				rq.op, rq.path = "GetSTH", ct.GetSTHPath
			case 7, 8:
				s2 := g.Intn(size + 2)
				f := g.Intn(s2 + 1) // 0 (answered without the backend) .. s2
				if g.Intn(8) == 0 {
					f, s2 = s2+1, f // first > second
				}
				rq.op, rq.args["first"], rq.args["second"] = "GetConsistency", f, s2
				rq.path, rq.query = ct.GetSTHConsistencyPath, q("first", f, "second", s2)
			case 9, 10:
				c := ids[g.Intn(len(ids))]
				tick := g.Intn(rounds + 1)
				n := 1 + g.Intn(size+2)
				rq.op, rq.args["cert"], rq.args["ts"], rq.args["size"] = "GetProofByHash", c, tick, n
				rq.path, rq.query = ct.GetProofByHashPath, q("hash", w.Subs[c].LeafHashAt(w.Ms(tick)), "tree_size", n)
			case 11, 12:
				a := g.Intn(size + 2)
				b := a + g.Intn(3)
				rq.op, rq.args["start"], rq.args["end"] = "GetEntries", a, b
				rq.path, rq.query = ct.GetEntriesPath, q("start", a, "end", b)
			case 13, 14:
				n := 1 + g.Intn(size+2)
				i := g.Intn(n)
				rq.op, rq.args["index"], rq.args["size"] = "GetEntryAndProof", i, n
				rq.path, rq.query = ct.GetEntryAndProofPath, q("leaf_index", i, "tree_size", n)
			default:
				rq.op, rq.path = "GetRoots", ct.GetRootsPath
			}
			return rq
		}
		perform := func(rq *creq) {
			log.add(cev{kind: "Inv", req: rq})
			rq.code, rq.body, _ = envs[rq.fe].DoTagged(rq.id, rq.method, rq.path, rq.query, rq.post)
			log.add(cev{kind: "Ret", req: rq})
			if rq.code == 0 {
				rep.Violate(prop+":concurrent:panic:"+rq.op, "panic in a concurrent "+rq.op, nil)
			}
		}
		setFault := func(id, f string) { sc.mu.Lock(); sc.faults[id] = f; sc.mu.Unlock() }
		faultFor := func(g *mrand.Rand, op string) string {
			if op == "AddChain" && g.Intn(3) == 0 {
				return "lostReply"
			}
			return readFaults[g.Intn(len(readFaults))]
		}

		rec.Emit(map[string]any{"ev": "Reset", "t": tr})
		overlapSeq, overlapFault := false, false
		clocks := map[string]int{"A": 0, "B": 0}
		for r := 0; r < rounds; r++ {
			// nothing is in flight here: the backend's clock runs on, the front ends' clocks are set - A's runs
			// with the backend's, B's reads anything (behind, ahead, stepped back since the last round)
			if r > 0 {
				log.add(cev{kind: "Tick"})
			}
			for _, f := range feNames {
				tick := r
				if f == "B" {
					tick = rng.Intn(rounds + 1)
				}
				if tick != clocks[f] {
					w.SetTickFE(envs[f], tick)
					clocks[f] = tick
					log.add(cev{kind: "ClockSet", fe: f, t: tick})
				}
			}
			// phase 1: free-running clients and the sequencer
			var wg sync.WaitGroup
			for g := 0; g < 4; g++ {
				wg.Add(1)
				go func(g int) {
					defer wg.Done()
					grng := vh.Rand(int64(tr*1000 + r*10 + g))
					for k := 0; k < 6; k++ {
						rq := mk(grng, fmt.Sprintf("t%d-r%d-g%d-k%d", tr, r, g, k), feNames[g/2], -1)
						if grng.Intn(8) == 0 {
							setFault(rq.id, faultFor(grng, rq.op))
						}
						perform(rq)
					}
				}(g)
			}
			wg.Add(1)
			go func() { // the sequencer integrates while clients read
				defer wg.Done()
				srng := vh.Rand(int64(tr*77 + r))
				for k := 0; k < 3; k++ {
					if n := be.Queued(); n > 0 {
						be.Sequence(1+srng.Intn(n), w.Nanos(r, []int{0, 999999}[srng.Intn(2)]), nil)
					}
				}
			}()
			wg.Wait()
			// phase 2: staged overlaps.  The backend call of request A is parked inside the backend; while it is
			// parked, further requests are sent (two out of three to the same endpoint of the same front end, half of those the very
			// same request) and
			// the tree may grow; then A's call is let go and (three times out of four) fails.
			erng := vh.Rand(int64(tr*131 + r))
			for e := 0; e < episodes; e++ {
				fa := feNames[erng.Intn(2)]
				kindA := []int{4, 4, 4, 0, 7, 9, 11, 13}[erng.Intn(8)]
				a := mk(erng, fmt.Sprintf("t%d-r%d-e%d-A", tr, r, e), fa, kindA)
				if erng.Intn(4) > 0 {
					setFault(a.id, faultFor(erng, a.op))
				}
				g := &gate{arrived: make(chan struct{}), release: make(chan struct{})}
				sc.mu.Lock()
				sc.gates[a.id] = g
				sc.mu.Unlock()
				adone := make(chan struct{})
				go func() { perform(a); close(adone) }()
				parked := false
				select {
				case <-g.arrived:
					parked = true
				case <-adone: // answered without the backend
				}
				var others []*creq
				bdone := make(chan struct{})
				nb := 1 + erng.Intn(3)
				var bwg sync.WaitGroup
				for k := 0; k < nb; k++ {
					fb, kindB := fa, kindA
					if erng.Intn(3) == 0 {
						fb, kindB = feNames[erng.Intn(2)], -1
					}
					b := mk(erng, fmt.Sprintf("t%d-r%d-e%d-B%d", tr, r, e, k), fb, kindB)
					if fb == fa && kindB == kindA && erng.Intn(2) == 0 {
						// the very same request as the parked one (what a front end might be tempted to answer together)
						b.op, b.args, b.method, b.path, b.query, b.post = a.op, a.args, a.method, a.path, a.query, a.post
					}
					others = append(others, b)
					bwg.Add(1)
					go func() { defer bwg.Done(); perform(b) }()
				}
				go func() { bwg.Wait(); close(bdone) }()
				if parked && erng.Intn(2) == 0 {
					if n := be.Queued(); n > 0 {
						be.Sequence(1+erng.Intn(n), w.Nanos(r, 0), nil)
					}
				}
				// The others either finish on their own (they do on the unchanged code) or are stuck behind the
				// parked call.  This bounded wait is a scheduling aid, not a judgment: whichever way it ends, the
				// recorded history is judged by the specification alone.
				select {
				case <-bdone:
				case <-time.After(100 * time.Millisecond):
				}
				close(g.release)
				<-adone
				<-bdone
				sc.mu.Lock()
				failed := sc.applied[a.id]
				delete(sc.gates, a.id)
				sc.mu.Unlock()
				if parked && failed {
					for _, b := range others {
						if b.op == a.op && b.fe == a.fe {
							overlapFault = true
						}
					}
				}
			}
		}
		be.Gate, be.Refuse, be.LoseReply, be.OnFinish = nil, nil, nil, nil

		// emit the trace: real bytes projected back onto the specification's values, replies verified for real
		evs := log.evs
		inflight := 0
		for _, e := range evs {
			switch e.kind {
			case "Inv":
				inflight++
			case "Ret":
				inflight--
			case "Sequence":
				if inflight > 0 {
					overlapSeq = true
				}
			}
			switch e.kind {
			case "Tick":
				rec.Emit(map[string]any{"ev": "Tick"})
			case "ClockSet":
				rec.Emit(map[string]any{"ev": "ClockSet", "fe": e.fe, "t": e.t})
			case "Sequence":
				rq := e.call.Req.(*trillian.GetLeavesByRangeRequest)
				var rem uint64
				for _, p := range be.Roots {
					if p.Size == int(rq.StartIndex) {
						rem = p.Nanos % 1000000
					}
				}
				rec.Emit(map[string]any{"ev": "Sequence", "k": rq.Count, "rem": rem})
			case "Inv":
				ev := map[string]any{"ev": "Inv", "id": e.req.id, "op": e.req.op, "fe": e.req.fe}
				for k, v := range e.req.args {
					ev[k] = v
				}
				rec.Emit(ev)
			case "Call":
				if e.call.ReqID == "" {
					rep.Violate(prop+":concurrent:untagged-call", "a backend call could not be attributed to a request: "+e.call.Method, nil)
					continue
				}
				rec.Emit(map[string]any{"ev": "Call", "id": e.call.ReqID, "method": e.call.Method, "fault": e.fault})
			case "Ret":
				rec.Emit(retEvent(w, be, envs[e.req.fe], e.req, leafOf, rep, prop))
			}
		}
		key := ""
		if overlapSeq && overlapFault {
			key = fmt.Sprintf("trace-%d", tr)
		}
		rep.Eval(key)
	}
	if err := rec.Close(); err != nil {
		t.Fatal(err)
	}
	rep.Extra["events"] = rec.N
	if err := rep.Write(); err != nil {
		t.Fatal(err)
	}
}

// tickOf projects a millisecond timestamp back onto a tick; -2 if it is not the reading of any clock of the run.
func (w *World) tickOf(ms uint64) int {
	if ms < w.Ms(0) || (ms-w.Ms(0))%1000 != 0 || (ms-w.Ms(0))/1000 > 1000 {
		return -2
	}
	return int((ms - w.Ms(0)) / 1000)
}

// retEvent verifies one reply for real and renders it as the Ret event of the trace.
func retEvent(w *World, be *ctfeenv.Backend, env *ctfeenv.Env, rp *creq, leafOf map[string][2]any, rep *vh.Report, prop string) map[string]any {
	ev := map[string]any{"ev": "Ret", "id": rp.id, "op": rp.op, "status": rp.code}
	bad := func(fp, what string) {
		rep.Violate(prop+":concurrent:"+fp, what, map[string]any{"op": rp.op, "args": rp.args, "status": rp.code, "fe": rp.fe})
	}
	switch rp.op {
	case "AddChain":
		ev["ts"] = -1
		if rp.code == 200 {
			var a ct.AddChainResponse
			if json.Unmarshal(rp.body, &a) != nil {
				bad("addchain-json", "add-chain reply is not JSON")
				return ev
			}
			sub := w.Subs[rp.args["cert"].(string)]
			ev["ts"] = w.tickOf(a.Timestamp)
			if msg := w.CheckSCT(sub, &a, a.Timestamp); msg != "" {
				bad("sct:"+short(msg), msg)
			}
		}
	case "GetSTH":
		ev["size"], ev["ts"] = -1, -1
		if rp.code == 200 {
			var s STH
			if json.Unmarshal(rp.body, &s) != nil {
				bad("getsth-json", "get-sth reply is not JSON")
				return ev
			}
			if err := ref.Verify(env.LogKey.Public(), ref.STHSignatureInput(s.Timestamp, s.TreeSize, s.Root), s.Sig); err != nil {
				bad("sth-signature", "served STH does not verify: "+err.Error())
			}
			if int(s.TreeSize) > be.Size() || !bytes.Equal(s.Root, be.Tree().Root(int(s.TreeSize))) {
				bad("sth-root", "served STH root is not the root of the backend's tree at that size")
			}
			ev["size"], ev["ts"] = s.TreeSize, w.tickOf(s.Timestamp)
		}
	case "GetConsistency":
		if rp.code == 200 {
			var r ct.GetSTHConsistencyResponse
			f, s2 := rp.args["first"].(int), rp.args["second"].(int)
			if json.Unmarshal(rp.body, &r) != nil {
				bad("consistency-json", "get-sth-consistency reply is not JSON")
			} else if f == 0 {
				if len(r.Consistency) != 0 {
					bad("consistency-first0-nonempty", "non-empty proof from the empty tree")
				}
			} else if s2 > be.Size() || ref.VerifyConsistency(uint64(f), uint64(s2), be.Tree().Root(f), be.Tree().Root(s2), r.Consistency) != nil {
				bad("consistency-invalid", fmt.Sprintf("served consistency proof (%d,%d) does not verify", f, s2))
			}
		}
	case "GetProofByHash":
		ev["index"] = -1
		if rp.code == 200 {
			var r ct.GetProofByHashResponse
			n := rp.args["size"].(int)
			h := w.Subs[rp.args["cert"].(string)].LeafHashAt(w.Ms(rp.args["ts"].(int)))
			if json.Unmarshal(rp.body, &r) != nil || n > be.Size() || ref.VerifyInclusion(uint64(r.LeafIndex), uint64(n), h, r.AuditPath, be.Tree().Root(n)) != nil {
				bad("inclusion-invalid", "served audit path does not verify")
			}
			ev["index"] = r.LeafIndex
		}
	case "GetEntries":
		ents := []map[string]any{}
		if rp.code == 200 {
			var r ct.GetEntriesResponse
			if json.Unmarshal(rp.body, &r) != nil {
				bad("entries-json", "get-entries reply is not JSON")
				ev["entries"] = ents
				return ev
			}
			for i, e := range r.Entries {
				p, ok := leafOf[string(e.LeafInput)]
				if !ok {
					bad("entries-unknown-leaf", "get-entries served a leaf that is not the entry of any submission")
					p = [2]any{"?", -1}
				} else if !bytes.Equal(e.ExtraData, w.Subs[p[0].(string)].ExpectedExtra()) {
					bad("entries-extra", fmt.Sprintf("entry %d: extra_data is not the submitted chain", rp.args["start"].(int)+i))
				}
				ents = append(ents, map[string]any{"cert": p[0], "ts": p[1]})
			}
		}
		ev["entries"] = ents
	case "GetEntryAndProof":
		ev["entry"] = map[string]any{"cert": "?", "ts": -1}
		if rp.code == 200 {
			var r ct.GetEntryAndProofResponse
			i, n := rp.args["index"].(int), rp.args["size"].(int)
			if json.Unmarshal(rp.body, &r) != nil || n > be.Size() || ref.VerifyInclusion(uint64(i), uint64(n), ref.LeafHash(r.LeafInput), r.AuditPath, be.Tree().Root(n)) != nil {
				bad("entryproof-invalid", "get-entry-and-proof served an audit path that does not verify")
			}
			if p, ok := leafOf[string(r.LeafInput)]; ok {
				ev["entry"] = map[string]any{"cert": p[0], "ts": p[1]}
			} else {
				bad("entryproof-unknown-leaf", "get-entry-and-proof served a leaf that is not the entry of any submission")
			}
		}
	case "GetRoots":
		var r ct.GetRootsResponse
		if rp.code != 200 || json.Unmarshal(rp.body, &r) != nil || len(r.Certificates) != 1 {
			bad("getroots", fmt.Sprintf("get-roots: %d", rp.code))
		}
	}
	return ev
}
