//go:build verif

package c18

// The API-variant dimension of the log-list filter (spec/common/Temporal.tla "log list filter: the API variants",
// cases of spec/common/MCLogFilter.tla).  Every exported log list - logs without a temporal interval or with any
// interval [s, e), each with one state of knowledge in the roots collection - is materialized in every frame of the
// specification and every call of the family is made on it:
//
//	TC     ll.TemporallyCompatible(cert)
//	C      ll.Compatible(cert, root, roots)
//	TC.RC  ll.TemporallyCompatible(cert).RootCompatible(root, roots)
//	RC.TC  ll.RootCompatible(root, roots).TemporallyCompatible(cert)
//	RC     ll.RootCompatible(root, roots)
//
// with root nil / a CA certificate / a certificate that is not a CA, cert nil or a certificate whose NotAfter is each
// tick, the list built directly (one operator, one operator per log) or parsed from JSON, and the roots collection in
// three shapes (minimal: nil when it has no entry; padded: never nil, an entry for a log that is not in the list, pools
// with further certificates; empty but not nil when it has no entry).  The set of logs each call returns must be the one the specification exports.

import (
	"encoding/json"
	"fmt"
	"io"
	"os"
	"runtime"
	"sort"
	"strconv"
	"sync"
	"testing"
	"time"

	"github.com/google/certificate-transparency-go/loglist3"
	ctx509 "github.com/google/certificate-transparency-go/x509"
	"github.com/google/certificate-transparency-go/x509util"
	"k8s.io/klog/v2"

	"verifharness/pki"
	"verifharness/vh"
)

// FLog is one log of an FCASE record: its temporal interval (s = e = -1: none) and what the roots collection knows.
type FLog struct {
	S  int    `json:"s"`
	E  int    `json:"e"`
	Rs string `json:"rs"`
}

// FCase is one record exported by MCLogFilter.tla: keep[variant][root][k] = positions (0-based) of the logs the call
// returns for certificate k (k < nT: NotAfter = tick k; k = nT: no certificate).
type FCase struct {
	L    []FLog                        `json:"L"`
	Keep map[string]map[string][][]int `json:"keep"`
}

// FDim is the FDIM record: the values of every dimension of the case space.
type FDim struct {
	Variants []string `json:"variants"`
	Roots    []string `json:"roots"`
	States   []string `json:"states"`
	Top      int      `json:"top"`
}

// filterWorld: the certificates the root arguments and the pools are made of
type filterWorld struct {
	ca, otherCA, notCA *ctx509.Certificate
}

func newFilterWorld(w *world) *filterWorld {
	parse := func(der []byte) *ctx509.Certificate {
		c, err := ctx509.ParseCertificate(der)
		if err != nil {
			panic(err)
		}
		return c
	}
	fw := &filterWorld{ca: parse(w.root.DER), otherCA: parse(pki.NewRoot(pki.Opts{CN: "c18 other root"}).DER)}
	leaf, _ := w.leaf(landmarks["Mid"])
	fw.notCA = parse(leaf.DER)
	if !fw.ca.IsCA || !fw.otherCA.IsCA || fw.notCA.IsCA {
		panic("filter world: CA flags")
	}
	return fw
}

func (fw *filterWorld) root(kind string) *ctx509.Certificate {
	switch kind {
	case "none":
		return nil
	case "ca":
		return fw.ca
	case "notca":
		return fw.notCA
	}
	panic("root kind " + kind)
}

// roots builds the collection for the logs of a case.  shape 0: minimal (nil when no log has an entry); shape 1: padded.
func (fw *filterWorld) roots(c FCase, shape int) loglist3.LogRoots {
	var m loglist3.LogRoots
	if shape == 1 {
		m = loglist3.LogRoots{}
		p := x509util.NewPEMCertPool()
		p.AddCert(fw.ca)
		m["https://elsewhere.example/"] = p
	}
	for i, l := range c.L {
		if l.Rs == "unknown" {
			continue
		}
		p := x509util.NewPEMCertPool()
		if shape == 1 {
			p.AddCert(fw.otherCA)
		}
		switch l.Rs {
		case "accepts":
			p.AddCert(fw.ca)
			if shape == 1 {
				p.AddCert(fw.notCA)
			}
		case "rejects":
		default:
			panic("roots state " + l.Rs)
		}
		if m == nil {
			m = loglist3.LogRoots{}
		}
		m[flogURL(i)] = p
	}
	return m
}

func flogURL(i int) string { return fmt.Sprintf("https://flog%d.example/", i) }

// the entry points of the family
var filterCalls = map[string]func(ll *loglist3.LogList, cert, root *ctx509.Certificate, roots loglist3.LogRoots) loglist3.LogList{
	"TC": func(ll *loglist3.LogList, cert, _ *ctx509.Certificate, _ loglist3.LogRoots) loglist3.LogList {
		return ll.TemporallyCompatible(cert)
	},
	"C": func(ll *loglist3.LogList, cert, root *ctx509.Certificate, roots loglist3.LogRoots) loglist3.LogList {
		return ll.Compatible(cert, root, roots)
	},
	"TC.RC": func(ll *loglist3.LogList, cert, root *ctx509.Certificate, roots loglist3.LogRoots) loglist3.LogList {
		tc := ll.TemporallyCompatible(cert)
		return tc.RootCompatible(root, roots)
	},
	"RC.TC": func(ll *loglist3.LogList, cert, root *ctx509.Certificate, roots loglist3.LogRoots) loglist3.LogList {
		rc := ll.RootCompatible(root, roots)
		return rc.TemporallyCompatible(cert)
	},
	"RC": func(ll *loglist3.LogList, _, root *ctx509.Certificate, roots loglist3.LogRoots) loglist3.LogList {
		return ll.RootCompatible(root, roots)
	},
}

func usableF(m mat, c FCase) bool {
	for _, l := range c.L {
		if (l.S >= 0 && l.S < m.boundMin) || (l.E >= 0 && l.E < m.boundMin) {
			return false
		}
	}
	return true
}

// evalKey: one class of evaluated call (variant, root argument, roots knowledge, position of the instant)
type evalKey struct{ v, root, rs, rel string }

type filterRunner struct {
	r   *runner
	fw  *filterWorld
	dim FDim
}

// lists materializes the log list of a case: built directly in two layouts and parsed from JSON
func (fr *filterRunner) lists(c FCase, m mat) map[string]*loglist3.LogList {
	type jl struct {
		Description string         `json:"description"`
		URL         string         `json:"url"`
		Interval    map[string]any `json:"temporal_interval,omitempty"`
	}
	one := &loglist3.LogList{}
	per := &loglist3.LogList{}
	op := &loglist3.Operator{Name: "op"}
	jlogs := []jl{}
	for i, l := range c.L {
		mk := func(salt int) *loglist3.Log {
			lg := &loglist3.Log{Description: strconv.Itoa(i), URL: flogURL(i)}
			if l.S >= 0 {
				lg.TemporalInterval = &loglist3.TemporalInterval{StartInclusive: *m.bound(l.S, i+salt), EndExclusive: *m.bound(l.E, i+salt+1)}
			}
			return lg
		}
		op.Logs = append(op.Logs, mk(0))
		per.Operators = append(per.Operators, &loglist3.Operator{Name: "op" + strconv.Itoa(i), Logs: []*loglist3.Log{mk(1)}})
		j := jl{Description: strconv.Itoa(i), URL: flogURL(i)}
		if l.S >= 0 {
			j.Interval = map[string]any{"start_inclusive": rfc3339(*m.bound(l.S, i+2)), "end_exclusive": rfc3339(*m.bound(l.E, i))}
		}
		jlogs = append(jlogs, j)
	}
	one.Operators = []*loglist3.Operator{op}
	raw, _ := json.Marshal(map[string]any{"operators": []any{map[string]any{"name": "op", "email": []string{}, "logs": jlogs}}})
	parsed, err := loglist3.NewFromJSON(raw)
	if err != nil {
		panic(fmt.Sprintf("log list JSON refused: %v\n%s", err, raw))
	}
	return map[string]*loglist3.LogList{"direct/one-operator": one, "direct/operator-per-log": per, "json": parsed}
}

// filterCase makes every call of the family on one materialized case.  Lists of at most one log (in the thorough tier:
// at most two logs; in a replay: every list) get the full product list source x shape of the roots collection; longer
// lists get both layouts with the shapes alternating by n, and the JSON route every fourth time.
func (fr *filterRunner) filterCase(c FCase, m mat, seen map[evalKey]bool, n int, full bool) {
	r := fr.r
	nT := r.nT
	ctxt := map[string]any{"fcase": c, "mat": m.String(), "frames": r.frames}
	ft := frameTag(m)
	lists := fr.lists(c, m)
	rootsShapes := []loglist3.LogRoots{fr.fw.roots(c, 0), fr.fw.roots(c, 1)}
	if rootsShapes[0] == nil {
		rootsShapes = append(rootsShapes, loglist3.LogRoots{}) // shape 2: a collection that is there and has no entry
	}
	calls := 0
	perVariant := map[string]int{}
	relAt := make([][]string, nT+1) // relAt[k][i]: where certificate k lies with respect to the interval of log i
	for k := 0; k <= nT; k++ {
		relAt[k] = make([]string, len(c.L))
		for i, l := range c.L {
			relAt[k][i] = "cert=nil"
			if k < nT {
				relAt[k][i] = rel(k, []int{l.S, l.E})
			}
		}
	}
	firstPass := true
	for _, src := range []string{"direct/one-operator", "direct/operator-per-log", "json"} {
		ll := lists[src]
		for shape, roots := range rootsShapes {
			if src == "json" && shape != 0 {
				continue
			}
			if !full && len(c.L) > 1 {
				switch src {
				case "direct/one-operator":
					if shape == (n+1)%2 {
						continue
					}
				case "direct/operator-per-log":
					if shape != (n+1)%2 {
						continue
					}
				case "json":
					if n%4 != 0 {
						continue
					}
				}
			}
			// RootCompatible takes no certificate: one call per root argument, compared with every column
			rcDone := map[string]loglist3.LogList{}
			// a root that is not a CA returns nothing whatever the instant (and logs a warning per call): the quick
			// tier gives it one certificate column per pass, by n
			notCAColumn := (n + shape) % (nT + 1)
			for k := 0; k <= nT; k++ {
				var cert *ctx509.Certificate
				if k < nT {
					at := m.at(k)
					if src == "json" && at.Nanosecond() == 0 {
						_, cert = r.w.leaf(at) // a real certificate where one can carry the instant
					} else {
						cert = &ctx509.Certificate{NotAfter: at.In(zones[(k+shape)%len(zones)])}
					}
				}
				for _, v := range fr.dim.Variants {
					call := filterCalls[v]
					for _, root := range fr.dim.Roots {
						want := c.Keep[v][root][k]
						var got loglist3.LogList
						ok := false
						if prev, done := rcDone[root]; v == "RC" && done {
							got, ok = prev, true
						} else {
							if v == "TC" && root != fr.dim.Roots[0] && !full {
								continue // TemporallyCompatible takes no root: the quick tier checks one row of its table
							}
							if root == "notca" && k != notCAColumn && !full {
								continue
							}
							guard(r.rep, "loglist:"+v, ctxt, func() { got = call(ll, cert, fr.fw.root(root), roots); ok = true })
							calls++
							perVariant[v]++
							if ok && v == "RC" {
								rcDone[root] = got
							}
						}
						if !ok {
							continue
						}
						in := make([]int, len(c.L))
						for _, o := range got.Operators {
							for _, l := range o.Logs {
								i, err := strconv.Atoi(l.Description)
								if err != nil || i < 0 || i >= len(c.L) || l.URL != flogURL(i) {
									r.rep.Violate("loglist:variant="+v+":foreign-log", fmt.Sprintf("%s on %s returns a log that is not in the list: %+v", v, src, l), ctxt)
									continue
								}
								in[i]++
							}
						}
						wantIn := make([]bool, len(c.L))
						for _, i := range want {
							wantIn[i] = true
						}
						for i, l := range c.L {
							relation := relAt[k][i]
							if firstPass {
								key := evalKey{v, root, l.Rs, relation}
								if !seen[key] {
									seen[key] = true
									r.rep.Eval("flt:" + v + ":" + root + ":" + l.Rs + ":" + relation)
								}
							}
							if in[i] > 1 {
								r.rep.Violate("loglist:variant="+v+":duplicate", fmt.Sprintf("%s on %s returns log %d %d times", v, src, i, in[i]), ctxt)
							}
							if (in[i] > 0) != wantIn[i] {
								certName := "no certificate"
								if k < nT {
									certName = "NotAfter " + m.at(k).Format(time.RFC3339Nano)
								}
								iv := "no temporal interval"
								if l.S >= 0 {
									iv = fmt.Sprintf("temporal interval [%v, %v)", fmtB(m, l.S), fmtB(m, l.E))
								}
								r.rep.Violate(fmt.Sprintf("loglist:variant=%s:root=%s:roots=%s:%s:spec=%v%s", v, root, l.Rs, relation, wantIn[i], ft),
									fmt.Sprintf("%s (list %s, root argument %s, roots collection shape %d: %s for this log), %s, log %d of %v with %s (%s): specification returns it=%v, implementation=%v",
										v, src, root, shape, l.Rs, certName, i, c.L, iv, m, wantIn[i], in[i] > 0), ctxt)
							}
						}
					}
				}
			}
			firstPass = false
		}
	}
	r.rep.Eval("")
	r.count("filter_calls", calls)
	for v, n := range perVariant {
		r.count("variant:"+v, n)
	}
}

func TestReplayFilter(t *testing.T) {
	klog.LogToStderr(false)
	klog.SetOutput(io.Discard)
	rep := vh.NewReport("c18-filter", "every log list of MCLogFilter.tla (logs without / with any temporal interval x knowledge of the roots collection: no entry, "+
		"entry with the root, entry without it) materialized in every frame of the specification; every entry point of the filter family - TemporallyCompatible, Compatible, "+
		"TemporallyCompatible.RootCompatible, RootCompatible.TemporallyCompatible, RootCompatible - with root nil / CA / not a CA and certificate nil / NotAfter at every tick "+
		"returns exactly the logs the specification returns: the temporal verdict is InWindow in every variant")
	defer func() {
		if err := rep.Write(); err != nil {
			t.Fatal(err)
		}
	}()
	path := os.Getenv("VERIF_FCASES")
	if path == "" {
		t.Fatal("VERIF_FCASES not set")
	}
	cases, err := vh.LoadNDJSON[FCase](path)
	if err != nil {
		t.Fatal(err)
	}
	if len(cases) == 0 {
		t.Fatal("no cases")
	}
	dims, err := vh.LoadNDJSON[FDim](os.Getenv("VERIF_FDIM"))
	if err != nil || len(dims) != 1 {
		t.Fatalf("VERIF_FDIM: %v (%d records)", err, len(dims))
	}
	dim := dims[0]
	sort.Strings(dim.Variants)
	sort.Strings(dim.Roots)
	nT := dim.Top + 1
	for _, v := range dim.Variants {
		if filterCalls[v] == nil {
			t.Fatalf("the specification names a variant this harness cannot call: %q", v)
		}
	}
	frames, err := vh.LoadNDJSON[FrameRec](os.Getenv("VERIF_FRAMES"))
	if err != nil || len(frames) == 0 {
		t.Fatalf("VERIF_FRAMES: %v", err)
	}
	for _, f := range frames {
		if _, ok := landmarks[f.At]; !ok {
			t.Fatalf("the specification names a frame this harness cannot realize: %q", f.At)
		}
		if f.Top != nT-1 {
			t.Fatalf("frame %s is for ticks 0..%d, the run has %d ticks", f.At, f.Top, nT)
		}
		if len(mats(f, nT, units)) == 0 {
			t.Fatalf("frame %s has no materialization", f.At)
		}
	}
	r := &runner{w: newWorld(), rep: rep, nT: nT, frames: frames}
	r.stats.m = map[string]int{}
	fr := &filterRunner{r: r, fw: newFilterWorld(r.w), dim: dim}
	for _, root := range dim.Roots {
		fr.fw.root(root) // panics on a root kind this harness does not know
	}
	for _, c := range cases {
		for _, v := range dim.Variants {
			for _, root := range dim.Roots {
				if len(c.Keep[v][root]) != nT+1 {
					t.Fatalf("case %v: keep[%s][%s] has %d columns, want %d", c.L, v, root, len(c.Keep[v][root]), nT+1)
				}
			}
		}
		fr.fw.roots(c, 0) // panics on a roots state this harness does not know
	}
	extreme := map[string]bool{"Mid": true, "First": true, "ConfFirst": true, "Last": true}
	innerUnits := []time.Duration{time.Second, time.Nanosecond}
	innerPerCase := vh.EnvInt("VERIF_INNER_MATS", 2)
	replayAll := os.Getenv("VERIF_REPLAY_ONE") == "1"

	var wg sync.WaitGroup
	ch := make(chan int, 1024)
	for g := 0; g < runtime.GOMAXPROCS(0); g++ {
		wg.Add(1)
		go func(g int) {
			defer wg.Done()
			rnd := vh.Rand(int64(2000 + g))
			seen := map[evalKey]bool{}
			n := g
			for i := range ch {
				c := cases[i]
				for _, f := range frames {
					var ms []mat
					switch {
					case extreme[f.At]:
						ms = mats(f, nT, units)
					case replayAll || vh.Thorough():
						ms = mats(f, nT, innerUnits)
					default:
						all := mats(f, nT, innerUnits)
						for n := 0; n < innerPerCase && len(all) > 0; n++ {
							ms = append(ms, all[rnd.Intn(len(all))])
						}
					}
					for _, m := range ms {
						if !usableF(m, c) {
							continue
						}
						r.count("frame:"+f.At, 1)
						n++
						fr.filterCase(c, m, seen, n, replayAll || (vh.Thorough() && len(c.L) <= 2))
					}
				}
				for _, l := range c.L {
					r.count("roots:"+l.Rs, 1)
				}
			}
		}(g)
	}
	for i := range cases {
		ch <- i
	}
	close(ch)
	wg.Wait()
	rep.Replayed = len(cases)
	for k, v := range r.stats.m {
		rep.Add(k, v)
	}
	for _, c := range cases {
		if len(c.L) == 2 && c.L[0].S >= 0 && c.L[0].S < c.L[0].E && c.L[0].Rs == "unknown" {
			rep.Sample(c)
			break
		}
	}
}
