//go:build verif

// Package c18 replays every case of spec/common/MCTemporal.tla (all shard lists over a bounded set of instants,
// with the verdict of each component operator) into the three real components that decide "is NotAfter inside
// [start, limit)": the log server (ctfe.ValidateChain and a configured ctfe.Instance), the temporal-shard client
// (client.NewTemporalLogClient / IndexByDate) and the log-list filter (loglist3 TemporallyCompatible / Compatible); and
// into the integration tests' NotAfter chooser (integration.NotAfterForLog).  Every case is materialized in every FRAME of
// the specification: the ticks are placed at an ordinary instant and at the landmarks of the machinery that compares
// them - the first and the last instant a certificate can carry, the first instant a configuration can name (= the
// zero time.Time), the UTCTime / GeneralizedTime switches, Unix time 0, the 32-bit and the 64-bit-nanosecond ends.
package c18

import (
	"crypto/ecdsa"
	"crypto/elliptic"
	"crypto/rand"
	stdx509 "crypto/x509"
	"crypto/x509/pkix"
	"encoding/json"
	"fmt"
	"math/big"
	"os"
	"runtime"
	"strings"
	"sync"
	"testing"
	"time"

	"github.com/google/certificate-transparency-go/client"
	"github.com/google/certificate-transparency-go/client/configpb"
	"github.com/google/certificate-transparency-go/loglist3"
	"github.com/google/certificate-transparency-go/trillian/ctfe"
	ctfeconfigpb "github.com/google/certificate-transparency-go/trillian/ctfe/configpb"
	"github.com/google/certificate-transparency-go/trillian/integration"
	ctx509 "github.com/google/certificate-transparency-go/x509"
	"github.com/google/certificate-transparency-go/x509util"
	"google.golang.org/protobuf/types/known/timestamppb"

	"verifharness/c02"
	"verifharness/pki"
	"verifharness/vh"
)

// Case is one record exported by MCTemporal.tla.
type Case struct {
	S    [][]int  `json:"S"`    // shards: [lower, upper], -1 = absent
	Ok   bool     `json:"ok"`   // ConstructorAccepts
	Idx  []int    `json:"idx"`  // ShardIndex(t), 0 = none, per instant
	Srv  [][]bool `json:"srv"`  // ServerAdmits(t, shard i)
	Lst  [][]bool `json:"lst"`  // ListCompatible(t, shard i), empty when the shard is not expressible as a log-list entry
	Cfg  []bool   `json:"cfg"`  // ConfigAccepts(shard i): the server's configuration accepts the window
	Ins  [][]bool `json:"ins"`  // ConfiguredAdmits(t, shard i), empty when the configuration is refused
	Pick []bool   `json:"pick"` // ChooserMustBeInside(shard i)
}

// FrameRec is one FRAME record of MCTemporal.tla.
type FrameRec struct {
	At       string `json:"at"`
	Pins     []int  `json:"pins"`
	BoundMin int    `json:"boundMin"`
	Top      int    `json:"top"`
}

// the table landmark -> real instant (whole seconds)
var landmarks = map[string]time.Time{
	"Mid":       time.Date(2031, 3, 5, 0, 0, 0, 0, time.UTC),
	"First":     time.Date(0, 1, 1, 0, 0, 0, 0, time.UTC),
	"ConfFirst": time.Date(1, 1, 1, 0, 0, 0, 0, time.UTC),
	"UTCFirst":  time.Date(1950, 1, 1, 0, 0, 0, 0, time.UTC),
	"Epoch":     time.Unix(0, 0).UTC(),
	"Int32Last": time.Unix(1<<31-1, 0).UTC(),
	"GenFirst":  time.Date(2050, 1, 1, 0, 0, 0, 0, time.UTC),
	"NanoLast":  time.Unix(0, 1<<63-1).UTC().Truncate(time.Second),
	"Last":      time.Date(9999, 12, 31, 23, 59, 59, 0, time.UTC),
}

// what a configuration (protobuf Timestamp) can name
var (
	confFirst = time.Date(1, 1, 1, 0, 0, 0, 0, time.UTC)
	confLast  = time.Date(9999, 12, 31, 23, 59, 59, 999999999, time.UTC)
)

// A materialization maps model instants to real ones, strictly monotonically: in frame F the pinned tick a sits on F's
// landmark (a whole second: X.509 times have second resolution) and tick k on landmark + (k - a)*unit, the unit putting
// neighbouring ticks one hour, one second, one nanosecond, 999 999 999 ns or 1 000 000 001 ns apart.  Frame Mid keeps
// the anchors of different pins an hour apart; in frame First tick 0 is the first instant a certificate can carry and
// the ticks from 1 on start at the first instant a configuration can name.
type mat struct {
	frame    string
	a        int
	unit     time.Duration
	boundMin int // the lowest tick a bound may use
}

var units = []time.Duration{time.Hour, time.Second, time.Nanosecond, 999999999 * time.Nanosecond, 1000000001 * time.Nanosecond}

var base = landmarks["Mid"]

func (m mat) at(k int) time.Time {
	switch m.frame {
	case "", "Mid":
		return base.Add(time.Duration(m.a) * time.Hour).Add(time.Duration(k-m.a) * m.unit)
	case "First":
		if k == 0 {
			return landmarks["First"]
		}
		return confFirst.Add(time.Duration(k-1) * m.unit)
	}
	return landmarks[m.frame].Add(time.Duration(k-m.a) * m.unit)
}

// fits: every tick lies inside what a configuration can name (tick 0 of frame First: what a certificate can carry)
func (m mat) fits(nT int) bool {
	lo := m.at(0)
	if m.frame == "First" {
		lo = m.at(1)
	}
	return !lo.Before(confFirst) && !m.at(nT-1).After(confLast)
}

// usable: no bound of the case lies below the frame's boundMin
func (m mat) usable(c Case) bool {
	for _, sh := range c.S {
		for _, b := range sh {
			if b >= 0 && b < m.boundMin {
				return false
			}
		}
	}
	return true
}

func (m mat) String() string {
	f := m.frame
	if f == "" {
		f = "Mid"
	}
	return fmt.Sprintf("frame=%s pin=%d unit=%v", f, m.a, m.unit)
}

// mats lists the materializations of a frame: every pin x unit whose ticks fit
func mats(f FrameRec, nT int, us []time.Duration) []mat {
	var out []mat
	for _, u := range us {
		for _, a := range f.Pins {
			if a >= nT {
				continue
			}
			m := mat{frame: f.At, a: a, unit: u, boundMin: f.BoundMin}
			if m.fits(nT) {
				out = append(out, m)
			}
		}
	}
	return out
}

// zones: equal instants in different locations must compare equal
var zones = []*time.Location{time.UTC, time.FixedZone("east", 5*3600+1800), time.FixedZone("west", -9*3600)}

func (m mat) bound(k, salt int) *time.Time {
	if k < 0 {
		return nil
	}
	t := m.at(k).In(zones[(k+salt)%len(zones)])
	return &t
}

// world: one root and leaves by NotAfter
type world struct {
	mu      sync.Mutex
	root    *pki.Node
	pool    *x509util.PEMCertPool
	leaves  map[int64]*pki.Node
	parsed  map[int64]*ctx509.Certificate
	leafKey *ecdsa.PrivateKey
	serial  int64
}

func newWorld() *world {
	w := &world{leaves: map[int64]*pki.Node{}, parsed: map[int64]*ctx509.Certificate{}}
	w.root = pki.NewRoot(pki.Opts{CN: "c18 root"})
	w.pool = x509util.NewPEMCertPool()
	if !w.pool.AppendCertsFromPEM(pki.PEM(w.root)) {
		panic("root pool")
	}
	return w
}

// leaf returns a certificate whose NotAfter is exactly t (t must be a whole second).  It is issued here with the
// standard library only (pki treats the zero time.Time, which is a landmark, as "use the default").
func (w *world) leaf(t time.Time) (*pki.Node, *ctx509.Certificate) {
	if t.Nanosecond() != 0 {
		panic("sub-second NotAfter")
	}
	w.mu.Lock()
	defer w.mu.Unlock()
	k := t.Unix()
	if n, ok := w.leaves[k]; ok {
		return n, w.parsed[k]
	}
	if w.leafKey == nil {
		var err error
		if w.leafKey, err = ecdsa.GenerateKey(elliptic.P256(), rand.Reader); err != nil {
			panic(err)
		}
	}
	w.serial++
	notBefore := pki.DefaultNotBefore
	if t.Before(notBefore) {
		notBefore = t
	}
	tmpl := &stdx509.Certificate{
		SerialNumber:          big.NewInt(700000 + w.serial),
		Subject:               pkix.Name{CommonName: fmt.Sprintf("leaf %d", k), Organization: []string{"verif"}},
		NotBefore:             notBefore,
		NotAfter:              t.UTC(),
		BasicConstraintsValid: true,
		KeyUsage:              stdx509.KeyUsageDigitalSignature,
		DNSNames:              []string{"c18.example"},
	}
	der, err := stdx509.CreateCertificate(rand.Reader, tmpl, w.root.Cert, w.leafKey.Public(), w.root.Key)
	if err != nil {
		panic(fmt.Sprintf("issuing a leaf with NotAfter %v: %v", t, err))
	}
	std, err := stdx509.ParseCertificate(der)
	if err != nil {
		panic(fmt.Sprintf("std parser refuses the leaf with NotAfter %v: %v", t, err))
	}
	if !std.NotAfter.Equal(t) {
		panic("NotAfter not preserved")
	}
	c, err := ctx509.ParseCertificate(der)
	if err != nil {
		panic(err)
	}
	n := &pki.Node{Name: tmpl.Subject.CommonName, Cert: std, DER: der, Key: w.leafKey, Parent: w.root}
	w.leaves[k] = n
	w.parsed[k] = c
	return n, c
}

func rel(t int, sh []int) string {
	part := func(b int, name string) string {
		switch {
		case b < 0:
			return "no-" + name
		case t < b:
			return "t<" + name
		case t == b:
			return "t=" + name
		}
		return "t>" + name
	}
	return part(sh[0], "start") + "," + part(sh[1], "limit")
}

// shape names which bounds a window has
func shape(sh []int) string {
	p := func(b int, name string) string {
		if b < 0 {
			return "no-" + name
		}
		return name
	}
	return p(sh[0], "start") + "," + p(sh[1], "limit")
}

type runner struct {
	frames []FrameRec
	w      *world
	rep    *vh.Report
	nT     int
	dir    string
	stats  struct {
		sync.Mutex
		m map[string]int
	}
}

func (r *runner) count(k string, n int) {
	r.stats.Lock()
	r.stats.m[k] += n
	r.stats.Unlock()
}

// ctxt is the replay data of a violation: the case, the materialization and the frames of the run
func (r *runner) ctxt(c Case, m mat) map[string]any {
	return map[string]any{"case": c, "mat": m.String(), "frames": r.frames}
}

// frameTag names the frame in fingerprints of the routes whose verdict can depend on where the instants lie; the ordinary
// frame keeps the bare fingerprints
func frameTag(m mat) string {
	if m.frame == "" || m.frame == "Mid" {
		return ""
	}
	return ":at=" + m.frame
}

func guard(rep *vh.Report, site string, ctxt any, f func()) {
	defer func() {
		if p := recover(); p != nil {
			rep.Violate("panic:"+site, fmt.Sprintf("panic in %s: %v", site, p), ctxt)
		}
	}()
	f()
}

// constructor: NewTemporalLogClient accepts exactly the lists ConstructorAccepts accepts
func (r *runner) construct(c Case, m mat) *client.TemporalLogClient {
	cfg := &configpb.TemporalLogConfig{}
	for i, sh := range c.S {
		s := &configpb.LogShardConfig{Uri: fmt.Sprintf("http://shard%d.example/log", i)}
		if b := m.bound(sh[0], 0); b != nil {
			s.NotAfterStart = timestamppb.New(*b)
		}
		if b := m.bound(sh[1], 0); b != nil {
			s.NotAfterLimit = timestamppb.New(*b)
		}
		cfg.Shard = append(cfg.Shard, s)
	}
	var tlc *client.TemporalLogClient
	var err error
	ctxt := r.ctxt(c, m)
	guard(r.rep, "NewTemporalLogClient", ctxt, func() { tlc, err = client.NewTemporalLogClient(cfg, nil) })
	r.rep.Eval("")
	if (err == nil) != c.Ok {
		r.rep.Violate(fmt.Sprintf("constructor:%s:spec=%v", listClass(c.S), c.Ok),
			fmt.Sprintf("NewTemporalLogClient on shard list %v (%s): specification accepts=%v, implementation error=%v", c.S, m, c.Ok, err), ctxt)
		return nil
	}
	if err != nil {
		return nil
	}
	return tlc
}

// listClass names why a list is (in)valid, for stable fingerprints
func listClass(S [][]int) string {
	if len(S) == 0 {
		return "empty"
	}
	for _, sh := range S {
		if sh[0] >= 0 && sh[1] >= 0 {
			if sh[1] < sh[0] {
				return "inverted"
			}
			if sh[1] == sh[0] {
				return "empty-shard"
			}
		}
	}
	for i := 0; i+1 < len(S); i++ {
		switch {
		case S[i][1] < 0:
			return "extends-unbounded-upper"
		case S[i+1][0] < 0:
			return "extends-with-unbounded-lower"
		case S[i][1] < S[i+1][0]:
			return "gap"
		case S[i][1] > S[i+1][0]:
			return "overlap"
		}
	}
	return "contiguous"
}

func (r *runner) full(c Case, m mat, withInstance bool) {
	ctxt := r.ctxt(c, m)
	ft := frameTag(m)
	tlc := r.construct(c, m)
	// --- shard client: IndexByDate at every instant (full resolution)
	if tlc != nil {
		for t := 0; t < r.nT; t++ {
			when := m.at(t).In(zones[t%len(zones)])
			got, err := -2, error(nil)
			guard(r.rep, "IndexByDate", ctxt, func() { got, err = tlc.IndexByDate(when) })
			want := c.Idx[t] - 1
			key := ""
			if t == m.a {
				key = "idx:" + listClass(c.S) + fmt.Sprint(len(c.S)) + ":" + fmt.Sprint(want >= 0)
			}
			r.rep.Eval(key)
			if (want < 0) != (err != nil) || (err == nil && got != want) {
				sh := []int{-1, -1}
				which := want
				if which < 0 {
					which = got
				}
				if which >= 0 && which < len(c.S) {
					sh = c.S[which]
				}
				r.rep.Violate(fmt.Sprintf("shardclient:IndexByDate:%s:want=%d:got=%d%s", rel(t, sh), want, got, ft),
					fmt.Sprintf("IndexByDate(%v) on shards %v (%s, tick %d): specification routes to shard %d, implementation to %d (err=%v)",
						when.Format(time.RFC3339Nano), c.S, m, t, want, got, err), ctxt)
			}
		}
	}
	// --- log server, direct: ValidateChain with the window of each shard
	for i, sh := range c.S {
		for t := 0; t < r.nT; t++ {
			at := m.at(t)
			if at.Nanosecond() != 0 {
				continue // no certificate can carry this instant
			}
			leaf, parsed := r.w.leaf(at)
			want := c.Srv[i][t]
			opts := ctfe.NewCertValidationOpts(r.w.pool, base, false, false, m.bound(sh[0], i), m.bound(sh[1], i+1), false, nil)
			var err error
			var path []*ctx509.Certificate
			guard(r.rep, "ValidateChain", ctxt, func() { path, err = ctfe.ValidateChain([][]byte{leaf.DER, r.w.root.DER}, opts) })
			r.rep.Eval("srv:" + rel(t, sh) + ":" + m.unit.String())
			if (err == nil) != want || (err == nil && len(path) != 2) {
				r.rep.Violate(fmt.Sprintf("server:ValidateChain:%s:spec=%v%s", rel(t, sh), want, ft),
					fmt.Sprintf("ValidateChain, NotAfter %v, window [%v, %v) (%s): specification admits=%v, implementation error=%v",
						at.Format(time.RFC3339Nano), fmtB(m, sh[0]), fmtB(m, sh[1]), m, want, err), ctxt)
			}
			// routing <=> admission, on the real components
			if tlc != nil {
				got, ierr := tlc.IndexByDate(parsed.NotAfter)
				routed := ierr == nil && got == i
				if routed != (err == nil) {
					r.rep.Violate(fmt.Sprintf("routing-vs-admission:%s:routed=%v:admitted=%v%s", rel(t, sh), routed, err == nil, ft),
						fmt.Sprintf("certificate with NotAfter %v: the shard client routes it to shard %d = %v, a server with that shard's window [%v, %v) admits it = %v",
							at.Format(time.RFC3339Nano), i, routed, fmtB(m, sh[0]), fmtB(m, sh[1]), err == nil), ctxt)
				}
			}
		}
		// --- log server as configured: LogConfig -> ValidateLogConfig -> setUpLogInfo -> Instance -> POST add-chain
		if withInstance {
			var in *c02.Inst
			var err error
			guard(r.rep, "NewInstance", ctxt, func() {
				in, err = c02.NewInstance(r.dir, c02.InstCfg{RootsPEM: pki.PEM(r.w.root), Start: m.bound(sh[0], 0), Limit: m.bound(sh[1], 0)})
			})
			r.rep.Eval("cfg:" + listClass([][]int{sh}) + fmt.Sprint(c.Cfg[i]))
			if !c.Cfg[i] {
				// ConfigAccepts is false: ValidateLogConfig must refuse the window
				if err == nil || !strings.Contains(err.Error(), "ValidateLogConfig") {
					r.rep.Violate("server:config-accepted:"+listClass([][]int{sh})+ft, fmt.Sprintf("the front end's configuration accepts the window [%v, %v) (%s), the specification refuses it (err=%v)",
						fmtB(m, sh[0]), fmtB(m, sh[1]), m, err), ctxt)
				}
				continue
			}
			if err != nil {
				r.rep.Violate("server:config-refused:"+listClass([][]int{sh})+ft, fmt.Sprintf("the front end refuses the window [%v, %v) (%s): %v", fmtB(m, sh[0]), fmtB(m, sh[1]), m, err), ctxt)
				continue
			}
			if in == nil {
				continue
			}
			for t := 0; t < r.nT; t++ {
				at := m.at(t)
				if at.Nanosecond() != 0 {
					continue
				}
				leaf, parsed := r.w.leaf(at)
				status := 0
				guard(r.rep, "add-chain", ctxt, func() { status, _, _ = in.Post("add-chain", [][]byte{leaf.DER, r.w.root.DER}) })
				r.rep.Eval("inst:" + rel(t, sh) + ":" + m.unit.String() + ft)
				r.count("instance_posts", 1)
				want := c.Ins[i][t]
				if (status == 200) != want || (status != 200 && status != 400) {
					r.rep.Violate(fmt.Sprintf("server:add-chain:%s:spec=%v:status=%d%s", rel(t, sh), want, status, ft),
						fmt.Sprintf("add-chain on an instance configured with window [%v, %v), NotAfter %v (%s): specification admits=%v, HTTP status %d",
							fmtB(m, sh[0]), fmtB(m, sh[1]), at.Format(time.RFC3339Nano), m, want, status), ctxt)
				}
				// routing <=> admission by the server as configured, on the real components
				if tlc != nil {
					got, ierr := tlc.IndexByDate(parsed.NotAfter)
					routed := ierr == nil && got == i
					if routed != (status == 200) {
						r.rep.Violate(fmt.Sprintf("routing-vs-instance:%s:routed=%v:status=%d%s", rel(t, sh), routed, status, ft),
							fmt.Sprintf("certificate with NotAfter %v: the shard client routes it to shard %d = %v, an instance configured with that shard's window [%v, %v) answers add-chain with %d (%s)",
								at.Format(time.RFC3339Nano), i, routed, fmtB(m, sh[0]), fmtB(m, sh[1]), status, m), ctxt)
					}
				}
			}
		}
		// --- the integration tests' chooser: an instant of the window
		if c.Pick[i] {
			cfg := &ctfeconfigpb.LogConfig{}
			lo, up := m.bound(sh[0], 1), m.bound(sh[1], 2)
			if lo != nil {
				cfg.NotAfterStart = timestamppb.New(*lo)
			}
			if up != nil {
				cfg.NotAfterLimit = timestamppb.New(*up)
			}
			var picked time.Time
			var err error
			guard(r.rep, "NotAfterForLog", ctxt, func() { picked, err = integration.NotAfterForLog(cfg) })
			r.rep.Eval("pick:" + shape(sh) + ":" + m.unit.String() + ft)
			inside := err == nil && (lo == nil || !picked.Before(*lo)) && (up == nil || picked.Before(*up))
			if !inside {
				r.rep.Violate(fmt.Sprintf("chooser:NotAfterForLog:%s:outside%s", shape(sh), ft),
					fmt.Sprintf("NotAfterForLog for the window [%v, %v) (%s) returns %v (err=%v), which is not inside the window",
						fmtB(m, sh[0]), fmtB(m, sh[1]), m, picked.Format(time.RFC3339Nano), err), ctxt)
			}
		}
	}
	// --- log list: one log per expressible shard
	r.logList(c, m, ctxt)
}

// rfc3339 writes an instant in its own zone unless the local year leaves the four digits of the format
func rfc3339(t time.Time) string {
	if y := t.Year(); y < 0 || y > 9999 {
		t = t.UTC()
	}
	return t.Format(time.RFC3339Nano)
}

func fmtB(m mat, k int) string {
	if k < 0 {
		return "none"
	}
	return m.at(k).Format(time.RFC3339Nano)
}

func (r *runner) logList(c Case, m mat, ctxt any) {
	type jl struct {
		Description string         `json:"description"`
		URL         string         `json:"url"`
		Interval    map[string]any `json:"temporal_interval,omitempty"`
	}
	var direct loglist3.LogList
	op := &loglist3.Operator{Name: "op"}
	var jlogs []jl
	expr := map[int]bool{}
	for i, sh := range c.S {
		if len(c.Lst[i]) == 0 {
			continue
		}
		expr[i] = true
		l := &loglist3.Log{Description: fmt.Sprint(i), URL: fmt.Sprintf("https://log%d.example/", i)}
		j := jl{Description: l.Description, URL: l.URL}
		if sh[0] >= 0 {
			l.TemporalInterval = &loglist3.TemporalInterval{StartInclusive: *m.bound(sh[0], i), EndExclusive: *m.bound(sh[1], i+1)}
			j.Interval = map[string]any{"start_inclusive": m.at(sh[0]).Format(time.RFC3339Nano), "end_exclusive": rfc3339(*m.bound(sh[1], i))}
		}
		op.Logs = append(op.Logs, l)
		jlogs = append(jlogs, j)
	}
	if len(expr) == 0 {
		return
	}
	direct.Operators = []*loglist3.Operator{op}
	raw, _ := json.Marshal(map[string]any{"operators": []any{map[string]any{"name": "op", "email": []string{}, "logs": jlogs}}})
	parsed, err := loglist3.NewFromJSON(raw)
	if err != nil {
		panic(fmt.Sprintf("log list JSON refused: %v\n%s", err, raw))
	}
	check := func(via string, t int, got loglist3.LogList) {
		in := map[int]bool{}
		for _, o := range got.Operators {
			for _, l := range o.Logs {
				var i int
				fmt.Sscan(l.Description, &i)
				in[i] = true
			}
		}
		for i := range expr {
			r.rep.Eval("lst:" + rel(t, c.S[i]) + ":" + m.unit.String())
			if in[i] != c.Lst[i][t] {
				r.rep.Violate(fmt.Sprintf("loglist:%s:%s:spec=%v%s", strings.SplitN(via, "/", 2)[0], rel(t, c.S[i]), c.Lst[i][t], frameTag(m)),
					fmt.Sprintf("%s, NotAfter %v, temporal interval [%v, %v) (%s): specification compatible=%v, implementation=%v",
						via, m.at(t).Format(time.RFC3339Nano), fmtB(m, c.S[i][0]), fmtB(m, c.S[i][1]), m, c.Lst[i][t], in[i]), ctxt)
			}
		}
	}
	for t := 0; t < r.nT; t++ {
		at := m.at(t)
		// full-resolution instants: the filter only reads NotAfter
		synthetic := &ctx509.Certificate{NotAfter: at.In(zones[(t+1)%len(zones)])}
		guard(r.rep, "TemporallyCompatible", ctxt, func() {
			check("TemporallyCompatible/direct", t, direct.TemporallyCompatible(synthetic))
			check("TemporallyCompatible/json", t, parsed.TemporallyCompatible(synthetic))
			check("Compatible/direct", t, direct.Compatible(synthetic, nil, nil))
		})
		if at.Nanosecond() == 0 {
			_, real := r.w.leaf(at)
			guard(r.rep, "Compatible", ctxt, func() {
				check("Compatible/json+certificate", t, parsed.Compatible(real, nil, nil))
			})
		}
	}
}

func TestReplay(t *testing.T) {
	rep := vh.NewReport("c18-replay", "every shard list / window of MCTemporal.tla materialized in every frame of the specification (ordinary instant, first / last "+
		"instant a certificate can carry, first instant a configuration can name, UTCTime / GeneralizedTime switches, Unix 0, 32-bit and 64-bit-nanosecond ends) "+
		"with hour, second and nanosecond spacing around a whole-second pin: NewTemporalLogClient accepts exactly ConstructorAccepts; IndexByDate = ShardIndex; ValidateChain and add-chain on a "+
		"configured instance (ValidateLogConfig -> setUpLogInfo) = ConfigAccepts / ConfiguredAdmits; NotAfterForLog inside the window; TemporallyCompatible / Compatible = ListCompatible; routing <=> admission on the real components")
	defer func() {
		if err := rep.Write(); err != nil {
			t.Fatal(err)
		}
	}()
	path := os.Getenv("VERIF_CASES")
	if path == "" {
		t.Fatal("VERIF_CASES not set")
	}
	cases, err := vh.LoadNDJSON[Case](path)
	if err != nil {
		t.Fatal(err)
	}
	if len(cases) == 0 {
		t.Fatal("no cases")
	}
	nT := vh.EnvInt("VERIF_NT", 8)
	fpath := os.Getenv("VERIF_FRAMES")
	if fpath == "" {
		t.Fatal("VERIF_FRAMES not set")
	}
	frames, err := vh.LoadNDJSON[FrameRec](fpath)
	if err != nil {
		t.Fatal(err)
	}
	haveMid := false
	for _, f := range frames {
		if _, ok := landmarks[f.At]; !ok {
			t.Fatalf("the specification names a frame this harness cannot realize: %q", f.At)
		}
		if f.Top != nT-1 {
			t.Fatalf("frame %s is for ticks 0..%d, the run has %d ticks", f.At, f.Top, nT)
		}
		if len(mats(f, nT, units)) == 0 {
			t.Fatalf("frame %s has no materialization", f.At)
		}
		haveMid = haveMid || f.At == "Mid"
	}
	if !haveMid {
		t.Fatal("no frame Mid")
	}
	// the extreme frames of the range are always realized in full; of the frames inside the range (other than Mid) the
	// quick tier draws VERIF_INNER_MATS materializations per case by seed, with whole-second and nanosecond units
	extreme := map[string]bool{"Mid": true, "First": true, "ConfFirst": true, "Last": true}
	innerUnits := []time.Duration{time.Second, time.Nanosecond}
	innerPerCase := vh.EnvInt("VERIF_INNER_MATS", 2)
	dir := t.TempDir()
	r := &runner{w: newWorld(), rep: rep, nT: nT, dir: dir, frames: frames}
	r.stats.m = map[string]int{}
	instanceShare := vh.EnvInt("VERIF_INSTANCE_PERCENT", 10) // share of accepted multi-shard lists also run through a configured instance
	replayAll := os.Getenv("VERIF_REPLAY_ONE") == "1"

	var wg sync.WaitGroup
	ch := make(chan int, 1024)
	for g := 0; g < runtime.GOMAXPROCS(0); g++ {
		wg.Add(1)
		go func(g int) {
			defer wg.Done()
			rnd := vh.Rand(int64(1000 + g))
			for i := range ch {
				c := cases[i]
				if len(c.Idx) != 0 && len(c.Idx) < nT {
					panic("case has fewer instants than VERIF_NT")
				}
				interesting := c.Ok || len(c.S) == 1 || replayAll
				if !interesting {
					// refused list: the constructor must refuse it under a materialization drawn by seed
					f := frames[rnd.Intn(len(frames))]
					ms := mats(f, nT, units)
					m := ms[rnd.Intn(len(ms))]
					if !m.usable(c) {
						m = mat{frame: "Mid", a: rnd.Intn(nT), unit: units[rnd.Intn(len(units))]}
					}
					r.construct(c, m)
					r.count("refused_lists", 1)
					r.count("frame:"+m.frame+":refused", 1)
					continue
				}
				for _, f := range frames {
					var ms []mat
					switch {
					case extreme[f.At] || replayAll || vh.Thorough():
						ms = mats(f, nT, units)
						if !extreme[f.At] {
							ms = mats(f, nT, innerUnits)
						}
					default:
						all := mats(f, nT, innerUnits)
						for n := 0; n < innerPerCase && len(all) > 0; n++ {
							ms = append(ms, all[rnd.Intn(len(all))])
						}
					}
					for _, m := range ms {
						if !m.usable(c) {
							continue
						}
						r.count("frame:"+f.At, 1)
						if !c.Ok && len(c.S) != 1 {
							r.construct(c, m)
							continue
						}
						withInst := len(c.S) == 1 || replayAll || vh.Thorough() || rnd.Intn(100) < instanceShare
						r.full(c, m, withInst)
					}
				}
				r.count("full_cases", 1)
			}
		}(g)
	}
	for i := range cases {
		ch <- i
	}
	close(ch)
	wg.Wait()
	rep.Replayed = len(cases)
	for k, v := range r.stats.m {
		rep.Add(k, v)
	}
	for _, c := range cases {
		if c.Ok && len(c.S) == 3 {
			rep.Sample(c)
			break
		}
	}
}
