// Package pki generates certificate hierarchies with the Go standard library
// only (crypto/x509 as the conforming encoder): roots, intermediates,
// cross-signs, precertificate signing certificates, leaves, precertificates
// and forged-signature twins.  Nothing here uses the repository's x509 fork.
package pki

import (
	"crypto"
	"crypto/ecdsa"
	"crypto/ed25519"
	"crypto/elliptic"
	"crypto/rand"
	"crypto/rsa"
	"crypto/sha256"
	"crypto/x509"
	"crypto/x509/pkix"
	"encoding/asn1"
	"encoding/pem"
	"fmt"
	"math/big"
	"sync"
	"time"

	"golang.org/x/crypto/cryptobyte"
	cbasn1 "golang.org/x/crypto/cryptobyte/asn1"
)

// Object identifiers of RFC 6962.
var (
	OIDPoison  = asn1.ObjectIdentifier{1, 3, 6, 1, 4, 1, 11129, 2, 4, 3}
	OIDSCTList = asn1.ObjectIdentifier{1, 3, 6, 1, 4, 1, 11129, 2, 4, 2}
	OIDEKUCT   = asn1.ObjectIdentifier{1, 3, 6, 1, 4, 1, 11129, 2, 4, 4}
	// RFC 5280 4.2.1.12: the extension and some of its purposes
	OIDExtKeyUsage = asn1.ObjectIdentifier{2, 5, 29, 37}
	OIDEKUAny      = asn1.ObjectIdentifier{2, 5, 29, 37, 0}
	OIDEKUServer   = asn1.ObjectIdentifier{1, 3, 6, 1, 5, 5, 7, 3, 1}
	OIDEKUClient   = asn1.ObjectIdentifier{1, 3, 6, 1, 5, 5, 7, 3, 2}
)

// Node is an issued certificate with its key and issuer.
type Node struct {
	Name   string
	Cert   *x509.Certificate // as parsed by the standard library
	DER    []byte
	Key    crypto.Signer
	Parent *Node // nil for self-signed
}

// Opts describes a certificate to issue.
type Opts struct {
	CN        string
	IsCA      bool
	KeyType   string // p256 (default), p384, p521, rsa2048, rsa1024, ed25519
	Key       crypto.Signer
	NotBefore time.Time
	NotAfter  time.Time
	EKUs      []x509.ExtKeyUsage
	OtherEKUs []asn1.ObjectIdentifier
	// EKUOIDs writes the extended key usage extension explicitly: these KeyPurposeIds in THIS order (the standard
	// encoder always writes the purposes it knows before the others; EKUs / OtherEKUs must be empty then).
	EKUOIDs   []asn1.ObjectIdentifier
	Poison    string // "", "ok", "noncritical", "nonnull", "nulltrailing", "nulltrailingtlv", "wrongtag", "longformnull", "empty" (the last five critical)
	Extra     []pkix.Extension
	Serial    int64
	SerialBig *big.Int   // overrides Serial (serial numbers beyond int64)
	Subject   *pkix.Name // override (cross-signing reuses another node's subject)
	SKID      []byte
	DNS       []string
	NoAKID    bool
	// FullAKID issues the certificate with an authority key identifier that carries, besides the key
	// identifier, the authority\'s issuer name and serial number (OpenSSL\'s keyid,issuer:always form).
	FullAKID bool
	KeyUsage x509.KeyUsage // 0 = certSign|cRLSign for CAs, digitalSignature otherwise
	// ExtOrder places the poison extension elsewhere than last: "poisonBeforeAki" (directly before the authority key
	// identifier, other extensions follow) or "poisonFirst".  All other extensions keep the standard encoder's bytes.
	ExtOrder string
	// Unparsable tolerates a certificate the standard library's parser refuses (deliberately odd extensions that the
	// repository's lax parser reports as non-fatal): Node.Cert stays nil, such a node cannot issue.
	Unparsable bool
}

var (
	serialMu sync.Mutex
	serial   int64 = 1000
	keyMu    sync.Mutex
	keyPool  = map[string][]crypto.Signer{}
	keyNext  = map[string]int{}
)

// NewKey generates a key of the given type; RSA keys are pooled (a few per type and process).
func NewKey(kt string) crypto.Signer {
	switch kt {
	case "", "p256":
		k, _ := ecdsa.GenerateKey(elliptic.P256(), rand.Reader)
		return k
	case "p384":
		k, _ := ecdsa.GenerateKey(elliptic.P384(), rand.Reader)
		return k
	case "p521":
		k, _ := ecdsa.GenerateKey(elliptic.P521(), rand.Reader)
		return k
	case "ed25519":
		_, k, _ := ed25519.GenerateKey(rand.Reader)
		return k
	case "rsa2048", "rsa1024", "rsa3072":
		keyMu.Lock()
		defer keyMu.Unlock()
		const poolSize = 4
		if len(keyPool[kt]) < poolSize {
			bits := map[string]int{"rsa2048": 2048, "rsa1024": 1024, "rsa3072": 3072}[kt]
			k, err := rsa.GenerateKey(rand.Reader, bits)
			if err != nil {
				panic(err)
			}
			keyPool[kt] = append(keyPool[kt], k)
			return k
		}
		keyNext[kt]++
		return keyPool[kt][keyNext[kt]%poolSize]
	}
	panic("unknown key type " + kt)
}

func nextSerial() int64 {
	serialMu.Lock()
	defer serialMu.Unlock()
	serial++
	return serial
}

// DefaultNotBefore / DefaultNotAfter bound the default validity.
var (
	DefaultNotBefore = time.Date(2020, 1, 1, 0, 0, 0, 0, time.UTC)
	DefaultNotAfter  = time.Date(2040, 1, 1, 0, 0, 0, 0, time.UTC)
)

func template(o Opts) *x509.Certificate {
	t := &x509.Certificate{
		SerialNumber:          big.NewInt(o.Serial),
		Subject:               pkix.Name{CommonName: o.CN, Organization: []string{"verif"}},
		NotBefore:             o.NotBefore,
		NotAfter:              o.NotAfter,
		BasicConstraintsValid: true,
		IsCA:                  o.IsCA,
		ExtKeyUsage:           o.EKUs,
		UnknownExtKeyUsage:    o.OtherEKUs,
		SubjectKeyId:          o.SKID,
		DNSNames:              o.DNS,
	}
	if o.Serial == 0 {
		t.SerialNumber = big.NewInt(nextSerial())
	}
	if o.SerialBig != nil {
		t.SerialNumber = o.SerialBig
	}
	if o.Subject != nil {
		t.Subject = *o.Subject
	}
	if t.NotBefore.IsZero() {
		t.NotBefore = DefaultNotBefore
	}
	if t.NotAfter.IsZero() {
		t.NotAfter = DefaultNotAfter
	}
	if o.IsCA {
		t.KeyUsage = x509.KeyUsageCertSign | x509.KeyUsageCRLSign
	} else {
		t.KeyUsage = x509.KeyUsageDigitalSignature
	}
	if o.KeyUsage != 0 {
		t.KeyUsage = o.KeyUsage
	}
	switch o.Poison {
	case "ok":
		t.ExtraExtensions = append(t.ExtraExtensions, pkix.Extension{Id: OIDPoison, Critical: true, Value: []byte{5, 0}})
	case "noncritical":
		t.ExtraExtensions = append(t.ExtraExtensions, pkix.Extension{Id: OIDPoison, Critical: false, Value: []byte{5, 0}})
	case "nonnull":
		t.ExtraExtensions = append(t.ExtraExtensions, pkix.Extension{Id: OIDPoison, Critical: true, Value: []byte{4, 1, 0}})
	case "nulltrailing": // a well-formed NULL followed by one more byte
		t.ExtraExtensions = append(t.ExtraExtensions, pkix.Extension{Id: OIDPoison, Critical: true, Value: []byte{5, 0, 0}})
	case "nulltrailingtlv": // a well-formed NULL followed by a well-formed OCTET STRING
		t.ExtraExtensions = append(t.ExtraExtensions, pkix.Extension{Id: OIDPoison, Critical: true, Value: []byte{5, 0, 4, 2, 0xca, 0xfe}})
	case "wrongtag": // empty content under another tag
		t.ExtraExtensions = append(t.ExtraExtensions, pkix.Extension{Id: OIDPoison, Critical: true, Value: []byte{4, 0}})
	case "longformnull": // NULL with a non-minimal (BER) length
		t.ExtraExtensions = append(t.ExtraExtensions, pkix.Extension{Id: OIDPoison, Critical: true, Value: []byte{5, 0x81, 0}})
	case "empty": // no value at all
		t.ExtraExtensions = append(t.ExtraExtensions, pkix.Extension{Id: OIDPoison, Critical: true, Value: []byte{}})
	case "":
	default:
		panic("pki: unknown poison kind " + o.Poison)
	}
	if len(o.EKUOIDs) > 0 {
		if len(o.EKUs) > 0 || len(o.OtherEKUs) > 0 {
			panic("pki: EKUOIDs excludes EKUs / OtherEKUs")
		}
		// ExtKeyUsageSyntax ::= SEQUENCE SIZE (1..MAX) OF KeyPurposeId (an extension named here replaces the encoder's)
		v, err := asn1.Marshal(o.EKUOIDs)
		if err != nil {
			panic(err)
		}
		t.ExtraExtensions = append(t.ExtraExtensions, pkix.Extension{Id: OIDExtKeyUsage, Value: v})
	}
	t.ExtraExtensions = append(t.ExtraExtensions, o.Extra...)
	return t
}

func finish(name string, der []byte, key crypto.Signer, parent *Node) *Node {
	c, err := x509.ParseCertificate(der)
	if err != nil {
		panic(fmt.Sprintf("pki: std parser rejects generated certificate %s: %v", name, err))
	}
	return &Node{Name: name, Cert: c, DER: der, Key: key, Parent: parent}
}

// NewRoot issues a self-signed CA.
func NewRoot(o Opts) *Node {
	o.IsCA = true
	key := o.Key
	if key == nil {
		key = NewKey(o.KeyType)
	}
	t := template(o)
	der, err := x509.CreateCertificate(rand.Reader, t, t, key.Public(), key)
	if err != nil {
		panic(err)
	}
	return finish(o.CN, der, key, nil)
}

// Issue issues a certificate under p.
func (p *Node) Issue(o Opts) *Node {
	key := o.Key
	if key == nil {
		key = NewKey(o.KeyType)
	}
	if o.ExtOrder != "" {
		// issue once in the standard order, then again with every extension given explicitly in the wanted order
		// (an extension named in ExtraExtensions replaces the one the encoder would generate)
		o1 := o
		o1.ExtOrder, o1.Key = "", key
		if o1.Serial == 0 {
			o1.Serial = nextSerial()
		}
		first := p.Issue(o1)
		exts := append([]pkix.Extension{}, first.Cert.Extensions...)
		pi, ai := -1, -1
		for i, e := range exts {
			if e.Id.Equal(OIDPoison) {
				pi = i
			}
			if e.Id.Equal(asn1.ObjectIdentifier{2, 5, 29, 35}) {
				ai = i
			}
		}
		if pi < 0 {
			panic("pki: ExtOrder needs a poison extension")
		}
		poison := exts[pi]
		exts = append(exts[:pi:pi], exts[pi+1:]...)
		at := 0
		if o.ExtOrder == "poisonBeforeAki" {
			if ai < 0 || ai > pi {
				panic("pki: no authority key identifier before the poison")
			}
			at = ai
		}
		exts = append(exts[:at:at], append([]pkix.Extension{poison}, exts[at:]...)...)
		o2 := o1
		o2.Poison, o2.Extra, o2.FullAKID = "", exts, false
		t2 := template(o2)
		der, err := x509.CreateCertificate(rand.Reader, t2, p.Cert, key.Public(), p.Key)
		if err != nil {
			panic(err)
		}
		n := finish(o.CN, der, key, p)
		if len(n.Cert.Extensions) != len(first.Cert.Extensions) {
			panic("pki: reordering changed the extension set")
		}
		return n
	}
	t := template(o)
	if o.FullAKID {
		t.ExtraExtensions = append(t.ExtraExtensions, pkix.Extension{Id: asn1.ObjectIdentifier{2, 5, 29, 35}, Value: fullAKID(p)})
	}
	parent := p.Cert
	if o.NoAKID {
		cp := *p.Cert
		cp.SubjectKeyId = nil
		parent = &cp
	}
	der, err := x509.CreateCertificate(rand.Reader, t, parent, key.Public(), p.Key)
	if err != nil {
		panic(err)
	}
	if o.Unparsable {
		c, _ := x509.ParseCertificate(der)
		return &Node{Name: o.CN, Cert: c, DER: der, Key: key, Parent: p}
	}
	return finish(o.CN, der, key, p)
}

// CrossSign issues, under p, a certificate with n's subject and key (a second path to n's children).
func (p *Node) CrossSign(n *Node, name string) *Node {
	subj := n.Cert.Subject
	o := Opts{CN: name, IsCA: true, Key: n.Key, Subject: &subj, SKID: n.Cert.SubjectKeyId,
		NotBefore: n.Cert.NotBefore, NotAfter: n.Cert.NotAfter}
	t := template(o)
	der, err := x509.CreateCertificate(rand.Reader, t, p.Cert, n.Key.Public(), p.Key)
	if err != nil {
		panic(err)
	}
	return finish(name, der, n.Key, p)
}

// Forged returns a twin of n whose signature has one bit flipped (same TBS, invalid signature).
func (n *Node) Forged() *Node {
	der := append([]byte{}, n.DER...)
	der[len(der)-3] ^= 0x10
	c, err := x509.ParseCertificate(der)
	if err != nil {
		// flipping inside an ECDSA DER integer may break the structure; flip the last byte instead
		der = append([]byte{}, n.DER...)
		der[len(der)-1] ^= 0x01
		c, err = x509.ParseCertificate(der)
		if err != nil {
			panic(err)
		}
	}
	return &Node{Name: n.Name + "~forged", Cert: c, DER: der, Key: n.Key, Parent: n.Parent}
}

// Chain returns n and its ancestors, leaf first; withRoot includes the self-signed end.
func (n *Node) Chain(withRoot bool) []*Node {
	var out []*Node
	for c := n; c != nil; c = c.Parent {
		if c.Parent == nil && !withRoot && len(out) > 0 {
			break
		}
		out = append(out, c)
	}
	return out
}

// DERs extracts the encodings.
func DERs(nodes []*Node) [][]byte {
	out := make([][]byte, len(nodes))
	for i, n := range nodes {
		out[i] = n.DER
	}
	return out
}

// PEM encodes certificates.
func PEM(nodes ...*Node) []byte {
	var out []byte
	for _, n := range nodes {
		out = append(out, pem.EncodeToMemory(&pem.Block{Type: "CERTIFICATE", Bytes: n.DER})...)
	}
	return out
}

// SPKIHash is SHA-256 over the DER SubjectPublicKeyInfo of n.
func (n *Node) SPKIHash() []byte {
	h := sha256.Sum256(n.Cert.RawSubjectPublicKeyInfo)
	return h[:]
}

// KeyPEM returns the PKCS#8 PEM of a private key.
func KeyPEM(k crypto.Signer) []byte {
	der, err := x509.MarshalPKCS8PrivateKey(k)
	if err != nil {
		panic(err)
	}
	return pem.EncodeToMemory(&pem.Block{Type: "PRIVATE KEY", Bytes: der})
}

// OIDEKUCTs is the CT precertificate-signing EKU as a list.
func OIDEKUCTs() []asn1.ObjectIdentifier { return []asn1.ObjectIdentifier{OIDEKUCT} }

// fullAKID encodes AuthorityKeyIdentifier ::= SEQUENCE { [0] keyIdentifier, [1] authorityCertIssuer, [2] authorityCertSerialNumber }.
func fullAKID(authority *Node) []byte {
	var b cryptobyte.Builder
	b.AddASN1(cbasn1.SEQUENCE, func(b *cryptobyte.Builder) {
		b.AddASN1(cbasn1.Tag(0).ContextSpecific(), func(b *cryptobyte.Builder) { b.AddBytes(authority.Cert.SubjectKeyId) })
		b.AddASN1(cbasn1.Tag(1).ContextSpecific().Constructed(), func(b *cryptobyte.Builder) {
			b.AddASN1(cbasn1.Tag(4).ContextSpecific().Constructed(), func(b *cryptobyte.Builder) { b.AddBytes(authority.Cert.RawIssuer) })
		})
		b.AddASN1(cbasn1.Tag(2).ContextSpecific(), func(b *cryptobyte.Builder) { b.AddBytes(authority.Cert.SerialNumber.Bytes()) })
	})
	return b.BytesOrPanic()
}

// NonMinimalSerial re-issues n with the same TBSCertificate except that the serial number INTEGER carries a
// superfluous leading zero octet (an encoding slip strict DER parsers refuse and lenient ones tolerate), signed
// again by n's issuer (ECDSA P-256 / SHA-256 issuers only).  Node.Cert is nil when the standard parser refuses it.
func NonMinimalSerial(n *Node) *Node {
	pk, ok := n.Parent.Key.(*ecdsa.PrivateKey)
	if !ok || pk.Curve != elliptic.P256() {
		panic("pki: NonMinimalSerial needs a P-256 issuer")
	}
	in := cryptobyte.String(n.DER)
	var cert, tbs, tbsBody cryptobyte.String
	if !in.ReadASN1(&cert, cbasn1.SEQUENCE) || !cert.ReadASN1Element(&tbs, cbasn1.SEQUENCE) {
		panic("pki: certificate structure")
	}
	var sigAlg cryptobyte.String
	if !cert.ReadASN1Element(&sigAlg, cbasn1.SEQUENCE) {
		panic("pki: signature algorithm")
	}
	whole := tbs
	if !whole.ReadASN1(&tbsBody, cbasn1.SEQUENCE) {
		panic("pki: tbs")
	}
	var version, serial cryptobyte.String
	hasVersion := tbsBody.PeekASN1Tag(cbasn1.Tag(0).ContextSpecific().Constructed())
	if hasVersion && !tbsBody.ReadASN1Element(&version, cbasn1.Tag(0).ContextSpecific().Constructed()) {
		panic("pki: version")
	}
	if !tbsBody.ReadASN1(&serial, cbasn1.INTEGER) || len(serial) == 0 || serial[0] >= 0x80 || len(serial) > 100 {
		panic("pki: serial")
	}
	var b cryptobyte.Builder
	b.AddASN1(cbasn1.SEQUENCE, func(b *cryptobyte.Builder) {
		b.AddBytes(version)
		b.AddBytes([]byte{0x02, byte(len(serial) + 1), 0x00})
		b.AddBytes(serial)
		b.AddBytes(tbsBody)
	})
	newTBS, err := b.Bytes()
	if err != nil {
		panic(err)
	}
	h := sha256.Sum256(newTBS)
	sig, err := ecdsa.SignASN1(rand.Reader, pk, h[:])
	if err != nil {
		panic(err)
	}
	var c cryptobyte.Builder
	c.AddASN1(cbasn1.SEQUENCE, func(c *cryptobyte.Builder) {
		c.AddBytes(newTBS)
		c.AddBytes(sigAlg)
		c.AddASN1BitString(sig)
	})
	der, err := c.Bytes()
	if err != nil {
		panic(err)
	}
	parsed, _ := x509.ParseCertificate(der)
	return &Node{Name: n.Name + "~serial", Cert: parsed, DER: der, Key: n.Key, Parent: n.Parent}
}
