// Package tlsmodel is the Go side of spec/codec/TLSCodec.tla and spec/common/Bytes.tla: the JSON form of
// the specification's type descriptors, values and segmented byte strings, an independent reference
// codec with the specification's semantics (RFC 5246 section 4; it is checked against every case TLC
// exports, so it is the specification in executable form), and the bridge to Go types built at run
// time with reflect.  Nothing in this file uses the repository's code.
package tlsmodel

import (
	"bytes"
	"encoding/json"
	"fmt"
	"math/big"
	"strings"
)

// Seg is one segment of a byte string: literal bytes or a ramp of N bytes, byte j = (ID + j) % 251.
type Seg struct {
	K  string `json:"k"`
	B  []int  `json:"b"`
	N  int    `json:"n"`
	ID int    `json:"id"`
}

// Segs is a segmented byte string.
type Segs []Seg

// RampPeriod is the period of a fill segment (Bytes.tla P).
const RampPeriod = 251

// Expand writes the bytes out.
func (s Segs) Expand() []byte {
	n := 0
	for _, g := range s {
		if g.K == "lit" {
			n += len(g.B)
		} else {
			n += g.N
		}
	}
	out := make([]byte, 0, n)
	for _, g := range s {
		if g.K == "lit" {
			for _, b := range g.B {
				out = append(out, byte(b))
			}
			continue
		}
		for j := 0; j < g.N; j++ {
			out = append(out, byte((g.ID+j)%RampPeriod))
		}
	}
	return out
}

// Ramp returns n bytes of the ramp starting at id.
func Ramp(n, id int) []byte { return Segs{{K: "fill", N: n, ID: id % RampPeriod}}.Expand() }

// Num is a canonical base-256 digit sequence.
type Num []int

// U64 converts (ok = false when it does not fit 64 bits).
func (d Num) U64() (uint64, bool) {
	if len(d) > 8 {
		return 0, false
	}
	var v uint64
	for _, x := range d {
		v = v<<8 | uint64(x)
	}
	return v, true
}

// Dec is the decimal form, as used in struct tags.
func (d Num) Dec() string {
	v := new(big.Int)
	for _, x := range d {
		v.Lsh(v, 8).Or(v, big.NewInt(int64(x)))
	}
	return v.String()
}

// Type is a type descriptor of TLSCodec.tla.
type Type struct {
	K      string  `json:"k"` // u enum arr vec struct byte
	W      int     `json:"w"`
	Tag    string  `json:"tag"` // enum: size | maxval
	Maxval Num     `json:"maxval"`
	N      int     `json:"n"`
	Min    Num     `json:"min"`
	Max    Num     `json:"max"`
	Form   string  `json:"form"` // vec: the spelling of the tag: minmax (default) | maxmin | max (TLSCodec.tla VecForms)
	Elem   *Type   `json:"elem"`
	Fields []Field `json:"fields"`
}

// Field is a struct member; Sel != "" makes it an arm of select(Sel) chosen by Val.
type Field struct {
	Name string `json:"name"`
	T    *Type  `json:"t"`
	Sel  string `json:"sel"`
	Val  Num    `json:"val"`
}

// Value is a value of TLSCodec.tla in JSON form ({k, x}).
type Value struct {
	K string          `json:"k"`
	X json.RawMessage `json:"x"`
}

// Val is a decoded Value.
type Val struct {
	K     string // num bytes list struct none
	Num   uint64
	Big   bool // num does not fit 64 bits
	Bytes []byte
	Items []Val
}

// Decode turns the JSON form into a Val (expanding segments).
func (v Value) Decode() (Val, error) {
	switch v.K {
	case "num":
		var d Num
		if err := json.Unmarshal(v.X, &d); err != nil {
			return Val{}, err
		}
		n, ok := d.U64()
		return Val{K: "num", Num: n, Big: !ok}, nil
	case "bytes":
		var s Segs
		if err := json.Unmarshal(v.X, &s); err != nil {
			return Val{}, err
		}
		return Val{K: "bytes", Bytes: s.Expand()}, nil
	case "list", "struct":
		var xs []Value
		if err := json.Unmarshal(v.X, &xs); err != nil {
			return Val{}, err
		}
		out := Val{K: v.K, Items: make([]Val, len(xs))}
		for i, x := range xs {
			d, err := x.Decode()
			if err != nil {
				return Val{}, err
			}
			out.Items[i] = d
		}
		return out, nil
	case "none":
		return Val{K: "none"}, nil
	}
	return Val{}, fmt.Errorf("unknown value kind %q", v.K)
}

// Equal compares two values.
func (a Val) Equal(b Val) bool {
	if a.K != b.K || a.Num != b.Num || a.Big != b.Big || !bytes.Equal(a.Bytes, b.Bytes) || len(a.Items) != len(b.Items) {
		return false
	}
	for i := range a.Items {
		if !a.Items[i].Equal(b.Items[i]) {
			return false
		}
	}
	return true
}

func (a Val) String() string {
	switch a.K {
	case "num":
		return fmt.Sprintf("%#x", a.Num)
	case "bytes":
		if len(a.Bytes) > 12 {
			return fmt.Sprintf("bytes[%d]%x..", len(a.Bytes), a.Bytes[:12])
		}
		return fmt.Sprintf("bytes[%d]%x", len(a.Bytes), a.Bytes)
	case "none":
		return "nil"
	}
	parts := make([]string, len(a.Items))
	for i, x := range a.Items {
		parts[i] = x.String()
	}
	if a.K == "list" {
		return "[" + strings.Join(parts, " ") + "]"
	}
	return "{" + strings.Join(parts, " ") + "}"
}

// KindName is a short stable name of a type's kind, used in fingerprints.
func (t *Type) KindName() string {
	switch t.K {
	case "u":
		return fmt.Sprintf("uint%d", 8*t.W)
	case "enum":
		return fmt.Sprintf("enum-w%d", t.W)
	case "arr":
		return "array"
	case "vec":
		return fmt.Sprintf("vec-w%d", t.W)
	case "struct":
		for _, f := range t.Fields {
			if f.Sel != "" {
				return "variant-struct"
			}
		}
		return "struct"
	}
	return t.K
}

// TagString is the Go struct tag body that the documented grammar prescribes for a member of this type.
func (t *Type) TagString() string {
	switch t.K {
	case "enum":
		if t.Tag == "size" {
			return fmt.Sprintf("size:%d", t.W)
		}
		return "maxval:" + t.Maxval.Dec()
	case "vec":
		switch t.Form {
		case "max": // minlen omitted: the minimum is 0
			if len(t.Min) != 0 {
				panic("tlsmodel: tag form max with a minimum: " + t.Min.Dec())
			}
			return "maxlen:" + t.Max.Dec()
		case "maxmin":
			return "maxlen:" + t.Max.Dec() + ",minlen:" + t.Min.Dec()
		}
		return "minlen:" + t.Min.Dec() + ",maxlen:" + t.Max.Dec()
	}
	return ""
}

func (t *Type) String() string {
	switch t.K {
	case "u", "arr", "byte":
		if t.K == "arr" {
			return fmt.Sprintf("[%d]byte", t.N)
		}
		return t.KindName()
	case "enum":
		return "enum(" + t.TagString() + ")"
	case "vec":
		if t.Form != "" && t.Form != "minmax" {
			return fmt.Sprintf("%s<%s..%s>/%s", t.Elem, t.Min.Dec(), t.Max.Dec(), t.Form)
		}
		return fmt.Sprintf("%s<%s..%s>", t.Elem, t.Min.Dec(), t.Max.Dec())
	case "struct":
		parts := make([]string, len(t.Fields))
		for i, f := range t.Fields {
			parts[i] = f.Name + " " + f.T.String()
			if f.Sel != "" {
				parts[i] = fmt.Sprintf("%s *%s select(%s)=%s", f.Name, f.T, f.Sel, f.Val.Dec())
			}
		}
		return "struct{" + strings.Join(parts, "; ") + "}"
	}
	return t.K
}
