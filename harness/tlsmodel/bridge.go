package tlsmodel

import (
	"reflect"

	"github.com/google/certificate-transparency-go/tls"
)

// The bridge from type descriptors to Go types as the documentation of tls.Unmarshal maps them:
//
//	uint8/16/32/64 -> uintN, uint24 -> tls.Uint24, enum -> tls.Enum `size:S` | `maxval:N`,
//	opaque[n] -> [n]byte, T<min..max> -> []T `minlen:min,maxlen:max`, struct -> struct,
//	select arm -> *T `selector:Field,val:V`; a vector nested directly in a vector is wrapped in a
//	single-member struct, as the documentation prescribes.

var (
	tUint8  = reflect.TypeOf(uint8(0))
	tUint16 = reflect.TypeOf(uint16(0))
	tUint24 = reflect.TypeOf(tls.Uint24(0))
	tUint32 = reflect.TypeOf(uint32(0))
	tUint64 = reflect.TypeOf(uint64(0))
	tEnum   = reflect.TypeOf(tls.Enum(0))
	tBytes  = reflect.TypeOf([]byte(nil))
)

func wrapsElem(t *Type) bool { return t.K == "vec" && t.Elem.K == "vec" }

// GoType builds the Go type for t.
func GoType(t *Type) reflect.Type {
	switch t.K {
	case "u":
		switch t.W {
		case 1:
			return tUint8
		case 2:
			return tUint16
		case 3:
			return tUint24
		case 4:
			return tUint32
		case 8:
			return tUint64
		}
	case "enum":
		return tEnum
	case "arr":
		return reflect.ArrayOf(t.N, tUint8)
	case "vec":
		if t.Elem.K == "byte" {
			return tBytes
		}
		if wrapsElem(t) {
			return reflect.SliceOf(reflect.StructOf([]reflect.StructField{{Name: "Val", Type: GoType(t.Elem),
				Tag: reflect.StructTag(`tls:"` + t.Elem.TagString() + `"`)}}))
		}
		return reflect.SliceOf(GoType(t.Elem))
	case "struct":
		fs := make([]reflect.StructField, len(t.Fields))
		for i, f := range t.Fields {
			ft, tag := GoType(f.T), f.T.TagString()
			if f.Sel != "" {
				ft = reflect.PointerTo(ft)
				if tag != "" {
					tag += ","
				}
				tag += "selector:" + f.Sel + ",val:" + f.Val.Dec()
			}
			fs[i] = reflect.StructField{Name: f.Name, Type: ft}
			if tag != "" {
				fs[i].Tag = reflect.StructTag(`tls:"` + tag + `"`)
			}
		}
		return reflect.StructOf(fs)
	}
	panic("tlsmodel: no Go type for " + t.String())
}

// GoValue builds the Go value of GoType(t) for v; ok = false when the Go type cannot hold v.
func GoValue(t *Type, v Val) (reflect.Value, bool) {
	gt := GoType(t)
	out := reflect.New(gt).Elem()
	switch t.K {
	case "u", "enum":
		if v.K != "num" || v.Big || out.OverflowUint(v.Num) {
			return out, false
		}
		out.SetUint(v.Num)
		return out, true
	case "arr":
		if v.K != "bytes" || len(v.Bytes) != t.N {
			return out, false
		}
		reflect.Copy(out, reflect.ValueOf(v.Bytes))
		return out, true
	case "vec":
		if t.Elem.K == "byte" {
			if v.K != "bytes" {
				return out, false
			}
			out.SetBytes(append([]byte{}, v.Bytes...))
			return out, true
		}
		if v.K != "list" {
			return out, false
		}
		out.Set(reflect.MakeSlice(gt, len(v.Items), len(v.Items)))
		for i, it := range v.Items {
			e, ok := GoValue(t.Elem, it)
			if !ok {
				return out, false
			}
			if wrapsElem(t) {
				out.Index(i).Field(0).Set(e)
			} else {
				out.Index(i).Set(e)
			}
		}
		return out, true
	case "struct":
		if v.K != "struct" || len(v.Items) != len(t.Fields) {
			return out, false
		}
		for i, f := range t.Fields {
			x := v.Items[i]
			if f.Sel != "" {
				if x.K == "none" {
					continue
				}
				e, ok := GoValue(f.T, x)
				if !ok {
					return out, false
				}
				p := reflect.New(e.Type())
				p.Elem().Set(e)
				out.Field(i).Set(p)
				continue
			}
			e, ok := GoValue(f.T, x)
			if !ok {
				return out, false
			}
			out.Field(i).Set(e)
		}
		return out, true
	}
	return out, false
}

// FromGo reads a Go value of GoType(t) back into a Val (nil and empty slices are the same vector).
func FromGo(t *Type, rv reflect.Value) Val {
	switch t.K {
	case "u", "enum":
		return Val{K: "num", Num: rv.Uint()}
	case "arr":
		b := make([]byte, rv.Len())
		reflect.Copy(reflect.ValueOf(b), rv)
		return Val{K: "bytes", Bytes: b}
	case "vec":
		if t.Elem.K == "byte" {
			return Val{K: "bytes", Bytes: append([]byte{}, rv.Bytes()...)}
		}
		out := Val{K: "list", Items: make([]Val, rv.Len())}
		for i := range out.Items {
			e := rv.Index(i)
			if wrapsElem(t) {
				e = e.Field(0)
			}
			out.Items[i] = FromGo(t.Elem, e)
		}
		return out
	case "struct":
		out := Val{K: "struct", Items: make([]Val, len(t.Fields))}
		for i, f := range t.Fields {
			fv := rv.Field(i)
			if f.Sel != "" {
				if fv.IsNil() {
					out.Items[i] = Val{K: "none"}
					continue
				}
				fv = fv.Elem()
			}
			out.Items[i] = FromGo(f.T, fv)
		}
		return out
	}
	return Val{}
}

// Rename returns a copy of t in which every member name, at every depth, and every selector reference carry the
// suffix.  The codec laws are invariant under renaming (values and encodings are positional), but for reflect.StructOf
// and for the package under test the result is a struct type that has never been seen before: an unlimited supply of
// fresh types of a given shape.
func Rename(t *Type, suffix string) *Type {
	if t == nil {
		return nil
	}
	out := *t
	out.Elem = Rename(t.Elem, suffix)
	if t.Fields != nil {
		out.Fields = make([]Field, len(t.Fields))
		for i, f := range t.Fields {
			nf := f
			nf.Name = f.Name + suffix
			if f.Sel != "" {
				nf.Sel = f.Sel + suffix
			}
			nf.T = Rename(f.T, suffix)
			out.Fields[i] = nf
		}
	}
	return &out
}
