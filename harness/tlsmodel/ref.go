package tlsmodel

import "fmt"

// The reference codec: RFC 5246 section 4 with the semantics of TLSCodec.tla (Enc / Dec), written
// against encoding rules only.  TestReplay of c09 demands that it reproduces every verdict TLC
// exported; the randomized runs then use it as the oracle for types and byte strings TLC did not
// enumerate.

func fitsWidth(v uint64, w int) bool { return w >= 8 || v < uint64(1)<<(8*uint(w)) }

// inRange is InRange(T, n) of TLSCodec.tla: <min..max>; MaxlenZeroIsWidth: a declared maximum of 0 is no declared range.
func inRange(t *Type, n uint64) bool {
	lo, _ := t.Min.U64()
	hi, _ := t.Max.U64()
	return hi == 0 || (lo <= n && n <= hi)
}

func putUint(out []byte, v uint64, w int) []byte {
	for i := w - 1; i >= 0; i-- {
		out = append(out, byte(v>>(8*uint(i))))
	}
	return out
}

func getUint(b []byte, w int) uint64 {
	var v uint64
	for i := 0; i < w; i++ {
		v = v<<8 | uint64(b[i])
	}
	return v
}

// RefEnc is Enc(T, v).
func RefEnc(t *Type, v Val) ([]byte, bool) { return refEnc(nil, t, v) }

func refEnc(out []byte, t *Type, v Val) ([]byte, bool) {
	switch t.K {
	case "u", "enum":
		if v.K != "num" || v.Big || !fitsWidth(v.Num, t.W) {
			return nil, false
		}
		return putUint(out, v.Num, t.W), true
	case "arr":
		if v.K != "bytes" || len(v.Bytes) != t.N {
			return nil, false
		}
		return append(out, v.Bytes...), true
	case "vec":
		var body []byte
		if t.Elem.K == "byte" {
			if v.K != "bytes" {
				return nil, false
			}
			body = v.Bytes
		} else {
			if v.K != "list" {
				return nil, false
			}
			for _, it := range v.Items {
				var ok bool
				if body, ok = refEnc(body, t.Elem, it); !ok {
					return nil, false
				}
			}
		}
		n := uint64(len(body))
		if !fitsWidth(n, t.W) || !inRange(t, n) {
			return nil, false
		}
		return append(putUint(out, n, t.W), body...), true
	case "struct":
		if v.K != "struct" || len(v.Items) != len(t.Fields) {
			return nil, false
		}
		env := map[string]uint64{}
		ref, hit := map[string]bool{}, map[string]bool{}
		for i, f := range t.Fields {
			x := v.Items[i]
			if f.Sel == "" {
				var ok bool
				if out, ok = refEnc(out, f.T, x); !ok {
					return nil, false
				}
				if f.T.K == "enum" {
					env[f.Name] = x.Num
				}
				continue
			}
			choice, seen := env[f.Sel]
			if !seen {
				return nil, false
			}
			ref[f.Sel] = true
			want, _ := f.Val.U64()
			if choice != want {
				if x.K != "none" {
					return nil, false
				}
				continue
			}
			if x.K == "none" || hit[f.Sel] {
				return nil, false
			}
			hit[f.Sel] = true
			var ok bool
			if out, ok = refEnc(out, f.T, x); !ok {
				return nil, false
			}
		}
		for s := range ref {
			if !hit[s] {
				return nil, false
			}
		}
		return out, true
	}
	return nil, false
}

// RefDec is Dec(T, b): value, unconsumed bytes, defined.
func RefDec(t *Type, b []byte) (Val, []byte, bool) {
	switch t.K {
	case "u", "enum":
		if len(b) < t.W {
			return Val{}, nil, false
		}
		return Val{K: "num", Num: getUint(b, t.W)}, b[t.W:], true
	case "arr":
		if len(b) < t.N {
			return Val{}, nil, false
		}
		return Val{K: "bytes", Bytes: append([]byte{}, b[:t.N]...)}, b[t.N:], true
	case "vec":
		if len(b) < t.W {
			return Val{}, nil, false
		}
		n := getUint(b, t.W)
		r := b[t.W:]
		if !inRange(t, n) || n > uint64(len(r)) {
			return Val{}, nil, false
		}
		body, rest := r[:n], r[n:]
		if t.Elem.K == "byte" {
			return Val{K: "bytes", Bytes: append([]byte{}, body...)}, rest, true
		}
		out := Val{K: "list", Items: []Val{}}
		for len(body) > 0 {
			it, r2, ok := RefDec(t.Elem, body)
			if !ok || len(r2) >= len(body) {
				return Val{}, nil, false
			}
			out.Items = append(out.Items, it)
			body = r2
		}
		return out, rest, true
	case "struct":
		env := map[string]uint64{}
		ref, hit := map[string]bool{}, map[string]bool{}
		out := Val{K: "struct", Items: make([]Val, 0, len(t.Fields))}
		for _, f := range t.Fields {
			if f.Sel != "" {
				choice, seen := env[f.Sel]
				if !seen {
					return Val{}, nil, false
				}
				ref[f.Sel] = true
				want, _ := f.Val.U64()
				if choice != want {
					out.Items = append(out.Items, Val{K: "none"})
					continue
				}
				if hit[f.Sel] {
					return Val{}, nil, false
				}
				hit[f.Sel] = true
			}
			x, r, ok := RefDec(f.T, b)
			if !ok {
				return Val{}, nil, false
			}
			if f.Sel == "" && f.T.K == "enum" {
				env[f.Name] = x.Num
			}
			out.Items = append(out.Items, x)
			b = r
		}
		for s := range ref {
			if !hit[s] {
				return Val{}, nil, false
			}
		}
		return out, b, true
	}
	return Val{}, nil, false
}

// Leaf is a scalar / opaque member of a value with the offset of its encoding in the enclosing encoding.
type Leaf struct {
	Path string
	T    *Type
	V    Val
	Off  int
}

// Leaves lists the leaves of v (of type t) in encoding order.  Offsets assume that every member encodes.
func Leaves(t *Type, v Val) []Leaf {
	var out []Leaf
	var walk func(path string, t *Type, v Val, off int) int
	walk = func(path string, t *Type, v Val, off int) int {
		switch {
		case t.K == "struct" && v.K == "struct" && len(v.Items) == len(t.Fields):
			for i, f := range t.Fields {
				if v.Items[i].K == "none" {
					continue
				}
				off = walk(path+"."+f.Name, f.T, v.Items[i], off)
			}
			return off
		case t.K == "vec" && t.Elem.K != "byte" && v.K == "list":
			out = append(out, Leaf{path + ".len", t, v, off})
			off += t.W
			for i, it := range v.Items {
				off = walk(fmt.Sprintf("%s[%d]", path, i), t.Elem, it, off)
			}
			return off
		}
		out = append(out, Leaf{path, t, v, off})
		switch t.K {
		case "u", "enum":
			return off + t.W
		case "arr":
			return off + t.N
		case "vec":
			return off + t.W + len(v.Bytes)
		}
		return off
	}
	walk("", t, v, 0)
	return out
}

// FirstDiff names the first leaf at which two values of type t differ ("" when they are equal or not comparable).
func FirstDiff(t *Type, want, got Val) (Leaf, bool) {
	a, b := Leaves(t, want), Leaves(t, got)
	for i := range a {
		if i >= len(b) {
			return a[i], true
		}
		if a[i].Path != b[i].Path || (a[i].T.K != "vec" || a[i].T.Elem.K == "byte") && !a[i].V.Equal(b[i].V) ||
			(a[i].T.K == "vec" && a[i].T.Elem.K != "byte" && len(a[i].V.Items) != len(b[i].V.Items)) {
			return a[i], true
		}
	}
	if len(b) > len(a) {
		return b[len(a)], true
	}
	return Leaf{}, false
}

// Constructors for harnesses that write types down by hand (C04).

// NumOf is the digit sequence of n.
func NumOf(n uint64) Num {
	var d Num
	for ; n > 0; n >>= 8 {
		d = append(Num{int(n & 0xff)}, d...)
	}
	return d
}

func widthOf(max uint64) int {
	w := 1
	for max >>= 8; max > 0; max >>= 8 {
		w++
	}
	return w
}

// U is uintN.
func U(w int) *Type { return &Type{K: "u", W: w} }

// EnumMax is enum { ..., (max) }.
func EnumMax(max uint64) *Type {
	return &Type{K: "enum", W: widthOf(max), Tag: "maxval", Maxval: NumOf(max)}
}

// Arr is opaque[n].
func Arr(n int) *Type { return &Type{K: "arr", N: n} }

// Vec is elem<min..max>; elem nil means opaque.
func Vec(min, max uint64, elem *Type) *Type {
	if elem == nil {
		elem = &Type{K: "byte"}
	}
	return &Type{K: "vec", Min: NumOf(min), Max: NumOf(max), W: widthOf(max), Elem: elem}
}

// VecForm is Vec with the spelling of the tag: "minmax" (minlen:N,maxlen:M), "maxmin" (maxlen:M,minlen:N) or "max"
// (maxlen:M, only for min = 0).
func VecForm(min, max uint64, elem *Type, form string) *Type {
	t := Vec(min, max, elem)
	t.Form = form
	return t
}

// Struct is a struct of the given members.
func Struct(fields ...Field) *Type { return &Type{K: "struct", Fields: fields} }

// F is an ordinary member, A an arm of select(sel) for value val.
func F(name string, t *Type) Field { return Field{Name: name, T: t} }

// A is a variant arm.
func A(name string, t *Type, sel string, val uint64) Field {
	return Field{Name: name, T: t, Sel: sel, Val: NumOf(val)}
}
