package c12

import (
	"bytes"
	"fmt"
	mrand "math/rand"
	"os"
	"testing"

	ct "github.com/google/certificate-transparency-go"

	"verifharness/ref"
	"verifharness/vh"
)

// reencodeLeaf re-encodes a decoded MerkleTreeLeaf with the independent encoder; ok=false when the
// structure cannot stand for any byte string (nil parts).
func reencodeLeaf(l *ct.MerkleTreeLeaf) ([]byte, bool) {
	te := l.TimestampedEntry
	if te == nil {
		return nil, false
	}
	var body []byte
	switch te.EntryType {
	case ct.X509LogEntryType:
		if te.X509Entry == nil {
			return nil, false
		}
		body = ref.Vec(te.X509Entry.Data, 3)
	case ct.PrecertLogEntryType:
		if te.PrecertEntry == nil {
			return nil, false
		}
		body = ref.Cat(te.PrecertEntry.IssuerKeyHash[:], ref.Vec(te.PrecertEntry.TBSCertificate, 3))
	default:
		if te.JSONEntry == nil {
			return nil, false
		}
		body = ref.Vec(te.JSONEntry.Data, 3)
	}
	return Leaf(byte(l.Version), byte(l.LeafType), te.Timestamp, uint16(te.EntryType), body, te.Extensions), true
}

func certList(cs []ct.ASN1Cert) [][]byte {
	out := make([][]byte, len(cs))
	for i, c := range cs {
		out[i] = c.Data
	}
	return out
}

func reencodeExtra(l *ct.MerkleTreeLeaf, cert ct.ASN1Cert, chain []ct.ASN1Cert) []byte {
	if l.TimestampedEntry != nil && l.TimestampedEntry.EntryType == ct.PrecertLogEntryType {
		return ref.PrecertChainEntry(cert.Data, certList(chain)...)
	}
	return ref.CertChain(certList(chain)...)
}

// rawConsistent: "fails rather than returning an entry inconsistent with" leaf_input and extra_data.
func rawConsistent(r *ct.RawLogEntry, leaf, extra []byte) string {
	enc, ok := reencodeLeaf(&r.Leaf)
	if !ok {
		return "the returned leaf has no content"
	}
	if !bytes.Equal(enc, leaf) {
		return fmt.Sprintf("re-encoding the returned leaf gives %d bytes that differ from the %d bytes of leaf_input", len(enc), len(leaf))
	}
	if x := reencodeExtra(&r.Leaf, r.Cert, r.Chain); !bytes.Equal(x, extra) {
		return fmt.Sprintf("re-encoding the returned chain gives %d bytes that differ from the %d bytes of extra_data", len(x), len(extra))
	}
	if r.Leaf.TimestampedEntry.EntryType == ct.X509LogEntryType && !bytes.Equal(r.Cert.Data, r.Leaf.TimestampedEntry.X509Entry.Data) {
		return "Cert is not the logged certificate"
	}
	return ""
}

func parsedConsistent(e *ct.LogEntry, leaf, extra []byte) string {
	enc, ok := reencodeLeaf(&e.Leaf)
	if !ok {
		return "the returned leaf has no content"
	}
	if !bytes.Equal(enc, leaf) {
		return fmt.Sprintf("re-encoding the returned leaf gives %d bytes that differ from the %d bytes of leaf_input", len(enc), len(leaf))
	}
	te := e.Leaf.TimestampedEntry
	switch te.EntryType {
	case ct.X509LogEntryType:
		if e.X509Cert == nil || e.Precert != nil {
			return "x509 entry without parsed certificate"
		}
		if !bytes.Equal(e.X509Cert.Raw, te.X509Entry.Data) {
			return "the parsed certificate is not the logged certificate"
		}
		if x := ref.CertChain(certList(e.Chain)...); !bytes.Equal(x, extra) {
			return "re-encoding the returned chain differs from extra_data"
		}
	case ct.PrecertLogEntryType:
		if e.Precert == nil || e.X509Cert != nil || e.Precert.TBSCertificate == nil {
			return "precert entry without parsed precertificate"
		}
		if !bytes.Equal(e.Precert.TBSCertificate.RawTBSCertificate, te.PrecertEntry.TBSCertificate) {
			return "the parsed TBSCertificate is not the logged TBSCertificate"
		}
		if e.Precert.IssuerKeyHash != te.PrecertEntry.IssuerKeyHash {
			return "issuer key hash differs"
		}
		if x := ref.PrecertChainEntry(e.Precert.Submitted.Data, certList(e.Chain)...); !bytes.Equal(x, extra) {
			return "re-encoding the submitted precertificate and chain differs from extra_data"
		}
	default:
		return fmt.Sprintf("entry of type %d returned", te.EntryType)
	}
	return ""
}

type entryCase struct {
	Class  string `json:"class"`
	Raw    string `json:"raw"`
	Parsed string `json:"parsed"`
}

// decode runs both decoders on one (leaf_input, extra_data) under recover() and judges the outcome.
func decode(rep *vh.Report, class, wantRaw, wantParsed string, leaf, extra []byte, ctxt any) (rawOK, parsedOK bool) {
	le := &ct.LeafEntry{LeafInput: leaf, ExtraData: extra}
	func() {
		defer func() {
			if r := recover(); r != nil {
				rep.Violate("panic:RawLogEntryFromLeaf:"+class, fmt.Sprintf("RawLogEntryFromLeaf panicked on class %s: %v", class, r), ctxt)
			}
		}()
		r, err := ct.RawLogEntryFromLeaf(42, le)
		rawOK = r != nil
		switch {
		case r == nil && err == nil:
			rep.Violate("RawLogEntryFromLeaf:"+class+":nil-without-error", "neither entry nor error", ctxt)
		case r != nil && err != nil:
			rep.Violate("RawLogEntryFromLeaf:"+class+":error-with-partial-result", "entry together with error "+err.Error(), ctxt)
		case r != nil && wantRaw == "error":
			rep.Violate("RawLogEntryFromLeaf:"+class+":returned-ok", "the specification demands an error for class "+class+" "+note(rawConsistent(r, leaf, extra)), ctxt)
		case r == nil && wantRaw == "ok":
			rep.Violate("RawLogEntryFromLeaf:"+class+":error-for-valid", "valid entry refused: "+err.Error(), ctxt)
		case r != nil:
			if d := rawConsistent(r, leaf, extra); d != "" {
				rep.Violate("RawLogEntryFromLeaf:"+class+":returned-inconsistent", d, ctxt)
			} else if r.Index != 42 {
				rep.Violate("RawLogEntryFromLeaf:"+class+":index", "index not carried", ctxt)
			}
		}
	}()
	func() {
		defer func() {
			if r := recover(); r != nil {
				rep.Violate("panic:LogEntryFromLeaf:"+class, fmt.Sprintf("LogEntryFromLeaf panicked on class %s: %v", class, r), ctxt)
			}
		}()
		// a non-nil entry may come with a non-fatal certificate parsing error: "returned" means the entry
		e, err := ct.LogEntryFromLeaf(42, le)
		parsedOK = e != nil
		switch {
		case e == nil && err == nil:
			rep.Violate("LogEntryFromLeaf:"+class+":nil-without-error", "neither entry nor error", ctxt)
		case e != nil && wantParsed == "error":
			rep.Violate("LogEntryFromLeaf:"+class+":returned-ok", "the specification demands an error for class "+class+" "+note(parsedConsistent(e, leaf, extra)), ctxt)
		case e == nil && wantParsed == "ok":
			rep.Violate("LogEntryFromLeaf:"+class+":error-for-valid", "valid entry refused: "+err.Error(), ctxt)
		case e != nil:
			if d := parsedConsistent(e, leaf, extra); d != "" {
				rep.Violate("LogEntryFromLeaf:"+class+":returned-inconsistent", d, ctxt)
			} else if e.Index != 42 {
				rep.Violate("LogEntryFromLeaf:"+class+":index", "index not carried", ctxt)
			}
		}
	}()
	return
}

func mutate(rng *mrand.Rand, b []byte) []byte {
	c := append([]byte{}, b...)
	n := 1 + rng.Intn(3)
	for k := 0; k < n; k++ {
		if len(c) == 0 {
			c = append(c, byte(rng.Intn(256)))
			continue
		}
		// positions near the front hold the TLS framing: prefer them half of the time
		pos := rng.Intn(len(c))
		if rng.Intn(2) == 0 {
			pos = rng.Intn(min(len(c), 48))
		}
		switch rng.Intn(8) {
		case 0:
			c[pos] ^= 1 << uint(rng.Intn(8))
		case 1:
			c[pos] = byte(rng.Intn(256))
		case 2:
			ins := make([]byte, 1+rng.Intn(4))
			rng.Read(ins)
			c = append(c[:pos], append(ins, c[pos:]...)...)
		case 3:
			end := min(len(c), pos+1+rng.Intn(8))
			c = append(c[:pos], c[end:]...)
		case 4:
			c = c[:pos]
		case 5:
			c = append(c, c[pos:min(len(c), pos+16)]...)
		case 6:
			c[pos] = []byte{0x00, 0xff, 0x80, 0x7f, 0x01}[rng.Intn(5)]
		case 7:
			if pos+3 <= len(c) { // a length field gone wild
				copy(c[pos:], ref.U(uint64(rng.Intn(1<<24)), 3))
			}
		}
	}
	return c
}

// TestEntryDecoder: the specification's entry classes (VERIF_ECASES) and seeded mutations of valid entries.
func TestEntryDecoder(t *testing.T) {
	path := os.Getenv("VERIF_ECASES")
	if path == "" {
		t.Skip("VERIF_ECASES not set")
	}
	cases, err := vh.LoadNDJSON[entryCase](path)
	if err != nil {
		t.Fatal(err)
	}
	rep := vh.NewReport("c12-entries", "ct.RawLogEntryFromLeaf and ct.LogEntryFromLeaf on the entry classes of LogClient.tla (verdict compared) and on "+
		"seeded byte mutations of valid X.509 / precertificate entries (no panic; whatever is returned re-encodes, with the independent encoders, to "+
		"exactly leaf_input and extra_data); non-trivial = mutated inputs that were still accepted by a decoder")
	shared := NewShared(vh.Rand(12))
	for _, c := range cases {
		e, ok := shared.Entries[c.Class]
		if !ok {
			t.Fatalf("entry class %s of the specification is not rendered by the harness", c.Class)
		}
		decode(rep, c.Class, c.Raw, c.Parsed, e[0], e[1], map[string]any{"class": c.Class, "raw": c.Raw, "parsed": c.Parsed, "leaf_input": e[0], "extra_data": e[1]})
		rep.Eval("class:" + c.Class)
	}
	rep.Replayed = len(cases)
	n := vh.EnvInt("VERIF_MUTATIONS", 4000)
	rng := vh.Rand(1201)
	bases := []string{"x509", "precert", "precertPreIssuer", "x509EmptyChain", "x509WithExt",
		"x509Cert_laxOnly_none", "precertTBS_laxOnly_none", "x509Cert_strict_none", "precertTBS_strict_none"}
	accepted := 0
	for i := 0; i < n; i++ {
		b := shared.Entries[bases[rng.Intn(len(bases))]]
		leaf, extra := b[0], b[1]
		switch rng.Intn(4) {
		case 0:
			leaf = mutate(rng, leaf)
		case 1:
			extra = mutate(rng, extra)
		case 2:
			leaf, extra = mutate(rng, leaf), mutate(rng, extra)
		case 3:
			o := shared.Entries[bases[rng.Intn(len(bases))]]
			if rng.Intn(2) == 0 {
				leaf = o[0]
			} else {
				extra = mutate(rng, o[1])
			}
		}
		r, p := decode(rep, "mutated", "any", "any", leaf, extra, map[string]any{"class": "mutated", "leaf_input": leaf, "extra_data": extra})
		key := ""
		if (r || p) && !(bytes.Equal(leaf, b[0]) && bytes.Equal(extra, b[1])) {
			accepted++
			key = fmt.Sprintf("mut-%d", i)
		}
		rep.Eval(key)
	}
	rep.Extra["mutations"] = n
	rep.Extra["mutations_accepted"] = accepted
	if err := rep.Write(); err != nil {
		t.Fatal(err)
	}
}

// TestEntryReplay re-executes one stored decoder input (VERIF_ENTRY_REPLAY: JSON with class, leaf_input, extra_data).
func TestEntryReplay(t *testing.T) {
	path := os.Getenv("VERIF_ENTRY_REPLAY")
	if path == "" {
		t.Skip("VERIF_ENTRY_REPLAY not set")
	}
	type stored struct {
		Class  string `json:"class"`
		Raw    string `json:"raw"`
		Parsed string `json:"parsed"`
		Leaf   []byte `json:"leaf_input"`
		Extra  []byte `json:"extra_data"`
	}
	in, err := vh.LoadNDJSON[stored](path)
	if err != nil {
		t.Fatal(err)
	}
	rep := vh.NewReport("c12-entry-replay", "stored decoder input re-executed")
	for _, s := range in {
		if s.Raw == "" {
			s.Raw, s.Parsed = "any", "any"
		}
		decode(rep, s.Class, s.Raw, s.Parsed, s.Leaf, s.Extra, s)
		rep.Eval("replay")
	}
	if err := rep.Write(); err != nil {
		t.Fatal(err)
	}
}
