// Package c12 binds spec/client/LogClient.tla to the real log client (client.LogClient on
// jsonclient.JSONClient) and to the entry decoder (ct.RawLogEntryFromLeaf, ct.LogEntryFromLeaf).
//
// The server side of the specification is a scripted http.RoundTripper; every body class is rendered
// here from real keys (ECDSA P-256 and RSA 2048 log keys, a foreign key of each type), real
// certificate chains (harness/pki) and the independent RFC 6962 encoders of harness/ref.  Nothing in
// this file uses the repository's serializers.
package c12

import (
	"bytes"
	"context"
	"crypto"
	"crypto/sha256"
	"encoding/base64"
	"encoding/pem"
	"errors"
	"fmt"
	"io"
	mrand "math/rand"
	"net/http"
	"strconv"
	"strings"
	"sync"

	"verifharness/pki"
	"verifharness/ref"
)

// Answer is one scripted answer of the server: [status, class, src].  Src names the earlier answer a replay class
// (replayBody, replaySigOther...) draws on; it is absent ({"k":"none"}) when the body is made for the request.
type Answer struct {
	Status int    `json:"status"`
	Class  string `json:"class"`
	Src    *Src   `json:"src,omitempty"`
}

// Src is an earlier 200 answer of a signed endpoint, as the specification's variable `served` keeps it.
type Src struct {
	K      string `json:"k,omitempty"`
	Method string `json:"method,omitempty"`
	Chain  string `json:"chain,omitempty"`
	Class  string `json:"class,omitempty"`
}

func (a Answer) String() string {
	if a.Replayed() {
		return fmt.Sprintf("{%d %s of the earlier %s(%s) answer %s}", a.Status, a.Class, a.Src.Method, a.Src.Chain, a.Src.Class)
	}
	return fmt.Sprintf("{%d %s}", a.Status, a.Class)
}

// Replayed tells whether the answer is made out of an earlier one.
func (a Answer) Replayed() bool { return a.Src != nil && a.Src.Method != "" }

// Step mirrors one completed call of the specification's history variable.
type Step struct {
	Config  string   `json:"config"`  // how the client is given the key: der | pem | bothSame | bothDifferent | a material option
	Opt     *KeyOpt  `json:"opt"`     // the option as the specification describes it (read for material options only)
	Shape   *Shape   `json:"shape"`   // the shape of the submitted precertificate chain (k = "shape"), if it is not a default one
	Rotated bool     `json:"rotated"` // the key option was assigned to the sequence by the driver (not part of fingerprints)
	Method  string   `json:"method"`
	Chain   string   `json:"chain"`
	Answers []Answer `json:"answers"`
	End     string   `json:"end"`    // answered | expired | dropped
	Expect  string   `json:"expect"` // ok | error | any
	Layer   string   `json:"layer"`
	Carry   string   `json:"carry"` // response | unasserted | none
}

// Label names the final answer of a step (stable part of fingerprints).
func (s Step) Label() string {
	if len(s.Answers) == 0 {
		return s.End
	}
	a := s.Answers[len(s.Answers)-1]
	l := a.Class
	if a.Replayed() {
		// which earlier answer, and whether this call is the one it was given to
		l += "<" + a.Src.Class
		if kindOf(a.Src.Method) != kindOf(s.Method) {
			l += "@otherKind"
		} else if a.Src.Method != s.Method || a.Src.Chain != s.Chain {
			l += "@otherCall"
		}
	}
	if a.Status != 200 {
		l = fmt.Sprintf("%d/%s", a.Status, a.Class)
	}
	if s.End != "answered" {
		l += "+" + s.End
	}
	if !singleOption(s.Config) && !s.Rotated {
		l += "@" + s.Config // both key options set / key material in another form
	}
	if s.Shape != nil && s.Shape.K == "shape" {
		l += "@" + s.Chain // a chain shape other than the default ones
	}
	return l
}

func kindOf(method string) string {
	switch method {
	case "GetSTH":
		return "sth"
	case "AddChain", "AddPreChain":
		return "sct"
	}
	return "data"
}

// Chain is a submitted chain with the entry an independent client derives from it.
type Chain struct {
	DER       [][]byte
	Entry     ref.Entry // for the submitted chain and the method's entry type
	Other     ref.Entry // same type, another certificate
	OtherType ref.Entry // the same certificate under the other entry type
	NotFinal  ref.Entry // precertificate with pre-issuer: entry computed as if chain[1] were the final issuer
}

// World holds the concrete counterparts of the specification's tokens for one log key type.
type World struct {
	KeyType   string // ecdsa | rsa
	Log       crypto.Signer
	Other     crypto.Signer // foreign key of the same type
	OtherType crypto.Signer // foreign key of the other type
	LogSPKI   []byte
	LogPEM    string
	OtherPEM  string // the foreign key of the same type, as a PEM block (configuration bothDifferent)
	LogID     []byte
	ForeignID []byte

	Chains map[string]*Chain
	Root   *pki.Node
	Inter  *pki.Node

	TS       uint64
	Size     uint64
	RootHash []byte
	Root2    []byte
	EmptyRH  []byte
	Ext      []byte
	Ext2     []byte
	Nodes    [][]byte // proof nodes

	Entries map[string][2][]byte // entry class -> (leaf_input, extra_data)

	mu   sync.Mutex
	memo map[string]*Body
	seed int64
	weak *World // the same world around a log key with parameters RFC 6962 excludes (material.go)
}

// Body is a rendered response body together with what the harness knows about it.
type Body struct {
	Bytes     []byte
	ReadFails bool // the body reader fails after Bytes
	CutShort  bool // ... with io.ErrUnexpectedEOF, as net/http does when fewer bytes arrive than Content-Length announced
	// content of the well-formed answer this body deviates from (for comparison when something is returned)
	TS, Size uint64
	RootHash []byte
	Ext      []byte
	Entries  [][2][]byte
	// the fields of a signed answer as they were put into the JSON text (what a replaying server cuts and pastes)
	sth *sthParts
	sct *sctParts
}

type sthParts struct {
	size, ts uint64
	sent     []byte // sha256_root_hash as sent (any length)
	sig      string // base64 of the DigitallySigned
	has      bool   // tree_head_signature present
}

type sctParts struct {
	ver     int
	id      []byte
	ts      uint64
	extText string // the JSON string of "extensions" as sent
	ext     []byte // what it decodes to
	sig     string
	has     bool
}

func (p sthParts) text() string {
	f := []string{fmt.Sprintf(`"tree_size":%d`, p.size), fmt.Sprintf(`"timestamp":%d`, p.ts), fmt.Sprintf(`"sha256_root_hash":"%s"`, b64(p.sent))}
	if p.has {
		f = append(f, fmt.Sprintf(`"tree_head_signature":"%s"`, p.sig))
	}
	return "{" + strings.Join(f, ",") + "}"
}

func (p sctParts) text() string {
	f := []string{fmt.Sprintf(`"sct_version":%d`, p.ver), fmt.Sprintf(`"id":"%s"`, b64(p.id)), fmt.Sprintf(`"timestamp":%d`, p.ts),
		fmt.Sprintf(`"extensions":"%s"`, p.extText)}
	if p.has {
		f = append(f, fmt.Sprintf(`"signature":"%s"`, p.sig))
	}
	return "{" + strings.Join(f, ",") + "}"
}

// as32 is what a 32-byte array holds after the field has been copied into it.
func as32(b []byte) []byte {
	out := make([]byte, 32)
	copy(out, b)
	return out
}

func must[T any](v T, err error) T {
	if err != nil {
		panic(err)
	}
	return v
}

func b64(b []byte) string { return base64.StdEncoding.EncodeToString(b) }

// NewWorld builds keys, chains and entries for one key type.
func NewWorld(keyType string, seed int64, shared *Shared) *World {
	w := &World{KeyType: keyType, memo: map[string]*Body{}, seed: seed, Chains: shared.Chains, Root: shared.Root, Inter: shared.Inter,
		Entries: shared.Entries}
	if keyType == "ecdsa" {
		w.Log, w.Other, w.OtherType = shared.EC[0], shared.EC[1], shared.RSA[1]
	} else {
		w.Log, w.Other, w.OtherType = shared.RSA[0], shared.RSA[1], shared.EC[1]
	}
	var err error
	if w.LogID, w.LogSPKI, err = ref.KeyID(w.Log.Public()); err != nil {
		panic(err)
	}
	w.LogPEM = string(pem.EncodeToMemory(&pem.Block{Type: "PUBLIC KEY", Bytes: w.LogSPKI}))
	var otherSPKI []byte
	w.ForeignID, otherSPKI, _ = ref.KeyID(w.Other.Public())
	w.OtherPEM = string(pem.EncodeToMemory(&pem.Block{Type: "PUBLIC KEY", Bytes: otherSPKI}))
	w.TS = 1700000000123
	w.Size = 7
	h := sha256.Sum256([]byte("root of seven leaves"))
	w.RootHash = h[:]
	h2 := sha256.Sum256([]byte("another root"))
	w.Root2 = h2[:]
	e := sha256.Sum256(nil)
	w.EmptyRH = e[:]
	w.Ext = []byte{0x01, 0x02, 0x03, 0x04}
	w.Ext2 = []byte{0x09, 0x08}
	for i := 0; i < 3; i++ {
		n := sha256.Sum256([]byte{byte(i)})
		w.Nodes = append(w.Nodes, n[:])
	}
	return w
}

// Shared is what both key-type worlds have in common (certificates are independent of the log key).
type Shared struct {
	EC, RSA [2]crypto.Signer
	Chains  map[string]*Chain
	Root    *pki.Node
	Inter   *pki.Node
	Entries map[string][2][]byte
	signers map[string]*pki.Node // what signs the precertificates of the chain shapes (shapes.go)
}

// NewShared generates keys and the certificate hierarchy.
func NewShared(rng *mrand.Rand) *Shared {
	s := &Shared{Chains: map[string]*Chain{}}
	for i := 0; i < 2; i++ {
		s.EC[i] = pki.NewKey("p256")
		s.RSA[i] = pki.NewKey("rsa2048")
	}
	root := pki.NewRoot(pki.Opts{CN: "c12 root"})
	inter := root.Issue(pki.Opts{CN: "c12 intermediate", IsCA: true})
	prei := inter.Issue(pki.Opts{CN: "c12 precert signing", IsCA: true, OtherEKUs: pki.OIDEKUCTs()})
	s.Root, s.Inter = root, inter
	leaf := inter.Issue(pki.Opts{CN: "leaf", DNS: []string{"leaf.example"}})
	leaf2 := inter.Issue(pki.Opts{CN: "leaf2", DNS: []string{"leaf2.example"}})
	pre := inter.Issue(pki.Opts{CN: "pre", Poison: "ok", DNS: []string{"pre.example"}})
	pre2 := inter.Issue(pki.Opts{CN: "pre2", Poison: "ok", DNS: []string{"pre2.example"}})
	prePI := prei.Issue(pki.Opts{CN: "prepi", Poison: "ok", DNS: []string{"prepi.example"}})
	prePI2 := prei.Issue(pki.Opts{CN: "prepi2", Poison: "ok", DNS: []string{"prepi2.example"}})

	ders := func(n *pki.Node) [][]byte { return pki.DERs(n.Chain(true)) }
	tbsOf := func(der []byte) []byte { return must(ref.SplitCert(der)).TBS }
	// x509 chain
	s.Chains["x509"] = &Chain{
		DER:       ders(leaf),
		Entry:     ref.Entry{Type: ref.X509Entry, Cert: leaf.DER},
		Other:     ref.Entry{Type: ref.X509Entry, Cert: leaf2.DER},
		OtherType: ref.Entry{Type: ref.PrecertEntry, IssuerKeyHash: inter.SPKIHash(), TBS: tbsOf(leaf.DER)},
	}
	s.Chains["x509"].NotFinal = s.Chains["x509"].Other
	// precertificate issued directly by the intermediate
	s.Chains["precert"] = &Chain{
		DER:       ders(pre),
		Entry:     must(ref.EntryForChain(ders(pre), false)),
		Other:     must(ref.EntryForChain(ders(pre2), false)),
		OtherType: ref.Entry{Type: ref.X509Entry, Cert: pre.DER},
	}
	s.Chains["precert"].NotFinal = s.Chains["precert"].Other
	// precertificate issued by a precertificate signing certificate
	s.Chains["precertPreIssuer"] = &Chain{
		DER:       ders(prePI),
		Entry:     must(ref.EntryForChain(ders(prePI), true)),
		Other:     must(ref.EntryForChain(ders(prePI2), true)),
		OtherType: ref.Entry{Type: ref.X509Entry, Cert: prePI.DER},
		NotFinal:  must(ref.EntryForChain(ders(prePI), false)),
	}
	for n, c := range s.Chains {
		want := ref.PrecertEntry
		if n == "x509" || n == "x509b" {
			want = ref.X509Entry
		}
		if c.Entry.Type != want || c.Other.Type != want || c.OtherType.Type == want {
			panic("pki: unexpected entry type for chain " + n)
		}
	}
	if bytes.Equal(s.Chains["precertPreIssuer"].NotFinal.TBS, s.Chains["precertPreIssuer"].Entry.TBS) {
		panic("pki: pre-issuer substitution changed nothing")
	}
	s.Entries = buildEntries(s, rng)
	// A second chain for add-chain (history: an SCT given for one chain served again for another).  Issued after everything
	// else so that the certificates above are what they were; its own "other" entries belong to no submitted chain either.
	leafB := inter.Issue(pki.Opts{CN: "leafb", DNS: []string{"leafb.example"}})
	leafB2 := inter.Issue(pki.Opts{CN: "leafb2", DNS: []string{"leafb2.example"}})
	s.Chains["x509b"] = &Chain{
		DER:       ders(leafB),
		Entry:     ref.Entry{Type: ref.X509Entry, Cert: leafB.DER},
		Other:     ref.Entry{Type: ref.X509Entry, Cert: leafB2.DER},
		OtherType: ref.Entry{Type: ref.PrecertEntry, IssuerKeyHash: inter.SPKIHash(), TBS: tbsOf(leafB.DER)},
	}
	s.Chains["x509b"].NotFinal = s.Chains["x509b"].Other
	// LogClient.tla, Relative: what a signature made for one chain (or for a deviation of it) covers is the input of no
	// other chain
	for n1, c1 := range s.Chains {
		for n2, c2 := range s.Chains {
			if n1 == n2 {
				continue
			}
			for _, e := range []ref.Entry{c2.Entry, c2.Other, c2.OtherType, c2.NotFinal} {
				if bytes.Equal(ref.SCTSignatureInput(0, c1.Entry, nil), ref.SCTSignatureInput(0, e, nil)) {
					panic("pki: the entry of chain " + n1 + " coincides with an entry derived from chain " + n2)
				}
			}
		}
	}
	return s
}

// Leaf encodes a MerkleTreeLeaf with explicit version, leaf type and entry type (RFC 6962 3.4).
func Leaf(version, leafType byte, ts uint64, etype uint16, body, ext []byte) []byte {
	return ref.Cat([]byte{version, leafType}, ref.U(ts, 8), ref.U(uint64(etype), 2), body, ref.Vec(ext, 2))
}

func entryBody(e ref.Entry) []byte {
	if e.Type == ref.X509Entry {
		return ref.Vec(e.Cert, 3)
	}
	return ref.Cat(e.IssuerKeyHash, ref.Vec(e.TBS, 3))
}

func buildEntries(s *Shared, rng *mrand.Rand) map[string][2][]byte {
	const ts = 1700000000456
	x, p, pp := s.Chains["x509"], s.Chains["precert"], s.Chains["precertPreIssuer"]
	junk := make([]byte, 40)
	rng.Read(junk)
	junk[0] = 0xff // never a SEQUENCE
	xLeaf := ref.MerkleTreeLeaf(ts, x.Entry, nil)
	xExtra := ref.CertChain(x.DER[1:]...)
	pLeaf := ref.MerkleTreeLeaf(ts, p.Entry, nil)
	pExtra := ref.PrecertChainEntry(p.DER[0], p.DER[1:]...)
	cut := func(b []byte) []byte { return b[:1+rng.Intn(len(b)-1)] }
	mod := func(b []byte, off int, v ...byte) []byte {
		c := append([]byte{}, b...)
		copy(c[off:], v)
		return c
	}
	m := map[string][2][]byte{
		"x509":             {xLeaf, xExtra},
		"precert":          {pLeaf, pExtra},
		"precertPreIssuer": {ref.MerkleTreeLeaf(ts, pp.Entry, nil), ref.PrecertChainEntry(pp.DER[0], pp.DER[1:]...)},
		"x509EmptyChain":   {xLeaf, ref.CertChain()},
		"x509WithExt":      {ref.MerkleTreeLeaf(ts, x.Entry, []byte{1, 2, 3}), xExtra},
		"leafTrailing":     {append(append([]byte{}, xLeaf...), 0), xExtra},
		"extraTrailing":    {xLeaf, append(append([]byte{}, xExtra...), 0)},
		"wrongLeafType":    {mod(xLeaf, 1, 1), xExtra},
		"unknownEntryType": {mod(xLeaf, 10, 0, 2), xExtra},
		"jsonEntryType":    {mod(xLeaf, 10, 0x80, 0), xExtra},
		"leafVersionOther": {mod(xLeaf, 0, 1), xExtra},
		"leafTruncated":    {cut(xLeaf), xExtra},
		"extraTruncated":   {xLeaf, cut(xExtra)},
		"leafEmpty":        {nil, xExtra},
		"extraEmpty":       {xLeaf, nil},
		"extraOfOtherType": {xLeaf, pExtra},
		"zeroLengthCert":   {Leaf(0, 0, ts, 0, ref.Vec(nil, 3), nil), xExtra},
		"certNotDER":       {Leaf(0, 0, ts, 0, ref.Vec(junk, 3), nil), xExtra},
		"tbsNotDER":        {Leaf(0, 0, ts, 1, ref.Cat(p.Entry.IssuerKeyHash, ref.Vec(junk, 3)), nil), pExtra},
		"certTrailingDER":  {Leaf(0, 0, ts, 0, ref.Vec(append(append([]byte{}, x.Entry.Cert...), 0, 0), 3), nil), xExtra},
		"chainNotDER":      {xLeaf, ref.CertChain(junk, x.DER[len(x.DER)-1])},
	}
	derDimension(m, s, junk, ts)
	m["extraOfOtherTypePrecert"] = [2][]byte{pLeaf, xExtra}
	m["leafTrailingPrecert"] = [2][]byte{append(append([]byte{}, pLeaf...), 0xff), pExtra}
	m["extraTrailingPrecert"] = [2][]byte{pLeaf, append(append([]byte{}, pExtra...), 0xff)}
	m["leafTruncatedPrecert"] = [2][]byte{cut(pLeaf), pExtra}
	m["extraTruncatedPrecert"] = [2][]byte{pLeaf, cut(pExtra)}
	return m
}

// nonMinimalSerial re-encodes the serial number INTEGER 0x7a5b of a certificate / TBSCertificate as 00 5b: same
// length, so no other length octet changes, but no longer DER (X.690 8.3.2) - parsers accept it only when lenient.
func nonMinimalSerial(der []byte) []byte {
	marker := []byte{0xa0, 0x03, 0x02, 0x01, 0x02, 0x02, 0x02, 0x7a, 0x5b} // [0] EXPLICIT v3, INTEGER 0x7a5b
	at := bytes.Index(der, marker)
	if at < 0 || at > 12 {
		panic("pki: version/serial marker not found at the start of the TBSCertificate")
	}
	c := append([]byte{}, der...)
	c[at+7] = 0x00
	return c
}

// derDimension renders the classes <where>_<parse>_<trailing> of LogClient.tla (DERWhere x DERParse x DERTrailing).
func derDimension(m map[string][2][]byte, s *Shared, junk []byte, ts uint64) {
	x, p := s.Chains["x509"], s.Chains["precert"]
	const serial = 0x7a5b
	leafS := s.Inter.Issue(pki.Opts{CN: "dim leaf", DNS: []string{"dim.example"}, Serial: serial})
	preS := s.Inter.Issue(pki.Opts{CN: "dim pre", Poison: "ok", DNS: []string{"dimpre.example"}, Serial: serial})
	caS := s.Root.Issue(pki.Opts{CN: "dim ca", IsCA: true, Serial: serial})
	preEntry := must(ref.EntryForChain(pki.DERs(preS.Chain(true)), false))
	obj := map[string]map[string][]byte{
		"x509Cert":         {"strict": leafS.DER, "laxOnly": nonMinimalSerial(leafS.DER), "fatal": junk},
		"precertTBS":       {"strict": preEntry.TBS, "laxOnly": nonMinimalSerial(preEntry.TBS), "fatal": junk},
		"submittedPrecert": {"strict": preS.DER, "laxOnly": nonMinimalSerial(preS.DER), "fatal": junk},
		"chainElem":        {"strict": caS.DER, "laxOnly": nonMinimalSerial(caS.DER), "fatal": junk},
	}
	rootDER := x.DER[len(x.DER)-1]
	for where, byParse := range obj {
		for parse, der := range byParse {
			for _, trailing := range []string{"none", "some"} {
				o := append([]byte{}, der...)
				if trailing == "some" {
					o = append(o, 0xde, 0xad, 0xbe) // inside the vector, after the end of the object
				}
				var e [2][]byte
				switch where {
				case "x509Cert":
					e = [2][]byte{Leaf(0, 0, ts, 0, ref.Vec(o, 3), nil), ref.CertChain(x.DER[1:]...)}
				case "precertTBS":
					e = [2][]byte{Leaf(0, 0, ts, 1, ref.Cat(preEntry.IssuerKeyHash, ref.Vec(o, 3)), nil), ref.PrecertChainEntry(preS.DER, p.DER[1:]...)}
				case "submittedPrecert":
					e = [2][]byte{ref.MerkleTreeLeaf(ts, preEntry, nil), ref.PrecertChainEntry(o, p.DER[1:]...)}
				case "chainElem":
					e = [2][]byte{ref.MerkleTreeLeaf(ts, x.Entry, nil), ref.CertChain(o, rootDER)}
				}
				m[where+"_"+parse+"_"+trailing] = e
			}
		}
	}
}

// ---------------------------------------------------------------- rendering

var endpoint = map[string]string{
	"GetSTH": "/ct/v1/get-sth", "GetSTHConsistency": "/ct/v1/get-sth-consistency", "GetProofByHash": "/ct/v1/get-proof-by-hash",
	"GetEntries": "/ct/v1/get-entries", "GetRawEntries": "/ct/v1/get-entries", "GetEntryAndProof": "/ct/v1/get-entry-and-proof",
	"GetAcceptedRoots": "/ct/v1/get-roots", "AddChain": "/ct/v1/add-chain", "AddPreChain": "/ct/v1/add-pre-chain",
}

func (w *World) signer(who string) crypto.Signer {
	switch who {
	case "otherKey":
		return w.Other
	case "otherKeyType":
		return w.OtherType
	}
	return w.Log
}

// sign produces the base64 DigitallySigned of a class: who signs, which TLS form, which algorithm bytes.
func (w *World) sign(who, form, alg string, msg []byte) (string, bool) {
	if form == "missing" {
		return "", false
	}
	ds := must(ref.Sign(w.signer(who), msg))
	if who == "nobody" {
		ds[len(ds)-1] ^= 0x01 // well-formed DigitallySigned, value of the signature altered
	}
	if alg == "mismatch" {
		if ds[1] == ref.SigECDSA {
			ds[1] = ref.SigRSA
		} else {
			ds[1] = ref.SigECDSA
		}
	}
	switch form {
	case "trailing":
		ds = append(ds, 0x00)
	case "truncated":
		ds = ds[:len(ds)-1]
	}
	return b64(ds), true
}

type sthDev struct {
	tree                    string
	rootLen                 int
	sigForm, alg, who, over string
}

func (w *World) sthJSON(d sthDev) (*Body, string) {
	size, root := w.Size, w.RootHash
	if d.tree == "empty" {
		size, root = 0, w.EmptyRH
	}
	// The strongest server against a client that copies the field into a 32-byte array without looking at its
	// length: sign the 32 bytes such a client would end up with.
	sent := root
	switch {
	case d.rootLen < 32:
		sent = root[:d.rootLen]
		root = append(append([]byte{}, sent...), make([]byte, 32-d.rootLen)...)
	case d.rootLen > 32:
		sent = append(append([]byte{}, root...), make([]byte, d.rootLen-32)...)
	}
	ssize, sroot, sts := size, root, w.TS
	msg := []byte(nil)
	switch d.over {
	case "otherSize":
		ssize = size + 1
	case "otherRoot":
		sroot = w.Root2
	case "otherTimestamp":
		sts = w.TS + 1
	case "otherSignatureType":
		msg = ref.SCTSignatureInput(w.TS, w.Chains["x509"].Entry, nil)
	}
	if msg == nil {
		msg = ref.STHSignatureInput(sts, ssize, sroot)
	}
	sig, has := w.sign(d.who, d.sigForm, d.alg, msg)
	p := &sthParts{size: size, ts: w.TS, sent: sent, sig: sig, has: has}
	return &Body{TS: w.TS, Size: size, RootHash: root, sth: p}, p.text()
}

type sctDev struct {
	ext                     string
	idLen                   int
	id, version             string
	sigForm, alg, who, over string
	omitFields              bool
}

func (w *World) sctJSON(ch *Chain, d sctDev) (*Body, string) {
	ext := []byte(nil)
	if d.ext == "some" {
		ext = w.Ext
	}
	id := w.LogID
	switch d.id {
	case "foreign":
		id = w.ForeignID
	case "oneBitOff":
		id = append([]byte{}, w.LogID...)
		id[31] ^= 0x01
	}
	switch {
	case d.idLen < 32:
		id = id[:d.idLen]
	case d.idLen > 32:
		id = append(append([]byte{}, id...), make([]byte, d.idLen-32)...)
	}
	entry, sts, sext := ch.Entry, w.TS, ext
	switch d.over {
	case "otherChain":
		entry = ch.Other
	case "notFinal":
		entry = ch.NotFinal
	case "otherType":
		entry = ch.OtherType
	case "otherTimestamp":
		sts = w.TS + 1
	case "noExtensions":
		sext = nil
	case "otherExtensions":
		if d.ext == "some" {
			sext = w.Ext2
		} else {
			sext = w.Ext
		}
	}
	msg := ref.SCTSignatureInput(sts, entry, sext)
	ver := 0
	if d.version == "other" {
		ver = 1
		msg[0] = 1 // signed over a structure that says version 1 as well
	}
	if d.over == "otherSignatureType" {
		msg = ref.STHSignatureInput(w.TS, w.Size, w.RootHash)
	}
	sig, has := w.sign(d.who, d.sigForm, d.alg, msg)
	if d.omitFields {
		return &Body{TS: w.TS}, "null"
	}
	p := &sctParts{ver: ver, id: id, ts: w.TS, extText: b64(ext), ext: ext, sig: sig, has: has}
	return &Body{TS: w.TS, Ext: ext, sct: p}, p.text()
}

func sthDevOf(class string) (sthDev, bool) {
	d := sthDev{tree: "n", rootLen: 32, sigForm: "ok", alg: "ok", who: "log", over: "same"}
	switch class {
	case "valid", "trailingJunk", "truncatedJSON", "bodyReadError", "bodyCutAfterCompleteJSON":
	case "validEmptyTree":
		d.tree = "empty"
	case "rootHashLen31":
		d.rootLen = 31
	case "rootHashLen33":
		d.rootLen = 33
	case "sigMissing":
		d.sigForm = "missing"
	case "sigTrailingTLS":
		d.sigForm = "trailing"
	case "sigTruncatedTLS":
		d.sigForm = "truncated"
	case "sigAlgMismatch":
		d.alg = "mismatch"
	case "sigCorrupt":
		d.who = "nobody"
	case "sigCorruptEmptyTree":
		d.who, d.tree = "nobody", "empty"
	case "sigByOtherKey":
		d.who = "otherKey"
	case "sigByOtherKeyEmptyTree":
		d.who, d.tree = "otherKey", "empty"
	case "sigByOtherKeyType":
		d.who = "otherKeyType"
	case "sigOverOtherSize":
		d.over = "otherSize"
	case "sigOverOtherRoot":
		d.over = "otherRoot"
	case "sigOverOtherTimestamp":
		d.over = "otherTimestamp"
	case "sigOverSCTInput":
		d.over = "otherSignatureType"
	default:
		return d, false
	}
	return d, true
}

func sctDevOf(class string) (sctDev, bool) {
	d := sctDev{ext: "empty", idLen: 32, id: "keyhash", version: "v1", sigForm: "ok", alg: "ok", who: "log", over: "same"}
	switch class {
	case "valid", "trailingJunk", "truncatedJSON", "extBadBase64", "bodyCutAfterCompleteJSON":
	case "validWithExtensions":
		d.ext = "some"
	case "idLen0":
		d.idLen = 0
	case "idLen31":
		d.idLen = 31
	case "idLen33":
		d.idLen = 33
	case "logIDForeign":
		d.id = "foreign"
	case "logIDOneBitOff":
		d.id = "oneBitOff"
	case "logIDForeignSignedByOwner":
		d.id, d.who = "foreign", "otherKey"
	case "versionOther":
		d.version = "other"
	case "sigMissing":
		d.sigForm = "missing"
	case "sigTrailingTLS":
		d.sigForm = "trailing"
	case "sigTruncatedTLS":
		d.sigForm = "truncated"
	case "sigAlgMismatch":
		d.alg = "mismatch"
	case "sigCorrupt":
		d.who = "nobody"
	case "sigCorruptWithExtensions":
		d.who, d.ext = "nobody", "some"
	case "sigByOtherKey":
		d.who = "otherKey"
	case "sigByOtherKeyType":
		d.who = "otherKeyType"
	case "sigOverOtherChain":
		d.over = "otherChain"
	case "sigOverSubmittedNotFinal":
		d.over = "notFinal"
	case "sigOverOtherType":
		d.over = "otherType"
	case "sigOverOtherTimestamp":
		d.over = "otherTimestamp"
	case "sigOverOtherExtensions":
		d.over, d.ext = "otherExtensions", "some"
	case "sigOverDroppedExtensions":
		d.over = "otherExtensions"
	case "sigOverNoExtensions":
		d.over, d.ext = "noExtensions", "some"
	case "sigOverSTHInput":
		d.over = "otherSignatureType"
	default:
		return d, false
	}
	return d, true
}

func b64list(items [][]byte) string {
	q := make([]string, len(items))
	for i, it := range items {
		q[i] = `"` + b64(it) + `"`
	}
	return "[" + strings.Join(q, ",") + "]"
}

func entriesJSON(es [][2][]byte) string {
	q := make([]string, len(es))
	for i, e := range es {
		q[i] = fmt.Sprintf(`{"leaf_input":"%s","extra_data":"%s"}`, b64(e[0]), b64(e[1]))
	}
	return `{"entries":[` + strings.Join(q, ",") + `]}`
}

var notJSON = []string{"<html><body><h1>502 Bad Gateway</h1></body></html>", "Service Unavailable", "\x00\x01\x02\x03\xff\xfe", "garbage{", "}{"}

// Render produces the body of (method, chain, class); deterministic per world (memoized), variety from the seed.
func (w *World) Render(method, chain, class string) *Body {
	key := method + "|" + chain + "|" + class
	w.mu.Lock()
	defer w.mu.Unlock()
	if b, ok := w.memo[key]; ok {
		return b
	}
	rng := mrand.New(mrand.NewSource(w.seed*7919 + int64(len(w.memo))))
	b := w.render(method, chain, class, rng)
	w.memo[key] = b
	return b
}

func (w *World) render(method, chain, class string, rng *mrand.Rand) *Body {
	var body *Body
	var valid string
	pick := func(opts ...string) string { return opts[rng.Intn(len(opts))] }
	wrong, badB64, missing := "", "", ""
	switch method {
	case "GetSTH":
		d, ok := sthDevOf(class)
		if class == "jsonNull" {
			body, valid = &Body{}, "null"
			break
		}
		body, valid = w.sthJSON(d)
		_ = ok
		wrong = pick(strings.Replace(valid, `"tree_size":7`, `"tree_size":"seven"`, 1), strings.Replace(valid, `"timestamp":`, `"timestamp":"t`+`",  "x":`, 1),
			"["+valid+"]", strings.Replace(valid, `"sha256_root_hash":"`, `"sha256_root_hash":["`, 1), strings.Replace(valid, `"tree_size":7`, `"tree_size":-7`, 1),
			strings.Replace(valid, `"tree_size":7`, `"tree_size":7.5`, 1))
		badB64 = pick(strings.Replace(valid, `"sha256_root_hash":"`, `"sha256_root_hash":"!!`, 1), strings.Replace(valid, `"tree_head_signature":"`, `"tree_head_signature":"*`, 1))
	case "AddChain", "AddPreChain":
		d, _ := sctDevOf(class)
		if class == "jsonNull" {
			d.omitFields = true
		}
		body, valid = w.sctJSON(w.Chains[chain], d)
		wrong = pick(strings.Replace(valid, `"timestamp":`, `"timestamp":"x","y":`, 1), strings.Replace(valid, `"id":"`, `"id":5,"z":"`, 1), "["+valid+"]",
			strings.Replace(valid, `"sct_version":0`, `"sct_version":"v1"`, 1), strings.Replace(valid, `"extensions":"`, `"extensions":7,"q":"`, 1))
		badB64 = pick(strings.Replace(valid, `"id":"`, `"id":"!!`, 1), strings.Replace(valid, `"signature":"`, `"signature":"*`, 1))
		if class == "extBadBase64" { // a JSON string all right, decoded by the client itself
			body.sct.extText = "*" + body.sct.extText
			valid = body.sct.text()
		}
	case "GetSTHConsistency":
		body = &Body{}
		valid = `{"consistency":` + b64list(w.Nodes[:2]) + `}`
		wrong = pick(`{"consistency":"abc"}`, `{"consistency":[1,2]}`, `[`+valid+`]`, `{"consistency":{"a":1}}`)
		badB64 = `{"consistency":["!!!!"]}`
		missing = `{}`
	case "GetProofByHash":
		body = &Body{}
		valid = `{"leaf_index":3,"audit_path":` + b64list(w.Nodes) + `}`
		wrong = pick(`{"leaf_index":"3","audit_path":`+b64list(w.Nodes)+`}`, `{"leaf_index":3,"audit_path":"x"}`, `[]`, `{"leaf_index":3.5,"audit_path":[]}`)
		badB64 = `{"leaf_index":3,"audit_path":["*"]}`
		missing = pick(`{"audit_path":`+b64list(w.Nodes)+`}`, `{"leaf_index":3}`)
	case "GetEntries", "GetRawEntries":
		es := [][2][]byte{w.Entries["x509"], w.Entries["precert"]}
		if e, ok := w.Entries[class]; ok {
			es = [][2][]byte{w.Entries["x509"], e}
			if rng.Intn(2) == 0 {
				es = [][2][]byte{e, w.Entries["x509"]}
			}
		}
		body = &Body{Entries: es}
		valid = entriesJSON(es)
		wrong = pick(`{"entries":{}}`, `{"entries":"x"}`, `[`+valid+`]`, `{"entries":[{"leaf_input":5,"extra_data":""}]}`, `{"entries":[[]]}`)
		badB64 = pick(`{"entries":[{"leaf_input":"!!","extra_data":""}]}`, strings.Replace(valid, `"extra_data":"`, `"extra_data":"*`, 1))
		missing = `{}`
	case "GetEntryAndProof":
		e := w.Entries["x509"]
		body = &Body{Entries: [][2][]byte{e}}
		valid = fmt.Sprintf(`{"leaf_input":"%s","extra_data":"%s","audit_path":%s}`, b64(e[0]), b64(e[1]), b64list(w.Nodes))
		wrong = pick(strings.Replace(valid, `"audit_path":[`, `"audit_path":5,"x":[`, 1), strings.Replace(valid, `"leaf_input":"`, `"leaf_input":["`, 1), `[]`)
		badB64 = strings.Replace(valid, `"leaf_input":"`, `"leaf_input":"!`, 1)
		missing = fmt.Sprintf(`{"leaf_input":"%s","extra_data":"%s"}`, b64(e[0]), b64(e[1]))
	case "GetAcceptedRoots":
		body = &Body{}
		valid = `{"certificates":` + b64list([][]byte{w.Root.DER, w.Inter.DER}) + `}`
		wrong = pick(`{"certificates":"abc"}`, `{"certificates":[1]}`, `[]`, `{"certificates":{"a":"b"}}`)
		badB64 = `{"certificates":["` + b64(w.Root.DER) + `","!!!"]}`
		missing = `{}`
	default:
		panic("unknown method " + method)
	}
	out := valid
	switch class {
	case "notJSON":
		out = notJSON[rng.Intn(len(notJSON))]
	case "truncatedJSON":
		out = valid[:1+rng.Intn(len(valid)-1)]
	case "bodyReadError":
		out = valid[:1+rng.Intn(len(valid)-1)]
		body.ReadFails = true
	case "bodyCutAfterCompleteJSON":
		// the complete, valid (correctly signed) JSON text arrives, then the transfer ends short of the announced length
		out = valid
		body.ReadFails, body.CutShort = true, true
	case "wrongType":
		out = wrong
	case "empty":
		out = ""
	case "badBase64":
		out = badB64
	case "trailingJunk":
		out = valid + pick(" trailing junk", "}", "{}", "\x00")
	case "missingOptional":
		out = missing
	case "jsonNull":
		out = "null"
	}
	body.Bytes = []byte(out)
	return body
}

// ---------------------------------------------------------------- history

// RenderAnswer produces the body of one scripted answer to the call (method, chain): made for the request, or - the
// history dimension of LogClient.tla - made out of the body this world serves for the earlier answer a.Src: the whole
// of it byte for byte (replayBody), its fields with one of them altered and its signature bytes as they were
// (replaySigOther<Field>), or its signature bytes under the well-formed fields of the other kind of answer
// (replaySigOtherKind).  The alterations are the ones the fresh classes sigOver<Field> sign over (tree_size + 1, the
// other root, timestamp + 1), so a signature that did not fit the earlier body may fit the later one.
func (w *World) RenderAnswer(method, chain string, a Answer) *Body {
	if !a.Replayed() {
		return w.Render(method, chain, a.Class)
	}
	key := method + "|" + chain + "|" + a.Class + "<" + a.Src.Method + "|" + a.Src.Chain + "|" + a.Src.Class
	w.mu.Lock()
	b, ok := w.memo[key]
	w.mu.Unlock()
	if ok {
		return b
	}
	src := w.Render(a.Src.Method, a.Src.Chain, a.Src.Class)
	b = w.replay(method, chain, a.Class, a.Src.Method, src)
	w.mu.Lock()
	defer w.mu.Unlock()
	if prev, ok := w.memo[key]; ok {
		return prev
	}
	w.memo[key] = b
	return b
}

func (w *World) replay(method, chain, class, srcMethod string, src *Body) *Body {
	if src.ReadFails {
		panic("c12: a body whose transfer failed is not a source of replays")
	}
	if class == "replayBody" {
		if kindOf(method) != kindOf(srcMethod) {
			panic("c12: replayBody across kinds is not in the specification")
		}
		c := *src
		c.Bytes = append([]byte{}, src.Bytes...)
		return &c
	}
	if class == "replaySigOtherKind" {
		switch {
		case method == "GetSTH" && src.sct != nil:
			p := sthParts{size: w.Size, ts: w.TS, sent: w.RootHash, sig: src.sct.sig, has: src.sct.has}
			return &Body{TS: p.ts, Size: p.size, RootHash: as32(p.sent), sth: &p, Bytes: []byte(p.text())}
		case kindOf(method) == "sct" && src.sth != nil:
			p := sctParts{ver: 0, id: w.LogID, ts: w.TS, extText: "", sig: src.sth.sig, has: src.sth.has}
			return &Body{TS: p.ts, sct: &p, Bytes: []byte(p.text())}
		}
		panic("c12: replaySigOtherKind needs a signed answer of the other kind as its source")
	}
	switch {
	case method == "GetSTH" && src.sth != nil:
		p := *src.sth
		switch class {
		case "replaySigOtherSize":
			p.size++
		case "replaySigOtherRoot":
			// the other root at the length the earlier field had
			r := append(append([]byte{}, w.Root2...), make([]byte, 32)...)
			p.sent = r[:len(src.sth.sent)]
		case "replaySigOtherTimestamp":
			p.ts++
		default:
			panic("c12: unknown replay class " + class + " for get-sth")
		}
		return &Body{TS: p.ts, Size: p.size, RootHash: as32(p.sent), sth: &p, Bytes: []byte(p.text())}
	case kindOf(method) == "sct" && src.sct != nil:
		p := *src.sct
		switch class {
		case "replaySigOtherTimestamp":
			p.ts++
		case "replaySigOtherExtensions":
			if len(p.ext) == 0 {
				p.ext = w.Ext
			} else {
				p.ext = nil
			}
			p.extText = b64(p.ext)
		default:
			panic("c12: unknown replay class " + class + " for a submission")
		}
		return &Body{TS: p.ts, Ext: p.ext, sct: &p, Bytes: []byte(p.text())}
	}
	panic("c12: replay class " + class + " has no source of the same kind")
}

// ---------------------------------------------------------------- transport

// Script is the scripted server of one call.
type Script struct {
	w       *World
	step    Step
	cancel  context.CancelFunc
	mu      sync.Mutex
	i       int
	Served  []*Body
	Extra   int    // requests beyond the script
	BadPath string // a request that went to another endpoint / with another verb
}

type failingReader struct {
	r   io.Reader
	err error
}

func (f *failingReader) Read(p []byte) (int, error) {
	n, err := f.r.Read(p)
	if err == io.EOF {
		return n, f.err
	}
	return n, err
}

// RoundTrip implements http.RoundTripper.
func (s *Script) RoundTrip(req *http.Request) (*http.Response, error) {
	s.mu.Lock()
	defer s.mu.Unlock()
	if req.Body != nil {
		io.Copy(io.Discard, req.Body)
		req.Body.Close()
	}
	if err := req.Context().Err(); err != nil {
		return nil, err
	}
	wantVerb := http.MethodGet
	if strings.HasPrefix(s.step.Method, "Add") {
		wantVerb = http.MethodPost
	}
	if req.URL.Path != "/log"+endpoint[s.step.Method] || req.Method != wantVerb {
		s.BadPath = req.Method + " " + req.URL.Path
	}
	if s.i >= len(s.step.Answers) {
		switch s.step.End {
		case "expired":
			s.cancel()
			return nil, context.Canceled
		case "dropped":
			return nil, errors.New("connection refused")
		}
		s.Extra++
		s.cancel() // never let a client that asks again wait
		return nil, errors.New("script exhausted")
	}
	a := s.step.Answers[s.i]
	s.i++
	b := s.w.RenderAnswer(s.step.Method, s.step.Chain, a)
	s.Served = append(s.Served, b)
	h := http.Header{}
	h.Set("Content-Type", "application/json")
	if a.Status == 429 || a.Status == 503 {
		h.Set("Retry-After", "0")
	}
	var rd io.Reader = bytes.NewReader(b.Bytes)
	if b.ReadFails {
		rd = &failingReader{rd, errors.New("connection reset while reading the body")}
		if b.CutShort {
			rd = &failingReader{bytes.NewReader(b.Bytes), io.ErrUnexpectedEOF}
		}
	}
	if s.i == len(s.step.Answers) && s.step.End == "expired" {
		// the caller's context ends while the client is waiting to ask again
		defer s.cancel()
	}
	clen := int64(-1)
	if b.CutShort {
		clen = int64(len(b.Bytes)) + 17 // more was announced than arrives
		h.Set("Content-Length", strconv.FormatInt(clen, 10))
	}
	return &http.Response{
		Status: strconv.Itoa(a.Status) + " " + http.StatusText(a.Status), StatusCode: a.Status,
		Proto: "HTTP/1.1", ProtoMajor: 1, ProtoMinor: 1,
		Header: h, Body: io.NopCloser(rd), ContentLength: clen, Request: req,
	}, nil
}
