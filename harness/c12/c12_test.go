package c12

import (
	"bytes"
	"context"
	"errors"
	"fmt"
	"net/http"
	"os"
	"reflect"
	"runtime"
	"sort"
	"strings"
	"sync"
	"testing"

	ct "github.com/google/certificate-transparency-go"
	"github.com/google/certificate-transparency-go/client"
	"github.com/google/certificate-transparency-go/jsonclient"

	"verifharness/ref"
	"verifharness/vh"
)

func asn1Chain(ders [][]byte) []ct.ASN1Cert {
	out := make([]ct.ASN1Cert, len(ders))
	for i, d := range ders {
		out[i] = ct.ASN1Cert{Data: d}
	}
	return out
}

// call invokes one method of the real client; the result is nil-normalised (a nil pointer / nil slice is "nothing").
func call(lc *client.LogClient, ctx context.Context, w *World, s Step) (res any, err error) {
	switch s.Method {
	case "GetSTH":
		return lc.GetSTH(ctx)
	case "GetSTHConsistency":
		return lc.GetSTHConsistency(ctx, 3, 7)
	case "GetProofByHash":
		return lc.GetProofByHash(ctx, w.Nodes[0], 7)
	case "GetEntries":
		return lc.GetEntries(ctx, 10, 11)
	case "GetRawEntries":
		return lc.GetRawEntries(ctx, 10, 11)
	case "GetEntryAndProof":
		return lc.GetEntryAndProof(ctx, 3, 7)
	case "GetAcceptedRoots":
		return lc.GetAcceptedRoots(ctx)
	case "AddChain":
		return lc.AddChain(ctx, asn1Chain(w.Chains[s.Chain].DER))
	case "AddPreChain":
		return lc.AddPreChain(ctx, asn1Chain(w.Chains[s.Chain].DER))
	}
	panic("unknown method " + s.Method)
}

func isNothing(v any) bool {
	if v == nil {
		return true
	}
	rv := reflect.ValueOf(v)
	switch rv.Kind() {
	case reflect.Ptr, reflect.Slice, reflect.Map, reflect.Interface:
		return rv.IsNil()
	}
	return false
}

func dsOf(d ct.DigitallySigned) []byte {
	return ref.DigitallySigned(byte(d.Algorithm.Hash), byte(d.Algorithm.Signature), d.Signature)
}

// verifyReturned is the property itself, stated on what came back and on nothing else: signatures are
// re-verified with std crypto over the independent encoding, the SCT against the SUBMITTED chain.
func verifyReturned(w *World, s Step, res any, altIDs [][]byte) string {
	switch v := res.(type) {
	case *ct.SignedTreeHead:
		if v.Version != 0 {
			return fmt.Sprintf("STH version %d", v.Version)
		}
		if err := ref.Verify(w.Log.Public(), ref.STHSignatureInput(v.Timestamp, v.TreeSize, v.SHA256RootHash[:]), dsOf(v.TreeHeadSignature)); err != nil {
			return "STH signature does not verify under the configured key: " + err.Error()
		}
	case *ct.SignedCertificateTimestamp:
		if v.SCTVersion != 0 {
			return fmt.Sprintf("SCT version %d", v.SCTVersion)
		}
		idOK := bytes.Equal(v.LogID.KeyID[:], w.LogID)
		for _, id := range altIDs {
			idOK = idOK || bytes.Equal(v.LogID.KeyID[:], id)
		}
		if !idOK {
			return fmt.Sprintf("SCT log id %x is not the hash %x of the configured key", v.LogID.KeyID[:], w.LogID)
		}
		if err := ref.Verify(w.Log.Public(), ref.SCTSignatureInput(v.Timestamp, w.Chains[s.Chain].Entry, v.Extensions), dsOf(v.Signature)); err != nil {
			return "SCT signature does not verify under the configured key for the submitted chain and entry type: " + err.Error()
		}
	}
	return ""
}

func eqList(a [][]byte, b [][]byte) bool {
	if len(a) != len(b) {
		return false
	}
	for i := range a {
		if !bytes.Equal(a[i], b[i]) {
			return false
		}
	}
	return true
}

// sameAsSent compares a returned value with the well-formed answer the body was rendered from.
func sameAsSent(w *World, s Step, b *Body, res any) string {
	switch v := res.(type) {
	case *ct.SignedTreeHead:
		if v.TreeSize != b.Size || v.Timestamp != b.TS || !bytes.Equal(v.SHA256RootHash[:], b.RootHash) {
			return "STH fields differ from the answer"
		}
	case *ct.SignedCertificateTimestamp:
		if v.Timestamp != b.TS || !bytes.Equal(v.Extensions, b.Ext) {
			return "SCT fields differ from the answer"
		}
	case [][]byte:
		if !eqList(v, w.Nodes[:2]) {
			return "consistency proof differs from the answer"
		}
	case *ct.GetProofByHashResponse:
		if v.LeafIndex != 3 || !eqList(v.AuditPath, w.Nodes) {
			return "inclusion proof differs from the answer"
		}
	case *ct.GetEntriesResponse:
		if len(v.Entries) != len(b.Entries) {
			return fmt.Sprintf("%d entries returned, %d sent", len(v.Entries), len(b.Entries))
		}
		for i, e := range v.Entries {
			if !bytes.Equal(e.LeafInput, b.Entries[i][0]) || !bytes.Equal(e.ExtraData, b.Entries[i][1]) {
				return fmt.Sprintf("raw entry %d differs from the answer", i)
			}
		}
	case []ct.LogEntry:
		if len(v) != len(b.Entries) {
			return fmt.Sprintf("%d entries returned, %d sent", len(v), len(b.Entries))
		}
		for i := range v {
			if v[i].Index != int64(10+i) {
				return fmt.Sprintf("entry %d has index %d", i, v[i].Index)
			}
			if d := parsedConsistent(&v[i], b.Entries[i][0], b.Entries[i][1]); d != "" {
				return fmt.Sprintf("entry %d: %s", i, d)
			}
		}
	case *ct.GetEntryAndProofResponse:
		if !bytes.Equal(v.LeafInput, b.Entries[0][0]) || !bytes.Equal(v.ExtraData, b.Entries[0][1]) || !eqList(v.AuditPath, w.Nodes) {
			return "entry and proof differ from the answer"
		}
	case []ct.ASN1Cert:
		if len(v) != 2 || !bytes.Equal(v[0].Data, w.Root.DER) || !bytes.Equal(v[1].Data, w.Inter.DER) {
			return "roots differ from the answer"
		}
	}
	return ""
}

// digest describes what a call handed back, for comparing two executions of the same behaviour.
func digest(res any, err error) string {
	if err != nil {
		return "error"
	}
	switch v := res.(type) {
	case *ct.SignedTreeHead:
		if v != nil {
			return fmt.Sprintf("sth %d %d %x %x", v.TreeSize, v.Timestamp, v.SHA256RootHash[:], dsOf(v.TreeHeadSignature))
		}
	case *ct.SignedCertificateTimestamp:
		if v != nil {
			return fmt.Sprintf("sct %d %x %d %x %x", v.SCTVersion, v.LogID.KeyID[:], v.Timestamp, []byte(v.Extensions), dsOf(v.Signature))
		}
	}
	return "value"
}

// runBehaviour executes the calls of one behaviour on ONE long-lived client (freshEach: on a new client per call, the
// server being the same) and returns what each call handed back.
func runBehaviour(w *World, beh []Step, config string, freshEach bool, rep *vh.Report, kinds map[string]bool) []string {
	cf := w.configure(config, beh[0].Opt)
	w = cf.w
	holder := &swapRT{}
	outcomes := make([]string, len(beh))
	// THE CONSTRUCTION (LogClient.tla, Constructs): the standard options yield a client; any other key material may be
	// refused - then there is no client and nothing to return.  A client that IS built is held to the specification's
	// verdicts under the key the options name (nothing verifies under material that holds no key).
	lc, cerr, p := construct(cf, holder)
	tl := tallyOf(rep)
	switch {
	case p != nil:
		rep.Violate("panic:construct:"+config, fmt.Sprintf("client.New panicked on the key option %s (%s key): %v", config, w.KeyType, p),
			map[string]any{"behaviour": beh[:1], "step": 0, "keytype": w.KeyType, "config": config})
		fallthrough
	case cerr != nil:
		if baseOption(config) {
			panic(fmt.Sprintf("c12: the client cannot be built with the standard key option %s: %v", config, cerr))
		}
		tl.construction(config, w.KeyType, "refused")
		for n := range outcomes {
			outcomes[n] = "no client"
		}
		return outcomes
	}
	tl.construction(config, w.KeyType, "built")
	newClient := func() *client.LogClient {
		c, err, p := construct(cf, holder)
		if err != nil || p != nil {
			panic(fmt.Sprintf("c12: the key option %s built a client once and not again: %v %v", config, err, p))
		}
		return c
	}
	for n, s := range beh {
		s.Config = config
		if freshEach && n > 0 {
			lc = newClient()
		}
		ctxt := map[string]any{"behaviour": beh[:n+1], "step": n, "keytype": w.KeyType, "config": config, "fresh_client_per_call": freshEach}
		ctx, cancel := context.WithCancel(context.Background())
		sc := &Script{w: w, step: s, cancel: cancel}
		holder.set(sc)
		label := s.Label()
		fp := func(what string) string { return s.Method + ":" + label + ":" + what }
		var res any
		var cerr error
		panicked := func() (p bool) {
			defer func() {
				if r := recover(); r != nil {
					p = true
					rep.Violate("panic:"+s.Method+":"+label, fmt.Sprintf("%s panicked on answer %s (%s key): %v", s.Method, label, w.KeyType, r), ctxt)
				}
			}()
			res, cerr = call(lc, ctx, w, s)
			return false
		}()
		cancel()
		if panicked {
			outcomes[n] = "panic"
			continue
		}
		outcomes[n] = digest(res, cerr)
		returned := cerr == nil
		var last *Body
		if len(sc.Served) > 0 {
			last = sc.Served[len(sc.Served)-1]
		}
		desc := fmt.Sprintf("%s(%s) answered %v end=%s (%s key, key options %s)", s.Method, s.Chain, s.Answers, s.End, w.KeyType, config)
		if sc.BadPath != "" {
			rep.Violate(fp("wrong-endpoint"), desc+": the request went to "+sc.BadPath, ctxt)
		}
		if returned && isNothing(res) && reflect.ValueOf(res).Kind() == reflect.Ptr {
			rep.Violate(fp("nil-without-error"), desc+": neither a value nor an error", ctxt)
			continue
		}
		if !returned {
			// "never partially filled results"
			if !isNothing(res) {
				rep.Violate(fp("error-with-partial-result"), fmt.Sprintf("%s: error %q together with a value %T", desc, cerr, res), ctxt)
			}
			if s.Expect == "ok" {
				rep.Violate(fp("error-for-valid"), fmt.Sprintf("%s: the specification returns a value, the client failed: %v", desc, cerr), ctxt)
			}
			if s.Carry == "response" && last != nil {
				var re jsonclient.RspError
				fin := s.Answers[len(s.Answers)-1]
				if !errors.As(cerr, &re) {
					rep.Violate(fp("error-without-response"), fmt.Sprintf("%s: error %T %q does not carry the HTTP status and body", desc, cerr, cerr), ctxt)
				} else if re.StatusCode != fin.Status || !bytes.Equal(re.Body, last.Bytes) {
					rep.Violate(fp("error-carries-other-response"), fmt.Sprintf("%s: error carries status %d and %d body bytes, answer was %d with %d bytes", desc,
						re.StatusCode, len(re.Body), fin.Status, len(last.Bytes)), ctxt)
				}
			}
			kinds[s.Method+"/"+s.Layer+"/error"] = true
			continue
		}
		// a value came back
		kinds[s.Method+"/"+s.Layer+"/value"] = true
		if last == nil || s.End != "answered" || s.Answers[len(s.Answers)-1].Status != 200 {
			rep.Violate(fp("returned-ok"), desc+": a value was returned although no 200 answer was given", ctxt)
			continue
		}
		bad := verifyReturned(w, s, res, cf.altIDs)
		if s.Expect == "error" {
			rep.Violate(fp("returned-ok"), fmt.Sprintf("%s: the specification demands an error, the client returned %T %s", desc, res, note(bad)), ctxt)
			continue
		}
		if bad != "" {
			what := "returned-unverified"
			if strings.HasPrefix(bad, "SCT log id") {
				what = "returned-foreign-logid" // the signature is fine, the SCT names another (or no) log
			}
			rep.Violate(fp(what), desc+": "+bad, ctxt)
			continue
		}
		if d := sameAsSent(w, s, last, res); d != "" && (s.Expect == "ok" || s.Layer == "entry" || s.Layer == "signed") {
			rep.Violate(fp("returned-differs"), desc+": "+d, ctxt)
		}
	}
	return outcomes
}

// construct builds the real client from a configured key option; a panic is caught and handed back.
func construct(cf configured, rt http.RoundTripper) (lc *client.LogClient, err error, panicked any) {
	defer func() {
		if r := recover(); r != nil {
			lc, panicked = nil, r
		}
	}()
	lc, err = client.New("http://log.example/log/", &http.Client{Transport: rt}, cf.opts)
	if err == nil && lc == nil {
		err = errors.New("neither a client nor an error")
	}
	return lc, err, nil
}

// tally keeps what the constructions came to (evidence, not a verdict).
type tally struct {
	mu sync.Mutex
	m  map[string]string
}

var (
	tallies   = map[*vh.Report]*tally{}
	talliesMu sync.Mutex
)

func tallyOf(rep *vh.Report) *tally {
	talliesMu.Lock()
	defer talliesMu.Unlock()
	t, ok := tallies[rep]
	if !ok {
		t = &tally{m: map[string]string{}}
		tallies[rep] = t
	}
	return t
}

func (t *tally) construction(config, keyType, outcome string) {
	if baseOption(config) {
		return
	}
	t.mu.Lock()
	t.m[config+" ("+keyType+")"] = outcome
	t.mu.Unlock()
}

// runBoth executes a behaviour on one long-lived client and, when it has more than one call, again with a fresh client
// per call: the client has no business remembering anything about signed data, so the two must hand back the same.
func runBoth(w *World, beh []Step, config string, rep *vh.Report, kinds map[string]bool) {
	long := runBehaviour(w, beh, config, false, rep, kinds)
	if len(beh) < 2 {
		return
	}
	fresh := runBehaviour(w, beh, config, true, rep, map[string]bool{})
	for n := range beh {
		if long[n] != fresh[n] {
			s := beh[n]
			s.Config = config
			rep.Violate(s.Method+":"+s.Label()+":depends-on-history", fmt.Sprintf("%s(%s) answered %v (%s key): call %d of the sequence hands back %q "+
				"on a client that made the earlier calls and %q on a fresh client", s.Method, s.Chain, s.Answers, w.KeyType, n+1, short(long[n]), short(fresh[n])),
				map[string]any{"behaviour": beh[:n+1], "step": n, "keytype": w.KeyType, "config": config})
			return
		}
	}
}

func short(s string) string {
	if len(s) > 60 {
		return s[:60] + "..."
	}
	return s
}

func note(s string) string {
	if s == "" {
		return ""
	}
	return "(" + s + ")"
}

type swapRT struct {
	mu sync.Mutex
	rt http.RoundTripper
}

func (h *swapRT) set(rt http.RoundTripper) { h.mu.Lock(); h.rt = rt; h.mu.Unlock() }
func (h *swapRT) RoundTrip(r *http.Request) (*http.Response, error) {
	h.mu.Lock()
	rt := h.rt
	h.mu.Unlock()
	return rt.RoundTrip(r)
}

// TestReplay executes the specification's calls (VERIF_BEHAVIOURS: one JSON array of completed calls per line)
// against real clients holding an ECDSA and an RSA log key.
func TestReplay(t *testing.T) {
	path := os.Getenv("VERIF_BEHAVIOURS")
	if path == "" {
		t.Skip("VERIF_BEHAVIOURS not set")
	}
	behs, err := vh.LoadNDJSON[[]Step](path)
	if err != nil {
		t.Fatal(err)
	}
	rep := vh.NewReport("c12-replay", "every (method, chain, answer script) of LogClient.tla, two-call sequences and the history sequences (three calls, "+
		"the server replaying earlier bodies / signature bytes) replayed into real client.LogClient instances (ECDSA P-256 and RSA 2048 log keys, key "+
		"given as DER or PEM) through a scripted RoundTripper, each sequence on one long-lived client and again on a fresh client per call; verdict "+
		"the client CONSTRUCTED from every key option of the specification (key material in every form, in either option; a refused construction "+
		"ends the case, a built client is held to the verdicts), precertificate chains of every shape (signer x poison position x last extension x "+
		"notAfter form, expected entry from harness/ref); value/error compared with the specification, every returned STH/SCT re-verified with std crypto over the independent encoding of the chain "+
		"submitted by THAT call, errors checked for status and body, the two executions compared; non-trivial = distinct (method, failure layer, "+
		"value/error) sets with a returned value")
	shared := NewShared(vh.Rand(12))
	worlds := []*World{NewWorld("ecdsa", vh.Seed(), shared), NewWorld("rsa", vh.Seed(), shared)}
	// sanity of the harness itself (infrastructure, not a verdict): the independent verifier accepts what the harness signs
	for _, w := range worlds {
		b := w.Render("GetSTH", "none", "valid")
		if len(b.Bytes) == 0 {
			t.Fatal("harness renders an empty valid STH")
		}
	}
	// the chain shapes of the input (LogClient.tla, AllShapes), built and checked against the specification's description
	for _, beh := range behs {
		for _, s := range beh {
			if s.Shape != nil && s.Shape.K == "shape" {
				if err := shared.EnsureShape(s.Chain, s.Shape); err != nil {
					t.Fatal(err)
				}
			}
		}
	}
	// the construction cases (KCASE): every key option of the specification is given to client.New in every world its
	// forms exist in - no panic; what came of it is recorded (the verdicts are made on what a built client returns)
	if kpath := os.Getenv("VERIF_KCASES"); kpath != "" {
		kcases, err := vh.LoadNDJSON[KCase](kpath)
		if err != nil {
			t.Fatal(err)
		}
		for _, k := range kcases {
			for _, w := range worlds {
				if k.Opt == nil || !k.Opt.appliesTo(w.KeyType) {
					continue
				}
				cf := w.configure(k.Config, k.Opt)
				_, cerr, p := construct(cf, &swapRT{})
				switch {
				case p != nil:
					rep.Violate("panic:construct:"+k.Config, fmt.Sprintf("client.New panicked on the key option %s (%s key): %v", k.Config, w.KeyType, p),
						map[string]any{"kcase": k, "keytype": w.KeyType, "config": k.Config})
				case cerr != nil && k.Opt.Construct == "built":
					t.Fatalf("the client cannot be built with the standard key option %s: %v", k.Config, cerr)
				case cerr != nil:
					tallyOf(rep).construction(k.Config, w.KeyType, "refused")
				default:
					tallyOf(rep).construction(k.Config, w.KeyType, "built")
				}
				rep.Eval("")
			}
		}
	}
	workers := 16 * runtime.NumCPU() // calls that wait for the client's retry pause sleep, they do not compute
	var wg sync.WaitGroup
	ch := make(chan int)
	var mu sync.Mutex
	allKinds := map[string]bool{}
	for k := 0; k < workers; k++ {
		wg.Add(1)
		go func() {
			defer wg.Done()
			for i := range ch {
				for wi, w := range worlds {
					kinds := map[string]bool{}
					config := behs[i][0].Config
					if o := behs[i][0].Opt; o != nil && !baseOption(config) && !o.appliesTo(w.KeyType) {
						continue // the form of the key material exists for the other key type only
					}
					if config == "" { // a behaviour recorded before the key options were part of the specification
						config = []string{"der", "pem"}[(i+wi)%2]
					}
					runBoth(w, behs[i], config, rep, kinds)
					ks := make([]string, 0, len(kinds))
					val := false
					for k := range kinds {
						ks = append(ks, k)
						val = val || strings.HasSuffix(k, "/value")
					}
					sort.Strings(ks)
					key := ""
					if val {
						key = w.KeyType + ":" + strings.Join(ks, ";")
					}
					rep.Eval(key)
					mu.Lock()
					for k := range kinds {
						allKinds[k] = true
					}
					mu.Unlock()
				}
			}
		}()
	}
	for i := range behs {
		ch <- i
	}
	close(ch)
	wg.Wait()
	rep.Replayed = len(behs)
	if len(behs) > 0 {
		rep.Sample(behs[0])
		rep.Sample(behs[len(behs)/2])
	}
	rep.Extra["outcome_kinds"] = len(allKinds)
	tl := tallyOf(rep)
	built, refused := []string{}, 0
	for k, v := range tl.m {
		if v == "built" {
			built = append(built, k)
		} else {
			refused++
		}
	}
	sort.Strings(built)
	rep.Extra["key_material_options_refused"] = refused
	rep.Extra["key_material_options_built"] = built
	rep.Extra["chain_shapes"] = len(shared.Chains) - 4
	if err := rep.Write(); err != nil {
		t.Fatal(err)
	}
}
