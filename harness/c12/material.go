package c12

// The key-material dimension of spec/client/LogClient.tla (KeyOptionTable): how the two key options of
// jsonclient.Options present the log's key.  Every form of the specification is rendered here with the standard
// library only (encoding/asn1, crypto/x509, encoding/pem); nothing uses the repository's x509 fork.

import (
	"crypto"
	"crypto/ecdsa"
	"crypto/ed25519"
	"crypto/elliptic"
	"crypto/rsa"
	"crypto/sha256"
	"crypto/x509"
	"crypto/x509/pkix"
	"encoding/asn1"
	"encoding/base64"
	"encoding/pem"
	"fmt"
	"math/big"

	"github.com/google/certificate-transparency-go/jsonclient"

	"verifharness/pki"
	"verifharness/ref"
)

// Slot is one key option as the specification describes it: which key (A the log's, B foreign, U none) in which form.
type Slot struct {
	Key  string `json:"key"`
	Form string `json:"form"`
}

// KeyOpt mirrors OptionInfo(config) of LogClient.tla.
type KeyOpt struct {
	Der       Slot     `json:"der"`
	Pem       Slot     `json:"pem"`
	Construct string   `json:"construct"` // built | any | refused | unjudged
	VerifKey  string   `json:"verifkey"`
	KeyTypes  []string `json:"keytypes"` // the worlds in which the forms exist
}

// KCase is one construction case (KCASE record).
type KCase struct {
	Config string  `json:"config"`
	Opt    *KeyOpt `json:"opt"`
}

func (o *KeyOpt) appliesTo(keyType string) bool {
	for _, k := range o.KeyTypes {
		if k == keyType {
			return true
		}
	}
	return false
}

// singleOption: the two configurations every endpoint is exported under.
func singleOption(config string) bool { return config == "" || config == "der" || config == "pem" }

// baseOption: the four standard ways to fill the options (LogClient.tla, BaseKeyOptions).
func baseOption(config string) bool {
	return singleOption(config) || config == "bothSame" || config == "bothDifferent"
}

var (
	oidRSA         = asn1.ObjectIdentifier{1, 2, 840, 113549, 1, 1, 1}
	oidRSAESOAEP   = asn1.ObjectIdentifier{1, 2, 840, 113549, 1, 1, 7}
	oidRSASSAPSS   = asn1.ObjectIdentifier{1, 2, 840, 113549, 1, 1, 10}
	oidRSAObsolete = asn1.ObjectIdentifier{2, 5, 8, 1, 1}
	oidPrivateArc  = asn1.ObjectIdentifier{1, 3, 6, 1, 4, 1, 11129, 2, 99}
	oidEC          = asn1.ObjectIdentifier{1, 2, 840, 10045, 2, 1}
	oidP256        = asn1.ObjectIdentifier{1, 2, 840, 10045, 3, 1, 7}
	oidDSA         = asn1.ObjectIdentifier{1, 2, 840, 10040, 4, 1}
	oidX25519      = asn1.ObjectIdentifier{1, 3, 101, 110}
	rawNull        = asn1.RawValue{FullBytes: []byte{5, 0}}
	rawEmptySeq    = asn1.RawValue{FullBytes: []byte{0x30, 0}}
)

// spki encodes SubjectPublicKeyInfo ::= SEQUENCE { algorithm AlgorithmIdentifier, subjectPublicKey BIT STRING }.
func spki(oid asn1.ObjectIdentifier, params *asn1.RawValue, key []byte) []byte {
	alg := pkix.AlgorithmIdentifier{Algorithm: oid}
	if params != nil {
		alg.Parameters = *params
	}
	return must(asn1.Marshal(struct {
		Algo pkix.AlgorithmIdentifier
		Key  asn1.BitString
	}{alg, asn1.BitString{Bytes: key, BitLength: 8 * len(key)}}))
}

// material is what one option slot holds for a form.
type material struct {
	der []byte // the DER the form is made of (nil when the form exists as text only)
	pem string // the text of the PEM option
}

func pemBlock(label string, der []byte) string {
	return string(pem.EncodeToMemory(&pem.Block{Type: label, Bytes: der}))
}

// materialOf renders form f for the log key `log`.  DER forms are given to the PEM option inside a "PUBLIC KEY" block.
func (w *World) materialOf(f string, log crypto.Signer) material {
	std := must(x509.MarshalPKIXPublicKey(log.Public()))
	rsaKey := func() []byte {
		k, ok := log.Public().(*rsa.PublicKey)
		if !ok {
			panic("c12: form " + f + " exists for RSA keys only")
		}
		return x509.MarshalPKCS1PublicKey(k)
	}
	der := func(b []byte) material { return material{der: b, pem: pemBlock("PUBLIC KEY", b)} }
	switch f {
	case "spki":
		return der(std)
	// --- lenient: the log's key, not in the prescribed form
	case "rsaOAEP": // RFC 4055 4.1: id-RSAES-OAEP, parameters an (empty = all defaults) RSAES-OAEP-params
		return der(spki(oidRSAESOAEP, &rawEmptySeq, rsaKey()))
	case "rsaPSS": // RFC 4055 1.2: id-RSASSA-PSS, parameters absent
		return der(spki(oidRSASSAPSS, nil, rsaKey()))
	case "rsaPSSNull":
		return der(spki(oidRSASSAPSS, &rawNull, rsaKey()))
	case "rsaNoNull": // rsaEncryption without the NULL RFC 3279 2.3.1 demands
		return der(spki(oidRSA, nil, rsaKey()))
	case "rsaObsoleteOID": // X.509 annex: id-ea-rsa
		return der(spki(oidRSAObsolete, &rawNull, rsaKey()))
	case "rsaPrivateArcOID":
		return der(spki(oidPrivateArc, nil, rsaKey()))
	case "ecCompressed":
		k, ok := log.Public().(*ecdsa.PublicKey)
		if !ok {
			panic("c12: ecCompressed exists for ECDSA keys only")
		}
		p := asn1.RawValue{FullBytes: must(asn1.Marshal(oidP256))}
		return der(spki(oidEC, &p, elliptic.MarshalCompressed(k.Curve, k.X, k.Y)))
	case "weakParams": // `log` is the weak key itself (RSA 1024 / P-384)
		return der(std)
	case "trailingBytes":
		return der(append(append([]byte{}, std...), 0x05, 0x00))
	// --- unusable: no RFC 6962 key in it
	case "ed25519":
		pub, _, _ := ed25519.GenerateKey(detRand(w.seed, f))
		return der(must(x509.MarshalPKIXPublicKey(pub)))
	case "dsa": // RFC 3279 2.3.2: Dss-Parms { p, q, g }, the key an INTEGER (small numbers: nobody computes with them)
		params := asn1.RawValue{FullBytes: must(asn1.Marshal(struct{ P, Q, G *big.Int }{big.NewInt(0x7fffffff), big.NewInt(331), big.NewInt(4)}))}
		return der(spki(oidDSA, &params, must(asn1.Marshal(big.NewInt(8191)))))
	case "x25519":
		k := make([]byte, 32)
		detRand(w.seed, f).Read(k)
		return der(spki(oidX25519, nil, k))
	case "garbage":
		k := make([]byte, 40)
		detRand(w.seed, f).Read(k)
		k[0] = 0xff // never a SEQUENCE
		return der(k)
	case "truncated":
		return der(std[:len(std)/2])
	case "emptySequence":
		return der([]byte{0x30, 0x00})
	// --- the PEM option only
	case "pemOtherLabel":
		return material{pem: pemBlock("CERTIFICATE", std)}
	case "pemCertificate": // a (self-signed) certificate of the log's key
		c := pki.NewRoot(pki.Opts{CN: "the log key as a certificate", Key: log})
		return material{pem: pemBlock("CERTIFICATE", c.DER)}
	case "pemPKCS1":
		return material{pem: pemBlock("RSA PUBLIC KEY", rsaKey())}
	case "pemLeadingText":
		return material{pem: "the log's public key follows\n" + pemBlock("PUBLIC KEY", std)}
	case "pemTrailingText":
		return material{pem: pemBlock("PUBLIC KEY", std) + "that was the log's public key\n"}
	case "pemBareBase64":
		return material{pem: base64.StdEncoding.EncodeToString(std) + "\n"}
	case "pemNoBlock":
		return material{pem: "this is not a PEM block\n"}
	case "pemEmptyBlock":
		return material{pem: "-----BEGIN PUBLIC KEY-----\n-----END PUBLIC KEY-----\n"}
	case "pemPrivateKey":
		return material{pem: string(pki.KeyPEM(log))}
	}
	panic("c12: unknown key-material form " + f)
}

// detRand is a deterministic byte source for material that is "arbitrary bytes".
type detReader struct{ state [32]byte }

func (d *detReader) Read(p []byte) (int, error) {
	for i := range p {
		if i%32 == 0 {
			d.state = sha256.Sum256(d.state[:])
		}
		p[i] = d.state[i%32]
	}
	return len(p), nil
}

func detRand(seed int64, salt string) *detReader {
	return &detReader{state: sha256.Sum256([]byte(fmt.Sprintf("c12 material %d %s", seed, salt)))}
}

type silent struct{}

func (silent) Printf(string, ...interface{}) {}

// optionsFor fills the two key options of jsonclient.Options as LogClient.tla's KeyOptionTable says: the key the
// documentation names ("If both ... are set, PublicKeyDER is used") is always the log's; under bothDifferent the PEM
// option names the foreign key the server's classes sigByOtherKey / logIDForeign use.
func optionsFor(w *World, config string) jsonclient.Options {
	switch config {
	case "der":
		return jsonclient.Options{Logger: silent{}, PublicKeyDER: w.LogSPKI}
	case "pem":
		return jsonclient.Options{Logger: silent{}, PublicKey: w.LogPEM}
	case "bothSame":
		return jsonclient.Options{Logger: silent{}, PublicKeyDER: w.LogSPKI, PublicKey: w.LogPEM}
	case "bothDifferent":
		return jsonclient.Options{Logger: silent{}, PublicKeyDER: w.LogSPKI, PublicKey: w.OtherPEM}
	}
	panic("c12: unknown key option " + config)
}

// configured is a key option made concrete for one world.
type configured struct {
	w      *World // the world whose "log" is the key the option names (w itself unless the form brings its own key)
	opts   jsonclient.Options
	altIDs [][]byte // further acceptable log IDs
}

// weakWorld: the same world with a log key whose parameters RFC 6962 2.1.4 excludes (RSA 1024 / ECDSA P-384).
func (w *World) weakWorld() *World {
	w.mu.Lock()
	defer w.mu.Unlock()
	if w.weak != nil {
		return w.weak
	}
	kt := "p384"
	if w.KeyType == "rsa" {
		kt = "rsa1024"
	}
	v := &World{KeyType: w.KeyType, memo: map[string]*Body{}, seed: w.seed + 1, Chains: w.Chains, Root: w.Root, Inter: w.Inter, Entries: w.Entries,
		Log: pki.NewKey(kt), Other: w.Other, OtherType: w.OtherType, OtherPEM: w.OtherPEM, ForeignID: w.ForeignID,
		TS: w.TS, Size: w.Size, RootHash: w.RootHash, Root2: w.Root2, EmptyRH: w.EmptyRH, Ext: w.Ext, Ext2: w.Ext2, Nodes: w.Nodes}
	v.LogID, v.LogSPKI, _ = ref.KeyID(v.Log.Public())
	v.LogPEM = pemBlock("PUBLIC KEY", v.LogSPKI)
	w.weak = v
	return v
}

// configure fills jsonclient.Options as the specification's option says.  The four base options are the ones of
// optionsFor; a material option puts the form's bytes into its slot and, where the specification says so, the log's
// key in the standard form into the other one.
func (w *World) configure(config string, opt *KeyOpt) configured {
	if baseOption(config) {
		return configured{w, optionsFor(w, config), nil}
	}
	if opt == nil {
		panic("c12: key option " + config + " without its description")
	}
	target := w
	if opt.Der.Form == "weakParams" || opt.Pem.Form == "weakParams" {
		target = w.weakWorld()
	}
	o := jsonclient.Options{Logger: silent{}}
	var alt [][]byte
	slot := func(s Slot, isDER bool) {
		if s.Form == "absent" {
			return
		}
		key := target.Log
		if s.Key == "B" {
			key = target.Other
		}
		m := target.materialOf(s.Form, key)
		if isDER {
			if m.der == nil {
				panic("c12: form " + s.Form + " does not exist as DER")
			}
			o.PublicKeyDER = m.der
		} else {
			o.PublicKey = m.pem
		}
		if m.der != nil && s.Key == "A" {
			h := sha256.Sum256(m.der)
			alt = append(alt, h[:])
		}
	}
	slot(opt.Der, true)
	slot(opt.Pem, false)
	// the log ID of a key presented in another form: the hash of the SubjectPublicKeyInfo RFC 6962 prescribes, or of the
	// bytes the client was given - the property names "the hash of that key", both are
	return configured{target, o, alt}
}
