package c12

// The concrete side of spec/client/TemporalClient.tla: a temporal log of up to three shards, each with its own real
// key (ECDSA P-256 and RSA 2048 mixed) and its own scripted server, certificates and precertificates whose NotAfter
// sits at chosen instants, and the rendering of every body class of the specification (the SCT classes reuse the
// renderer of world.go; nothing here uses the repository's serializers).  The tests that drive the real
// client.TemporalLogClient with it run under virtual time and live in harness/vt/c12t.

import (
	"bytes"
	"crypto"
	"crypto/sha256"
	"encoding/base64"
	"encoding/json"
	"fmt"
	"io"
	"net/http"
	"strconv"
	"strings"
	"sync"
	"time"

	"verifharness/pki"
	"verifharness/ref"
)

// TShard is the identity of one shard position (1..3) of a temporal log.
type TShard struct {
	Index   int
	KeyType string // ecdsa | rsa
	Key     crypto.Signer
	SPKI    []byte
	ID      []byte
	Host    string
}

// URI is the base URI given to the client for this shard.
func (s *TShard) URI() string { return "http://" + s.Host + "/ct-shard/" }

// TWorld is one assignment of keys to the three shard positions plus a key of each type that belongs to no shard.
type TWorld struct {
	Name    string
	Shards  [4]*TShard // 1..3
	Foreign map[string]*TShard
	pki     *TPKI

	mu       sync.Mutex
	renderer map[[2]int]*World
	memo     map[string]*Body
}

// TPKI is the certificate side, shared by all key assignments: a hierarchy, leaves by (kind, form, NotAfter), roots.
type TPKI struct {
	Root, Inter, PreIssuer *pki.Node
	other                  map[string]*pki.Node
	Roots                  map[string][]byte // token of the specification -> DER

	mu     sync.Mutex
	chains map[string]*Chain
	junk   []byte
}

// NewTPKI builds the hierarchy and the root certificates of the roots scene.
func NewTPKI() *TPKI {
	p := &TPKI{chains: map[string]*Chain{}, other: map[string]*pki.Node{}, Roots: map[string][]byte{}}
	p.Root = pki.NewRoot(pki.Opts{CN: "c12t root"})
	p.Inter = p.Root.Issue(pki.Opts{CN: "c12t intermediate", IsCA: true})
	p.PreIssuer = p.Inter.Issue(pki.Opts{CN: "c12t precert signing", IsCA: true, OtherEKUs: pki.OIDEKUCTs()})
	p.other["x509"] = p.Inter.Issue(pki.Opts{CN: "another leaf", DNS: []string{"other.example"}})
	p.other["precert"] = p.Inter.Issue(pki.Opts{CN: "another pre", Poison: "ok", DNS: []string{"otherpre.example"}})
	p.other["precertPreIssuer"] = p.PreIssuer.Issue(pki.Opts{CN: "another prepi", Poison: "ok", DNS: []string{"otherprepi.example"}})
	r1 := pki.NewRoot(pki.Opts{CN: "c12t accepted root 1"})
	r2 := pki.NewRoot(pki.Opts{CN: "c12t accepted root 2", KeyType: "p384"}) // (RSA keys are pooled, four per process: kept for the shards)
	r3 := pki.NewRoot(pki.Opts{CN: "c12t accepted root 3"})
	// same subject, same key, another certificate (re-issued with another serial number and validity)
	r1x := pki.NewRoot(pki.Opts{CN: "c12t accepted root 1", Key: r1.Key, NotAfter: pki.DefaultNotAfter.AddDate(1, 0, 0)})
	if !bytes.Equal(r1.Cert.RawSubject, r1x.Cert.RawSubject) || bytes.Equal(r1.DER, r1x.DER) {
		panic("c12t: r1x must share r1's subject and differ in its bytes")
	}
	p.Roots["r1"], p.Roots["r2"], p.Roots["r3"], p.Roots["r1x"] = r1.DER, r2.DER, r3.DER, r1x.DER
	p.junk = append([]byte{0xff, 0x82, 0x01}, bytes.Repeat([]byte{0x5a}, 61)...) // never a SEQUENCE
	return p
}

// ChainName names a submitted chain: kind x form of the first element x NotAfter.
func ChainName(kind, first string, notAfter time.Time) string {
	if first == "garbage" || first == "none" {
		return kind + "/" + first
	}
	return kind + "/" + first + "/" + strconv.FormatInt(notAfter.Unix(), 10)
}

// Chain returns (building it once) the chain of the given kind whose first element has the given form and NotAfter.
func (p *TPKI) Chain(kind, first string, notAfter time.Time) (string, *Chain) {
	if notAfter.Nanosecond() != 0 {
		panic("c12t: X.509 times have second resolution")
	}
	name := ChainName(kind, first, notAfter)
	p.mu.Lock()
	defer p.mu.Unlock()
	if c, ok := p.chains[name]; ok {
		return name, c
	}
	var c *Chain
	ders := func(n *pki.Node) [][]byte { return pki.DERs(n.Chain(true)) }
	switch first {
	case "none":
		c = &Chain{}
	case "garbage":
		c = &Chain{DER: [][]byte{p.junk, p.Inter.DER, p.Root.DER}}
		if kind == "precert" { // a certificate cut short
			c.DER[0] = p.other["precert"].DER[:len(p.other["precert"].DER)/2]
		}
	default:
		cn := fmt.Sprintf("%s %d", kind, notAfter.Unix())
		var leaf *pki.Node
		pre := false
		switch kind {
		case "x509":
			leaf = p.Inter.Issue(pki.Opts{CN: cn, NotAfter: notAfter, DNS: []string{"t.example"}})
		case "precert":
			leaf = p.Inter.Issue(pki.Opts{CN: cn, NotAfter: notAfter, Poison: "ok", DNS: []string{"t.example"}})
		case "precertPreIssuer":
			leaf, pre = p.PreIssuer.Issue(pki.Opts{CN: cn, NotAfter: notAfter, Poison: "ok", DNS: []string{"t.example"}}), true
		default:
			panic("c12t: unknown chain kind " + kind)
		}
		if !leaf.Cert.NotAfter.Equal(notAfter) {
			panic("c12t: NotAfter not preserved")
		}
		if first == "lax" {
			if kind != "x509" {
				panic("c12t: lax first element only for x509 chains")
			}
			leaf = pki.NonMinimalSerial(leaf)
		}
		d := ders(leaf)
		c = &Chain{DER: d}
		if kind == "x509" {
			c.Entry = ref.Entry{Type: ref.X509Entry, Cert: d[0]}
			c.Other = ref.Entry{Type: ref.X509Entry, Cert: p.other[kind].DER}
			c.OtherType = ref.Entry{Type: ref.PrecertEntry, IssuerKeyHash: p.Inter.SPKIHash(), TBS: must(ref.SplitCert(d[0])).TBS}
		} else {
			c.Entry = must(ref.EntryForChain(d, pre))
			c.Other = must(ref.EntryForChain(ders(p.other[kind]), pre))
			c.OtherType = ref.Entry{Type: ref.X509Entry, Cert: d[0]}
		}
		c.NotFinal = c.Other
	}
	p.chains[name] = c
	return name, c
}

func newTShard(i int, kt string, key crypto.Signer) *TShard {
	id, spki, err := ref.KeyID(key.Public())
	if err != nil {
		panic(err)
	}
	return &TShard{Index: i, KeyType: kt, Key: key, SPKI: spki, ID: id, Host: fmt.Sprintf("shard%d.log.example", i)}
}

// NewTWorlds builds the key assignments: mixed (ECDSA, RSA, ECDSA), mixed the other way round (RSA, ECDSA, RSA - the
// outer shards are neighbours of the same type) and all-ECDSA; all keys are distinct.
func NewTWorlds(p *TPKI) []*TWorld {
	ec := func() crypto.Signer { return pki.NewKey("p256") }
	rs := func() crypto.Signer { return pki.NewKey("rsa2048") }
	foreign := map[string]*TShard{"ecdsa": newTShard(0, "ecdsa", ec()), "rsa": newTShard(0, "rsa", rs())}
	layout := []struct {
		name string
		kt   [3]string
	}{{"ec-rsa-ec", [3]string{"ecdsa", "rsa", "ecdsa"}}, {"rsa-ec-rsa", [3]string{"rsa", "ecdsa", "rsa"}}, {"ec-ec-ec", [3]string{"ecdsa", "ecdsa", "ecdsa"}}}
	seen := map[string]bool{string(foreign["ecdsa"].ID): true, string(foreign["rsa"].ID): true}
	var out []*TWorld
	for _, l := range layout {
		w := &TWorld{Name: l.name, Foreign: foreign, pki: p, renderer: map[[2]int]*World{}, memo: map[string]*Body{}}
		for i, kt := range l.kt {
			k := ec()
			if kt == "rsa" {
				k = rs()
			}
			w.Shards[i+1] = newTShard(i+1, kt, k)
			if seen[string(w.Shards[i+1].ID)] {
				panic("c12t: the key pool handed out a key twice") // pki pools RSA keys: four per process
			}
			seen[string(w.Shards[i+1].ID)] = true
		}
		out = append(out, w)
	}
	return out
}

// PKI returns the certificate side.
func (w *TWorld) PKI() *TPKI { return w.pki }

// keyOf resolves the specification's key numbers: 1..3 a shard, 0 the key of no shard (of the type of `like`).
func (w *TWorld) keyOf(k int, like *TShard) *TShard {
	if k == 0 {
		return w.Foreign[like.KeyType]
	}
	return w.Shards[k]
}

// rendererFor is a World (world.go) whose "log" is shard `contacted` and whose "other key" is key `who`.
func (w *TWorld) rendererFor(contacted, who int) *World {
	if r, ok := w.renderer[[2]int{contacted, who}]; ok {
		return r
	}
	self := w.Shards[contacted]
	other := w.keyOf(who, self)
	otherType := w.Foreign["rsa"]
	if self.KeyType == "rsa" {
		otherType = w.Foreign["ecdsa"]
	}
	rh := sha256.Sum256([]byte("c12t root hash"))
	r := &World{KeyType: self.KeyType, memo: map[string]*Body{}, Log: self.Key, Other: other.Key, OtherType: otherType.Key,
		LogID: self.ID, LogSPKI: self.SPKI, ForeignID: other.ID, TS: 1700000000123, Size: 7, RootHash: rh[:],
		Ext: []byte{0x01, 0x02, 0x03, 0x04}, Ext2: []byte{0x09, 0x08}}
	w.renderer[[2]int{contacted, who}] = r
	return r
}

var tSCTClass = map[string]string{
	"valid": "valid", "validWithExtensions": "validWithExtensions", "sigByOther": "sigByOtherKey", "idOfOther": "logIDForeign",
	"validForOther": "logIDForeignSignedByOwner", "sigCorrupt": "sigCorrupt", "sigOverOtherChain": "sigOverOtherChain",
	"sigOverOtherType": "sigOverOtherType", "sigOverOtherTimestamp": "sigOverOtherTimestamp", "sigTrailingTLS": "sigTrailingTLS",
	"idLen31": "idLen31", "idLen0": "idLen0",
}

// RenderSCT renders the add-chain answer of class `class` given by the server of shard `contacted` for the submitted
// chain; `who` names the other key the classes sigByOther / idOfOther / validForOther bring into play.
func (w *TWorld) RenderSCT(contacted, who int, chainName string, ch *Chain, class string) *Body {
	key := fmt.Sprintf("sct|%d|%d|%s|%s", contacted, who, chainName, class)
	w.mu.Lock()
	defer w.mu.Unlock()
	if b, ok := w.memo[key]; ok {
		return b
	}
	r := w.rendererFor(contacted, who)
	sem := class
	switch class {
	case "notJSON", "truncatedJSON", "wrongType", "empty":
		sem = "valid"
	}
	c12class, ok := tSCTClass[sem]
	if !ok {
		panic("c12t: unknown SCT class " + class)
	}
	d, ok := sctDevOf(c12class)
	if !ok {
		panic("c12t: world.go does not know class " + c12class)
	}
	body, text := r.sctJSON(ch, d)
	switch class {
	case "notJSON":
		text = "<html><body><h1>502 Bad Gateway</h1></body></html>"
	case "truncatedJSON":
		text = text[:len(text)*2/3]
	case "wrongType":
		text = strings.Replace(text, `"timestamp":`, `"timestamp":"soon","was":`, 1)
	case "empty":
		text = ""
	}
	body.Bytes = []byte(text)
	w.memo[key] = body
	return body
}

// RootsBody renders a shard's answer on the roots endpoint: status and body (class "hang" has none).
func (p *TPKI) RootsBody(class string, rootList []string) (int, []byte) {
	list := func(tokens []string, tail ...string) []byte {
		q := []string{}
		for _, t := range tokens {
			q = append(q, `"`+base64.StdEncoding.EncodeToString(p.Roots[t])+`"`)
		}
		q = append(q, tail...)
		return []byte(`{"certificates":[` + strings.Join(q, ",") + `]}`)
	}
	switch class {
	case "s500":
		return 500, list([]string{"r1", "r2"}) // a perfectly good list under a status that is not 200
	case "s404":
		return 404, []byte("<html>no such log</html>")
	case "notJSON":
		return 200, []byte(`{"certificates":["` + base64.StdEncoding.EncodeToString(p.Roots["r1"]) + `",`)
	case "badBase64":
		return 200, list([]string{"r1", "r2"}, `"!!not base64!!"`)
	}
	return 200, list(rootList)
}

// ---------------------------------------------------------------- transport

// TReq is one request as a shard's server saw it.
type TReq struct {
	At     time.Time
	Verb   string
	Path   string
	Chain  [][]byte // decoded "chain" of an add-chain body
	BadReq string   // the body was not an add-chain request
}

// TTransport routes by host to the per-shard servers and records what each of them saw.
type TTransport struct {
	W *TWorld
	// Serve answers the n-th (1-based) request that reached shard s.
	Serve func(s, n int, req *http.Request) (*http.Response, error)

	mu      sync.Mutex
	Seen    [4][]TReq
	Unknown []string
}

// Requests returns a copy of what shard s has seen.
func (t *TTransport) Requests(s int) []TReq {
	t.mu.Lock()
	defer t.mu.Unlock()
	return append([]TReq{}, t.Seen[s]...)
}

// Strangers returns requests that went to no shard's host.
func (t *TTransport) Strangers() []string {
	t.mu.Lock()
	defer t.mu.Unlock()
	return append([]string{}, t.Unknown...)
}

// RoundTrip implements http.RoundTripper.  Like a transport, it does not send a request whose context has ended.
func (t *TTransport) RoundTrip(req *http.Request) (*http.Response, error) {
	var raw []byte
	if req.Body != nil {
		raw, _ = io.ReadAll(req.Body)
		req.Body.Close()
	}
	if err := req.Context().Err(); err != nil {
		return nil, err
	}
	s := 0
	for i := 1; i <= 3; i++ {
		if req.URL.Host == t.W.Shards[i].Host {
			s = i
		}
	}
	r := TReq{At: time.Now(), Verb: req.Method, Path: req.URL.Path}
	if req.Method == http.MethodPost {
		var body struct {
			Chain [][]byte `json:"chain"`
		}
		if err := json.Unmarshal(raw, &body); err != nil {
			r.BadReq = err.Error()
		}
		r.Chain = body.Chain
	}
	t.mu.Lock()
	if s == 0 {
		t.Unknown = append(t.Unknown, req.Method+" "+req.URL.String())
		t.mu.Unlock()
		return TRespond(req, 404, []byte("no such host"), nil), nil
	}
	t.Seen[s] = append(t.Seen[s], r)
	n := len(t.Seen[s])
	t.mu.Unlock()
	return t.Serve(s, n, req)
}

// TRespond builds a response.
func TRespond(req *http.Request, status int, body []byte, hdr http.Header) *http.Response {
	if hdr == nil {
		hdr = http.Header{}
	}
	hdr.Set("Content-Type", "application/json")
	return &http.Response{
		Status: strconv.Itoa(status) + " " + http.StatusText(status), StatusCode: status,
		Proto: "HTTP/1.1", ProtoMajor: 1, ProtoMinor: 1,
		Header: hdr, Body: io.NopCloser(bytes.NewReader(body)), ContentLength: -1, Request: req,
	}
}
