package c12

// The chain-shape dimension of spec/client/LogClient.tla (AllShapes): precertificate chains submitted through
// add-pre-chain, by who signed the precertificate, where the CA put the poison extension, which extension comes last
// and how notAfter is written.  Certificates come from harness/pki (std crypto/x509 as the CA, Opts.ExtOrder for the
// position of the poison), the expected entry from harness/ref; both are checked here against what the specification
// says about the shape (an oracle that disagrees with the specification is an infrastructure failure, not a verdict).

import (
	"bytes"
	"crypto/x509"
	"fmt"
	"time"

	"verifharness/pki"
	"verifharness/ref"
)

// Shape mirrors ShapeInfo(chain) of LogClient.tla.
type Shape struct {
	K       string   `json:"k"` // "shape", or "none" for the default chains
	Via     string   `json:"via"`
	Poison  string   `json:"poison"`
	Tail    string   `json:"tail"`
	Na      string   `json:"na"`
	Written []string `json:"written"` // extension ids as the CA wrote them
	Entry   []string `json:"entry"`   // ... as RFC 6962 3.2 leaves them in the entry
	Issuer  string   `json:"issuer"`  // whose name / key the entry carries: signer | issuerOfSigner
}

var extNames = map[string]string{
	"\x55\x1d\x0f": "KU", "\x55\x1d\x13": "BC", "\x55\x1d\x23": "AKI", "\x55\x1d\x11": "SAN", "\x55\x1d\x25": "EKU", "\x55\x1d\x0e": "SKI",
	"\x2b\x06\x01\x04\x01\xd6\x79\x02\x04\x03": "POISON",
}

func extIDs(p *ref.CertParts) []string {
	out := make([]string, len(p.ExtOIDs))
	for i, o := range p.ExtOIDs {
		n, ok := extNames[string(o)]
		if !ok {
			n = fmt.Sprintf("%x", o)
		}
		out[i] = n
	}
	return out
}

func sameIDs(a, b []string) bool {
	if len(a) != len(b) {
		return false
	}
	for i := range a {
		if a[i] != b[i] {
			return false
		}
	}
	return true
}

func extValue(p *ref.CertParts, name string) []byte {
	for i, o := range p.ExtOIDs {
		if extNames[string(o)] == name {
			return p.ExtValues[i]
		}
	}
	return nil
}

// signer returns (creating it once) what signs the precertificates of shapes with this `via`.
func (s *Shared) signer(via string) *pki.Node {
	if s.signers == nil {
		s.signers = map[string]*pki.Node{}
	}
	if n, ok := s.signers[via]; ok {
		return n
	}
	var n *pki.Node
	switch via {
	case "direct":
		n = s.Inter
	case "preIssuer":
		n = s.Inter.Issue(pki.Opts{CN: "c12 shapes precert signing", IsCA: true, OtherEKUs: pki.OIDEKUCTs()})
	case "preIssuerFullAki": // authority key identifier with issuer name and serial number besides the key identifier
		n = s.Inter.Issue(pki.Opts{CN: "c12 shapes precert signing (full AKI)", IsCA: true, OtherEKUs: pki.OIDEKUCTs(), FullAKID: true})
	case "preIssuerCtSecond": // serverAuth first, then the CT usage
		n = s.Inter.Issue(pki.Opts{CN: "c12 shapes precert signing (CT usage second)", IsCA: true, EKUs: []x509.ExtKeyUsage{x509.ExtKeyUsageServerAuth},
			OtherEKUs: pki.OIDEKUCTs()})
	default:
		panic("c12: unknown shape dimension via=" + via)
	}
	s.signers[via] = n
	return n
}

// EnsureShape builds (once) the chain of the given shape under its name.  Not safe for concurrent use: call it for
// every shape of the input before the replay starts.
func (s *Shared) EnsureShape(name string, sh *Shape) error {
	if _, ok := s.Chains[name]; ok {
		return nil
	}
	signer := s.signer(sh.Via)
	viaPre := sh.Via != "direct"
	o := pki.Opts{CN: "shape " + name, Poison: "ok"}
	switch sh.Tail {
	case "san":
		o.DNS = []string{"shape.example"}
	case "aki":
	default:
		return fmt.Errorf("unknown shape dimension tail=%s", sh.Tail)
	}
	switch sh.Poison {
	case "std":
	case "poisonBeforeAki", "poisonFirst":
		o.ExtOrder = sh.Poison
	default:
		return fmt.Errorf("unknown shape dimension poison=%s", sh.Poison)
	}
	naText := ""
	switch sh.Na {
	case "utc2049":
		o.NotAfter, naText = time.Date(2049, 12, 31, 23, 59, 59, 0, time.UTC), "\x17\x0d491231235959Z"
	case "gen2050":
		o.NotAfter, naText = time.Date(2050, 1, 1, 0, 0, 0, 0, time.UTC), "\x18\x0f20500101000000Z"
	default:
		return fmt.Errorf("unknown shape dimension na=%s", sh.Na)
	}
	pre := signer.Issue(o)
	o2 := o
	o2.CN += " (sibling)"
	pre2 := signer.Issue(o2)
	ders := pki.DERs(pre.Chain(true))
	entry, err := ref.EntryForChain(ders, viaPre)
	if err != nil {
		return err
	}
	c := &Chain{DER: ders, Entry: entry, Other: must(ref.EntryForChain(pki.DERs(pre2.Chain(true)), viaPre)),
		OtherType: ref.Entry{Type: ref.X509Entry, Cert: pre.DER}}
	c.NotFinal = c.Other
	if viaPre {
		c.NotFinal = must(ref.EntryForChain(ders, false))
	}
	// the oracle against the specification's description of the shape
	sub := must(ref.SplitCert(pre.DER))
	got := must(ref.SplitTBS(entry.TBS))
	final := signer
	if sh.Issuer == "issuerOfSigner" {
		final = signer.Parent
	}
	wantAKI := extValue(sub, "AKI")
	if viaPre {
		wantAKI = extValue(must(ref.SplitCert(signer.DER)), "AKI")
	}
	switch {
	case !sameIDs(extIDs(sub), sh.Written):
		return fmt.Errorf("shape %s: the precertificate carries %v, the specification says %v", name, extIDs(sub), sh.Written)
	case !sameIDs(extIDs(got), sh.Entry):
		return fmt.Errorf("shape %s: the reference entry carries %v, the specification says %v", name, extIDs(got), sh.Entry)
	case (sh.Issuer == "issuerOfSigner") != viaPre:
		return fmt.Errorf("shape %s: issuer %s for via %s", name, sh.Issuer, sh.Via)
	case !bytes.Equal(got.Issuer, final.Cert.RawSubject):
		return fmt.Errorf("shape %s: the reference entry is not issued under the name of the final issuer", name)
	case !bytes.Equal(entry.IssuerKeyHash, final.SPKIHash()):
		return fmt.Errorf("shape %s: issuer_key_hash of the reference entry is not the final issuer's", name)
	case wantAKI == nil || !bytes.Equal(extValue(got, "AKI"), wantAKI):
		return fmt.Errorf("shape %s: the authority key identifier of the reference entry is not the final issuer's", name)
	case !bytes.Contains(got.Mid[0], []byte(naText)):
		return fmt.Errorf("shape %s: notAfter of the reference entry is not written as %s", name, sh.Na)
	case entry.Type != ref.PrecertEntry || bytes.Equal(c.Entry.TBS, c.NotFinal.TBS) || bytes.Equal(c.Entry.TBS, c.Other.TBS):
		return fmt.Errorf("shape %s: the entries derived from the chain do not differ as the classes need", name)
	}
	s.Chains[name] = c
	return nil
}
