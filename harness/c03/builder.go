// Package c03 binds spec/codec/Precert.tla to x509.BuildPrecertTBS / RemoveCTPoison / RemoveSCTList,
// ct.MerkleTreeLeafFromChain / FromRawChain / ForEmbeddedSCT, ctutil.VerifySCT / LeafHash and the SCT
// list helpers.  This file is the harness' own DER builder: it turns the specification's abstract
// TBSCertificate (opaque field tags + extension triples) into real DER with cryptobyte and signs
// certificates with std crypto.  Nothing here uses the repository's x509 / asn1 / tls packages.
package c03

import (
	"crypto"
	"crypto/ecdsa"
	"crypto/ed25519"
	"crypto/elliptic"
	"crypto/rand"
	"crypto/rsa"
	"crypto/sha256"
	"crypto/sha512"
	stdx509 "crypto/x509"
	"encoding/json"
	"fmt"
	"unicode/utf16"

	"golang.org/x/crypto/cryptobyte"
	cbasn1 "golang.org/x/crypto/cryptobyte/asn1"
)

// Name is an abstract distinguished name: who (CA, PI, LEAF, ROOT) and which encoding.
type Name struct {
	N   string `json:"n"`
	Enc string `json:"enc"`
}

// Ext is one abstract extension; JSON form is the triple [id, crit, val].
type Ext struct {
	ID   string
	Crit bool
	Val  string
}

// UnmarshalJSON reads ["ID", crit, "val"].
func (e *Ext) UnmarshalJSON(b []byte) error {
	var raw []json.RawMessage
	if err := json.Unmarshal(b, &raw); err != nil {
		return err
	}
	if len(raw) != 3 {
		return fmt.Errorf("extension triple has %d elements", len(raw))
	}
	if err := json.Unmarshal(raw[0], &e.ID); err != nil {
		return err
	}
	if err := json.Unmarshal(raw[1], &e.Crit); err != nil {
		return err
	}
	return json.Unmarshal(raw[2], &e.Val)
}

// MarshalJSON writes the triple.
func (e Ext) MarshalJSON() ([]byte, error) { return json.Marshal([]any{e.ID, e.Crit, e.Val}) }

// TBS is the abstract TBSCertificate of Precert.tla, or an error / none marker (K).
type TBS struct {
	K        string `json:"k"` // "tbs", "err", "none"
	Why      string `json:"why,omitempty"`
	Serial   string `json:"serial,omitempty"`
	Sig      string `json:"sig,omitempty"`
	Issuer   Name   `json:"issuer"`
	Validity string `json:"validity,omitempty"`
	Subject  Name   `json:"subject"`
	Key      string `json:"key,omitempty"`
	UID      string `json:"uid,omitempty"`
	XF       bool   `json:"xf"` // the extensions field [3] is present (possibly empty: clause EmptyExtensionsKept)
	Exts     []Ext  `json:"exts"`
}

// IsErr tells whether the specification's result is an error.
func (t *TBS) IsErr() bool { return t.K == "err" }

// ---------------------------------------------------------------- keys

// Keys holds one key per (role, type); generated once per process.
type Keys struct {
	byName map[string]crypto.Signer
}

var keyTypes = []string{"p256", "p384", "rsa2048", "ed25519"}

func genKey(kt string) crypto.Signer {
	switch kt {
	case "p256":
		k, err := ecdsa.GenerateKey(elliptic.P256(), rand.Reader)
		if err != nil {
			panic(err)
		}
		return k
	case "p384":
		k, err := ecdsa.GenerateKey(elliptic.P384(), rand.Reader)
		if err != nil {
			panic(err)
		}
		return k
	case "rsa2048":
		k, err := rsa.GenerateKey(rand.Reader, 2048)
		if err != nil {
			panic(err)
		}
		return k
	case "ed25519":
		_, k, err := ed25519.GenerateKey(rand.Reader)
		if err != nil {
			panic(err)
		}
		return k
	}
	panic("unknown key type " + kt)
}

// NewKeys generates the key material: roles LEAF, CA, PI, ROOT, OTHER for each type, and two log keys.
func NewKeys() *Keys {
	k := &Keys{byName: map[string]crypto.Signer{}}
	for _, role := range []string{"LEAF", "CA", "PI", "ROOT", "OTHER"} {
		for _, kt := range keyTypes {
			k.byName[role+"/"+kt] = genKey(kt)
		}
	}
	k.byName["LOG1"] = genKey("p256")
	k.byName["LOG2"] = genKey("rsa2048")
	k.byName["LOGX"] = genKey("p256")
	return k
}

// Get returns the key of a role and type.
func (k *Keys) Get(role, kt string) crypto.Signer {
	s, ok := k.byName[role+"/"+kt]
	if !ok {
		panic("no key " + role + "/" + kt)
	}
	return s
}

// Log returns a log key.
func (k *Keys) Log(name string) crypto.Signer { return k.byName[name] }

// SPKI is the DER SubjectPublicKeyInfo (std crypto/x509 as the conforming encoder).
func SPKI(pub crypto.PublicKey) []byte {
	der, err := stdx509.MarshalPKIXPublicKey(pub)
	if err != nil {
		panic(err)
	}
	return der
}

// ---------------------------------------------------------------- DER pieces

func must(b []byte, err error) []byte {
	if err != nil {
		panic(err)
	}
	return b
}

func oidBytes(arcs ...uint64) []byte {
	// content octets of an OBJECT IDENTIFIER
	out := []byte{byte(arcs[0]*40 + arcs[1])}
	for _, a := range arcs[2:] {
		var tmp []byte
		tmp = append(tmp, byte(a&0x7f))
		for a >>= 7; a > 0; a >>= 7 {
			tmp = append([]byte{byte(a&0x7f) | 0x80}, tmp...)
		}
		out = append(out, tmp...)
	}
	return out
}

var (
	oidPoison  = oidBytes(1, 3, 6, 1, 4, 1, 11129, 2, 4, 3)
	oidSCTList = oidBytes(1, 3, 6, 1, 4, 1, 11129, 2, 4, 2)
	oidCTEKU   = oidBytes(1, 3, 6, 1, 4, 1, 11129, 2, 4, 4)
	oidAKI     = oidBytes(2, 5, 29, 35)
	oidSKI     = oidBytes(2, 5, 29, 14)
	oidSAN     = oidBytes(2, 5, 29, 17)
	oidBC      = oidBytes(2, 5, 29, 19)
	oidEKU     = oidBytes(2, 5, 29, 37)
	oidKU      = oidBytes(2, 5, 29, 15)
	oidU1      = oidBytes(1, 3, 6, 1, 4, 1, 99999, 1)
	oidU2      = oidBytes(1, 3, 6, 1, 4, 1, 99999, 2)
	oidCN      = oidBytes(2, 5, 4, 3)
	oidO       = oidBytes(2, 5, 4, 10)
	oidSrvAuth = oidBytes(1, 3, 6, 1, 5, 5, 7, 3, 1)
	oidCliAuth = oidBytes(1, 3, 6, 1, 5, 5, 7, 3, 2)
)

func seq(f func(b *cryptobyte.Builder)) []byte {
	var b cryptobyte.Builder
	b.AddASN1(cbasn1.SEQUENCE, f)
	return must(b.Bytes())
}

func tlv(tag cbasn1.Tag, content []byte) []byte {
	var b cryptobyte.Builder
	b.AddASN1(tag, func(b *cryptobyte.Builder) { b.AddBytes(content) })
	return must(b.Bytes())
}

func addOID(b *cryptobyte.Builder, oid []byte) {
	b.AddASN1(cbasn1.OBJECT_IDENTIFIER, func(b *cryptobyte.Builder) { b.AddBytes(oid) })
}

// sigAlg is the AlgorithmIdentifier used by a signer key of the given type.
func sigAlg(kt string) []byte {
	switch kt {
	case "p256":
		return seq(func(b *cryptobyte.Builder) { addOID(b, oidBytes(1, 2, 840, 10045, 4, 3, 2)) })
	case "p384":
		return seq(func(b *cryptobyte.Builder) { addOID(b, oidBytes(1, 2, 840, 10045, 4, 3, 3)) })
	case "rsa2048":
		return seq(func(b *cryptobyte.Builder) {
			addOID(b, oidBytes(1, 2, 840, 113549, 1, 1, 11))
			b.AddASN1(cbasn1.NULL, func(*cryptobyte.Builder) {})
		})
	case "ed25519":
		return seq(func(b *cryptobyte.Builder) { addOID(b, oidBytes(1, 3, 101, 112)) })
	}
	panic("sigAlg " + kt)
}

// signTBS signs with std crypto according to the key type.
func signTBS(key crypto.Signer, tbs []byte) []byte {
	switch k := key.(type) {
	case *ecdsa.PrivateKey:
		var d []byte
		if k.Curve == elliptic.P384() {
			h := sha512.Sum384(tbs)
			d = h[:]
		} else {
			h := sha256.Sum256(tbs)
			d = h[:]
		}
		return must(ecdsa.SignASN1(rand.Reader, k, d))
	case *rsa.PrivateKey:
		h := sha256.Sum256(tbs)
		return must(rsa.SignPKCS1v15(rand.Reader, k, crypto.SHA256, h[:]))
	case ed25519.PrivateKey:
		return ed25519.Sign(k, tbs)
	}
	panic(fmt.Sprintf("signTBS %T", key))
}

// Certificate = SEQUENCE { tbs, signatureAlgorithm, BIT STRING signature } for an arbitrary TBS.
func Certificate(tbs []byte, signerType string, signer crypto.Signer) []byte {
	sig := signTBS(signer, tbs)
	return seq(func(b *cryptobyte.Builder) {
		b.AddBytes(tbs)
		b.AddBytes(sigAlg(signerType))
		b.AddASN1BitString(sig)
	})
}

func serialDER(tag string) []byte {
	var content []byte
	switch tag {
	case "small":
		content = []byte{0x01, 0xe2, 0x40}
	case "zero":
		content = []byte{0x00}
	case "neg":
		content = []byte{0xff, 0x7f} // -129
	case "long20":
		content = append([]byte{0x7f}, repeat(0xa5, 19)...)
	case "long21":
		content = append([]byte{0x00, 0x80}, repeat(0x5a, 19)...)
	case "other":
		content = []byte{0x01, 0xe2, 0x41}
	default:
		panic("serial " + tag)
	}
	return tlv(cbasn1.INTEGER, content)
}

func repeat(x byte, n int) []byte {
	out := make([]byte, n)
	for i := range out {
		out[i] = x
	}
	return out
}

func validityDER(tag string) []byte {
	utc := func(s string) []byte { return tlv(cbasn1.UTCTime, []byte(s)) }
	gen := func(s string) []byte { return tlv(cbasn1.GeneralizedTime, []byte(s)) }
	var nb, na []byte
	switch tag {
	case "utc":
		nb, na = utc("200101000000Z"), utc("491231235959Z")
	case "utc50": // two-digit years 50..99 are 19xx
		nb, na = utc("500101000000Z"), utc("491231235959Z")
	case "utcgen":
		nb, na = utc("200229123456Z"), gen("20500101000000Z")
	case "gengen":
		nb, na = gen("20500101000000Z"), gen("99991231235959Z")
	case "genearly": // DER-valid, but RFC 5280 4.1.2.5 demands UTCTime through 2049 (probe only)
		nb, na = gen("20200101000000Z"), gen("20300101000000Z")
	default:
		panic("validity " + tag)
	}
	return seq(func(b *cryptobyte.Builder) { b.AddBytes(nb); b.AddBytes(na) })
}

var displayName = map[string]string{"CA": "Verif Issuing CA", "PI": "Verif Precert Signer", "LEAF": "leaf.example.com",
	"ROOT": "Verif Root", "OTHER": "Other CA"}

// nameDER encodes a distinguished name in one of several ASN.1 string types / RDN shapes.
func nameDER(n Name) []byte {
	cn, ok := displayName[n.N]
	if !ok {
		panic("name " + n.N)
	}
	org := "verif org"
	atv := func(oid []byte, tag cbasn1.Tag, val []byte) []byte {
		return seq(func(b *cryptobyte.Builder) {
			addOID(b, oid)
			b.AddASN1(tag, func(b *cryptobyte.Builder) { b.AddBytes(val) })
		})
	}
	set := func(items ...[]byte) []byte {
		var b cryptobyte.Builder
		b.AddASN1(cbasn1.SET, func(b *cryptobyte.Builder) {
			for _, it := range items {
				b.AddBytes(it)
			}
		})
		return must(b.Bytes())
	}
	var rdns [][]byte
	switch n.Enc {
	case "printable":
		rdns = [][]byte{set(atv(oidO, cbasn1.PrintableString, []byte(org))), set(atv(oidCN, cbasn1.PrintableString, []byte(cn)))}
	case "utf8": // printable characters in a UTF8String: a re-encoder would choose PrintableString
		rdns = [][]byte{set(atv(oidO, cbasn1.UTF8String, []byte(org))), set(atv(oidCN, cbasn1.UTF8String, []byte(cn)))}
	case "t61":
		rdns = [][]byte{set(atv(oidO, cbasn1.T61String, []byte(org))), set(atv(oidCN, cbasn1.T61String, []byte(cn)))}
	case "bmp":
		var u []byte
		for _, c := range utf16.Encode([]rune(cn)) {
			u = append(u, byte(c>>8), byte(c))
		}
		rdns = [][]byte{set(atv(oidO, cbasn1.PrintableString, []byte(org))), set(atv(oidCN, cbasn1.Tag(30), u))}
	case "multirdn": // one RDN with two attributes, DER SET OF order (by encoding: CN 55 04 03 < O 55 04 0a)
		rdns = [][]byte{set(atv(oidCN, cbasn1.UTF8String, []byte(cn)), atv(oidO, cbasn1.PrintableString, []byte(org)))}
	case "utf8sp": // non-ASCII, inner double space, trailing space
		rdns = [][]byte{set(atv(oidO, cbasn1.UTF8String, []byte("vérif  ørg "))), set(atv(oidCN, cbasn1.UTF8String, []byte(cn+" Ü")))}
	case "empty":
		rdns = nil
	default:
		panic("name encoding " + n.Enc)
	}
	return seq(func(b *cryptobyte.Builder) {
		for _, r := range rdns {
			b.AddBytes(r)
		}
	})
}

func uidDER(tag string) []byte {
	iss := tlv(cbasn1.Tag(1).ContextSpecific(), []byte{0x00, 0xde, 0xad, 0xbe, 0xef})
	subj := tlv(cbasn1.Tag(2).ContextSpecific(), []byte{0x04, 0xca, 0xf0}) // 12 bits
	switch tag {
	case "none", "":
		return nil
	case "iss":
		return iss
	case "subj":
		return subj
	case "both":
		return append(append([]byte{}, iss...), subj...)
	case "issempty": // zero-length BIT STRING (valid DER)
		return tlv(cbasn1.Tag(1).ContextSpecific(), []byte{0x00})
	case "subjempty":
		return tlv(cbasn1.Tag(2).ContextSpecific(), []byte{0x00})
	}
	panic("uid " + tag)
}

// KeyIDs for the abstract AKI values.
var keyIDs = map[string][]byte{"k1": repeat(0x11, 20), "k2": append(repeat(0x22, 19), 0x80), "k3": repeat(0x33, 20)}

// Mat materializes abstract values; SCTList is the TLS-encoded list standing for the value "scts".
type Mat struct {
	Keys    *Keys
	SCTList []byte
}

var dummyLists = map[string][]byte{}

func init() {
	// two well-formed but meaningless SCT lists for pre-existing SCT list extensions ("v1", "v2")
	for i, name := range []string{"v1", "v2"} {
		sct := append([]byte{0}, repeat(byte(0x40+i), 32)...)
		sct = append(sct, 0, 0, 0, 0, 0, 0, 0, byte(i+1), 0, 0, 4, 3, 0, 2, 0x30, 0x00)
		inner := append([]byte{byte(len(sct) >> 8), byte(len(sct))}, sct...)
		dummyLists[name] = append([]byte{byte(len(inner) >> 8), byte(len(inner))}, inner...)
	}
}

// akiValue is AuthorityKeyIdentifier ::= SEQUENCE { keyIdentifier [0] OPTIONAL, authorityCertIssuer [1]
// GeneralNames OPTIONAL, authorityCertSerialNumber [2] OPTIONAL } in the form the tag names:
// k1/k2/k3 keyIdentifier only; k1full/k2full all three fields; isonly issuer + serial without keyIdentifier.
func akiValue(k string) []byte {
	base, full, noKey := k, false, false
	switch k {
	case "k1full":
		base, full = "k1", true
	case "k2full":
		base, full = "k2", true
	case "isonly":
		full, noKey = true, true
	}
	id, ok := keyIDs[base]
	if !ok && !noKey {
		panic("aki " + k)
	}
	return seq(func(b *cryptobyte.Builder) {
		if !noKey {
			b.AddASN1(cbasn1.Tag(0).ContextSpecific(), func(b *cryptobyte.Builder) { b.AddBytes(id) })
		}
		if full {
			b.AddASN1(cbasn1.Tag(1).ContextSpecific().Constructed(), func(b *cryptobyte.Builder) { // GeneralNames
				b.AddASN1(cbasn1.Tag(4).ContextSpecific().Constructed(), func(b *cryptobyte.Builder) { // directoryName (EXPLICIT: Name is a CHOICE)
					b.AddBytes(nameDER(Name{"ROOT", "printable"}))
				})
			})
			b.AddASN1(cbasn1.Tag(2).ContextSpecific(), func(b *cryptobyte.Builder) { b.AddBytes([]byte{0x00, 0xc3, 0x01}) })
		}
	})
}

// extValue is the content of the extnValue OCTET STRING for (id, val).
func (m *Mat) extValue(e Ext) (oid, val []byte) {
	n := 1
	if e.Val == "v2" {
		n = 2
	}
	switch e.ID {
	case "POISON":
		return oidPoison, []byte{0x05, 0x00}
	case "SCTLIST":
		if e.Val == "scts" {
			if m.SCTList == nil {
				panic("SCT list not set")
			}
			return oidSCTList, tlv(cbasn1.OCTET_STRING, m.SCTList)
		}
		return oidSCTList, tlv(cbasn1.OCTET_STRING, dummyLists[e.Val])
	case "AKI":
		return oidAKI, akiValue(e.Val)
	case "SKI":
		return oidSKI, tlv(cbasn1.OCTET_STRING, keyIDs[e.Val])
	case "SAN":
		return oidSAN, seq(func(b *cryptobyte.Builder) {
			b.AddASN1(cbasn1.Tag(2).ContextSpecific(), func(b *cryptobyte.Builder) { b.AddBytes([]byte(fmt.Sprintf("san%d.example.com", n))) })
		})
	case "BC":
		switch e.Val {
		case "ca":
			return oidBC, seq(func(b *cryptobyte.Builder) { b.AddASN1Boolean(true) })
		case "v2":
			return oidBC, seq(func(b *cryptobyte.Builder) { b.AddASN1Boolean(true); b.AddASN1Int64(0) })
		}
		return oidBC, seq(func(b *cryptobyte.Builder) {})
	case "KU":
		return oidKU, []byte{0x03, 0x02, 0x01, 0x06} // keyCertSign | cRLSign
	case "EKU":
		o := oidSrvAuth
		switch e.Val {
		case "ct":
			o = oidCTEKU
		case "v2":
			o = oidCliAuth
		}
		return oidEKU, seq(func(b *cryptobyte.Builder) { addOID(b, o) })
	case "U1":
		return oidU1, tlv(cbasn1.UTF8String, []byte(fmt.Sprintf("unknown extension one, instance %d", n)))
	case "U2": // long-form lengths (>= 128 and >= 256 bytes)
		return oidU2, tlv(cbasn1.OCTET_STRING, repeat(byte(0xa0+n), 100+100*n))
	}
	panic("extension id " + e.ID)
}

// ExtDER is Extension ::= SEQUENCE { extnID, critical BOOLEAN DEFAULT FALSE, extnValue OCTET STRING }.
func (m *Mat) ExtDER(e Ext) []byte {
	oid, val := m.extValue(e)
	return seq(func(b *cryptobyte.Builder) {
		addOID(b, oid)
		if e.Crit {
			b.AddASN1Boolean(true)
		}
		b.AddASN1(cbasn1.OCTET_STRING, func(b *cryptobyte.Builder) { b.AddBytes(val) })
	})
}

// TBSBytes is the DER TBSCertificate of an abstract TBS; subjectKey is the SPKI owner role.
func (m *Mat) TBSBytes(t *TBS) []byte {
	role := t.Subject.N
	return m.tbsBytes(t, SPKI(m.Keys.Get(role, t.Key).Public()))
}

func (m *Mat) tbsBytes(t *TBS, spki []byte) []byte {
	if t.K != "tbs" {
		panic("not a TBS: " + t.K)
	}
	return seq(func(b *cryptobyte.Builder) {
		b.AddASN1(cbasn1.Tag(0).ContextSpecific().Constructed(), func(b *cryptobyte.Builder) { b.AddASN1Int64(2) })
		b.AddBytes(serialDER(t.Serial))
		b.AddBytes(sigAlg(t.Sig))
		b.AddBytes(nameDER(t.Issuer))
		b.AddBytes(validityDER(t.Validity))
		b.AddBytes(nameDER(t.Subject))
		b.AddBytes(spki)
		b.AddBytes(uidDER(t.UID))
		if !t.XF && len(t.Exts) > 0 {
			panic("harness: extensions without the extensions field")
		}
		if t.XF {
			b.AddASN1(cbasn1.Tag(3).ContextSpecific().Constructed(), func(b *cryptobyte.Builder) {
				b.AddASN1(cbasn1.SEQUENCE, func(b *cryptobyte.Builder) {
					for _, e := range t.Exts {
						b.AddBytes(m.ExtDER(e))
					}
				})
			})
		}
	})
}
