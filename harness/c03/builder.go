// Package c03 binds spec/codec/Precert.tla to x509.BuildPrecertTBS / RemoveCTPoison / RemoveSCTList,
// ct.MerkleTreeLeafFromChain / FromRawChain / ForEmbeddedSCT, ctutil.VerifySCT / LeafHash and the SCT
// list helpers.  This file is the harness' own DER builder: it turns the specification's abstract
// TBSCertificate (opaque field tags + extension triples) into real DER with cryptobyte and signs
// certificates with std crypto.  Nothing here uses the repository's x509 / asn1 / tls packages.
package c03

import (
	"crypto"
	"crypto/ecdsa"
	"crypto/ed25519"
	"crypto/elliptic"
	"crypto/rand"
	"crypto/rsa"
	"crypto/sha256"
	"crypto/sha512"
	stdx509 "crypto/x509"
	"encoding/hex"
	"encoding/json"
	"fmt"
	"strings"
	"unicode/utf16"

	"golang.org/x/crypto/cryptobyte"
	cbasn1 "golang.org/x/crypto/cryptobyte/asn1"
)

// Name is an abstract distinguished name: who (CA, PI, LEAF, ROOT) and which encoding.
type Name struct {
	N   string `json:"n"`
	Enc string `json:"enc"`
}

// Ext is one abstract extension; JSON form is the triple [id, crit, val].
type Ext struct {
	ID   string
	Crit bool
	Val  string
}

// UnmarshalJSON reads ["ID", crit, "val"].
func (e *Ext) UnmarshalJSON(b []byte) error {
	var raw []json.RawMessage
	if err := json.Unmarshal(b, &raw); err != nil {
		return err
	}
	if len(raw) != 3 {
		return fmt.Errorf("extension triple has %d elements", len(raw))
	}
	if err := json.Unmarshal(raw[0], &e.ID); err != nil {
		return err
	}
	if err := json.Unmarshal(raw[1], &e.Crit); err != nil {
		return err
	}
	return json.Unmarshal(raw[2], &e.Val)
}

// MarshalJSON writes the triple.
func (e Ext) MarshalJSON() ([]byte, error) { return json.Marshal([]any{e.ID, e.Crit, e.Val}) }

// TBS is the abstract TBSCertificate of Precert.tla, or an error / none marker (K).
type TBS struct {
	K        string `json:"k"` // "tbs", "err", "none"
	Why      string `json:"why,omitempty"`
	Ver      string `json:"ver,omitempty"` // "" / "v3": version [0] = 2; "v2": version [0] = 1; "v1": no version element (DEFAULT v1)
	Serial   string `json:"serial,omitempty"`
	Sig      string `json:"sig,omitempty"`
	Issuer   Name   `json:"issuer"`
	Validity string `json:"validity,omitempty"`
	Subject  Name   `json:"subject"`
	Key      string `json:"key,omitempty"`
	UID      string `json:"uid,omitempty"`
	XF       bool   `json:"xf"` // the extensions field [3] is present (possibly empty: clause EmptyExtensionsKept)
	Exts     []Ext  `json:"exts"`
}

// IsErr tells whether the specification's result is an error.
func (t *TBS) IsErr() bool { return t.K == "err" }

// ---------------------------------------------------------------- keys

// Keys holds one key per (role, type); generated once per process.
type Keys struct {
	byName map[string]crypto.Signer
}

var keyTypes = []string{"p256", "p384", "rsa2048", "ed25519"}

func genKey(kt string) crypto.Signer {
	switch kt {
	case "p256":
		k, err := ecdsa.GenerateKey(elliptic.P256(), rand.Reader)
		if err != nil {
			panic(err)
		}
		return k
	case "p384":
		k, err := ecdsa.GenerateKey(elliptic.P384(), rand.Reader)
		if err != nil {
			panic(err)
		}
		return k
	case "rsa2048", "rsa3072":
		bits := 2048
		if kt == "rsa3072" {
			bits = 3072
		}
		k, err := rsa.GenerateKey(rand.Reader, bits)
		if err != nil {
			panic(err)
		}
		return k
	case "p521":
		k, err := ecdsa.GenerateKey(elliptic.P521(), rand.Reader)
		if err != nil {
			panic(err)
		}
		return k
	case "ed25519":
		_, k, err := ed25519.GenerateKey(rand.Reader)
		if err != nil {
			panic(err)
		}
		return k
	}
	panic("unknown key type " + kt)
}

// NewKeys generates the key material: roles LEAF, CA, PI, ROOT, OTHER for each type, and two log keys.
func NewKeys() *Keys {
	k := &Keys{byName: map[string]crypto.Signer{}}
	for _, role := range []string{"LEAF", "CA", "PI", "ROOT", "OTHER"} {
		for _, kt := range keyTypes {
			k.byName[role+"/"+kt] = genKey(kt)
		}
	}
	for name, l := range logTable {
		k.byName[name] = genKey(l.Key)
	}
	k.byName["LOGX"] = genKey("p256")
	return k
}

// LogInfo is a log of MCPrecert.tla (LogTable): key type, hash function of its signatures, RFC 6962 2.1.4 compliance.
type LogInfo struct {
	Name      string `json:"name"`
	Scheme    string `json:"scheme"`
	Key       string `json:"key"`
	Hash      string `json:"hash"`
	Compliant bool   `json:"compliant"`
}

// the harness' own copy of the log table (cross-checked against the specification's when the driver hands it over)
var logTable = map[string]LogInfo{
	"LOG1": {"LOG1", "ecdsa", "p256", "sha256", true},
	"LOG2": {"LOG2", "rsa", "rsa2048", "sha256", true},
	"LOG3": {"LOG3", "ecdsa", "p384", "sha384", false},
	"LOG4": {"LOG4", "ecdsa", "p256", "sha512", true},
	"LOG5": {"LOG5", "rsa", "rsa3072", "sha384", true},
	"LOG6": {"LOG6", "ecdsa", "p521", "sha256", false},
}

// Get returns the key of a role and type.
func (k *Keys) Get(role, kt string) crypto.Signer {
	s, ok := k.byName[role+"/"+kt]
	if !ok {
		panic("no key " + role + "/" + kt)
	}
	return s
}

// Log returns a log key.
func (k *Keys) Log(name string) crypto.Signer { return k.byName[name] }

// SPKI is the DER SubjectPublicKeyInfo (std crypto/x509 as the conforming encoder).
func SPKI(pub crypto.PublicKey) []byte {
	der, err := stdx509.MarshalPKIXPublicKey(pub)
	if err != nil {
		panic(err)
	}
	return der
}

// ---------------------------------------------------------------- DER pieces

func must(b []byte, err error) []byte {
	if err != nil {
		panic(err)
	}
	return b
}

func oidBytes(arcs ...uint64) []byte {
	// content octets of an OBJECT IDENTIFIER (X.690 8.19: the first two arcs share one subidentifier, 40*a + b)
	var out []byte
	subs := append([]uint64{arcs[0]*40 + arcs[1]}, arcs[2:]...)
	for _, a := range subs {
		var tmp []byte
		tmp = append(tmp, byte(a&0x7f))
		for a >>= 7; a > 0; a >>= 7 {
			tmp = append([]byte{byte(a&0x7f) | 0x80}, tmp...)
		}
		out = append(out, tmp...)
	}
	return out
}

var (
	oidPoison  = oidBytes(1, 3, 6, 1, 4, 1, 11129, 2, 4, 3)
	oidSCTList = oidBytes(1, 3, 6, 1, 4, 1, 11129, 2, 4, 2)
	oidCTEKU   = oidBytes(1, 3, 6, 1, 4, 1, 11129, 2, 4, 4)
	oidAKI     = oidBytes(2, 5, 29, 35)
	oidSKI     = oidBytes(2, 5, 29, 14)
	oidSAN     = oidBytes(2, 5, 29, 17)
	oidBC      = oidBytes(2, 5, 29, 19)
	oidEKU     = oidBytes(2, 5, 29, 37)
	oidKU      = oidBytes(2, 5, 29, 15)
	oidU1      = oidBytes(1, 3, 6, 1, 4, 1, 99999, 1)
	oidU2      = oidBytes(1, 3, 6, 1, 4, 1, 99999, 2)
	oidCN      = oidBytes(2, 5, 4, 3)
	oidO       = oidBytes(2, 5, 4, 10)
	oidSrvAuth = oidBytes(1, 3, 6, 1, 5, 5, 7, 3, 1)
	oidCliAuth = oidBytes(1, 3, 6, 1, 5, 5, 7, 3, 2)
)

func seq(f func(b *cryptobyte.Builder)) []byte {
	var b cryptobyte.Builder
	b.AddASN1(cbasn1.SEQUENCE, f)
	return must(b.Bytes())
}

func tlv(tag cbasn1.Tag, content []byte) []byte {
	var b cryptobyte.Builder
	b.AddASN1(tag, func(b *cryptobyte.Builder) { b.AddBytes(content) })
	return must(b.Bytes())
}

func addOID(b *cryptobyte.Builder, oid []byte) {
	b.AddASN1(cbasn1.OBJECT_IDENTIFIER, func(b *cryptobyte.Builder) { b.AddBytes(oid) })
}

// sigAlg is the AlgorithmIdentifier used by a signer key of the given type.
func sigAlg(kt string) []byte {
	switch kt {
	case "p256":
		return seq(func(b *cryptobyte.Builder) { addOID(b, oidBytes(1, 2, 840, 10045, 4, 3, 2)) })
	case "p384":
		return seq(func(b *cryptobyte.Builder) { addOID(b, oidBytes(1, 2, 840, 10045, 4, 3, 3)) })
	case "rsa2048":
		return seq(func(b *cryptobyte.Builder) {
			addOID(b, oidBytes(1, 2, 840, 113549, 1, 1, 11))
			b.AddASN1(cbasn1.NULL, func(*cryptobyte.Builder) {})
		})
	case "ed25519":
		return seq(func(b *cryptobyte.Builder) { addOID(b, oidBytes(1, 3, 101, 112)) })
	}
	panic("sigAlg " + kt)
}

// signTBS signs with std crypto according to the key type.
func signTBS(key crypto.Signer, tbs []byte) []byte {
	switch k := key.(type) {
	case *ecdsa.PrivateKey:
		var d []byte
		if k.Curve == elliptic.P384() {
			h := sha512.Sum384(tbs)
			d = h[:]
		} else {
			h := sha256.Sum256(tbs)
			d = h[:]
		}
		return must(ecdsa.SignASN1(rand.Reader, k, d))
	case *rsa.PrivateKey:
		h := sha256.Sum256(tbs)
		return must(rsa.SignPKCS1v15(rand.Reader, k, crypto.SHA256, h[:]))
	case ed25519.PrivateKey:
		return ed25519.Sign(k, tbs)
	}
	panic(fmt.Sprintf("signTBS %T", key))
}

// Certificate = SEQUENCE { tbs, signatureAlgorithm, BIT STRING signature } for an arbitrary TBS.
func Certificate(tbs []byte, signerType string, signer crypto.Signer) []byte {
	sig := signTBS(signer, tbs)
	return seq(func(b *cryptobyte.Builder) {
		b.AddBytes(tbs)
		b.AddBytes(sigAlg(signerType))
		b.AddASN1BitString(sig)
	})
}

// serialHex: contents octets of the serialNumber INTEGER per tag (the harness' own table; the specification derives
// the same octets from the VALUES with IntOctets and the driver hands its table over for comparison, CheckDERTable).
var serialHex = map[string]string{
	"small": "01e240", "other": "01e241", "zero": "00",
	"p127": "7f", "p128": "0080", "p255": "00ff", "p256": "0100", "p32768": "008000",
	"long20": "7f" + strings.Repeat("a5", 19), "max20": "7f" + strings.Repeat("ff", 19),
	"long21": "0080" + strings.Repeat("5a", 19),
	"m1":     "ff", "m127": "81", "m128": "80", "neg": "ff7f", "m255": "ff01", "m256": "ff00",
	"m32768": "8000", "m32769": "ff7fff",
	"min20": "80" + strings.Repeat("00", 19), "min20p1": "80" + strings.Repeat("00", 18) + "01",
	"neg21": "ff7f" + strings.Repeat("ff", 19),
}

func serialDER(tag string) []byte {
	h, ok := serialHex[tag]
	if !ok {
		panic("serial " + tag)
	}
	content, err := hex.DecodeString(h)
	if err != nil {
		panic(err)
	}
	return tlv(cbasn1.INTEGER, content)
}

// the unknown extensions' materializations (MCPrecert.tla UArc / ULen)
var (
	uArc = map[string]uint64{"a0": 0, "a127": 127, "a128": 128, "a16383": 16383, "a16384": 16384, "a2097151": 2097151,
		"a2097152": 2097152, "a268435455": 268435455, "a268435456": 268435456, "amax": 2147483647}
	uLen = map[string]int{"l0": 0, "l1": 1, "l127": 127, "l128": 128, "l255": 255, "l256": 256, "l65535": 65535, "l65536": 65536}
)

// DERTable is the table exported by MCPrecert.tla (record "DER").
type DERTable struct {
	Serials map[string][]int `json:"serials"`
	Lens    map[string]struct {
		N      int   `json:"n"`
		Octets []int `json:"octets"`
	} `json:"lens"`
	Arcs map[string]struct {
		N      uint64 `json:"n"`
		Octets []int  `json:"octets"`
	} `json:"arcs"`
	Logs map[string]LogInfo `json:"logs"`
	// the entry points through which a certificate is read back (Precert.tla EntryPoints)
	EntryPoints map[string]EPoint `json:"entrypoints"`
}

// EPoint is an entry point of Precert.tla: one call for the whole sequence or one per certificate, the certificate
// or its TBSCertificate, DER or PEM, everything that is reported or the SCT list alone.
type EPoint struct {
	Plural bool   `json:"plural"`
	Input  string `json:"input"`
	Armor  string `json:"armor"`
	View   string `json:"view"`
}

func octets(xs []int) []byte {
	out := make([]byte, len(xs))
	for i, x := range xs {
		if x < 0 || x > 255 {
			panic("octet out of range")
		}
		out[i] = byte(x)
	}
	return out
}

// CheckDERTable compares the specification's DER primitives with the harness' own materialization: the serial
// contents octets (IntOctets of the values), the length octets and the subidentifier octets as cryptobyte / oidBytes
// produce them.  Any difference is an error of the harness or of the specification, never of the code under test.
func CheckDERTable(t *DERTable) error {
	if len(t.Serials) != len(serialHex) {
		return fmt.Errorf("specification has %d serial numbers, harness %d", len(t.Serials), len(serialHex))
	}
	for name, o := range t.Serials {
		if hex.EncodeToString(octets(o)) != serialHex[name] {
			return fmt.Errorf("serial %s: specification %x, harness %s", name, octets(o), serialHex[name])
		}
	}
	if len(t.Lens) != len(uLen) {
		return fmt.Errorf("specification has %d lengths, harness %d", len(t.Lens), len(uLen))
	}
	for name, l := range t.Lens {
		if n, ok := uLen[name]; !ok || n != l.N {
			return fmt.Errorf("length %s: specification %d, harness %d", name, l.N, n)
		}
		el := tlv(cbasn1.OCTET_STRING, make([]byte, l.N))
		want := append([]byte{0x04}, octets(l.Octets)...)
		if len(el) != len(want)+l.N || string(el[:len(want)]) != string(want) {
			return fmt.Errorf("length %d: specification %x, cryptobyte %x", l.N, want, el[:len(el)-l.N])
		}
	}
	for name, a := range t.Arcs {
		if n, ok := uArc[name]; ok && n != a.N {
			return fmt.Errorf("arc %s: specification %d, harness %d", name, a.N, n)
		}
		got := oidBytes(1, 3, a.N)[1:]
		if string(got) != string(octets(a.Octets)) {
			return fmt.Errorf("arc %d: specification %x, harness %x", a.N, octets(a.Octets), got)
		}
	}
	for name := range uArc {
		if _, ok := t.Arcs[name]; !ok {
			return fmt.Errorf("arc %s is not in the specification", name)
		}
	}
	if len(t.Logs) != len(logTable) {
		return fmt.Errorf("specification has %d logs, harness %d", len(t.Logs), len(logTable))
	}
	for name, l := range t.Logs {
		if logTable[name] != l {
			return fmt.Errorf("log %s: specification %+v, harness %+v", name, l, logTable[name])
		}
	}
	return t.checkEntryPoints()
}

// harnessEPs is the harness' own copy of Precert.tla EntryPoints: what its dispatch (callEntry) drives.
var harnessEPs = map[string]EPoint{
	"ParseCertificate": {false, "cert", "der", "all"}, "ParseCertificates": {true, "cert", "der", "all"},
	"ParseTBSCertificate": {false, "tbs", "der", "all"}, "CertificateFromPEM": {false, "cert", "pem", "all"},
	"CertificatesFromPEM": {true, "cert", "pem", "all"}, "ParseSCTsFromCertificate": {false, "cert", "der", "scts"},
	"ParseSCTsFromCertificatePEM": {false, "cert", "pem", "scts"},
	"LeafX509Certificate":         {false, "cert", "leaf", "all"}, "LeafPrecertificate": {false, "tbs", "leaf", "all"}}

func (t *DERTable) checkEntryPoints() error {
	if len(t.EntryPoints) != len(harnessEPs) {
		return fmt.Errorf("specification has %d entry points, harness %d", len(t.EntryPoints), len(harnessEPs))
	}
	for n, e := range t.EntryPoints {
		if harnessEPs[n] != e {
			return fmt.Errorf("entry point %s: specification %+v, harness %+v", n, e, harnessEPs[n])
		}
	}
	return nil
}

func repeat(x byte, n int) []byte {
	out := make([]byte, n)
	for i := range out {
		out[i] = x
	}
	return out
}

func validityDER(tag string) []byte {
	utc := func(s string) []byte { return tlv(cbasn1.UTCTime, []byte(s)) }
	gen := func(s string) []byte { return tlv(cbasn1.GeneralizedTime, []byte(s)) }
	var nb, na []byte
	switch tag {
	case "utc":
		nb, na = utc("200101000000Z"), utc("491231235959Z")
	case "utc50": // two-digit years 50..99 are 19xx
		nb, na = utc("500101000000Z"), utc("491231235959Z")
	case "utcgen":
		nb, na = utc("200229123456Z"), gen("20500101000000Z")
	case "gengen":
		nb, na = gen("20500101000000Z"), gen("99991231235959Z")
	case "genearly": // DER-valid, but RFC 5280 4.1.2.5 demands UTCTime through 2049 (probe only)
		nb, na = gen("20200101000000Z"), gen("20300101000000Z")
	default:
		panic("validity " + tag)
	}
	return seq(func(b *cryptobyte.Builder) { b.AddBytes(nb); b.AddBytes(na) })
}

var displayName = map[string]string{"CA": "Verif Issuing CA", "PI": "Verif Precert Signer", "LEAF": "leaf.example.com",
	"ROOT": "Verif Root", "OTHER": "Other CA"}

// nameDER encodes a distinguished name in one of several ASN.1 string types / RDN shapes.
func nameDER(n Name) []byte {
	cn, ok := displayName[n.N]
	if !ok {
		panic("name " + n.N)
	}
	org := "verif org"
	atv := func(oid []byte, tag cbasn1.Tag, val []byte) []byte {
		return seq(func(b *cryptobyte.Builder) {
			addOID(b, oid)
			b.AddASN1(tag, func(b *cryptobyte.Builder) { b.AddBytes(val) })
		})
	}
	set := func(items ...[]byte) []byte {
		var b cryptobyte.Builder
		b.AddASN1(cbasn1.SET, func(b *cryptobyte.Builder) {
			for _, it := range items {
				b.AddBytes(it)
			}
		})
		return must(b.Bytes())
	}
	var rdns [][]byte
	switch n.Enc {
	case "printable":
		rdns = [][]byte{set(atv(oidO, cbasn1.PrintableString, []byte(org))), set(atv(oidCN, cbasn1.PrintableString, []byte(cn)))}
	case "utf8": // printable characters in a UTF8String: a re-encoder would choose PrintableString
		rdns = [][]byte{set(atv(oidO, cbasn1.UTF8String, []byte(org))), set(atv(oidCN, cbasn1.UTF8String, []byte(cn)))}
	case "t61":
		rdns = [][]byte{set(atv(oidO, cbasn1.T61String, []byte(org))), set(atv(oidCN, cbasn1.T61String, []byte(cn)))}
	case "bmp":
		var u []byte
		for _, c := range utf16.Encode([]rune(cn)) {
			u = append(u, byte(c>>8), byte(c))
		}
		rdns = [][]byte{set(atv(oidO, cbasn1.PrintableString, []byte(org))), set(atv(oidCN, cbasn1.Tag(30), u))}
	case "multirdn": // one RDN with two attributes, DER SET OF order (by encoding: CN 55 04 03 < O 55 04 0a)
		rdns = [][]byte{set(atv(oidCN, cbasn1.UTF8String, []byte(cn)), atv(oidO, cbasn1.PrintableString, []byte(org)))}
	case "utf8sp": // non-ASCII, inner double space, trailing space
		rdns = [][]byte{set(atv(oidO, cbasn1.UTF8String, []byte("vérif  ørg "))), set(atv(oidCN, cbasn1.UTF8String, []byte(cn+" Ü")))}
	case "empty":
		rdns = nil
	default:
		panic("name encoding " + n.Enc)
	}
	return seq(func(b *cryptobyte.Builder) {
		for _, r := range rdns {
			b.AddBytes(r)
		}
	})
}

func uidDER(tag string) []byte {
	iss := tlv(cbasn1.Tag(1).ContextSpecific(), []byte{0x00, 0xde, 0xad, 0xbe, 0xef})
	subj := tlv(cbasn1.Tag(2).ContextSpecific(), []byte{0x04, 0xca, 0xf0}) // 12 bits
	switch tag {
	case "none", "":
		return nil
	case "iss":
		return iss
	case "subj":
		return subj
	case "both":
		return append(append([]byte{}, iss...), subj...)
	case "issempty": // zero-length BIT STRING (valid DER)
		return tlv(cbasn1.Tag(1).ContextSpecific(), []byte{0x00})
	case "subjempty":
		return tlv(cbasn1.Tag(2).ContextSpecific(), []byte{0x00})
	}
	panic("uid " + tag)
}

// KeyIDs for the abstract AKI values.
var keyIDs = map[string][]byte{"k1": repeat(0x11, 20), "k2": append(repeat(0x22, 19), 0x80), "k3": repeat(0x33, 20)}

// Mat materializes abstract values; SCTList is the TLS-encoded list standing for the value "scts".
type Mat struct {
	Keys    *Keys
	SCTList []byte
	UExt    string // materialization of the unknown extensions U1 / U2 ("" = "std")
}

// derOfLen is a byte string of exactly n octets; a DER element (OCTET STRING) where one of that size exists.
func derOfLen(n int, fill byte) []byte {
	if n < 2 {
		return repeat(fill, n)
	}
	for body := n - 2; body >= 0 && body >= n-6; body-- {
		if el := tlv(cbasn1.OCTET_STRING, repeat(fill, body)); len(el) == n {
			return el
		}
	}
	return repeat(fill, n) // no element has this size (e.g. 130: 04 7f.. is 129, 04 81 80.. is 131)
}

var dummyLists = map[string][]byte{}

func init() {
	// two well-formed but meaningless SCT lists for pre-existing SCT list extensions ("v1", "v2")
	for i, name := range []string{"v1", "v2"} {
		sct := append([]byte{0}, repeat(byte(0x40+i), 32)...)
		sct = append(sct, 0, 0, 0, 0, 0, 0, 0, byte(i+1), 0, 0, 4, 3, 0, 2, 0x30, 0x00)
		inner := append([]byte{byte(len(sct) >> 8), byte(len(sct))}, sct...)
		dummyLists[name] = append([]byte{byte(len(inner) >> 8), byte(len(inner))}, inner...)
	}
}

// akiValue is AuthorityKeyIdentifier ::= SEQUENCE { keyIdentifier [0] OPTIONAL, authorityCertIssuer [1]
// GeneralNames OPTIONAL, authorityCertSerialNumber [2] OPTIONAL } in the form the tag names:
// k1/k2/k3 keyIdentifier only; k1full/k2full all three fields; isonly issuer + serial without keyIdentifier.
func akiValue(k string) []byte {
	base, full, noKey := k, false, false
	switch k {
	case "k1full":
		base, full = "k1", true
	case "k2full":
		base, full = "k2", true
	case "isonly":
		full, noKey = true, true
	}
	id, ok := keyIDs[base]
	if !ok && !noKey {
		panic("aki " + k)
	}
	return seq(func(b *cryptobyte.Builder) {
		if !noKey {
			b.AddASN1(cbasn1.Tag(0).ContextSpecific(), func(b *cryptobyte.Builder) { b.AddBytes(id) })
		}
		if full {
			b.AddASN1(cbasn1.Tag(1).ContextSpecific().Constructed(), func(b *cryptobyte.Builder) { // GeneralNames
				b.AddASN1(cbasn1.Tag(4).ContextSpecific().Constructed(), func(b *cryptobyte.Builder) { // directoryName (EXPLICIT: Name is a CHOICE)
					b.AddBytes(nameDER(Name{"ROOT", "printable"}))
				})
			})
			b.AddASN1(cbasn1.Tag(2).ContextSpecific(), func(b *cryptobyte.Builder) { b.AddBytes([]byte{0x00, 0xc3, 0x01}) })
		}
	})
}

// extValue is the content of the extnValue OCTET STRING for (id, val).
func (m *Mat) extValue(e Ext) (oid, val []byte) {
	n := 1
	if e.Val == "v2" {
		n = 2
	}
	switch e.ID {
	case "POISON":
		return oidPoison, []byte{0x05, 0x00}
	case "SCTLIST":
		if e.Val == "scts" {
			if m.SCTList == nil {
				panic("SCT list not set")
			}
			return oidSCTList, tlv(cbasn1.OCTET_STRING, m.SCTList)
		}
		return oidSCTList, tlv(cbasn1.OCTET_STRING, dummyLists[e.Val])
	case "AKI":
		return oidAKI, akiValue(e.Val)
	case "SKI":
		return oidSKI, tlv(cbasn1.OCTET_STRING, keyIDs[e.Val])
	case "SAN":
		return oidSAN, seq(func(b *cryptobyte.Builder) {
			b.AddASN1(cbasn1.Tag(2).ContextSpecific(), func(b *cryptobyte.Builder) { b.AddBytes([]byte(fmt.Sprintf("san%d.example.com", n))) })
		})
	case "BC":
		switch e.Val {
		case "ca":
			return oidBC, seq(func(b *cryptobyte.Builder) { b.AddASN1Boolean(true) })
		case "v2":
			return oidBC, seq(func(b *cryptobyte.Builder) { b.AddASN1Boolean(true); b.AddASN1Int64(0) })
		}
		return oidBC, seq(func(b *cryptobyte.Builder) {})
	case "KU":
		return oidKU, []byte{0x03, 0x02, 0x01, 0x06} // keyCertSign | cRLSign
	case "EKU":
		o := oidSrvAuth
		switch e.Val {
		case "ct":
			o = oidCTEKU
		case "v2":
			o = oidCliAuth
		}
		return oidEKU, seq(func(b *cryptobyte.Builder) { addOID(b, o) })
	case "U1":
		oid := oidU1
		if a, ok := uArc[m.UExt]; ok {
			oid = oidBytes(1, 3, 6, 1, 4, 1, 99999, 1, a)
		} else if m.UExt == "joint" {
			oid = oidBytes(2, 999, 3)
		}
		return oid, tlv(cbasn1.UTF8String, []byte(fmt.Sprintf("unknown extension one, instance %d", n)))
	case "U2": // long-form lengths (>= 128 and >= 256 bytes)
		if l, ok := uLen[m.UExt]; ok {
			return oidU2, derOfLen(l, byte(0xa0+n))
		}
		return oidU2, tlv(cbasn1.OCTET_STRING, repeat(byte(0xa0+n), 100+100*n))
	}
	panic("extension id " + e.ID)
}

// ExtDER is Extension ::= SEQUENCE { extnID, critical BOOLEAN DEFAULT FALSE, extnValue OCTET STRING }.
func (m *Mat) ExtDER(e Ext) []byte {
	oid, val := m.extValue(e)
	return seq(func(b *cryptobyte.Builder) {
		addOID(b, oid)
		if e.Crit {
			b.AddASN1Boolean(true)
		}
		b.AddASN1(cbasn1.OCTET_STRING, func(b *cryptobyte.Builder) { b.AddBytes(val) })
	})
}

// TBSBytes is the DER TBSCertificate of an abstract TBS; subjectKey is the SPKI owner role.
func (m *Mat) TBSBytes(t *TBS) []byte {
	role := t.Subject.N
	return m.tbsBytes(t, SPKI(m.Keys.Get(role, t.Key).Public()))
}

func (m *Mat) tbsBytes(t *TBS, spki []byte) []byte {
	if t.K != "tbs" {
		panic("not a TBS: " + t.K)
	}
	return seq(func(b *cryptobyte.Builder) {
		switch t.Ver {
		case "", "v3":
			b.AddASN1(cbasn1.Tag(0).ContextSpecific().Constructed(), func(b *cryptobyte.Builder) { b.AddASN1Int64(2) })
		case "v2":
			b.AddASN1(cbasn1.Tag(0).ContextSpecific().Constructed(), func(b *cryptobyte.Builder) { b.AddASN1Int64(1) })
		case "v1": // DER: a component that has its DEFAULT value is not encoded (X.690 11.5)
		default:
			panic("harness: version " + t.Ver)
		}
		b.AddBytes(serialDER(t.Serial))
		b.AddBytes(sigAlg(t.Sig))
		b.AddBytes(nameDER(t.Issuer))
		b.AddBytes(validityDER(t.Validity))
		b.AddBytes(nameDER(t.Subject))
		b.AddBytes(spki)
		b.AddBytes(uidDER(t.UID))
		if !t.XF && len(t.Exts) > 0 {
			panic("harness: extensions without the extensions field")
		}
		if t.XF {
			b.AddASN1(cbasn1.Tag(3).ContextSpecific().Constructed(), func(b *cryptobyte.Builder) {
				b.AddASN1(cbasn1.SEQUENCE, func(b *cryptobyte.Builder) {
					for _, e := range t.Exts {
						b.AddBytes(m.ExtDER(e))
					}
				})
			})
		}
	})
}

// ---------------------------------------------------------------- log signatures

var hashCodes = map[string]byte{"sha256": 4, "sha384": 5, "sha512": 6} // RFC 5246 7.4.1.4.1

func digestOf(hash string, msg []byte) ([]byte, crypto.Hash) {
	switch hash {
	case "sha256":
		d := sha256.Sum256(msg)
		return d[:], crypto.SHA256
	case "sha384":
		d := sha512.Sum384(msg)
		return d[:], crypto.SHA384
	case "sha512":
		d := sha512.Sum512(msg)
		return d[:], crypto.SHA512
	}
	panic("hash " + hash)
}

// signLog is the log's signature value over msg (std crypto only): ECDSA -> DER Ecdsa-Sig-Value, RSA -> PKCS#1 v1.5.
func signLog(key crypto.Signer, hash string, msg []byte) (sigCode byte, value []byte) {
	d, h := digestOf(hash, msg)
	switch k := key.(type) {
	case *ecdsa.PrivateKey:
		return 3, must(ecdsa.SignASN1(rand.Reader, k, d))
	case *rsa.PrivateKey:
		return 1, must(rsa.SignPKCS1v15(rand.Reader, k, h, d))
	}
	panic(fmt.Sprintf("signLog %T", key))
}

// stdVerifies tells whether std crypto accepts the exact value (the harness' own check of what it signed).
func stdVerifies(pub crypto.PublicKey, hash string, msg, value []byte) bool {
	d, h := digestOf(hash, msg)
	switch k := pub.(type) {
	case *ecdsa.PublicKey:
		return ecdsa.VerifyASN1(k, d, value)
	case *rsa.PublicKey:
		return rsa.VerifyPKCS1v15(k, h, d, value) == nil
	}
	return false
}

// nonMinimalLen is a length in a form DER forbids: the long form where the short one would do, or a leading zero.
func nonMinimalLen(n int) []byte {
	if n < 128 {
		return []byte{0x81, byte(n)}
	}
	if n < 256 {
		return []byte{0x82, 0x00, byte(n)}
	}
	return []byte{0x83, 0x00, byte(n >> 8), byte(n)}
}

// sigForm presents a signature value in one of the forms of Precert.tla (SigForms).  key / hash are the log's, for the
// form that appends a second genuine signature.
func sigForm(form, scheme string, value []byte, key crypto.Signer, hash string) []byte {
	cp := append([]byte{}, value...)
	switch form {
	case "exact":
		return cp
	case "trail00":
		return append(cp, 0x00)
	case "trail0000":
		return append(cp, 0x00, 0x00)
	case "trailFF":
		return append(cp, 0xff)
	case "trail32":
		d := sha256.Sum256(value)
		return append(cp, d[:]...)
	case "trailSig":
		_, second := signLog(key, hash, []byte("some other message"))
		return append(cp, second...)
	case "cut":
		return cp[:len(cp)-1]
	}
	if scheme != "ecdsa" {
		panic("harness: form " + form + " for scheme " + scheme)
	}
	// the DER forms: take the value apart into the two INTEGER elements
	in := cryptobyte.String(value)
	var body, r, s cryptobyte.String
	if !in.ReadASN1(&body, cbasn1.SEQUENCE) || !in.Empty() || !body.ReadASN1Element(&r, cbasn1.INTEGER) || !body.ReadASN1Element(&s, cbasn1.INTEGER) || !body.Empty() {
		panic("harness: own ECDSA value does not parse")
	}
	switch form {
	case "inner": // a NULL after s INSIDE the SEQUENCE
		return tlv(cbasn1.SEQUENCE, append(append(append([]byte{}, r...), s...), 0x05, 0x00))
	case "padded": // r with a superfluous leading 00 octet (X.690 8.3.2)
		var rc cryptobyte.String
		rr := r
		if !rr.ReadASN1(&rc, cbasn1.INTEGER) {
			panic("harness: r")
		}
		// (a positive r starts with an octet below 80, or with the one 00 that is needed: one more is superfluous)
		pr := tlv(cbasn1.INTEGER, append([]byte{0x00}, rc...))
		return tlv(cbasn1.SEQUENCE, append(pr, s...))
	case "longlen": // the SEQUENCE's length not in the minimum number of octets (X.690 10.1)
		content := append(append([]byte{}, r...), s...)
		return append(append([]byte{0x30}, nonMinimalLen(len(content))...), content...)
	}
	panic("harness: signature form " + form)
}
