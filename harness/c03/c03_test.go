package c03

import (
	"bytes"
	"crypto"
	"crypto/sha256"
	"encoding/hex"
	"encoding/json"
	"fmt"
	"io"
	"log"
	"os"
	"runtime"
	"sort"
	"strings"
	"sync"
	"testing"

	ct "github.com/google/certificate-transparency-go"
	"github.com/google/certificate-transparency-go/ctutil"
	"github.com/google/certificate-transparency-go/submission"
	cttls "github.com/google/certificate-transparency-go/tls"
	"github.com/google/certificate-transparency-go/x509"
	"github.com/google/certificate-transparency-go/x509util"

	cbasn1 "golang.org/x/crypto/cryptobyte/asn1"

	"verifharness/ref"
	"verifharness/vh"
)

// Enc are the opaque field encodings of a case.
type Enc struct {
	Serial   string `json:"serial"`
	Validity string `json:"validity"`
	IName    string `json:"iname"`
	SName    string `json:"sname"`
	Key      string `json:"key"`
	IKey     string `json:"ikey"`
	UID      string `json:"uid"`
	UExt     string `json:"uext"` // materialization of the unknown extensions (MCPrecert.tla UExts)
}

var defaultEnc = Enc{"small", "utc", "printable", "printable", "p256", "p256", "none", "std"}

// SctK is an SCT kind of MCPrecert.tla: which log, the form of the signature value, over what the log signed, whether
// the SCT carries extensions.
type SctK struct {
	Log  string `json:"log"`
	Form string `json:"form"`
	Over string `json:"over"`
	Ext  bool   `json:"ext"`
}

func (k SctK) String() string {
	l := logTable[k.Log]
	e := ""
	if k.Ext {
		e = "+ext"
	}
	return fmt.Sprintf("%s-%s-%s/%s/%s%s", l.Scheme, l.Key, l.Hash, k.Form, k.Over, e)
}

// Verdict is the specification's verdict on one SCT: through ctutil.VerifySCT as it stands (plain) and through a
// verifier built with the opt-in to keys outside RFC 6962 2.1.4 (optin).
type Verdict struct {
	Plain bool `json:"plain"`
	Optin bool `json:"optin"`
}

// C is the case of MCPrecert.tla.
type C struct {
	Layout []string `json:"layout"`
	Crit   string   `json:"crit"`
	AKI    string   `json:"aki"`
	Mode   string   `json:"mode"`
	PreAKI string   `json:"preAki"`
	PreEKU bool     `json:"preEku"`
	Enc    Enc      `json:"enc"`
	SCTs   []SctK   `json:"scts"`
}

// Pre is the abstract pre-issuer.
type Pre struct {
	K      string `json:"k"`
	Issuer Name   `json:"issuer"`
	AKI    string `json:"aki"`
	EKU    bool   `json:"eku"`
}

// EntryX is an abstract log entry or an error.
type EntryX struct {
	K   string `json:"k"`
	Why string `json:"why,omitempty"`
	IKH string `json:"ikh,omitempty"`
	TBS *TBS   `json:"tbs,omitempty"`
}

// Case is one exported line: the case and the model's expected abstract results.
type Case struct {
	C          C         `json:"c"`
	T          TBS       `json:"t"`
	Pre        Pre       `json:"pre"`
	Build      TBS       `json:"build"`
	RmPoison   TBS       `json:"rmpoison"`
	RmSCT      TBS       `json:"rmsct"`
	Final      TBS       `json:"final"`
	FinalRmSCT TBS       `json:"finalrmsct"`
	Clause     string    `json:"clause"`
	Chain      EntryX    `json:"chain"`
	Embedded   EntryX    `json:"embedded"`
	SctChain   []Verdict `json:"sctchain"`      // per SCT of c.scts: does it verify for the precertificate route's entry
	SctEmb     []Verdict `json:"sctemb"`        // ... for the embedded route's entry
	Mat        *Enc      `json:"mat,omitempty"` // materialization chosen by the harness for the default tags (replay)
}

func (c *Case) allTBS() []*TBS {
	out := []*TBS{&c.T, &c.Build, &c.RmPoison, &c.RmSCT, &c.Final, &c.FinalRmSCT}
	if c.Chain.TBS != nil {
		out = append(out, c.Chain.TBS)
	}
	if c.Embedded.TBS != nil {
		out = append(out, c.Embedded.TBS)
	}
	return out
}

// remap substitutes another concrete encoding for the (opaque) default field tags, consistently in
// the input and in every expected result: the specification does not look inside them.
func (c *Case) remap(e Enc) {
	for _, t := range c.allTBS() {
		if t.K != "tbs" {
			continue
		}
		t.Serial, t.Validity, t.Key, t.UID, t.Sig = e.Serial, e.Validity, e.Key, e.UID, e.IKey
		if t.Issuer.N == "CA" {
			t.Issuer.Enc = e.IName
		}
		t.Subject.Enc = e.SName
	}
	if c.Pre.K == "pre" {
		c.Pre.Issuer.Enc = e.IName
	}
	c.C.Enc = e
}

var (
	encSerials = []string{"small", "zero", "neg", "long20", "long21", "p127", "p128", "p255", "p256", "p32768", "max20", "m1", "m127", "m128",
		"m255", "m256", "m32768", "m32769", "min20", "min20p1", "neg21"}
	encValidities = []string{"utc", "utc50", "utcgen", "gengen"}
	encINames     = []string{"printable", "utf8", "t61", "bmp", "multirdn", "utf8sp"}
	encSNames     = []string{"printable", "utf8", "t61", "bmp", "multirdn", "utf8sp", "empty"}
	encKeys       = []string{"p256", "p256", "p384", "rsa2048", "ed25519"}
	encIKeys      = []string{"p256", "p256", "p256", "p384", "rsa2048", "ed25519"}
	encUIDs       = []string{"none", "none", "iss", "subj", "both", "issempty"}
	encUExts      = []string{"std", "std", "std", "std", "joint", "a0", "a127", "a128", "a16383", "a16384", "a2097151", "a2097152", "a268435455",
		"a268435456", "amax", "l0", "l1", "l127", "l128", "l255", "l256"}
)

// ---------------------------------------------------------------- hierarchy

type hier struct {
	root, ca, pi          []byte
	rootC, caC, piC       *x509.Certificate
	caKey, piKey, rootKey crypto.Signer
}

type world struct {
	keys  *Keys
	cache map[string]*hier
	ver   map[string]*ct.SignatureVerifier // per log: a verifier built with the opt-in to non-compliant keys
}

func parse(der []byte) (*x509.Certificate, error) {
	c, err := x509.ParseCertificate(der)
	if x509.IsFatal(err) {
		return nil, err
	}
	return c, nil
}

// hierarchy builds ROOT -> CA [-> PI] with the harness' own builder.
func (w *world) hierarchy(ikey, iname, preAki string, preEku, withPI bool) *hier {
	key := fmt.Sprintf("%s/%s/%s/%v/%v", ikey, iname, preAki, preEku, withPI)
	if h, ok := w.cache[key]; ok {
		return h
	}
	m := &Mat{Keys: w.keys}
	h := &hier{caKey: w.keys.Get("CA", ikey), piKey: w.keys.Get("PI", ikey), rootKey: w.keys.Get("ROOT", ikey)}
	rootT := &TBS{K: "tbs", Serial: "small", Sig: ikey, Issuer: Name{"ROOT", "printable"}, Validity: "utc",
		Subject: Name{"ROOT", "printable"}, Key: ikey, UID: "none", XF: true,
		Exts: []Ext{{"BC", true, "ca"}, {"KU", true, "v1"}, {"SKI", false, "k3"}}}
	h.root = Certificate(m.TBSBytes(rootT), ikey, h.rootKey)
	caT := &TBS{K: "tbs", Serial: "long20", Sig: ikey, Issuer: Name{"ROOT", "printable"}, Validity: "utc",
		Subject: Name{"CA", iname}, Key: ikey, UID: "none", XF: true,
		Exts: []Ext{{"BC", true, "ca"}, {"KU", true, "v1"}, {"AKI", false, "k3"}, {"SKI", false, "k2"}}}
	h.ca = Certificate(m.TBSBytes(caT), ikey, h.rootKey)
	var err error
	if h.rootC, err = parse(h.root); err != nil {
		panic("root: " + err.Error())
	}
	if h.caC, err = parse(h.ca); err != nil {
		panic("ca: " + err.Error())
	}
	if withPI {
		eku := Ext{"EKU", true, "v1"}
		if preEku {
			eku.Val = "ct"
		}
		piT := &TBS{K: "tbs", Serial: "other", Sig: ikey, Issuer: Name{"CA", iname}, Validity: "utc",
			Subject: Name{"PI", "printable"}, Key: ikey, UID: "none", XF: true,
			Exts: []Ext{{"BC", true, "ca"}, eku}}
		if preAki != "none" {
			piT.Exts = append(piT.Exts, Ext{"AKI", false, preAki})
		}
		piT.Exts = append(piT.Exts, Ext{"SKI", false, "k1"})
		h.pi = Certificate(m.TBSBytes(piT), ikey, h.caKey)
		if h.piC, err = parse(h.pi); err != nil {
			panic("pi: " + err.Error())
		}
	}
	w.cache[key] = h
	return h
}

// ---------------------------------------------------------------- SCTs

type sctRec struct {
	kind  SctK
	log   string
	hash  byte // RFC 5246 hash code of the signature
	ts    uint64
	ext   []byte
	ds    []byte // DigitallySigned bytes
	bytes []byte // serialized SCT (independent encoder)
	lib   *ct.SignedCertificateTimestamp
}

// makeSCT plays the log: it signs the RFC 6962 3.2 signature input of the entry (or of another entry, kind.Over) with
// the log's key and hash function and delivers the signature value in the form kind.Form.
func (w *world) makeSCT(kind SctK, idx int, entry ref.Entry, wrongIKH []byte) *sctRec {
	li, ok := logTable[kind.Log]
	if !ok {
		panic("harness: log " + kind.Log)
	}
	r := &sctRec{kind: kind, log: kind.Log, ts: 1700000000000 + uint64(idx)*1000, hash: hashCodes[li.Hash]}
	over := entry
	if kind.Ext {
		r.ext = []byte{0xde, 0xad, 0xbe, 0xef, 0x00}
	}
	switch kind.Over {
	case "this":
	case "othertbs": // the log signed another TBSCertificate (one byte of the serial differs)
		o := append([]byte{}, entry.TBS...)
		i := bytes.Index(o, []byte{0x02, 0x01, 0x02}) // version INTEGER 2, the serial follows
		o[i+5] ^= 0x01
		over.TBS = o
	case "otherikh": // ... or the same TBS under another issuer key hash
		over.IssuerKeyHash = wrongIKH
	default:
		panic("harness: sct over " + kind.Over)
	}
	key := w.keys.Log(r.log)
	msg := ref.SCTSignatureInput(r.ts, over, r.ext)
	sigCode, value := signLog(key, li.Hash, msg)
	if !stdVerifies(key.Public(), li.Hash, msg, value) {
		panic("harness: std crypto does not verify the log's own signature")
	}
	sig := sigForm(kind.Form, li.Scheme, value, key, li.Hash)
	r.ds = ref.DigitallySigned(r.hash, sigCode, sig)
	id, _, err := ref.KeyID(key.Public())
	if err != nil {
		panic(err)
	}
	r.bytes = ref.SCT(id, r.ts, r.ext, r.ds)
	r.lib = &ct.SignedCertificateTimestamp{SCTVersion: ct.V1, Timestamp: r.ts, Extensions: r.ext,
		Signature: ct.DigitallySigned{Algorithm: cttls.SignatureAndHashAlgorithm{Hash: cttls.HashAlgorithm(r.hash), Signature: cttls.SignatureAlgorithm(sigCode)}, Signature: sig}}
	copy(r.lib.LogID.KeyID[:], id)
	return r
}

var plainG = SctK{"LOG1", "exact", "this", false}

// epNames: the entry points in a fixed order (harnessEPs is cross-checked against the specification's table).
var epNames = func() []string {
	var out []string
	for n := range harnessEPs {
		out = append(out, n)
	}
	sort.Strings(out)
	return out
}()

// ---------------------------------------------------------------- running one case

type runner struct {
	w      *world
	rep    *vh.Report
	cs     *Case
	idx    int
	single bool // the only case of the run (replay of a violation): nothing is sampled
	// for the replay record
	ders map[string]string
}

func (r *runner) class() string {
	c := r.cs.C
	np, ns := 0, 0
	for _, id := range c.Layout {
		if id == "POISON" {
			np++
		}
		if id == "SCTLIST" {
			ns++
		}
	}
	return fmt.Sprintf("%s:%s:poison=%d:sctlist=%d", c.Mode, r.cs.Clause, np, ns)
}

func (r *runner) violate(site, what string) {
	r.rep.Violate(site+":"+r.class(), fmt.Sprintf("%s [case layout=%v crit=%s mode=%s preAki=%s preEku=%v enc=%+v scts=%v]",
		what, r.cs.C.Layout, r.cs.C.Crit, r.cs.C.Mode, r.cs.C.PreAKI, r.cs.C.PreEKU, r.cs.C.Enc, r.cs.C.SCTs),
		map[string]any{"case": r.cs, "der": r.ders})
}

// guard runs f; a panic inside the code under test is a violation.
func (r *runner) guard(site string, f func()) {
	defer func() {
		if p := recover(); p != nil {
			if s, ok := p.(string); ok && strings.HasPrefix(s, "harness:") {
				panic(p)
			}
			r.rep.Violate("panic:"+site, fmt.Sprintf("panic in %s: %v", site, p), map[string]any{"case": r.cs, "der": r.ders})
		}
	}()
	f()
}

// checkBytes compares an API result with the specification's expectation materialized by the builder.
func (r *runner) checkBytes(site string, got []byte, err error, want *TBS, m *Mat) {
	if want.IsErr() {
		r.rep.Add("expected_errors_"+want.Why, 1)
		if err == nil {
			r.violate(site+":accepted", fmt.Sprintf("%s succeeds where the specification demands an error (%s)", site, want.Why))
		}
		return
	}
	if err != nil {
		r.violate(site+":rejected", fmt.Sprintf("%s fails (%v) where the specification gives a result", site, err))
		return
	}
	exp := m.TBSBytes(want)
	r.rep.Add("tbs_byte_comparisons", 1)
	if !bytes.Equal(got, exp) {
		r.violate(site+":bytes", fmt.Sprintf("%s: result differs from the independently built TBSCertificate at byte %d, first in: %s (got %d bytes, want %d)\n got  %x\n want %x",
			site, firstDiff(got, exp), whichField(got, exp), len(got), len(exp), clip(got), clip(exp)))
	}
}

// whichField names the first TBSCertificate field in which got differs from want (diagnostics only).
func whichField(got, want []byte) string {
	w, err := ref.SplitTBS(want)
	if err != nil {
		return "?"
	}
	g, err := ref.SplitTBS(got)
	if err != nil {
		return "the result is not a DER TBSCertificate (" + err.Error() + ")"
	}
	names := func(parts [][]byte, ns []string) []string {
		if len(parts) < len(ns) { // no version element
			return ns[len(ns)-len(parts):]
		}
		return ns
	}
	cmp := func(a, b [][]byte, ns []string) string {
		for i := range b {
			n := fmt.Sprintf("element %d", i)
			if i < len(ns) {
				n = ns[i]
			}
			if i >= len(a) || !bytes.Equal(a[i], b[i]) {
				return n
			}
		}
		if len(a) != len(b) {
			return "number of elements"
		}
		return ""
	}
	if f := cmp(g.Pre, w.Pre, names(w.Pre, []string{"version", "serialNumber", "signature"})); f != "" {
		return f
	}
	if !bytes.Equal(g.Issuer, w.Issuer) {
		return "issuer"
	}
	if f := cmp(g.Mid, w.Mid, []string{"validity", "subject", "subjectPublicKeyInfo", "uniqueID", "uniqueID"}); f != "" {
		return f
	}
	for i := range w.Exts {
		if i >= len(g.Exts) || !bytes.Equal(g.Exts[i], w.Exts[i]) {
			return fmt.Sprintf("extension %d", i)
		}
	}
	if len(g.Exts) != len(w.Exts) {
		return "number of extensions"
	}
	return "an enclosing length"
}

// clip keeps messages about 64 KB certificates readable.
func clip(b []byte) []byte {
	if len(b) > 2048 {
		return b[:2048]
	}
	return b
}

func firstDiff(a, b []byte) int {
	for i := 0; i < len(a) && i < len(b); i++ {
		if a[i] != b[i] {
			return i
		}
	}
	if len(a) < len(b) {
		return len(a)
	}
	return len(b)
}

// untouched states OthersUntouched on the bytes without the builder: the output's verbatim DER elements are
// the input's with exactly one extension element - carrying the targeted OID - deleted.
func (r *runner) untouched(site string, in, out []byte, oid []byte) {
	a, err := ref.SplitTBS(in)
	if err != nil {
		panic("harness: own TBS does not split: " + err.Error())
	}
	b, err := ref.SplitTBS(out)
	if err != nil {
		r.violate(site+":unsplittable", site+": output is not a well-formed TBSCertificate: "+err.Error())
		return
	}
	eq := func(x, y [][]byte) bool {
		if len(x) != len(y) {
			return false
		}
		for i := range x {
			if !bytes.Equal(x[i], y[i]) {
				return false
			}
		}
		return true
	}
	if !eq(a.Pre, b.Pre) || !bytes.Equal(a.Issuer, b.Issuer) || !eq(a.Mid, b.Mid) {
		r.violate(site+":field-touched", site+": a field other than the extensions changed")
		return
	}
	if len(b.Exts) != len(a.Exts)-1 {
		r.violate(site+":ext-count", fmt.Sprintf("%s: %d extensions in, %d out", site, len(a.Exts), len(b.Exts)))
		return
	}
	for i := range a.Exts {
		rest := append(append([][]byte{}, a.Exts[:i]...), a.Exts[i+1:]...)
		if bytes.Equal(a.ExtOIDs[i], oid) && eq(rest, b.Exts) {
			return
		}
	}
	r.violate(site+":ext-touched", site+": output extensions are not the input's with the targeted one deleted")
}

func (r *runner) entryOf(e *EntryX, h *hier, m *Mat) (ref.Entry, bool) {
	if e.K != "entry" {
		return ref.Entry{}, false
	}
	var pub crypto.PublicKey
	switch e.IKH {
	case "caKey":
		pub = h.caKey.Public()
	case "preKey":
		pub = h.piKey.Public()
	case "rootKey":
		pub = h.rootKey.Public()
	default:
		panic("harness: ikh " + e.IKH)
	}
	ikh := sha256.Sum256(SPKI(pub))
	return ref.Entry{Type: ref.PrecertEntry, IssuerKeyHash: ikh[:], TBS: m.TBSBytes(e.TBS)}, true
}

func (r *runner) checkLeaf(site string, leaf *ct.MerkleTreeLeaf, err error, want ref.Entry, ok bool, ts uint64) {
	if !ok {
		if err == nil {
			r.violate(site+":accepted", site+" builds a leaf where the specification demands an error")
		}
		return
	}
	if err != nil {
		r.violate(site+":rejected", fmt.Sprintf("%s fails (%v) where the specification gives an entry", site, err))
		return
	}
	te := leaf.TimestampedEntry
	if te == nil || te.PrecertEntry == nil || te.EntryType != ct.PrecertLogEntryType || te.Timestamp != ts ||
		leaf.Version != ct.V1 || leaf.LeafType != ct.TimestampedEntryLeafType || te.X509Entry != nil || len(te.Extensions) != 0 {
		r.violate(site+":shape", site+": leaf is not a v1 timestamped precert entry with the given timestamp")
		return
	}
	if !bytes.Equal(te.PrecertEntry.IssuerKeyHash[:], want.IssuerKeyHash) {
		r.violate(site+":issuer-key-hash", site+": issuer_key_hash is not the SHA-256 of the final issuer's SubjectPublicKeyInfo")
	}
	if !bytes.Equal(te.PrecertEntry.TBSCertificate, want.TBS) {
		r.violate(site+":tbs", fmt.Sprintf("%s: tbs_certificate differs from the independently built one at byte %d, first in: %s\n got  %x\n want %x",
			site, firstDiff(te.PrecertEntry.TBSCertificate, want.TBS), whichField(te.PrecertEntry.TBSCertificate, want.TBS), clip(te.PrecertEntry.TBSCertificate), clip(want.TBS)))
	}
	if b, err := cttls.Marshal(*leaf); err != nil || !bytes.Equal(b, ref.MerkleTreeLeaf(ts, want, nil)) {
		r.violate(site+":leaf-bytes", fmt.Sprintf("%s: serialized MerkleTreeLeaf differs from RFC 6962 3.4 (%v)", site, err))
	}
}

// leafHash is SHA-256(0x00 || MerkleTreeLeaf).  ctutil.LeafHash builds the leaf from the SCT's timestamp only
// (TimestampedEntry.extensions stays empty also for an SCT that carries extensions); C03 is about the entry, so
// the expectation here follows the code in that respect and the SCT extensions are left to C04.
func leafHash(ts uint64, e ref.Entry, ext []byte) [32]byte {
	return sha256.Sum256(append([]byte{0}, ref.MerkleTreeLeaf(ts, e, ext)...))
}

func raws(ders ...[]byte) []ct.ASN1Cert {
	out := make([]ct.ASN1Cert, len(ders))
	for i, d := range ders {
		out[i] = ct.ASN1Cert{Data: d}
	}
	return out
}

func (r *runner) run() {
	cs := r.cs
	c := cs.C
	withPI := c.Mode == "pre"
	h := r.w.hierarchy(cs.T.Sig, c.Enc.IName, c.PreAKI, c.PreEKU, withPI)
	m := &Mat{Keys: r.w.keys, UExt: c.Enc.UExt}
	tDER := m.TBSBytes(&cs.T)
	r.ders = map[string]string{"tbs": hex.EncodeToString(tDER), "ca": hex.EncodeToString(h.ca), "root": hex.EncodeToString(h.root)}
	if withPI {
		r.ders["pi"] = hex.EncodeToString(h.pi)
	}

	// ---- A. the three TBS transformations
	r.guard("RemoveCTPoison", func() {
		got, err := x509.RemoveCTPoison(tDER)
		r.checkBytes("RemoveCTPoison", got, err, &cs.RmPoison, m)
		if err == nil {
			r.untouched("RemoveCTPoison", tDER, got, oidPoison)
		}
	})
	r.guard("RemoveSCTList", func() {
		got, err := x509.RemoveSCTList(tDER)
		r.checkBytes("RemoveSCTList", got, err, &cs.RmSCT, m)
		if err == nil {
			r.untouched("RemoveSCTList", tDER, got, oidSCTList)
		}
	})
	r.guard("BuildPrecertTBS", func() {
		var pre *x509.Certificate
		if withPI {
			pre = h.piC
		}
		got, err := x509.BuildPrecertTBS(tDER, pre)
		r.checkBytes("BuildPrecertTBS", got, err, &cs.Build, m)
		if err == nil && !withPI {
			r.untouched("BuildPrecertTBS", tDER, got, oidPoison)
		}
	})

	// ---- B. the precertificate route
	signer, issuerDER, issuerC := h.caKey, h.ca, h.caC
	if withPI {
		signer, issuerDER, issuerC = h.piKey, h.pi, h.piC
	}
	preDER := Certificate(tDER, cs.T.Sig, signer)
	r.ders["precert"] = hex.EncodeToString(preDER)
	chainDER := [][]byte{preDER, issuerDER}
	if withPI {
		chainDER = append(chainDER, h.ca)
	}
	chainDER = append(chainDER, h.root)
	preC, perr := parse(preDER)
	wantChain, chainOK := r.entryOf(&cs.Chain, h, m)
	var wrongIKH []byte
	{
		var pub crypto.PublicKey = h.rootKey.Public()
		if withPI { // the tempting wrong answer: the other one of pre-issuer key / CA key
			pub = h.piKey.Public()
			if cs.Chain.IKH == "preKey" {
				pub = h.caKey.Public()
			}
		}
		x := sha256.Sum256(SPKI(pub))
		wrongIKH = x[:]
	}
	const ts0 = 1600000000123
	var chainC []*x509.Certificate
	if perr != nil {
		r.rep.Add("precert_refused_by_parser", 1)
		// the repository's parser refuses the precertificate outright: the raw-chain route must then fail too
		if chainOK {
			r.violate("ParseCertificate:precert", "x509.ParseCertificate rejects a precertificate the specification accepts: "+perr.Error())
		}
	} else {
		chainC = []*x509.Certificate{preC, issuerC}
		if withPI {
			chainC = append(chainC, h.caC)
		}
		chainC = append(chainC, h.rootC)
		if !bytes.Equal(preC.RawTBSCertificate, tDER) || !bytes.Equal(preC.Raw, preDER) {
			// (clause OwnOctetsOnly: the reader reports another certificate than the one handed in)
			r.violate("readback:ParseCertificate:raw:precert", "x509.ParseCertificate(precertificate): Raw / RawTBSCertificate are not the octets handed in")
			chainC = nil
		} else {
			r.guard("MerkleTreeLeafFromChain", func() {
				leaf, err := ct.MerkleTreeLeafFromChain(chainC, ct.PrecertLogEntryType, ts0)
				r.checkLeaf("MerkleTreeLeafFromChain", leaf, err, wantChain, chainOK, ts0)
			})
		}
	}
	r.guard("MerkleTreeLeafFromRawChain", func() {
		leaf, err := ct.MerkleTreeLeafFromRawChain(raws(chainDER...), ct.PrecertLogEntryType, ts0)
		r.checkLeaf("MerkleTreeLeafFromRawChain", leaf, err, wantChain, chainOK, ts0)
	})

	// a second, chain-only derivation of the same entry (ref.EntryForChain knows nothing of the specification);
	// it is defined where RFC 6962 prescribes the result and the extension list stays non-empty
	poisonCritical := false
	for _, e := range cs.T.Exts {
		if e.ID == "POISON" && e.Crit {
			poisonCritical = true // RFC 6962 3.1: the poison is critical; EntryForChain recognizes only that
		}
	}
	if chainOK && poisonCritical && len(cs.Chain.TBS.Exts) > 0 && (cs.Clause == "Direct" || cs.Clause == "AkiReplaced" || cs.Clause == "AkiAbsent" || !c.PreEKU) {
		e2, err := ref.EntryForChain(chainDER, withPI && c.PreEKU)
		if err != nil || !bytes.Equal(e2.TBS, wantChain.TBS) || !bytes.Equal(e2.IssuerKeyHash, wantChain.IssuerKeyHash) {
			panic(fmt.Sprintf("harness: the two independent derivations of the entry disagree (%v) for %+v", err, c))
		}
		r.rep.Add("cross_checked_with_EntryForChain", 1)
	}

	// SCTs over the entry an independent log computes for this precertificate
	var scts []*sctRec
	if chainOK {
		for i, k := range c.SCTs {
			scts = append(scts, r.w.makeSCT(k, i, wantChain, wrongIKH))
		}
	}
	npoison := 0
	for _, id := range c.Layout {
		if id == "POISON" {
			npoison++
		}
	}
	if chainOK && len(cs.SctChain) != len(scts) {
		panic("harness: the case carries no verdicts for its SCTs (sctchain)")
	}
	if chainC != nil && npoison > 0 {
		if chainOK {
			for i, s := range scts {
				r.verifySCT("VerifySCT(precert)", i, s, chainC, false, cs.SctChain[i])
				r.guard("LeafHash(precert)", func() {
					got, err := ctutil.LeafHash(chainC, s.lib, false)
					if err != nil || got != leafHash(s.ts, wantChain, nil) {
						r.violate("LeafHash(precert)", fmt.Sprintf("ctutil.LeafHash for the precertificate chain is not SHA-256(0x00 || MerkleTreeLeaf) of the independent entry (%v)", err))
					}
				})
			}
		} else {
			r.guard("VerifySCT(precert)", func() {
				dummy := r.w.makeSCT(plainG, 0, ref.Entry{Type: ref.PrecertEntry, IssuerKeyHash: wrongIKH, TBS: tDER}, wrongIKH)
				if err := ctutil.VerifySCT(r.w.keys.Log("LOG1").Public(), chainC, dummy.lib, false); err == nil {
					r.violate("VerifySCT(precert):accepted", "VerifySCT succeeds for a precertificate for which no entry exists")
				}
			})
		}
	}

	// ---- D. SCT list helpers (independent of the certificate)
	if len(scts) > 0 {
		r.sctListChecks(scts)
	}

	// ---- C. the embedded-SCT route
	if cs.Final.IsErr() || !chainOK || (withPI && !c.PreEKU) {
		r.rep.Eval(r.key())
		return
	}
	var ser [][]byte
	for _, s := range scts {
		ser = append(ser, s.bytes)
	}
	m.SCTList = ref.SCTList(ser...)
	fDER := m.TBSBytes(&cs.Final)
	finalDER := Certificate(fDER, cs.T.Sig, h.caKey)
	r.ders["final"] = hex.EncodeToString(finalDER)
	wantEmb, embOK := r.entryOf(&cs.Embedded, h, m)
	if embOK && (!bytes.Equal(wantEmb.TBS, wantChain.TBS) || !bytes.Equal(wantEmb.IssuerKeyHash, wantChain.IssuerKeyHash)) {
		panic("harness: the specification's two routes materialize differently")
	}
	r.guard("RemoveSCTList(final)", func() {
		got, err := x509.RemoveSCTList(fDER)
		r.checkBytes("RemoveSCTList(final)", got, err, &cs.FinalRmSCT, m)
		if err == nil {
			r.untouched("RemoveSCTList(final)", fDER, got, oidSCTList)
			if chainOK && !bytes.Equal(got, wantChain.TBS) {
				r.violate("routes-differ:tbs", "RemoveSCTList(final certificate) is not the TBSCertificate logged for the precertificate")
			}
		}
	})
	finalC, ferr := parse(finalDER)
	if ferr != nil {
		if embOK {
			r.violate("ParseCertificate:final", "x509.ParseCertificate rejects a final certificate the specification accepts: "+ferr.Error())
		}
		r.rep.Eval(r.key())
		return
	}
	chainF := []*x509.Certificate{finalC, h.caC, h.rootC}
	r.rep.Add("embedded_route_"+r.cs.Clause, 1)
	r.guard("MerkleTreeLeafForEmbeddedSCT", func() {
		leaf, err := ct.MerkleTreeLeafForEmbeddedSCT(chainF, ts0)
		r.checkLeaf("MerkleTreeLeafForEmbeddedSCT", leaf, err, wantEmb, embOK, ts0)
		if err == nil && chainC != nil {
			if l2, err2 := ct.MerkleTreeLeafFromChain(chainC, ct.PrecertLogEntryType, ts0); err2 == nil {
				b1, _ := cttls.Marshal(*leaf)
				b2, _ := cttls.Marshal(*l2)
				if !bytes.Equal(b1, b2) {
					r.violate("routes-differ:leaf", "the leaf computed from the precertificate chain and the one computed from the final certificate differ")
				}
			}
		}
	})
	if embOK && len(cs.SctEmb) != len(scts) {
		panic("harness: the case carries no verdicts for its SCTs (sctemb)")
	}
	for i, s := range scts {
		want := Verdict{}
		if embOK {
			want = cs.SctEmb[i]
		}
		r.rep.Add(fmt.Sprintf("embedded_sct_expected_valid_%v", want.Optin), 1)
		r.verifySCT("VerifySCT(embedded)", i, s, chainF, true, want)
		if embOK {
			r.guard("LeafHash(embedded)", func() {
				got, err := ctutil.LeafHash(chainF, s.lib, true)
				if err != nil || got != leafHash(s.ts, wantEmb, nil) {
					r.violate("LeafHash(embedded)", fmt.Sprintf("ctutil.LeafHash for the final certificate is not the leaf hash of the precertificate entry (%v)", err))
				}
			})
		}
	}
	r.guard("VerifySCT(embedded)", func() {
		// a perfectly valid SCT of the same log for the same entry that is not in the list is "not embedded"
		other := r.w.makeSCT(plainG, 17, wantChain, wrongIKH)
		if err := ctutil.VerifySCT(r.w.keys.Log("LOG1").Public(), chainF, other.lib, true); err == nil {
			r.violate("VerifySCT(embedded):not-embedded", "an SCT that is not in the certificate is accepted as embedded")
		}
	})
	// the list read back from the parsed certificate
	r.guard("ParseSCTsFromCertificate", func() {
		if embOK {
			if !bytes.Equal(finalC.RawSCT, m.SCTList) {
				r.violate("RawSCT", "Certificate.RawSCT is not the embedded SignedCertificateTimestampList")
			}
			if len(finalC.SCTList.SCTList) != len(scts) {
				r.violate("SCTList:len", fmt.Sprintf("Certificate.SCTList has %d elements, %d were embedded", len(finalC.SCTList.SCTList), len(scts)))
			} else {
				for i := range scts {
					if !bytes.Equal(finalC.SCTList.SCTList[i].Val, scts[i].bytes) {
						r.violate("SCTList:element", fmt.Sprintf("Certificate.SCTList element %d is not the %d-th embedded SCT", i, i))
					}
				}
			}
			got, err := x509util.ParseSCTsFromCertificate(finalDER)
			r.sameSCTs("ParseSCTsFromCertificate", got, err, scts)
		}
	})
	// ... by every entry point of the specification (Precert.tla EntryPoints, clause OwnOctetsOnly), the final
	// certificate standing first, in the middle or last among its issuer and the root
	if embOK {
		fin := &rbCert{class: "sct", label: "final", der: finalDER, tbs: fDER, version: 3, keyType: cs.T.Key,
			list: m.SCTList, scts: scts, alone: finalC, noExts: len(cs.Final.Exts) == 0}
		for _, e := range cs.Final.Exts {
			oid, _ := m.extValue(e)
			fin.extOIDs = append(fin.extOIDs, oid)
		}
		ca := &rbCert{class: "exts", label: "issuer", der: h.ca, tbs: h.caC.RawTBSCertificate, alone: h.caC, version: 3}
		root := &rbCert{class: "exts", label: "root", der: h.root, tbs: h.rootC.RawTBSCertificate, alone: h.rootC, version: 3}
		seqs := [][]*rbCert{{fin, ca, root}, {ca, fin, root}, {root, ca, fin}}
		certs := seqs[r.idx%3]
		// (a third of the entry points per case, every entry point in a third of the cases; all of them when a
		// single case is replayed)
		for i, name := range epNames {
			if r.single || (i+r.idx/3)%3 == 0 {
				readBack(name, harnessEPs[name], certs, nil, r.rep, r.w.keys, r.violate)
			}
		}
	}
	r.rep.Eval(r.key())
}

// verifySCT compares the code's verdicts on one SCT with the specification's: ctutil.VerifySCT as it stands (a
// verifier for a key outside RFC 6962 2.1.4 is refused) and ctutil.VerifySCTWithVerifier with a verifier that was
// built under the opt-in; never under another log's key.
func (r *runner) verifySCT(site string, i int, s *sctRec, chain []*x509.Certificate, embedded bool, want Verdict) {
	r.guard(site, func() {
		pub := r.w.keys.Log(s.log).Public()
		err := ctutil.VerifySCT(pub, chain, s.lib, embedded)
		r.rep.Add("sct_verdicts_"+s.kind.Form, 1)
		if (err == nil) != want.Plain {
			r.violate(fmt.Sprintf("%s:%s", site, s.kind), fmt.Sprintf("%s: SCT %d (%s) verifies=%v, the specification says %v: the log signed this entry and delivered a signature value = %v, RFC 6962 2.1.4 key = %v (%v)",
				site, i, s.kind, err == nil, want.Plain, want.Optin, logTable[s.log].Compliant, err))
		}
		// (for a key of RFC 6962 2.1.4 ctutil.VerifySCT is NewSignatureVerifier + VerifySCTWithVerifier: the same path)
		if v := r.w.ver[s.log]; v != nil && !logTable[s.log].Compliant {
			err := ctutil.VerifySCTWithVerifier(v, chain, s.lib, embedded)
			if (err == nil) != want.Optin {
				r.violate(fmt.Sprintf("%s:optin:%s", site, s.kind), fmt.Sprintf("%s (verifier with opt-in): SCT %d (%s) verifies=%v, the log signed this entry and delivered a signature value=%v (%v)",
					site, i, s.kind, err == nil, want.Optin, err))
			}
		}
		if i == 0 || s.kind.Form != "exact" {
			if err := ctutil.VerifySCT(r.w.keys.Log("LOGX").Public(), chain, s.lib, embedded); err == nil {
				r.violate(site+":otherlog", site+": SCT verifies under another log's key")
			}
		}
	})
}

func (r *runner) key() string {
	c := r.cs.C
	return fmt.Sprintf("%s/%s/%s/%v/%s/%+v/%v", strings.Join(c.Layout, ","), c.Crit, c.Mode, c.PreEKU, c.PreAKI, c.Enc, c.SCTs)
}

func (r *runner) sameSCTs(site string, got []*ct.SignedCertificateTimestamp, err error, want []*sctRec) {
	compareSCTs(r.w.keys, site, got, err, want, r.violate)
}

// compareSCTs: the parsed SCTs are the embedded ones, element for element (log, timestamp, extensions, algorithms,
// signature octets).
func compareSCTs(keys *Keys, site string, got []*ct.SignedCertificateTimestamp, err error, want []*sctRec, viol func(fp, what string)) {
	if err != nil {
		viol(site+":rejected", site+": "+err.Error())
		return
	}
	if len(got) != len(want) {
		viol(site+":len", fmt.Sprintf("%s returns %d SCTs, %d were embedded", site, len(got), len(want)))
		return
	}
	for i, g := range got {
		w := want[i]
		id, _, _ := ref.KeyID(keys.Log(w.log).Public())
		_, sa, sig, _ := ref.ParseDigitallySigned(w.ds)
		if g == nil || g.SCTVersion != ct.V1 || !bytes.Equal(g.LogID.KeyID[:], id) || g.Timestamp != w.ts || !bytes.Equal(g.Extensions, w.ext) ||
			byte(g.Signature.Algorithm.Hash) != w.hash || byte(g.Signature.Algorithm.Signature) != sa || !bytes.Equal(g.Signature.Signature, sig) {
			viol(site+":element", fmt.Sprintf("%s: element %d is not the %d-th embedded SCT", site, i, i))
			return
		}
	}
}

func (r *runner) sctListChecks(scts []*sctRec) {
	var libs []*ct.SignedCertificateTimestamp
	var assigned []*submission.AssignedSCT
	var ser [][]byte
	for _, s := range scts {
		libs = append(libs, s.lib)
		assigned = append(assigned, &submission.AssignedSCT{LogURL: "https://" + s.log + ".example/", SCT: s.lib})
		ser = append(ser, s.bytes)
	}
	want := ref.SCTList(ser...)
	r.guard("MarshalSCTsIntoSCTList", func() {
		l, err := x509util.MarshalSCTsIntoSCTList(libs)
		if err != nil {
			r.violate("MarshalSCTsIntoSCTList:rejected", "MarshalSCTsIntoSCTList: "+err.Error())
			return
		}
		if len(l.SCTList) != len(scts) {
			r.violate("MarshalSCTsIntoSCTList:len", "MarshalSCTsIntoSCTList changes the number of SCTs")
			return
		}
		for i := range scts {
			if !bytes.Equal(l.SCTList[i].Val, scts[i].bytes) {
				r.violate("MarshalSCTsIntoSCTList:element", fmt.Sprintf("MarshalSCTsIntoSCTList: element %d is not the serialized %d-th SCT", i, i))
			}
		}
		b, err := cttls.Marshal(*l)
		if err != nil || !bytes.Equal(b, want) {
			r.violate("MarshalSCTsIntoSCTList:bytes", fmt.Sprintf("the TLS encoding of the SCT list differs from RFC 6962 3.3 (%v)", err))
		}
		back, err := x509util.ParseSCTsFromSCTList(l)
		r.sameSCTs("ParseSCTsFromSCTList", back, err, scts)
	})
	r.guard("ASN1MarshalSCTs", func() {
		b, err := submission.ASN1MarshalSCTs(assigned)
		if err != nil || !bytes.Equal(b, tlv(cbasn1.OCTET_STRING, want)) {
			r.violate("ASN1MarshalSCTs:bytes", fmt.Sprintf("ASN1MarshalSCTs is not OCTET STRING(SignedCertificateTimestampList) (%v)", err))
		}
	})
}

// ---------------------------------------------------------------- driver

func pick(rng interface{ Intn(int) int }, xs []string) string { return xs[rng.Intn(len(xs))] }

// runAll executes the cases on all cores; rounds > 1 replays them again under other materializations.
func runAll(t *testing.T, path string, rep *vh.Report, keys *Keys, ver map[string]*ct.SignatureVerifier, rounds int, randomize bool) int {
	n := 0
	for round := 0; round < rounds; round++ {
		cases, err := vh.LoadNDJSON[Case](path)
		if err != nil {
			t.Fatal(err)
		}
		n = len(cases)
		// choose materializations before the parallel part (deterministic in the seed)
		rng := vh.Rand(int64(3 + round))
		for i := range cases {
			cs := &cases[i]
			if cs.Mat != nil {
				cs.remap(*cs.Mat)
				continue
			}
			if randomize && cs.C.Enc == defaultEnc && (round > 0 || rng.Intn(3) > 0) {
				e := Enc{pick(rng, encSerials), pick(rng, encValidities), pick(rng, encINames), pick(rng, encSNames),
					pick(rng, encKeys), pick(rng, encIKeys), pick(rng, encUIDs), pick(rng, encUExts)}
				cs.Mat = &e
				cs.remap(e)
			}
		}
		var wg sync.WaitGroup
		ch := make(chan int)
		for k := 0; k < runtime.NumCPU(); k++ {
			wg.Add(1)
			go func() {
				defer wg.Done()
				w := &world{keys: keys, cache: map[string]*hier{}, ver: ver}
				for i := range ch {
					r := &runner{w: w, rep: rep, cs: &cases[i], idx: i, single: len(cases) == 1}
					func() {
						defer func() {
							if p := recover(); p != nil {
								t.Errorf("harness panic in case %d: %v", i, p)
							}
						}()
						r.run()
					}()
				}
			}()
		}
		for i := range cases {
			ch <- i
		}
		close(ch)
		wg.Wait()
		if round == 0 && len(cases) > 0 {
			for _, i := range []int{0, len(cases) / 2} {
				b, _ := json.Marshal(cases[i].C)
				rep.Sample(json.RawMessage(b))
			}
		}
	}
	return n
}

// optInVerifiers builds one ct.SignatureVerifier per log with the process-wide opt-in to keys outside RFC 6962 2.1.4
// switched on, and switches it off again: before anything runs in parallel, so ctutil.VerifySCT is observed in its
// default state throughout.
func optInVerifiers(rep *vh.Report, keys *Keys) map[string]*ct.SignatureVerifier {
	out := map[string]*ct.SignatureVerifier{}
	ct.AllowVerificationWithNonCompliantKeys = true
	defer func() { ct.AllowVerificationWithNonCompliantKeys = false }()
	for name, li := range logTable {
		v, err := ct.NewSignatureVerifier(keys.Log(name).Public())
		if err != nil {
			rep.Violate("NewSignatureVerifier:optin:"+li.Scheme+"-"+li.Key, fmt.Sprintf("no verifier for a %s log key although the caller opted in to keys outside RFC 6962 2.1.4: %v", li.Key, err), nil)
			continue
		}
		out[name] = v
	}
	return out
}

// TestReplay materializes every case exported by MCPrecert (VERIF_CASES) and compares the repository's
// functions with the specification's expected results.
func TestReplay(t *testing.T) {
	path := os.Getenv("VERIF_CASES")
	if path == "" {
		t.Skip("VERIF_CASES not set")
	}
	rep := vh.NewReport("c03-replay", "every case of MCPrecert.tla (extension layout x criticality x issuer mode x AKI presence x field encodings incl. serial numbers by value and unknown-extension identifiers / lengths at the DER boundaries x SCT list of kinds log key / hash x signature form x signed entry) is DER-encoded by the harness' own builder, signed with real keys and run through BuildPrecertTBS/RemoveCTPoison/RemoveSCTList, MerkleTreeLeafFromChain/FromRawChain/ForEmbeddedSCT, VerifySCT / VerifySCTWithVerifier, LeafHash and the SCT list helpers; results compared byte for byte with the builder applied to the model's expected abstract TBS, SCT verdicts with the model's; non-trivial = distinct (case, materialization)")
	log.SetOutput(io.Discard) // the library logs a line per non-compliant key and per trailing octet string
	keys := NewKeys()
	ver := optInVerifiers(rep, keys)
	// the specification's DER primitives against the harness' own materialization
	if dp := os.Getenv("VERIF_DER"); dp != "" {
		tabs, err := vh.LoadNDJSON[DERTable](dp)
		if err != nil || len(tabs) != 1 {
			t.Fatalf("DER table: %v (%d records)", err, len(tabs))
		}
		if err := CheckDERTable(&tabs[0]); err != nil {
			t.Fatalf("the specification's DER primitives and the harness' builder disagree: %v", err)
		}
		rep.Add("der_table_entries_checked", len(tabs[0].Serials)+len(tabs[0].Lens)+len(tabs[0].Arcs)+len(tabs[0].Logs))
	}
	rep.Replayed = runAll(t, path, rep, keys, ver, vh.EnvInt("VERIF_ROUNDS", 1), os.Getenv("VERIF_RANDOMIZE") != "0")
	if err := rep.Write(); err != nil {
		t.Fatal(err)
	}
	// the binding binds: cases whose expected values were corrupted by the driver must be flagged, each of them
	if cp := os.Getenv("VERIF_CANARY"); cp != "" {
		canaries, err := vh.LoadNDJSON[Case](cp)
		if err != nil {
			t.Fatal(err)
		}
		for i := range canaries {
			crep := vh.NewReport("canary", "")
			w := &world{keys: keys, cache: map[string]*hier{}, ver: ver}
			r := &runner{w: w, rep: crep, cs: &canaries[i], idx: i, single: true}
			flagged := false
			func() {
				defer func() {
					if p := recover(); p != nil {
						flagged = true // the harness' two independent oracles disagree: the corruption was noticed there
					}
				}()
				r.run()
			}()
			if len(crep.Violations) == 0 && !flagged {
				t.Fatalf("canary %d (corrupted expectation) was not flagged: the comparison does not bind", i)
			}
		}
	}
}
