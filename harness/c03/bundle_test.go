package c03

// bundle_test.go binds the reading clause of spec/codec/Precert.tla (OwnOctetsOnly: what a reader reports about a
// certificate is a function of that certificate's own octets - by whichever entry point it is parsed, whatever was
// parsed before it or next to it) to the repository's readers: x509.ParseCertificate, ParseCertificates (DER
// bundle), ParseTBSCertificate, x509util.CertificateFromPEM, CertificatesFromPEM, ParseSCTsFromCertificate (DER and
// PEM), (*ct.MerkleTreeLeaf).X509Certificate / Precertificate, ParseSCTsFromSCTList, ctutil.ContainsSCT.
//
// readBack is the core: a sequence of certificates with what each must read back (the embedded SCT list element for
// element, the extension identifiers in order, the version, the key type - all from the harness' own builder and the
// specification's expectation, nothing from the repository) goes through one entry point, cut into calls as the
// specification says (CallsOf); every position is compared with the expectation and, field by field, with what
// x509.ParseCertificate reported for the same octets alone.  TestBundle feeds it the bundles of MCPrecertBundle.tla;
// the replay of MCPrecert.tla (c03_test.go) feeds it the chain of every final certificate.

import (
	"bytes"
	"crypto/sha256"
	"encoding/hex"
	"encoding/json"
	"encoding/pem"
	"fmt"
	"io"
	"log"
	"os"
	"reflect"
	"runtime"
	"sort"
	"strings"
	"sync"
	"testing"

	ct "github.com/google/certificate-transparency-go"
	"github.com/google/certificate-transparency-go/ctutil"
	"github.com/google/certificate-transparency-go/x509"
	"github.com/google/certificate-transparency-go/x509util"

	"verifharness/ref"
	"verifharness/vh"
)

// rbCert is one certificate to be read back.
type rbCert struct {
	class   string // fingerprint class: noexts, emptyexts, exts, sct
	label   string
	der     []byte
	tbs     []byte
	extOIDs [][]byte // expected extension identifiers (content octets) in order; nil: not asserted
	noExts  bool     // extOIDs is asserted and empty
	version int      // 0: not asserted
	keyType string   // "": not asserted
	list    []byte   // the embedded SignedCertificateTimestampList; nil: no SCT list was embedded
	scts    []*sctRec
	alone   *x509.Certificate // x509.ParseCertificate(der) in a call of its own
}

func pemOf(der []byte) []byte {
	return pem.EncodeToMemory(&pem.Block{Type: "CERTIFICATE", Bytes: der})
}

// rbGot is what an entry point returned for one position.
type rbGot struct {
	cert *x509.Certificate
	scts []*ct.SignedCertificateTimestamp
	err  error
}

// callEntry hands the certificates at the positions `call` to the entry point in ONE call.
func callEntry(name string, certs []*rbCert, call []int) (out []rbGot, n int, err error) {
	var in []byte
	arg := func(f func(c *rbCert) []byte) []byte {
		for _, i := range call {
			in = append(in, f(certs[i])...)
		}
		return in
	}
	one := func(c *x509.Certificate, err error) ([]rbGot, int, error) {
		if c == nil {
			return nil, 0, err
		}
		return []rbGot{{cert: c, err: err}}, 1, err
	}
	many := func(l []*x509.Certificate, err error) ([]rbGot, int, error) {
		for _, c := range l {
			out = append(out, rbGot{cert: c, err: err})
		}
		return out, len(l), err
	}
	scts := func(l []*ct.SignedCertificateTimestamp, err error) ([]rbGot, int, error) {
		if err != nil {
			return nil, 0, err
		}
		return []rbGot{{scts: l}}, 1, nil
	}
	switch name {
	case "ParseCertificate":
		return one(x509.ParseCertificate(arg(func(c *rbCert) []byte { return c.der })))
	case "ParseCertificates":
		return many(x509.ParseCertificates(arg(func(c *rbCert) []byte { return c.der })))
	case "ParseTBSCertificate":
		return one(x509.ParseTBSCertificate(arg(func(c *rbCert) []byte { return c.tbs })))
	case "CertificateFromPEM":
		return one(x509util.CertificateFromPEM(arg(func(c *rbCert) []byte { return pemOf(c.der) })))
	case "CertificatesFromPEM":
		return many(x509util.CertificatesFromPEM(arg(func(c *rbCert) []byte { return pemOf(c.der) })))
	case "ParseSCTsFromCertificate":
		return scts(x509util.ParseSCTsFromCertificate(arg(func(c *rbCert) []byte { return c.der })))
	case "ParseSCTsFromCertificatePEM":
		return scts(x509util.ParseSCTsFromCertificate(arg(func(c *rbCert) []byte { return pemOf(c.der) })))
	case "LeafX509Certificate":
		leaf := ct.CreateX509MerkleTreeLeaf(ct.ASN1Cert{Data: arg(func(c *rbCert) []byte { return c.der })}, 1700000000000)
		return one(leaf.X509Certificate())
	case "LeafPrecertificate":
		leaf := &ct.MerkleTreeLeaf{Version: ct.V1, LeafType: ct.TimestampedEntryLeafType, TimestampedEntry: &ct.TimestampedEntry{
			Timestamp: 1700000000000, EntryType: ct.PrecertLogEntryType,
			PrecertEntry: &ct.PreCert{TBSCertificate: arg(func(c *rbCert) []byte { return c.tbs })}}}
		return one(leaf.Precertificate())
	}
	panic("harness: the specification names an entry point the harness does not know: " + name)
}

// entryPointsKnown: the specification's table against the harness' dispatch (an entry point that is not driven is an
// error of the harness, not of the code).
func entryPointsKnown(eps map[string]EPoint) error {
	return (&DERTable{EntryPoints: eps}).checkEntryPoints()
}

// callsOf is CallsOf of Precert.tla.
func callsOf(ep EPoint, n int) [][]int {
	if ep.Plural {
		all := make([]int, n)
		for i := range all {
			all[i] = i
		}
		return [][]int{all}
	}
	out := make([][]int, n)
	for i := range out {
		out[i] = []int{i}
	}
	return out
}

// diffCert lists the exported fields of the parsed certificate in which a and b differ.
func diffCert(a, b *x509.Certificate, skip map[string]bool) []string {
	var out []string
	va, vb := reflect.ValueOf(a).Elem(), reflect.ValueOf(b).Elem()
	for i := 0; i < va.NumField(); i++ {
		f := va.Type().Field(i)
		if !f.IsExported() || skip[f.Name] {
			continue
		}
		x, y := va.Field(i), vb.Field(i)
		if x.Kind() == reflect.Slice && x.Len() == 0 && y.Len() == 0 {
			continue // nil and empty lists are the same value
		}
		if !reflect.DeepEqual(x.Interface(), y.Interface()) {
			out = append(out, f.Name)
		}
	}
	sort.Strings(out)
	return out
}

// a bare TBSCertificate has no outer signature, and Raw is the TBSCertificate itself
var tbsSkip = map[string]bool{"Raw": true, "Signature": true}

var keyAlgOf = map[string]x509.PublicKeyAlgorithm{"p256": x509.ECDSA, "p384": x509.ECDSA, "rsa2048": x509.RSA, "ed25519": x509.Ed25519}

// rbSink receives the violations of readBack: fingerprint class and text.
type rbSink func(fp, what string)

// readBack runs the sequence through one entry point and compares every position.  others: SCTs that are embedded
// in NONE of the certificates (ContainsSCT must say so).
func readBack(name string, ep EPoint, certs []*rbCert, others []*sctRec, rep *vh.Report, keys *Keys, viol rbSink) {
	sameSCTs := func(site string, got []*ct.SignedCertificateTimestamp, err error, want []*sctRec) {
		compareSCTs(keys, site, got, err, want, viol)
	}
	site := "readback:" + name
	after := func(i int) string {
		if i == 0 {
			return "none"
		}
		return certs[i-1].class
	}
	cls := func(i int) string { return certs[i].class + ":after=" + after(i) }
	defer func() {
		if p := recover(); p != nil {
			if s, ok := p.(string); ok && strings.HasPrefix(s, "harness:") {
				panic(p)
			}
			viol("panic:"+site, fmt.Sprintf("panic in %s: %v", name, p))
		}
	}()
	for _, call := range callsOf(ep, len(certs)) {
		got, n, err := callEntry(name, certs, call)
		rep.Add("readback_calls_"+name, 1)
		if n != len(call) {
			if n == 0 {
				viol(site+":rejected:"+cls(call[0]), fmt.Sprintf("%s rejects well-formed input (%d certificate(s): %s): %v", name, len(call), labels(certs, call), err))
			} else {
				viol(fmt.Sprintf("%s:count:want=%d:got=%d", site, len(call), n), fmt.Sprintf("%s returns %d results for %d certificates (%s): %v", name, n, len(call), labels(certs, call), err))
			}
			continue
		}
		for k, i := range call {
			c, g := certs[i], got[k]
			rep.Add("readback_positions", 1)
			where := fmt.Sprintf("%s, certificate %d of %d (%s)", name, i+1, len(certs), labels(certs, allPos(len(certs))))
			if ep.View == "scts" {
				if len(g.scts) != len(c.scts) {
					viol(site+":sct:"+cls(i), fmt.Sprintf("%s: %d SCTs read back, %d were embedded", where, len(g.scts), len(c.scts)))
					continue
				}
				sameSCTs(site+":sct:"+cls(i), g.scts, nil, c.scts)
				continue
			}
			x := g.cert
			if x509.IsFatal(g.err) {
				viol(site+":rejected:"+cls(i), fmt.Sprintf("%s: fatal error for a well-formed certificate: %v", where, g.err))
				continue
			}
			// (1) against the embedded list and the builder
			if !bytes.Equal(x.RawSCT, c.list) {
				viol(site+":sct:"+cls(i), fmt.Sprintf("%s: Certificate.RawSCT is not what was embedded (read back %d octets, embedded %d)", where, len(x.RawSCT), len(c.list)))
			}
			if len(x.SCTList.SCTList) != len(c.scts) {
				viol(site+":sct:"+cls(i), fmt.Sprintf("%s: Certificate.SCTList has %d elements, %d were embedded", where, len(x.SCTList.SCTList), len(c.scts)))
			} else {
				for j := range c.scts {
					if !bytes.Equal(x.SCTList.SCTList[j].Val, c.scts[j].bytes) {
						viol(site+":sct:"+cls(i), fmt.Sprintf("%s: Certificate.SCTList element %d is not the %d-th embedded SCT", where, j, j))
					}
				}
				if len(c.scts) > 0 {
					l, err := x509util.ParseSCTsFromSCTList(&x.SCTList)
					sameSCTs(site+":sct:"+cls(i), l, err, c.scts)
				}
			}
			for j, cc := range certs { // an SCT is contained in the certificates it was embedded in, in no other
				for _, s := range cc.scts {
					in, err := ctutil.ContainsSCT(x, s.lib)
					want := j == i || (bytes.Equal(cc.der, c.der))
					if err != nil || in != want {
						viol(site+":ContainsSCT:"+cls(i), fmt.Sprintf("%s: ContainsSCT=%v (%v) for an SCT embedded in certificate %d, want %v", where, in, err, j+1, want))
					}
				}
			}
			for _, s := range others {
				if in, err := ctutil.ContainsSCT(x, s.lib); err != nil || in {
					viol(site+":ContainsSCT:"+cls(i), fmt.Sprintf("%s: ContainsSCT=%v (%v) for an SCT that was embedded nowhere", where, in, err))
				}
			}
			if c.extOIDs != nil || c.noExts {
				ok := len(x.Extensions) == len(c.extOIDs)
				for j := 0; ok && j < len(c.extOIDs); j++ {
					ok = bytes.Equal(oidBytesOf(x.Extensions[j].Id), c.extOIDs[j])
				}
				if !ok {
					viol(site+":exts:"+cls(i), fmt.Sprintf("%s: %d extensions reported, the certificate has %d (or other identifiers / another order)", where, len(x.Extensions), len(c.extOIDs)))
				}
			}
			if c.version != 0 && x.Version != c.version {
				viol(site+":version:"+cls(i), fmt.Sprintf("%s: version %d reported, the certificate has version %d", where, x.Version, c.version))
			}
			if c.keyType != "" && x.PublicKeyAlgorithm != keyAlgOf[c.keyType] {
				viol(site+":key:"+cls(i), fmt.Sprintf("%s: public key algorithm %v reported for a %s key", where, x.PublicKeyAlgorithm, c.keyType))
			}
			raw, skip := c.der, map[string]bool(nil)
			if ep.Input == "tbs" {
				raw, skip = c.tbs, tbsSkip
			}
			if !bytes.Equal(x.Raw, raw) || !bytes.Equal(x.RawTBSCertificate, c.tbs) {
				viol(site+":raw:"+cls(i), fmt.Sprintf("%s: Raw / RawTBSCertificate are not the octets handed in", where))
			}
			// (2) against the same octets read alone: every field, and the same findings
			if c.alone != nil {
				if d := diffCert(c.alone, x, skip); len(d) > 0 {
					viol(site+":fields:"+cls(i), fmt.Sprintf("%s: fields %v differ from what x509.ParseCertificate reports for the same octets alone", where, d))
				}
			}
		}
	}
}

func allPos(n int) []int {
	out := make([]int, n)
	for i := range out {
		out[i] = i
	}
	return out
}

func labels(certs []*rbCert, pos []int) string {
	var l []string
	for _, i := range pos {
		l = append(l, certs[i].label)
	}
	return strings.Join(l, " || ")
}

// oidBytesOf: content octets of an identifier the repository reports ([]int), by the harness' own encoder.
func oidBytesOf(id []int) []byte {
	if len(id) < 2 {
		return nil
	}
	arcs := make([]uint64, len(id))
	for i, a := range id {
		arcs[i] = uint64(a)
	}
	return oidBytes(arcs...)
}

// ---------------------------------------------------------------- MCPrecertBundle.tla

// RKind is a readable certificate of Precert.tla (KindTable of MCPrecertBundle.tla).
type RKind struct {
	Ver  string `json:"ver"`
	UID  string `json:"uid"`
	XF   bool   `json:"xf"`
	Sig  string `json:"sig"`
	Key  string `json:"key"`
	Exts []Ext  `json:"exts"`
}

// KindsRec is the record "KINDS".
type KindsRec struct {
	Kinds       map[string]RKind  `json:"kinds"`
	Lists       map[string]int    `json:"lists"`
	EntryPoints map[string]EPoint `json:"entrypoints"`
}

// Reading is what the specification says a certificate reads back (Reported).
type Reading struct {
	Version   string   `json:"version"`
	IUID      bool     `json:"iuid"`
	SUID      bool     `json:"suid"`
	Exts      []string `json:"exts"`
	SCT       string   `json:"sct"`
	SigParams bool     `json:"sigParams"`
	KeyParams string   `json:"keyParams"`
}

// BundleCase is one record "BUNDLE".
type BundleCase struct {
	B       []string   `json:"b"`
	Expect  []Reading  `json:"expect"`
	Carried [][]string `json:"carried"` // per position: the reported fields a carrying reader would get wrong
}

var versionOf = map[string]int{"v1": 1, "v2": 2, "v3": 3}

// SCT kinds of the named lists: the logs differ so that the elements of a list differ in more than the signature.
var listKinds = map[string][]SctK{
	"A": {{"LOG1", "exact", "this", false}, {"LOG2", "exact", "this", true}},
	"B": {{"LOG4", "exact", "this", false}},
}

// matKind materializes a kind.  The CERTIFICATE is built from the kind; what is ASSERTED of it comes from the
// specification's expectation `want` (so a corrupted expectation is seen by the comparison, not here).  seq makes the
// timestamps of the SCTs distinct.
func (w *world) matKind(name string, k RKind, want Reading, lists map[string]int, e Enc, seq int) *rbCert {
	m := &Mat{Keys: w.keys, UExt: e.UExt}
	t := &TBS{K: "tbs", Ver: k.Ver, Serial: e.Serial, Sig: k.Sig, Issuer: Name{"CA", e.IName}, Validity: e.Validity,
		Subject: Name{"LEAF", e.SName}, Key: k.Key, UID: k.UID, XF: k.XF}
	listName := ""
	for _, x := range k.Exts {
		if x.ID == "SCTLIST" {
			listName = x.Val
			x.Val = "scts"
		}
		t.Exts = append(t.Exts, x)
	}
	c := &rbCert{label: name}
	// ---- the certificate
	var built []*sctRec
	if listName != "" {
		kinds := listKinds[listName]
		if len(kinds) == 0 || len(kinds) != lists[listName] {
			panic("harness: SCT list " + listName)
		}
		// the SCTs are the logs' promises for this very certificate: signed over its TBSCertificate without the list
		noList := *t
		noList.Exts = nil
		for _, x := range t.Exts {
			if x.ID != "SCTLIST" {
				noList.Exts = append(noList.Exts, x)
			}
		}
		ikh := sha256.Sum256(SPKI(w.keys.Get("CA", k.Sig).Public()))
		entry := ref.Entry{Type: ref.PrecertEntry, IssuerKeyHash: ikh[:], TBS: m.TBSBytes(&noList)}
		var ser [][]byte
		for i, sk := range kinds {
			s := w.makeSCT(sk, seq*8+i, entry, ikh[:])
			built = append(built, s)
			ser = append(ser, s.bytes)
		}
		m.SCTList = ref.SCTList(ser...)
	}
	c.tbs = m.TBSBytes(t)
	c.der = Certificate(c.tbs, k.Sig, w.keys.Get("CA", k.Sig))
	switch {
	case listName != "":
		c.class = "sct"
	case len(t.Exts) > 0:
		c.class = "exts"
	case k.XF:
		c.class = "emptyexts"
	default:
		c.class = "noexts"
	}
	// ---- what the specification says it reads back
	if c.version = versionOf[want.Version]; c.version == 0 {
		panic("harness: version " + want.Version)
	}
	switch want.SCT {
	case "none":
	case listName:
		c.scts, c.list = built, m.SCTList
	default:
		panic("harness: the specification reads back list " + want.SCT + " from a certificate built with list '" + listName + "'")
	}
	c.noExts = len(want.Exts) == 0
	for _, id := range want.Exts {
		c.extOIDs = append(c.extOIDs, m.extOID(id))
	}
	switch want.KeyParams {
	case "curve":
		c.keyType = "p256"
	case "NULL":
		c.keyType = "rsa2048"
	case "none":
		c.keyType = "ed25519"
	default:
		panic("harness: key parameters " + want.KeyParams)
	}
	return c
}

// extOID is the identifier (content octets) the builder gives the abstract extension id.
func (m *Mat) extOID(id string) []byte {
	switch id {
	case "SCTLIST":
		return oidSCTList
	case "AKI":
		oid, _ := m.extValue(Ext{ID: id, Val: "k1"})
		return oid
	}
	oid, _ := m.extValue(Ext{ID: id, Val: "v1"})
	return oid
}

var (
	bundleSerials = []string{"small", "zero", "neg", "long20", "long21", "p128", "m128", "max20", "min20"}
	bundleSNames  = []string{"printable", "utf8", "t61", "bmp", "multirdn", "utf8sp"}
	bundleUExts   = []string{"std", "std", "joint", "a128", "amax"}
)

// TestBundle replays every bundle of MCPrecertBundle.tla (VERIF_BUNDLES, VERIF_KINDS) through every entry point.
func TestBundle(t *testing.T) {
	bp, kp := os.Getenv("VERIF_BUNDLES"), os.Getenv("VERIF_KINDS")
	if bp == "" || kp == "" {
		t.Skip("VERIF_BUNDLES / VERIF_KINDS not set")
	}
	rep := vh.NewReport("c03-bundle", "every bundle of MCPrecertBundle.tla (sequences of certificate kinds that differ in their optional parts: version element, unique identifiers, extensions field present / empty / absent, an SCT list of one or two SCTs among the extensions, algorithm parameters; every order, with repetition) is built by the harness' own builder, signed, and read through every entry point of Precert.tla EntryPoints (one call for the bundle or consecutive calls); every position must read back the embedded SCT list element for element, its own extension identifiers, version, key type and octets, ContainsSCT must hold for exactly its own SCTs, and every field must equal what ParseCertificate reports for the same octets alone; non-trivial = distinct (bundle, materialization)")
	log.SetOutput(io.Discard)
	krecs, err := vh.LoadNDJSON[KindsRec](kp)
	if err != nil || len(krecs) != 1 {
		t.Fatalf("kinds: %v (%d records)", err, len(krecs))
	}
	kr := krecs[0]
	if err := entryPointsKnown(kr.EntryPoints); err != nil {
		t.Fatal(err)
	}
	cases, err := vh.LoadNDJSON[BundleCase](bp)
	if err != nil {
		t.Fatal(err)
	}
	keys := NewKeys()
	runBundles(t, rep, keys, &kr, cases, true)
	rep.Replayed = len(cases)
	if err := rep.Write(); err != nil {
		t.Fatal(err)
	}
	// the binding binds: bundles whose expectation was corrupted by the driver must be flagged, each of them
	if cp := os.Getenv("VERIF_BUNDLE_CANARY"); cp != "" {
		canaries, err := vh.LoadNDJSON[BundleCase](cp)
		if err != nil {
			t.Fatal(err)
		}
		for i := range canaries {
			crep := vh.NewReport("canary", "")
			flagged := false
			func() {
				defer func() {
					if p := recover(); p != nil {
						flagged = true // the harness' own consistency check between kind and expectation noticed it
					}
				}()
				runBundles(t, crep, keys, &kr, canaries[i:i+1], false)
			}()
			if len(crep.Violations) == 0 && !flagged {
				t.Fatalf("bundle canary %d (corrupted expectation) was not flagged: the comparison does not bind", i)
			}
		}
	}
}

// runBundles materializes the kinds (several materializations each, with the expectation of the FIRST position that
// shows the kind) and replays the cases.
func runBundles(t *testing.T, rep *vh.Report, keys *Keys, kr *KindsRec, cases []BundleCase, parallel bool) int {
	nMat := 2
	if vh.Thorough() {
		nMat = 4
	}
	rng := vh.Rand(31)
	w := &world{keys: keys, cache: map[string]*hier{}}
	type matKey struct {
		kind string
		want string
	}
	mats := map[matKey][]*rbCert{}
	seq := 0
	matsOf := func(kind string, want Reading) []*rbCert {
		wj, _ := json.Marshal(want)
		key := matKey{kind, string(wj)}
		if l, ok := mats[key]; ok {
			return l
		}
		k, ok := kr.Kinds[kind]
		if !ok {
			panic("harness: kind " + kind)
		}
		var l []*rbCert
		for v := 0; v < nMat; v++ {
			e := defaultEnc
			if v > 0 {
				e = Enc{Serial: pick(rng, bundleSerials), Validity: pick(rng, encValidities), IName: pick(rng, encINames),
					SName: pick(rng, bundleSNames), UExt: pick(rng, bundleUExts)}
			}
			seq++
			c := w.matKind(fmt.Sprintf("%s#%d", kind, v), k, want, kr.Lists, e, seq)
			// read alone, before anything else is parsed: a well-formed certificate
			alone, err := x509.ParseCertificate(c.der)
			if alone == nil {
				rep.Violate("readback:ParseCertificate:rejected:"+c.class+":after=none",
					fmt.Sprintf("x509.ParseCertificate rejects the well-formed certificate %s: %v", c.label, err), map[string]any{"kind": kind, "der": hex.EncodeToString(c.der)})
			} else if err != nil {
				rep.Add("kinds_with_nonfatal_findings", 1)
			}
			c.alone = alone
			l = append(l, c)
		}
		mats[key] = l
		return l
	}
	// an SCT that is embedded nowhere
	ikh := sha256.Sum256([]byte("nowhere"))
	others := []*sctRec{w.makeSCT(plainG, 999, ref.Entry{Type: ref.PrecertEntry, IssuerKeyHash: ikh[:], TBS: []byte{0x30, 0x00}}, ikh[:])}

	// choose the materializations before the parallel part (deterministic in the seed)
	type job struct {
		cs    *BundleCase
		certs []*rbCert
		key   string
	}
	var jobs []job
	for i := range cases {
		cs := &cases[i]
		if len(cs.Expect) != len(cs.B) || len(cs.Carried) != len(cs.B) {
			t.Fatalf("bundle %v: %d expectations", cs.B, len(cs.Expect))
		}
		j := job{cs: cs}
		var ks []string
		for p, kind := range cs.B {
			l := matsOf(kind, cs.Expect[p])
			c := l[rng.Intn(len(l))]
			j.certs = append(j.certs, c)
			ks = append(ks, c.label)
			if len(cs.Carried[p]) > 0 {
				rep.Add("positions_a_carrying_reader_gets_wrong", 1)
				for _, f := range cs.Carried[p] {
					rep.Add("carry_sensitive_"+f, 1)
				}
			}
		}
		j.key = strings.Join(ks, "+")
		jobs = append(jobs, j)
	}
	var names []string
	for n := range kr.EntryPoints {
		names = append(names, n)
	}
	sort.Strings(names)
	nviol := 0
	var mu sync.Mutex
	do := func(j job) {
		for _, name := range names {
			readBack(name, kr.EntryPoints[name], j.certs, others, rep, keys, func(fp, what string) {
				mu.Lock()
				nviol++
				mu.Unlock()
				rep.Violate(fp, what+" [bundle "+strings.Join(j.cs.B, ", ")+"]", bundleReplay(j.cs, j.certs, kr))
			})
		}
		rep.Eval(j.key)
	}
	if !parallel {
		for _, j := range jobs {
			do(j)
		}
		return nviol
	}
	ch := make(chan job)
	var wg sync.WaitGroup
	for k := 0; k < runtime.NumCPU(); k++ {
		wg.Add(1)
		go func() {
			defer wg.Done()
			for j := range ch {
				func() {
					defer func() {
						if p := recover(); p != nil {
							t.Errorf("harness panic in bundle %v: %v", j.cs.B, p)
						}
					}()
					do(j)
				}()
			}
		}()
	}
	for _, j := range jobs {
		ch <- j
	}
	close(ch)
	wg.Wait()
	if len(jobs) > 0 {
		b, _ := json.Marshal(jobs[len(jobs)/2].cs)
		rep.Sample(json.RawMessage(b))
	}
	return nviol
}

func bundleReplay(cs *BundleCase, certs []*rbCert, kr *KindsRec) map[string]any {
	var ders []string
	for _, c := range certs {
		ders = append(ders, hex.EncodeToString(c.der))
	}
	return map[string]any{"bundle": cs, "kinds": kr, "der": ders}
}
