package c09

import (
	"bytes"
	"encoding/json"
	"fmt"
	"os"
	"reflect"
	"runtime"
	"sort"
	"sync"
	"sync/atomic"
	"testing"

	"github.com/google/certificate-transparency-go/tls"

	tm "verifharness/tlsmodel"
	"verifharness/vh"
)

// The concurrency layer of C09 (spec/codec/TLSCodecConc.tla, MCTLSCodecConc.tla): FunctionLaw - every call returns
// what it returns alone, whichever calls are in flight and whether or not the package has met the type before.
//
// A round (solo call | none, a wave of g calls released together, solo call | none) is executed on struct types the
// process has never seen: every execution renames the members of the round's shape (tm.Rename), reflect.StructOf
// then yields new types at every nesting depth.  The expected result of every call is the model's Enc / Dec (the
// rounds exported by TLC) or the reference codec's (seeded random rounds); the results of the wave are compared with
// them after the join, and every call of the wave is then repeated alone.  The test runs in a process of its own
// (`-run TestConcurrent$`), its first wave is also the first use of the package; it is run without and with -race.

// ---------------------------------------------------------------- records of MCTLSCodecConc.tla

type shapeID struct {
	Fam string `json:"fam"`
	I   int    `json:"i"`
	J   int    `json:"j"`
	L   int    `json:"l"`
}

type callRec struct {
	Op   string `json:"op"`
	Vi   int    `json:"vi"`
	Okin bool   `json:"okin"`
	Ord  int    `json:"ord"`
	Type int    `json:"type"`
}

type concRec struct {
	Kind  string    `json:"kind"` // base | round
	Shape shapeID   `json:"shape"`
	Cases []Case    `json:"cases"` // base: one per value of the shape
	G     int       `json:"g"`
	Mix   string    `json:"mix"`
	Vals  string    `json:"vals"`
	Pre   string    `json:"pre"`
	Post  bool      `json:"post"`
	Types int       `json:"types"`
	Calls []callRec `json:"calls"`
}

// ---------------------------------------------------------------- a round, ready to be executed

// input is one byte string with what Dec makes of it.
type concInput struct {
	b    []byte
	ok   bool
	v    tm.Val
	rest []byte
}

// shapeVal is one value of a shape with the model's (or the reference codec's) results.
type shapeVal struct {
	v      tm.Val
	encOk  bool
	enc    []byte
	inputs []concInput
}

type shape struct {
	name string
	t    *tm.Type
	top  bool
	vals []shapeVal
	wide bool
}

// planned is a call of a round before the types are made.
type planned struct {
	op   string // enc | dec
	vi   int    // index into shape.vals
	in   int    // index into vals[vi].inputs (dec)
	typ  int    // 0 | 1: which of the round's fresh types
	skip bool   // the Go carrier cannot hold the value and it has no byte string: nothing to call
}

type round struct {
	sh    *shape
	pre   *planned
	wave  []planned
	post  *planned
	label string
	desc  any
}

// resolve applies the rule of MCTLSCodecConc.CallOf: Unmarshal takes the ord-th (cyclically) of the inputs the model
// accepts (okin) / refuses; of all inputs when there is none of that kind; Marshal when the value has no byte string.
func (sh *shape) resolve(op string, vi int, okin bool, ord int, typ int) planned {
	p := planned{op: op, vi: vi, typ: typ}
	sv := &sh.vals[vi]
	if op == "enc" {
		if _, ok := tm.GoValue(sh.t, sv.v); ok {
			return p
		}
		p.op = "dec" // the carrier cannot hold the value: present its layout instead
	}
	var cand, all []int
	for i := range sv.inputs {
		all = append(all, i)
		if sv.inputs[i].ok == okin {
			cand = append(cand, i)
		}
	}
	if len(cand) == 0 {
		cand = all
	}
	if len(cand) == 0 {
		if _, ok := tm.GoValue(sh.t, sv.v); ok {
			p.op = "enc"
		} else {
			p.skip = true
		}
		return p
	}
	p.op = "dec"
	p.in = cand[ord%len(cand)]
	return p
}

// solo calls (MCTLSCodecConc.tla): pre "ok" = Unmarshal of the encoding of the least accepted value; pre "refused" =
// Marshal of the least refused value (Unmarshal of the first refused byte string of value 1 when all are accepted);
// post = Unmarshal of the encoding of the greatest accepted value.
func (sh *shape) solo(kind string) *planned {
	least, greatest, refused := -1, -1, -1
	for i := range sh.vals {
		if sh.vals[i].encOk {
			if least < 0 {
				least = i
			}
			greatest = i
		} else if refused < 0 {
			if _, ok := tm.GoValue(sh.t, sh.vals[i].v); ok {
				refused = i
			}
		}
	}
	validInput := func(vi int) *planned {
		for i, in := range sh.vals[vi].inputs {
			if in.ok && len(in.rest) == 0 {
				return &planned{op: "dec", vi: vi, in: i}
			}
		}
		return nil
	}
	switch kind {
	case "ok":
		if least >= 0 {
			return validInput(least)
		}
	case "post":
		if greatest >= 0 {
			return validInput(greatest)
		}
	case "refused":
		if refused >= 0 {
			return &planned{op: "enc", vi: refused}
		}
		if least >= 0 {
			for i, in := range sh.vals[least].inputs {
				if !in.ok {
					return &planned{op: "dec", vi: least, in: i}
				}
			}
		}
	}
	return nil
}

// ---------------------------------------------------------------- execution

type liveCall struct {
	p      *planned
	t      *tm.Type // the renamed type
	gt     reflect.Type
	top    bool
	params string
	arg    reflect.Value // enc: the value
	ptr    reflect.Value // dec: the destination
	in     []byte        // dec: this caller's copy of the input
	// results
	out      []byte
	rest     []byte
	err      error
	panicked any
	inv, ret int64
}

var concClock int64

func (lc *liveCall) run() {
	defer func() {
		if p := recover(); p != nil {
			lc.panicked = p
		}
		lc.ret = atomic.AddInt64(&concClock, 1)
	}()
	lc.inv = atomic.AddInt64(&concClock, 1)
	switch {
	case lc.p.op == "enc" && lc.top:
		lc.out, lc.err = tls.MarshalWithParams(lc.arg.Interface(), lc.params)
	case lc.p.op == "enc":
		lc.out, lc.err = tls.Marshal(lc.arg.Interface())
	case lc.top:
		lc.rest, lc.err = tls.UnmarshalWithParams(lc.in, lc.ptr.Interface(), lc.params)
	default:
		lc.rest, lc.err = tls.Unmarshal(lc.in, lc.ptr.Interface())
	}
}

// prepare builds everything a call needs, so that after the barrier the first thing a caller does is the call.
func prepare(sh *shape, p *planned, t *tm.Type, gt reflect.Type) *liveCall {
	lc := &liveCall{p: p, t: t, gt: gt, top: sh.top, params: t.TagString()}
	sv := &sh.vals[p.vi]
	if p.op == "enc" {
		gv, ok := tm.GoValue(t, sv.v)
		if !ok {
			panic("c09: unrepresentable value in a planned Marshal")
		}
		lc.arg = gv
	} else {
		lc.ptr = reflect.New(gt)
		lc.in = append([]byte{}, sv.inputs[p.in].b...)
	}
	return lc
}

// wave releases the calls together: every caller announces itself and spins on the flag.
func wave(calls []*liveCall) {
	var ready, flag int32
	var wg sync.WaitGroup
	for _, lc := range calls {
		wg.Add(1)
		go func(lc *liveCall) {
			defer wg.Done()
			atomic.AddInt32(&ready, 1)
			for n := 0; atomic.LoadInt32(&flag) == 0; n++ {
				if n%64 == 63 {
					runtime.Gosched()
				}
			}
			lc.run()
		}(lc)
	}
	for n := 0; atomic.LoadInt32(&ready) < int32(len(calls)); n++ {
		if n%64 == 63 {
			runtime.Gosched()
		}
	}
	atomic.StoreInt32(&flag, 1)
	wg.Wait()
}

// verdict compares what a call returned with Alone(call); "" = as specified.
func (lc *liveCall) verdict(sh *shape) (what, text string) {
	sv := &sh.vals[lc.p.vi]
	if lc.p.op == "enc" {
		desc := fmt.Sprintf("type %s value %s", lc.t, sv.v)
		switch {
		case lc.panicked != nil:
			return "panic:Marshal", fmt.Sprintf("tls.Marshal panics: %v; %s", lc.panicked, desc)
		case sv.encOk && lc.err != nil:
			return "Marshal:impl-rejects-valid", fmt.Sprintf("%s has the encoding %s, tls.Marshal fails: %v", desc, short(sv.enc), lc.err)
		case !sv.encOk && lc.err == nil:
			return "Marshal:impl-accepts-invalid", fmt.Sprintf("%s has no encoding, tls.Marshal returns %s", desc, short(lc.out))
		case sv.encOk && !bytes.Equal(lc.out, sv.enc):
			return "Marshal:wrong-bytes", fmt.Sprintf("%s: encoding must be %s, tls.Marshal returns %s", desc, short(sv.enc), short(lc.out))
		}
		if got := tm.FromGo(lc.t, lc.arg); !got.Equal(sv.v) {
			return "Marshal:argument-modified", fmt.Sprintf("%s: after tls.Marshal the caller's value is %s", desc, got)
		}
		return "", ""
	}
	in := &sv.inputs[lc.p.in]
	desc := fmt.Sprintf("type %s input %s", lc.t, short(in.b))
	switch {
	case lc.panicked != nil:
		return "panic:Unmarshal", fmt.Sprintf("tls.Unmarshal panics: %v; %s", lc.panicked, desc)
	case in.ok && lc.err != nil:
		return "Unmarshal:impl-rejects-valid", fmt.Sprintf("%s decodes to %s, tls.Unmarshal fails: %v", desc, in.v, lc.err)
	case !in.ok && lc.err == nil:
		return "Unmarshal:impl-accepts-invalid", fmt.Sprintf("%s has no decoding, tls.Unmarshal returns %s", desc, tm.FromGo(lc.t, lc.ptr.Elem()))
	case !bytes.Equal(lc.in, in.b):
		return "Unmarshal:input-modified", fmt.Sprintf("%s: after tls.Unmarshal the caller's buffer holds %s", desc, short(lc.in))
	case !in.ok:
		return "", ""
	}
	if got := tm.FromGo(lc.t, lc.ptr.Elem()); !got.Equal(in.v) {
		return "Unmarshal:wrong-value", fmt.Sprintf("%s decodes to %s, tls.Unmarshal returns %s", desc, in.v, got)
	}
	if !bytes.Equal(lc.rest, in.rest) {
		return "Unmarshal:wrong-rest", fmt.Sprintf("%s leaves %s unconsumed, tls.Unmarshal returns %s", desc, short(in.rest), short(lc.rest))
	}
	return "", ""
}

type concRunner struct {
	rep      *vh.Report
	c        *checker // the sequential checker: tells a defect of one call from a defect of concurrent use
	classes  map[string]int
	counts   map[string]int
	serial   int
	waves    int
	overlaps int
	seed     int64
}

// class is ClassOf of TLSCodecConc.tla for the round as executed.
func (r *round) class() string {
	argKey := func(p *planned) string { return fmt.Sprintf("%s/%d/%d", p.op, p.vi, p.in) }
	refuses := func(p *planned) bool {
		sv := &r.sh.vals[p.vi]
		if p.op == "enc" {
			return !sv.encOk
		}
		return !sv.inputs[p.in].ok
	}
	cl := map[string]any{"pre": "none", "shared": false, "distinct": false, "refusing": false, "post": "none"}
	used := map[int]bool{}
	for i := range r.wave {
		w := &r.wave[i]
		if w.skip {
			continue
		}
		used[w.typ] = true
		if refuses(w) {
			cl["refusing"] = true
		}
		for j := 0; j < i; j++ {
			o := &r.wave[j]
			if !o.skip && o.typ == w.typ {
				cl["shared"] = true
				if argKey(o) != argKey(w) {
					cl["distinct"] = true
				}
			}
		}
	}
	if r.pre != nil {
		switch {
		case !used[r.pre.typ]:
			cl["pre"] = "elsewhere"
		case refuses(r.pre):
			cl["pre"] = "refused"
		default:
			cl["pre"] = "ok"
		}
	}
	if r.post != nil {
		cl["post"] = "same"
		if !used[r.post.typ] {
			cl["post"] = "elsewhere"
		}
	}
	b, _ := json.Marshal(cl)
	return string(b)
}

// execute runs the round once on types nobody has seen.
func (cr *concRunner) execute(r *round) {
	cr.serial++
	suffix := fmt.Sprintf("_%dx%d", cr.seed, cr.serial)
	var ts [2]*tm.Type
	var gts [2]reflect.Type
	for i := range ts {
		ts[i] = tm.Rename(r.sh.t, fmt.Sprintf("%s%c", suffix, 'a'+i))
		gts[i] = tm.GoType(ts[i])
	}
	met := [2]bool{}
	report := func(lc *liveCall, stage string) {
		what, text := lc.verdict(r.sh)
		cr.rep.Eval("")
		if what == "" {
			return
		}
		// the same call alone, on the type as it is now: a defect of the call itself has its own fingerprints
		again := prepare(r.sh, lc.p, lc.t, lc.gt)
		again.run()
		if alone, _ := again.verdict(r.sh); alone != "" {
			sv := &r.sh.vals[lc.p.vi]
			if lc.p.op == "enc" {
				cr.c.checkEncode(lc.t, lc.top, sv.v, sv.encOk, sv.enc, r.label, r.desc)
			} else {
				in := &sv.inputs[lc.p.in]
				cr.c.checkDecode(lc.t, lc.top, sv.v, in.b, in.ok, in.v, in.rest, r.label, r.desc)
			}
			cr.rep.Violate("alone:"+alone, fmt.Sprintf("round %s (%s): %s; the same call made alone afterwards: %s", r.label, stage, text, alone), r.desc)
			return
		}
		cr.rep.Violate("concurrent:"+stage+":"+what, fmt.Sprintf("round %s (%s): %s; the same call made alone afterwards returns what the specification says", r.label, stage, text),
			map[string]any{"conc": true, "seed": cr.seed, "round": r.desc, "stage": stage})
	}
	solo := func(p *planned, stage string) {
		if p == nil || p.skip {
			return
		}
		lc := prepare(r.sh, p, ts[p.typ], gts[p.typ])
		lc.run()
		if !met[p.typ] && stage == "after" {
			stage = "solo-first-use"
		}
		met[p.typ] = true
		report(lc, stage)
	}
	solo(r.pre, "solo-first-use")
	var live []*liveCall
	for i := range r.wave {
		if p := &r.wave[i]; !p.skip {
			live = append(live, prepare(r.sh, p, ts[p.typ], gts[p.typ]))
		}
	}
	if len(live) >= 2 {
		wave(live)
		cr.waves++
		overlapped := false
		for i, a := range live {
			for _, b := range live[:i] {
				if a.p.typ == b.p.typ && a.inv < b.ret && b.inv < a.ret {
					overlapped = true
				}
			}
		}
		if overlapped {
			cr.overlaps++
		}
		first := met
		for _, lc := range live {
			stage := "after-solo-call" // the type handed over has been used; struct types below it may still be new
			if !first[lc.p.typ] {
				stage = "first-use"
			}
			met[lc.p.typ] = true
			report(lc, stage)
		}
		// every call of the wave once more, alone
		for _, lc := range live {
			again := prepare(r.sh, lc.p, lc.t, lc.gt)
			again.run()
			report(again, "alone-after-wave")
		}
	}
	solo(r.post, "after")
	cr.classes[r.class()]++
	cr.counts["rounds:"+r.label]++
}

// ---------------------------------------------------------------- the rounds of the specification

func loadShapes(recs []concRec) (map[shapeID]*shape, error) {
	shapes := map[shapeID]*shape{}
	for i := range recs {
		b := &recs[i]
		if b.Kind != "base" {
			continue
		}
		if len(b.Cases) == 0 {
			return nil, fmt.Errorf("base %v without cases", b.Shape)
		}
		sh := &shape{name: fmt.Sprintf("%s/%d/%d/%d", b.Shape.Fam, b.Shape.I, b.Shape.J, b.Shape.L), t: b.Cases[0].T, top: b.Cases[0].Top,
			wide: b.Shape.Fam == "wide" && b.Shape.I >= 64}
		for ci := range b.Cases {
			cs := &b.Cases[ci]
			v, err := cs.V.Decode()
			if err != nil {
				return nil, err
			}
			sv := shapeVal{v: v, encOk: cs.Enc.Ok, enc: cs.Enc.B.Expand()}
			// the reference codec is the specification in executable form: it must agree with what TLC exported
			if rb, rok := tm.RefEnc(cs.T, v); rok != sv.encOk || (rok && !bytes.Equal(rb, sv.enc)) {
				return nil, fmt.Errorf("shape %s value %d: specification and reference codec disagree on Enc", sh.name, ci+1)
			}
			ins := append([]Input{}, cs.Ins...)
			sort.SliceStable(ins, func(a, b int) bool {
				if ins[a].M != ins[b].M {
					return ins[a].M < ins[b].M
				}
				if ins[a].P != ins[b].P {
					return ins[a].P < ins[b].P
				}
				return ins[a].D < ins[b].D
			})
			for k := range ins {
				in := concInput{b: ins[k].B.Expand(), ok: ins[k].Dec.Ok}
				if in.ok {
					if in.v, err = ins[k].Dec.V.Decode(); err != nil {
						return nil, err
					}
					in.rest = ins[k].Dec.Rest.Expand()
				}
				if rv, rrest, rok := tm.RefDec(cs.T, in.b); rok != in.ok || (rok && (!rv.Equal(in.v) || !bytes.Equal(rrest, in.rest))) {
					return nil, fmt.Errorf("shape %s value %d input %s/%d/%d: specification and reference codec disagree on Dec", sh.name, ci+1, ins[k].M, ins[k].P, ins[k].D)
				}
				sv.inputs = append(sv.inputs, in)
			}
			sh.vals = append(sh.vals, sv)
		}
		shapes[b.Shape] = sh
	}
	return shapes, nil
}

func specRounds(recs []concRec, shapes map[shapeID]*shape) ([]*round, error) {
	var out []*round
	for i := range recs {
		rr := &recs[i]
		if rr.Kind != "round" {
			continue
		}
		sh := shapes[rr.Shape]
		if sh == nil {
			return nil, fmt.Errorf("round on a shape without base record: %v", rr.Shape)
		}
		r := &round{sh: sh, label: rr.Shape.Fam,
			desc: map[string]any{"shape": rr.Shape, "g": rr.G, "mix": rr.Mix, "vals": rr.Vals, "pre": rr.Pre, "post": rr.Post, "types": rr.Types}}
		for _, c := range rr.Calls {
			if c.Vi < 1 || c.Vi > len(sh.vals) {
				return nil, fmt.Errorf("round %v: value %d of %d", rr.Shape, c.Vi, len(sh.vals))
			}
			r.wave = append(r.wave, sh.resolve(c.Op, c.Vi-1, c.Okin, c.Ord, c.Type-1))
		}
		if rr.Pre != "none" {
			r.pre = sh.solo(rr.Pre)
		}
		if rr.Post {
			r.post = sh.solo("post")
		}
		out = append(out, r)
	}
	return out, nil
}

// ---------------------------------------------------------------- seeded random rounds (oracle: the reference codec)

func randomRound(g *gen, n int) *round {
	ty := g.structT(1 + g.pick(3))
	top := false
	if g.pick(10) == 0 { // a top-level vector of structs through the ...WithParams entry points
		min, max := g.vecBounds()
		ty = tm.Vec(min, max, g.structT(1+g.pick(2)))
		top = true
	}
	sh := &shape{name: "random", t: ty, top: top}
	for k := 0; k < 4; k++ {
		v := g.value(ty, k == 3)
		sv := shapeVal{v: v}
		sv.enc, sv.encOk = tm.RefEnc(ty, v)
		if sv.encOk {
			ins := [][]byte{sv.enc}
			for m := 0; m < 5; m++ {
				ins = append(ins, g.mutate(sv.enc))
			}
			for _, b := range ins {
				in := concInput{b: b}
				in.v, in.rest, in.ok = tm.RefDec(ty, b)
				sv.inputs = append(sv.inputs, in)
			}
		}
		sh.vals = append(sh.vals, sv)
	}
	gs := []int{2, 3, 4, 8}[g.pick(4)]
	mix := g.pick(3)
	same := g.pick(3) == 0
	types := 1 + g.pick(3)/2
	r := &round{sh: sh, label: "random"}
	for k := 1; k <= gs; k++ {
		op := "enc"
		if mix == 1 || (mix == 2 && k%2 == 0) {
			op = "dec"
		}
		vi, ord, okin := 0, 0, true
		if !same {
			vi, ord, okin = g.pick(4), g.pick(8), g.pick(3) != 0
		}
		r.wave = append(r.wave, sh.resolve(op, vi, okin, ord, (k-1)%types))
	}
	pre, post := "none", g.pick(2) == 0
	switch g.pick(4) {
	case 0:
		pre = "ok"
	case 1:
		pre = "refused"
	}
	if pre != "none" {
		r.pre = sh.solo(pre)
	}
	if post {
		r.post = sh.solo("post")
	}
	r.desc = map[string]any{"random": n, "type": ty.String(), "g": gs, "pre": pre, "post": post, "types": types}
	return r
}

// ---------------------------------------------------------------- the test

// TestConcurrent executes the rounds exported by TLC (VERIF_CASES, NDJSON of base and round records) and seeded
// random rounds (VERIF_CONC_RANDOM), each VERIF_CONC_REPS times (the widest shapes VERIF_CONC_WIDE_REPS times), every
// execution on fresh types.
func TestConcurrent(t *testing.T) {
	path := os.Getenv("VERIF_CASES")
	if path == "" {
		t.Skip("VERIF_CASES not set")
	}
	if runtime.GOMAXPROCS(0) < 4 {
		runtime.GOMAXPROCS(4)
	}
	recs, err := vh.LoadNDJSON[concRec](path)
	if err != nil {
		t.Fatal(err)
	}
	shapes, err := loadShapes(recs)
	if err != nil {
		t.Fatal(err)
	}
	rounds, err := specRounds(recs, shapes)
	if err != nil {
		t.Fatal(err)
	}
	reps, wideReps, nrandom := vh.EnvInt("VERIF_CONC_REPS", 3), vh.EnvInt("VERIF_CONC_WIDE_REPS", 30), vh.EnvInt("VERIF_CONC_RANDOM", 1500)
	name := "c09-concurrent"
	if os.Getenv("VERIF_CONC_NAME") != "" {
		name = os.Getenv("VERIF_CONC_NAME")
	}
	rep := vh.NewReport(name, "FunctionLaw of TLSCodecConc.tla: every round exported by TLC from MCTLSCodecConc.tla (shape x callers x Marshal/Unmarshal mix x same/own arguments x call before x call after x one/two types) and seeded random rounds are executed on struct types built for that execution alone (first use of every type inside the wave unless the round has a call before it); every call of a wave must return the model's Enc / Dec of its own arguments, leave its arguments as they were, and return the same when repeated alone; panics are recovered and reported")
	cr := &concRunner{rep: rep, c: &checker{rep: rep, counts: map[string]int{}}, classes: map[string]int{}, counts: map[string]int{}, seed: vh.Seed()}
	rnd := vh.Rand(9090)
	order := rnd.Perm(len(rounds))
	// the first wave of the process is the first use of the package: the widest shape, eight callers, no call before
	first := -1
	for k, i := range order {
		if r := rounds[i]; r.pre == nil && len(r.wave) == 8 && r.sh.t.K == "struct" &&
			(first < 0 || len(r.sh.t.Fields) > len(rounds[order[first]].sh.t.Fields)) {
			first = k
		}
	}
	if first > 0 {
		order[0], order[first] = order[first], order[0]
	}
	for pass := 0; pass < wideReps || pass < reps; pass++ {
		for _, i := range order {
			r := rounds[i]
			if (r.sh.wide && pass < wideReps) || pass < reps {
				cr.execute(r)
			}
		}
	}
	rep.Replayed = len(rounds)
	g := &gen{r: rnd}
	for n := 0; n < nrandom; n++ {
		cr.execute(randomRound(g, n))
	}
	for _, sh := range shapes {
		if len(rep.Samples) < 3 {
			rep.Sample(map[string]any{"shape": sh.name, "type": sh.t.String()})
		}
	}
	rep.Extra["classes"] = cr.classes
	rep.Extra["rounds_executed"] = cr.serial
	rep.Extra["waves"] = cr.waves
	rep.Extra["waves_with_overlapping_calls_on_one_type"] = cr.overlaps
	rep.Extra["gomaxprocs"] = runtime.GOMAXPROCS(0)
	for k, v := range cr.counts {
		rep.Extra[k] = v
	}
	if err := rep.Write(); err != nil {
		t.Fatal(err)
	}
	if cr.waves > 100 && cr.overlaps == 0 && runtime.NumCPU() >= 4 {
		t.Fatalf("vacuous run: %d waves, the calls of none of them overlapped", cr.waves)
	}
}
