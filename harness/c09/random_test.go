package c09

import (
	"encoding/hex"
	"fmt"
	"math/rand"
	"os"
	"sort"
	"testing"

	tm "verifharness/tlsmodel"
	"verifharness/vh"
)

// Seeded random types from the documented tag grammar, random values, random byte strings.  The oracle
// is the reference codec (which TestReplay ties to the TLA+ specification case by case); the
// re-encoding law, panics and the allocation meter need no oracle.

type gen struct{ r *rand.Rand }

func (g *gen) pick(n int) int { return g.r.Intn(n) }

func pow256(w int) uint64 { return uint64(1) << (8 * uint(w)) } // w < 8

func (g *gen) width() int {
	switch x := g.pick(20); {
	case x < 8:
		return 1
	case x < 13:
		return 2
	case x < 16:
		return 3
	default:
		return 4 + g.pick(5)
	}
}

// bound of exactly w bytes, biased to the ends of the range (one byte: from 0, the lower edge of the width rule)
func (g *gen) boundOfWidth(w int) uint64 {
	lo, hi := uint64(0), ^uint64(0)
	if w > 1 {
		lo = pow256(w - 1)
	}
	if w < 8 {
		hi = pow256(w) - 1
	}
	switch g.pick(4) {
	case 0:
		return lo
	case 1:
		return hi
	case 2:
		return lo + uint64(g.pick(3))
	}
	if hi-lo > 1<<40 {
		return lo + uint64(g.r.Int63n(1<<40))
	}
	return lo + uint64(g.r.Int63n(int64(hi-lo)+1))
}

func (g *gen) enum() *tm.Type {
	w := g.width()
	if g.pick(2) == 0 {
		return &tm.Type{K: "enum", W: w, Tag: "size", Maxval: tm.NumOf(0)}
	}
	return tm.EnumMax(g.boundOfWidth(w))
}

// vec draws a vector type: bounds and the spelling of its tag.
func (g *gen) vec(elem *tm.Type) *tm.Type {
	min, max := g.vecBounds()
	form := []string{"minmax", "minmax", "maxmin", "max"}[g.pick(4)]
	if form == "max" && min != 0 {
		form = "minmax"
	}
	return tm.VecForm(min, max, elem, form)
}

func (g *gen) vecBounds() (uint64, uint64) {
	max := g.boundOfWidth(g.width())
	min := uint64(0)
	if max == 0 { // MaxlenZeroIsWidth; a minimum above the maximum is outside the grammar
		return 0, 0
	}
	switch g.pick(5) {
	case 0:
		min = 1
	case 1:
		min = uint64(g.pick(6))
	case 2:
		if max < 400 {
			min = max
		}
	}
	if min > max {
		min = max
	}
	return min, max
}

func (g *gen) scalar() *tm.Type {
	switch g.pick(10) {
	case 0, 1, 2:
		return tm.U([]int{1, 2, 3, 3, 4, 8}[g.pick(6)])
	case 3, 4:
		return g.enum()
	case 5:
		return tm.Arr(1 + g.pick(5)*g.pick(8))
	default:
		return g.vec(nil)
	}
}

func (g *gen) member(depth int) *tm.Type {
	if depth > 0 {
		switch g.pick(8) {
		case 0:
			return g.structT(depth - 1)
		case 1:
			return g.vec(g.structT(depth - 1))
		case 2:
			return g.vec(tm.U([]int{2, 3, 4, 8}[g.pick(4)]))
		}
	}
	return g.scalar()
}

func (g *gen) structT(depth int) *tm.Type {
	n := 1 + g.pick(4)
	var fs []tm.Field
	name := func() string { return fmt.Sprintf("F%d", len(fs)) }
	for i := 0; i < n; i++ {
		if g.pick(5) == 0 {
			// select: an enum, then its arms somewhere after it, ordinary members in between
			sel := name()
			e := g.enum()
			fs = append(fs, tm.F(sel, e))
			vals := map[uint64]bool{}
			for a, arms := 0, 1+g.pick(3); a < arms; a++ {
				if g.pick(3) == 0 {
					fs = append(fs, tm.F(name(), g.scalar()))
				}
				val := uint64(g.pick(4))
				if e.W > 1 && g.pick(2) == 0 {
					val = 250 + uint64(g.pick(12))
				}
				if vals[val] {
					continue
				}
				vals[val] = true
				fs = append(fs, tm.A(name(), g.member(depth), sel, val))
			}
			continue
		}
		fs = append(fs, tm.F(name(), g.member(depth)))
	}
	return tm.Struct(fs...)
}

func (g *gen) bytesOf(n int) []byte {
	b := make([]byte, n)
	g.r.Read(b)
	return b
}

func (g *gen) num(w int) uint64 {
	max := ^uint64(0)
	if w < 8 {
		max = pow256(w) - 1
	}
	switch g.pick(5) {
	case 0:
		return 0
	case 1:
		return max
	case 2:
		return uint64(g.pick(4))
	}
	return g.r.Uint64() & max
}

// value draws a value of t; with bad = true it may violate a bound.
func (g *gen) value(t *tm.Type, bad bool) tm.Val {
	switch t.K {
	case "u", "enum":
		v := g.num(t.W)
		if bad && t.W < 8 && (t.K == "enum" || t.W == 3) && g.pick(3) == 0 {
			v = pow256(t.W) + uint64(g.pick(3))
		}
		return tm.Val{K: "num", Num: v}
	case "arr":
		return tm.Val{K: "bytes", Bytes: g.bytesOf(t.N)}
	case "vec":
		min, _ := t.Min.U64()
		max, _ := t.Max.U64()
		if max == 0 { // MaxlenZeroIsWidth: bounded by the one-byte prefix
			max = 255
		}
		if t.Elem.K == "byte" {
			n := min
			switch g.pick(4) {
			case 0:
				n = max
			case 1:
				n = min + uint64(g.pick(6))
			case 2:
				n = uint64(g.pick(300))
			}
			if bad && g.pick(3) == 0 {
				if g.pick(2) == 0 && min > 0 {
					n = min - 1
				} else {
					n = max + 1
				}
			} else if !bad && n > max {
				n = max
			}
			if n > 70000 {
				n = min
				if n > 70000 {
					n = 70000
				}
			}
			return tm.Val{K: "bytes", Bytes: g.bytesOf(int(n))}
		}
		out := tm.Val{K: "list", Items: []tm.Val{}}
		for i, n := 0, g.pick(5)*g.pick(4); i < n; i++ {
			out.Items = append(out.Items, g.value(t.Elem, false))
		}
		return out
	case "struct":
		out := tm.Val{K: "struct", Items: make([]tm.Val, len(t.Fields))}
		env := map[string]uint64{}
		arms := map[string][]uint64{}
		for _, f := range t.Fields {
			if f.Sel != "" {
				v, _ := f.Val.U64()
				arms[f.Sel] = append(arms[f.Sel], v)
			}
		}
		for i, f := range t.Fields {
			if f.Sel == "" {
				x := g.value(f.T, bad)
				if vs := arms[f.Name]; len(vs) > 0 && f.T.K == "enum" && !(bad && g.pick(4) == 0) {
					x.Num = vs[g.pick(len(vs))]
				}
				if f.T.K == "enum" {
					env[f.Name] = x.Num
				}
				out.Items[i] = x
				continue
			}
			want, _ := f.Val.U64()
			chosen := env[f.Sel] == want
			if bad && g.pick(8) == 0 {
				chosen = !chosen
			}
			if chosen {
				out.Items[i] = g.value(f.T, bad)
			} else {
				out.Items[i] = tm.Val{K: "none"}
			}
		}
		return out
	}
	panic("no value for " + t.String())
}

func (g *gen) mutate(b []byte) []byte {
	out := append([]byte{}, b...)
	switch g.pick(7) {
	case 0:
		if len(out) > 0 {
			out = out[:g.pick(len(out))]
		}
	case 1:
		out = append(out, g.bytesOf(1+g.pick(4))...)
	case 2:
		return g.bytesOf(g.pick(24))
	case 3:
		if len(out) > 0 {
			p := g.pick(len(out))
			out = append(out[:p], out[p+1:]...)
		}
	default:
		for k := 0; k <= g.pick(2) && len(out) > 0; k++ {
			p := g.pick(len(out))
			if g.pick(3) == 0 && len(out) > 12 {
				p = g.pick(12)
			}
			switch g.pick(4) {
			case 0:
				out[p]++
			case 1:
				out[p]--
			case 2:
				out[p] = 0xff
			default:
				out[p] = byte(g.pick(256))
			}
		}
	}
	return out
}

// TestRandom is the randomized differential run.
func TestRandom(t *testing.T) {
	ntypes := vh.EnvInt("VERIF_TYPES", 2500)
	rep := vh.NewReport("c09-random", "seeded random struct types from the tag grammar (nesting <= 3, selects with 1-3 arms placed anywhere after the selector, bounds of 1..8 bytes), random values (valid and bound-violating) and random byte mutations; tls.Marshal / tls.Unmarshal against the reference codec that TestReplay ties to the specification; panics, allocation per decode and the re-encoding law are monitored; non-trivial = distinct type with a successful decode")
	c := &checker{rep: rep, counts: map[string]int{}}
	g := &gen{r: vh.Rand(909)}
	for n := 0; n < ntypes; n++ {
		ty := g.structT(1 + g.pick(3))
		top := false
		if g.pick(12) == 0 { // a top-level vector or enum with parameters
			if g.pick(2) == 0 {
				ty = g.enum()
			} else {
				ty = g.vec(nil)
			}
			top = true
		}
		for k := 0; k < 3; k++ {
			v := g.value(ty, k == 2)
			rb, rok := tm.RefEnc(ty, v)
			replay := map[string]any{"type": ty, "top": top, "val": v, "seed": vh.Seed(), "n": n}
			c.checkEncode(ty, top, v, rok, rb, "random", replay)
			if !rok {
				continue
			}
			inputs := [][]byte{rb}
			for m := 0; m < 6; m++ {
				inputs = append(inputs, g.mutate(rb))
			}
			for _, b := range inputs {
				want, rest, ok := tm.RefDec(ty, b)
				c.checkDecode(ty, top, v, b, ok, want, rest, "random", map[string]any{"type": ty, "top": top, "val": v, "input": hex.EncodeToString(b), "seed": vh.Seed(), "n": n})
			}
		}
		if n < 3 {
			rep.Sample(map[string]any{"type": ty.String()})
		}
	}
	keys := make([]string, 0, len(c.counts))
	for k := range c.counts {
		keys = append(keys, k)
	}
	sort.Strings(keys)
	for _, k := range keys {
		rep.Extra[k] = c.counts[k]
	}
	rep.Extra["alloc_max_over_64_per_byte"] = c.maxOver
	if err := rep.Write(); err != nil {
		t.Fatal(err)
	}
}

// TestReplayRandom re-executes violations found by TestRandom (VERIF_CASES: {type, top, val, input}).
func TestReplayRandom(t *testing.T) {
	path := os.Getenv("VERIF_CASES")
	if path == "" {
		t.Skip("VERIF_CASES not set")
	}
	type rr struct {
		Type  *tm.Type `json:"type"`
		Top   bool     `json:"top"`
		Val   tm.Val   `json:"val"`
		Input *string  `json:"input"`
	}
	items, err := vh.LoadNDJSON[rr](path)
	if err != nil {
		t.Fatal(err)
	}
	rep := vh.NewReport("c09-replay-random", "re-execution of a recorded random case against the reference codec")
	c := &checker{rep: rep, counts: map[string]int{}}
	for _, it := range items {
		if it.Type == nil {
			t.Fatal("replay without type")
		}
		rb, rok := tm.RefEnc(it.Type, it.Val)
		c.checkEncode(it.Type, it.Top, it.Val, rok, rb, "random", it)
		if it.Input != nil {
			b, err := hex.DecodeString(*it.Input)
			if err != nil {
				t.Fatal(err)
			}
			want, rest, ok := tm.RefDec(it.Type, b)
			c.checkDecode(it.Type, it.Top, it.Val, b, ok, want, rest, "random", it)
		}
	}
	rep.Replayed = len(items)
	if err := rep.Write(); err != nil {
		t.Fatal(err)
	}
}
