// Package c09 binds spec/codec/TLSCodec.tla to /repo/tls: every (type, value, byte string) case TLC
// exported is executed against tls.Marshal / tls.Unmarshal on Go types built at run time, and the
// specification's results are the expected values.
package c09

import (
	"bytes"
	"fmt"
	"os"
	"reflect"
	"runtime"
	"sort"
	"strings"
	"testing"

	"github.com/google/certificate-transparency-go/tls"

	tm "verifharness/tlsmodel"
	"verifharness/vh"
)

// Case is one exported state of MCTLSCodec.tla.
type Case struct {
	ID struct {
		Fam string `json:"fam"`
		I   int    `json:"i"`
		J   int    `json:"j"`
		L   int    `json:"l"`
		Vi  int    `json:"vi"`
	} `json:"id"`
	Top bool     `json:"top"`
	T   *tm.Type `json:"t"`
	V   tm.Value `json:"v"`
	Enc struct {
		Ok bool    `json:"ok"`
		B  tm.Segs `json:"b"`
	} `json:"enc"`
	Raw struct {
		Ok bool    `json:"ok"`
		B  tm.Segs `json:"b"`
	} `json:"raw"`
	Ins []Input `json:"ins"`
}

// Input is one byte string fed to the decoder with the specification's result.
type Input struct {
	M   string  `json:"m"`
	P   int     `json:"p"`
	D   int     `json:"d"`
	B   tm.Segs `json:"b"`
	Dec struct {
		Ok   bool     `json:"ok"`
		V    tm.Value `json:"v"`
		Rest tm.Segs  `json:"rest"`
	} `json:"dec"`
}

// ---------------------------------------------------------------- the implementation under test

type encResult struct {
	b     []byte
	err   error
	panic any
}

type decResult struct {
	v     tm.Val
	rest  []byte
	err   error
	panic any
	alloc uint64
}

func implMarshal(t *tm.Type, top bool, gv reflect.Value) (r encResult) {
	defer func() {
		if p := recover(); p != nil {
			r.panic = p
		}
	}()
	if top {
		r.b, r.err = tls.MarshalWithParams(gv.Interface(), t.TagString())
	} else {
		r.b, r.err = tls.Marshal(gv.Interface())
	}
	return r
}

var meter = os.Getenv("VERIF_NOMETER") == ""

func implUnmarshal(t *tm.Type, top bool, b []byte) (r decResult) {
	ptr := reflect.New(tm.GoType(t))
	var m0, m1 runtime.MemStats
	func() {
		defer func() {
			if p := recover(); p != nil {
				r.panic = p
			}
		}()
		if meter {
			runtime.ReadMemStats(&m0)
		}
		if top {
			r.rest, r.err = tls.UnmarshalWithParams(b, ptr.Interface(), t.TagString())
		} else {
			r.rest, r.err = tls.Unmarshal(b, ptr.Interface())
		}
		if meter {
			runtime.ReadMemStats(&m1)
			r.alloc = m1.TotalAlloc - m0.TotalAlloc
		}
	}()
	if r.err == nil && r.panic == nil {
		r.v = tm.FromGo(t, ptr.Elem())
	}
	return r
}

// implUnmarshalInto decodes b into a destination that already holds the value prior (a re-used variable): the
// result must not depend on what the destination held before.
func implUnmarshalInto(t *tm.Type, top bool, b []byte, prior tm.Val) (r decResult, ok bool) {
	pv, ok := tm.GoValue(t, prior)
	if !ok {
		return r, false
	}
	ptr := reflect.New(tm.GoType(t))
	ptr.Elem().Set(pv)
	func() {
		defer func() {
			if p := recover(); p != nil {
				r.panic = p
			}
		}()
		if top {
			r.rest, r.err = tls.UnmarshalWithParams(b, ptr.Interface(), t.TagString())
		} else {
			r.rest, r.err = tls.Unmarshal(b, ptr.Interface())
		}
	}()
	if r.err == nil && r.panic == nil {
		r.v = tm.FromGo(t, ptr.Elem())
	}
	return r, true
}

// remeasure repeats a decode that looked too expensive (TotalAlloc is process-wide) and returns the least cost seen.
func remeasure(t *tm.Type, top bool, b []byte) uint64 {
	least := ^uint64(0)
	for i := 0; i < 3; i++ {
		if d := implUnmarshal(t, top, b); d.alloc < least {
			least = d.alloc
		}
	}
	return least
}

// allocBound is what a decode of n input bytes may allocate: the decoded value (at most a small multiple
// of the input: a vector of k-byte elements costs sizeof(element) per element) plus the per-member
// bookkeeping of the reflective decoder, which is proportional to the number of members and therefore to n.
func allocBound(t *tm.Type, n int) uint64 {
	return uint64(allocPerInputByte(t)*n + allocConst)
}

// allocPerInputByte: 64, twice the Go size of the largest vector element type, and - when a vector has struct
// elements - the decoder's bookkeeping per element (two maps per struct, one fieldInfo and one split tag per member:
// about 150 bytes for a one-member element, and every member takes at least one input byte).
func allocPerInputByte(t *tm.Type) int {
	per := allocPerByte + 2*maxElemSize(t)
	if hasStructElems(t) {
		per += allocPerStructElemByte
	}
	return per
}

const (
	allocPerByte           = 64
	allocPerStructElemByte = 256
	allocConst             = 1 << 13
)

// hasStructElems: some vector inside t has struct elements.
func hasStructElems(t *tm.Type) bool {
	switch t.K {
	case "vec":
		return t.Elem.K == "struct" || hasStructElems(t.Elem)
	case "struct":
		for _, f := range t.Fields {
			if hasStructElems(f.T) {
				return true
			}
		}
	}
	return false
}

// maxElemSize is the largest Go size of an element type of a vector of non-bytes inside t: the decoder
// sizes such a vector by its byte length, so sizeof(element) per input byte is linear in the input.
func maxElemSize(t *tm.Type) int {
	m := 0
	switch t.K {
	case "vec":
		if t.Elem.K != "byte" {
			m = int(tm.GoType(t).Elem().Size())
			if e := maxElemSize(t.Elem); e > m {
				m = e
			}
		}
	case "struct":
		for _, f := range t.Fields {
			if e := maxElemSize(f.T); e > m {
				m = e
			}
		}
	}
	return m
}

// ---------------------------------------------------------------- diagnosis: which member is to blame

type checker struct {
	rep      *vh.Report
	refDrift []string // reference codec != specification: an infrastructure error
	maxOver  int64
	counts   map[string]int
	priors   map[string][]tm.Val // per type: a few values decoded earlier, used as prior content of a re-used destination
}

// lawReusedDestination: decoding into a destination that holds another value of the type gives the same result
// (Dec is a function of the type and the bytes; a variable re-used for two decodes is ordinary use).
func (c *checker) lawReusedDestination(t *tm.Type, top bool, b []byte, want tm.Val, wantRest []byte, tag string, replay any) {
	if c.priors == nil {
		c.priors = map[string][]tm.Val{}
	}
	key := t.String()
	for _, prior := range c.priors[key] {
		if prior.Equal(want) {
			continue
		}
		d, ok := implUnmarshalInto(t, top, b, prior)
		if !ok {
			continue
		}
		c.count("dec:reused-destination")
		c.rep.Eval("")
		switch {
		case d.panic != nil:
			c.rep.Violate("reused-destination:panic:"+tag, fmt.Sprintf("tls.Unmarshal of %s into a destination holding %s panics: %v (type %s)", short(b), prior, d.panic, t), replay)
		case d.err != nil:
			c.rep.Violate("reused-destination:rejects:"+tag, fmt.Sprintf("tls.Unmarshal of %s into a destination holding %s fails (%v); into a fresh destination it returns %s (type %s)", short(b), prior, d.err, want, t), replay)
		case !d.v.Equal(want) || !bytes.Equal(d.rest, wantRest):
			c.rep.Violate("reused-destination:"+valueFingerprint(t, want, d.v), fmt.Sprintf("tls.Unmarshal of %s into a destination holding %s returns %s; the encoding decodes to %s (type %s)", short(b), prior, d.v, want, t), replay)
		default:
			// and what was decoded re-encodes to the consumed bytes
			if gv, ok := tm.GoValue(t, d.v); ok {
				e := implMarshal(t, top, gv)
				consumed := b[:len(b)-len(d.rest)]
				if e.panic != nil || e.err != nil || !bytes.Equal(e.b, consumed) {
					c.rep.Violate("reused-destination:reencode-differs:"+tag, fmt.Sprintf("type %s: value decoded into a re-used destination re-encodes to %s (err %v), consumed %s", t, short(e.b), e.err, short(consumed)), replay)
				}
			}
		}
	}
	ps := c.priors[key]
	for _, p := range ps {
		if p.Equal(want) {
			return
		}
	}
	if len(ps) < 3 {
		c.priors[key] = append(ps, want)
	} else {
		ps[len(c.counts)%3] = want
	}
}

func (c *checker) count(k string) { c.counts[k]++ }

func short(b []byte) string {
	if len(b) > 40 {
		return fmt.Sprintf("%x..(%d bytes)", b[:40], len(b))
	}
	return fmt.Sprintf("%x", b)
}

// isolate re-runs every leaf of (t, v) alone in a one-member struct against the reference codec and
// returns the fingerprint of the first leaf on which the implementation disagrees (scalars and opaque
// vectors first, then vectors of structs / integers as a whole).
func isolate(t *tm.Type, v tm.Val) string {
	leaves := tm.Leaves(t, v)
	for pass := 0; pass < 2; pass++ {
		for i := range leaves {
			l := leaves[i]
			if pass == 1 { // vectors of structs / integers as a whole, innermost first
				l = leaves[len(leaves)-1-i]
			}
			if strings.HasSuffix(l.Path, ".len") != (pass == 1) {
				continue
			}
			it := tm.Struct(tm.F("A", l.T))
			iv := tm.Val{K: "struct", Items: []tm.Val{l.V}}
			rb, rok := tm.RefEnc(it, iv)
			gv, ok := tm.GoValue(it, iv)
			if !ok {
				continue
			}
			e := implMarshal(it, false, gv)
			switch {
			case e.panic != nil:
				return l.T.KindName() + ":panic"
			case rok && e.err != nil:
				return l.T.KindName() + ":impl-rejects-valid"
			case !rok && e.err == nil:
				return l.T.KindName() + ":impl-accepts-invalid"
			case rok && !bytes.Equal(rb, e.b):
				return l.T.KindName() + ":wrong-bytes"
			}
			if rok {
				d := implUnmarshal(it, false, rb)
				switch {
				case d.panic != nil:
					return l.T.KindName() + ":panic"
				case d.err != nil:
					return l.T.KindName() + ":impl-rejects-valid"
				case !d.v.Equal(iv):
					return valueFingerprint(it, iv, d.v)
				}
			}
		}
	}
	return ""
}

var u24Probe struct {
	done, defect bool
}

// uint24OffsetDefect probes the one shape that names the defect: struct{A uint8; B uint24} on 07 010203.
func uint24OffsetDefect() bool {
	if !u24Probe.done {
		t := tm.Struct(tm.F("A", tm.U(1)), tm.F("B", tm.U(3)))
		d := implUnmarshal(t, false, []byte{7, 1, 2, 3})
		u24Probe.done = true
		u24Probe.defect = d.err == nil && d.panic == nil && len(d.v.Items) == 2 && d.v.Items[1].Num != 0x010203
	}
	return u24Probe.defect
}

func valueFingerprint(t *tm.Type, want, got tm.Val) string {
	l, ok := tm.FirstDiff(t, want, got)
	if !ok {
		return "wrong-value:unlocated"
	}
	if l.T.K == "u" && l.T.W == 3 && l.Off > 0 && uint24OffsetDefect() {
		return "uint24-not-at-offset-0"
	}
	at := "offset-0"
	if l.Off > 0 {
		at = "offset>0"
	}
	return fmt.Sprintf("wrong-value:%s:%s", l.T.KindName(), at)
}

func (c *checker) violateAccept(where string, t *tm.Type, v tm.Val, class, fallback, what string, replay any) {
	fp := isolate(t, v)
	if fp == "" {
		fp = fallback + ":" + class
	}
	c.rep.Violate(fp, where+": "+what, replay)
}

// ---------------------------------------------------------------- one case

// checkEncode compares tls.Marshal with Enc(T, v).
func (c *checker) checkEncode(t *tm.Type, top bool, v tm.Val, wantOk bool, want []byte, tag string, replay any) {
	gv, ok := tm.GoValue(t, v)
	if !ok {
		c.count("enc:unrepresentable")
		return
	}
	e := implMarshal(t, top, gv)
	c.rep.Eval("")
	desc := fmt.Sprintf("type %s value %s", t, v)
	switch {
	case e.panic != nil:
		c.rep.Violate("panic:Marshal:"+tag, fmt.Sprintf("tls.Marshal panics: %v; %s", e.panic, desc), replay)
	case wantOk && e.err != nil:
		c.violateAccept("Marshal", t, v, "impl-rejects-valid", tag, fmt.Sprintf("%s has the encoding %s, tls.Marshal fails: %v", desc, short(want), e.err), replay)
	case !wantOk && e.err == nil:
		c.violateAccept("Marshal", t, v, "impl-accepts-invalid", tag, fmt.Sprintf("%s has no encoding (a bound is violated), tls.Marshal returns %s", desc, short(e.b)), replay)
	case wantOk && !bytes.Equal(e.b, want):
		c.violateAccept("Marshal", t, v, "wrong-bytes", tag, fmt.Sprintf("%s: encoding must be %s, tls.Marshal returns %s", desc, short(want), short(e.b)), replay)
	}
	if wantOk {
		c.count("enc:ok")
	} else {
		c.count("enc:refused")
	}
}

// checkDecode compares tls.Unmarshal with Dec(T, b) and checks the laws that need no oracle.
func (c *checker) checkDecode(t *tm.Type, top bool, orig tm.Val, b []byte, wantOk bool, want tm.Val, wantRest []byte, tag string, replay any) {
	d := implUnmarshal(t, top, b)
	desc := fmt.Sprintf("type %s input %s", t, short(b))
	key := ""
	if wantOk {
		key = t.String() + "/" + tag
	}
	c.rep.Eval(key)
	if over := int64(d.alloc) - int64(allocPerInputByte(t)*len(b)); over > c.maxOver {
		c.maxOver = over
	}
	switch {
	case d.panic != nil:
		c.rep.Violate("panic:Unmarshal:"+tag, fmt.Sprintf("tls.Unmarshal panics: %v; %s", d.panic, desc), replay)
		return
	case meter && d.alloc > allocBound(t, len(b)) && remeasure(t, top, b) > allocBound(t, len(b)):
		c.rep.Violate("alloc:Unmarshal:"+tag, fmt.Sprintf("tls.Unmarshal allocated %d bytes for %d input bytes; %s", d.alloc, len(b), desc), replay)
	}
	switch {
	case wantOk && d.err != nil:
		c.violateAccept("Unmarshal", t, orig, "impl-rejects-valid", tag, fmt.Sprintf("%s decodes to %s, tls.Unmarshal fails: %v", desc, want, d.err), replay)
		c.count("dec:ok")
		return
	case !wantOk && d.err == nil:
		c.violateAccept("Unmarshal", t, orig, "impl-accepts-invalid", tag, fmt.Sprintf("%s has no decoding, tls.Unmarshal returns %s", desc, d.v), replay)
		c.count("dec:refused")
		return
	case !wantOk:
		c.count("dec:refused")
		return
	}
	c.count("dec:ok")
	if !d.v.Equal(want) {
		c.rep.Violate(valueFingerprint(t, want, d.v), fmt.Sprintf("Unmarshal: %s decodes to %s, tls.Unmarshal returns %s", desc, want, d.v), replay)
		return
	}
	if !bytes.Equal(d.rest, wantRest) {
		c.rep.Violate("wrong-rest:"+tag, fmt.Sprintf("Unmarshal: %s leaves %s unconsumed, tls.Unmarshal returns %s", desc, short(wantRest), short(d.rest)), replay)
		return
	}
	c.lawReencode(t, top, b, d, tag, replay)
	c.lawReusedDestination(t, top, b, want, wantRest, tag, replay)
}

// lawReencode: whatever decodes re-encodes to exactly the bytes that were consumed.
func (c *checker) lawReencode(t *tm.Type, top bool, b []byte, d decResult, tag string, replay any) {
	if len(d.rest) > len(b) || !bytes.Equal(b[len(b)-len(d.rest):], d.rest) {
		c.rep.Violate("law:rest-not-a-suffix:"+tag, fmt.Sprintf("tls.Unmarshal of %s returns a rest %s that is not a suffix of the input", short(b), short(d.rest)), replay)
		return
	}
	gv, ok := tm.GoValue(t, d.v)
	if !ok {
		return
	}
	e := implMarshal(t, top, gv)
	consumed := b[:len(b)-len(d.rest)]
	if e.panic != nil || e.err != nil || !bytes.Equal(e.b, consumed) {
		l := "law:reencode-differs"
		if fp := isolate(t, d.v); fp != "" {
			l = fp
		}
		c.rep.Violate(l, fmt.Sprintf("type %s: tls.Unmarshal consumed %s and returned %s, which tls.Marshal turns into %s (err %v, panic %v)",
			t, short(consumed), d.v, short(e.b), e.err, e.panic), replay)
	}
}

func (c *checker) runCase(cs *Case, line int) {
	v, err := cs.V.Decode()
	if err != nil {
		panic(err)
	}
	fam := cs.ID.Fam
	if fam == "bound" {
		// the tag-bound family (MCTLSCodec.tla Bounds x forms x places): the fingerprint names the place of the tag
		fam = "bound-" + boundPlace(cs.ID.L)
		c.count("bound:" + boundCarrier(cs.ID.J) + ":" + boundPlace(cs.ID.L))
	}
	encWant := cs.Enc.B.Expand()
	// the reference codec is the specification in executable form
	rb, rok := tm.RefEnc(cs.T, v)
	if rok != cs.Enc.Ok || (rok && !bytes.Equal(rb, encWant)) {
		c.refDrift = append(c.refDrift, fmt.Sprintf("case %d Enc: spec ok=%v %s, reference ok=%v %s", line, cs.Enc.Ok, short(encWant), rok, short(rb)))
	}
	replay := map[string]any{"case": cs}
	c.checkEncode(cs.T, cs.Top, v, cs.Enc.Ok, encWant, fam, replay)
	for i := range cs.Ins {
		in := &cs.Ins[i]
		b := in.B.Expand()
		var want tm.Val
		var wantRest []byte
		if in.Dec.Ok {
			if want, err = in.Dec.V.Decode(); err != nil {
				panic(err)
			}
			wantRest = in.Dec.Rest.Expand()
		}
		rv, rrest, rok := tm.RefDec(cs.T, b)
		if rok != in.Dec.Ok || (rok && (!rv.Equal(want) || !bytes.Equal(rrest, wantRest))) {
			c.refDrift = append(c.refDrift, fmt.Sprintf("case %d input %s/%d/%d Dec: spec ok=%v %s, reference ok=%v %s", line, in.M, in.P, in.D, in.Dec.Ok, want, rok, rv))
		}
		one := *cs
		one.Ins = []Input{*in}
		c.checkDecode(cs.T, cs.Top, v, b, in.Dec.Ok, want, wantRest, fam+":"+in.M, map[string]any{"case": &one})
	}
}

// boundPlace / boundCarrier name the places and carriers of the family "bound" of MCTLSCodec.tla.
func boundPlace(l int) string {
	switch l {
	case 1:
		return "params"
	case 2:
		return "only-member"
	case 3:
		return "framed-member"
	case 4:
		return "chosen-arm"
	case 5:
		return "unchosen-arm"
	}
	return fmt.Sprintf("place%d", l)
}

func boundCarrier(j int) string {
	switch j {
	case 1:
		return "maxval"
	case 2:
		return "minlen,maxlen"
	case 3:
		return "maxlen"
	case 4:
		return "maxlen,minlen"
	case 5:
		return "maxlen-uint16s"
	case 6:
		return "minlen=maxlen"
	}
	return fmt.Sprintf("form%d", j)
}

// TestReplay executes the cases exported by TLC (VERIF_CASES, NDJSON).
func TestReplay(t *testing.T) {
	path := os.Getenv("VERIF_CASES")
	if path == "" {
		t.Skip("VERIF_CASES not set")
	}
	cases, err := vh.LoadNDJSON[Case](path)
	if err != nil {
		t.Fatal(err)
	}
	rep := vh.NewReport("c09-replay", "every (type shape, value, byte string) case enumerated by TLC from MCTLSCodec.tla is run against tls.Marshal[WithParams] / tls.Unmarshal[WithParams] on a Go type built with reflect.StructOf; expected bytes, values, rest and accept/reject are the specification's; panics, allocation per decode and the re-encoding law are monitored; non-trivial = distinct (type, mutation kind) with a successful decode")
	c := &checker{rep: rep, counts: map[string]int{}}
	for i := range cases {
		c.runCase(&cases[i], i+1)
	}
	rep.Replayed = len(cases)
	if len(cases) > 0 {
		rep.Sample(map[string]any{"type": cases[0].T.String(), "inputs": len(cases[0].Ins)})
		rep.Sample(map[string]any{"type": cases[len(cases)/2].T.String(), "inputs": len(cases[len(cases)/2].Ins)})
		rep.Sample(map[string]any{"type": cases[len(cases)-1].T.String(), "inputs": len(cases[len(cases)-1].Ins)})
	}
	keys := make([]string, 0, len(c.counts))
	for k := range c.counts {
		keys = append(keys, k)
	}
	sort.Strings(keys)
	for _, k := range keys {
		rep.Extra[k] = c.counts[k]
	}
	rep.Extra["alloc_max_over_64_per_byte"] = c.maxOver
	if err := rep.Write(); err != nil {
		t.Fatal(err)
	}
	if len(c.refDrift) > 0 {
		t.Fatalf("reference codec and specification disagree on %d results (infrastructure error), first: %s", len(c.refDrift), c.refDrift[0])
	}
	for _, k := range []string{"enc:ok", "enc:refused", "dec:ok", "dec:refused"} {
		if c.counts[k] == 0 && len(cases) > 50 {
			t.Fatalf("vacuous run: no case with outcome %s", k)
		}
	}
}
