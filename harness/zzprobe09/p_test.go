package zzprobe09

import (
	"fmt"
	"reflect"
	"testing"

	"github.com/google/certificate-transparency-go/tls"
)

func TestProbe(t *testing.T) {
	type E8 struct {
		A tls.Enum `tls:"size:8"`
	}
	b, err := tls.Marshal(E8{A: 5})
	fmt.Printf("size8 marshal: %x %v\n", b, err)
	var e E8
	rest, err := tls.Unmarshal([]byte{0, 0, 0, 0, 0, 0, 0, 5}, &e)
	fmt.Printf("size8 unmarshal: %v %v %v\n", e, rest, err)
	type E7 struct {
		A tls.Enum `tls:"size:7"`
	}
	b, err = tls.Marshal(E7{A: 5})
	fmt.Printf("size7 marshal: %x %v\n", b, err)
	type M struct {
		A tls.Enum `tls:"maxval:2"`
	}
	b, err = tls.Marshal(M{A: 200})
	fmt.Printf("maxval2 marshal 200: %x %v\n", b, err)
	type V struct {
		A uint8
		B tls.Uint24
	}
	var v V
	rest, err = tls.Unmarshal([]byte{7, 1, 2, 3}, &v)
	fmt.Printf("F1: %+v %v %v\n", v, rest, err)
	// reflect.StructOf
	st := reflect.StructOf([]reflect.StructField{
		{Name: "A", Type: reflect.TypeOf(uint8(0))},
		{Name: "B", Type: reflect.TypeOf(tls.Uint24(0))},
		{Name: "C", Type: reflect.TypeOf([]uint16{}), Tag: `tls:"minlen:2,maxlen:6"`},
	})
	pv := reflect.New(st)
	rest, err = tls.Unmarshal([]byte{7, 1, 2, 3, 4, 0, 1, 0, 2, 9}, pv.Interface())
	fmt.Printf("structof: %+v %v %v\n", pv.Elem().Interface(), rest, err)
	b, err = tls.Marshal(pv.Elem().Interface())
	fmt.Printf("structof marshal: %x %v\n", b, err)
	// top-level params
	var bs []byte
	rest, err = tls.UnmarshalWithParams([]byte{0, 2, 1, 2, 3}, &bs, "minlen:1,maxlen:300")
	fmt.Printf("params: %v %v %v\n", bs, rest, err)
	var en tls.Enum
	rest, err = tls.UnmarshalWithParams([]byte{0, 2, 1, 2, 3}, &en, "maxval:300")
	fmt.Printf("params enum: %v %v %v\n", en, rest, err)
	b, err = tls.MarshalWithParams(tls.Enum(70000), "maxval:300")
	fmt.Printf("params enum marshal: %x %v\n", b, err)
	b, err = tls.MarshalWithParams(tls.Uint24(1<<24), "")
	fmt.Printf("u24 overflow marshal: %x %v\n", b, err)
}
