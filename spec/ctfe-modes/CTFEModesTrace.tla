--------------------------- MODULE CTFEModesTrace ---------------------------
(***************************************************************************)
(* Trace validation: steps chosen by the harness (harness/cmodes,          *)
(* TestTrace) on real instances - environment steps and requests, over     *)
(* larger trees than the model checker explores - recorded one JSON object *)
(* per line with the ABSTRACT reply the harness' independent client        *)
(* observed and the number of write calls the instance has made to its     *)
(* backend.  Every line must be the step of CTFEModes with the same        *)
(* arguments, taken in the state reached so far, with the same reply and   *)
(* the same number of write calls; the laws of CTFEModes are checked as    *)
(* invariants on every state the real execution passed through.  A Reset   *)
(* line starts a new instance (mode, roots, frozen STH, initial sizes).    *)
(***************************************************************************)
EXTENDS CTFEModes, Json, IOUtils

Trace == ndJsonDeserialize(IOEnv.TRACE_FILE)

VARIABLE l        \* next line of Trace to consume
tvars == <<vars, l>>

E == Trace[l]
STHOf(j) == [kind |-> j.kind, size |-> j.size, ts |-> j.ts]
RepOf(j) == [status |-> j.status, sth |-> STHOf(j.sth), n |-> j.n, asked |-> j.asked]
Endpoints == {"GetSTH", "GetConsistency", "GetProofByHash", "GetEntries", "GetEntryAndProof", "GetRoots", "AddChain"}

TraceInit ==
  /\ l = 1 /\ TLCSet(1, 1) /\ TLCSet(2, "init")
  /\ mode = "regular" /\ hasRoots = TRUE /\ frozen = NoSTH
  /\ srcSize = 0 /\ srcSTHs = {} /\ clock = 1 /\ store = {}
  /\ bsize = 0 /\ queued = 0 /\ writes = 0 /\ adds = 0 /\ maxServed = -1
  /\ last = [op |-> "Init", args |-> NoArgs, reply |-> NotServed,
             pre |-> [mode |-> "regular", roots |-> TRUE, frozen |-> NoSTH, bsize |-> 0, srcSize |-> 0, queued |-> 0]]
  /\ hist = <<>>

TraceReset ==
  /\ l <= Len(Trace) /\ E.op = "Reset"
  /\ mode' = E.pre.mode /\ hasRoots' = E.pre.roots /\ frozen' = STHOf(E.pre.frozen)
  /\ srcSize' = E.pre.srcSize /\ bsize' = E.pre.bsize
  /\ mode' \in Modes /\ (mode' \in FrozenModes <=> frozen'.kind = "frozen") /\ frozen'.size <= bsize'
  /\ (mode' \in MirrorModes => srcSize' >= bsize') /\ (mode' \notin MirrorModes => hasRoots' /\ srcSize' = 0)
  /\ srcSTHs' = {} /\ store' = {} /\ clock' = 1
  /\ queued' = 0 /\ writes' = 0 /\ adds' = 0 /\ maxServed' = -1
  /\ last' = [op |-> "Init", args |-> NoArgs, reply |-> NotServed,
              pre |-> [mode |-> mode', roots |-> hasRoots', frozen |-> frozen', bsize |-> bsize', srcSize |-> srcSize', queued |-> 0]]
  /\ hist' = <<>>
  /\ l' = l + 1

TraceStep ==
  /\ l <= Len(Trace) /\ E.op # "Reset"
  /\ E.pre.bsize = bsize /\ E.pre.queued = queued /\ E.pre.srcSize = srcSize
  /\ CASE E.op = "SrcAppend" -> SrcAppend(E.args.k)
       [] E.op = "SrcPublish" -> SrcPublish /\ E.args.size = srcSize /\ E.args.ts = clock
       [] E.op = "StoreSTH" -> StoreSTH(Src(E.args.size, E.args.ts))
       [] E.op = "Forget" -> Forget(Src(E.args.size, E.args.ts))
       [] E.op = "Integrate" -> Integrate(E.args.k)
       [] E.op = "Sequence" -> Sequence /\ E.args.k = queued
       [] E.op = "GetSTH" -> GetSTH(E.args.bf, E.args.pick, STHOf(E.args.want))
       [] E.op = "GetConsistency" -> GetConsistency(E.args.first, E.args.second)
       [] E.op = "GetProofByHash" -> GetProofByHash(E.args.index, E.args.size)
       [] E.op = "GetEntryAndProof" -> GetEntryAndProof(E.args.index, E.args.size)
       [] E.op = "GetEntries" -> GetEntries(E.args.start, E.args.end)
       [] E.op = "GetRoots" -> GetRoots
       [] E.op = "AddChain" -> AddChain(E.args.pre)
       [] OTHER -> FALSE
  /\ E.op \in Endpoints => last'.reply = RepOf(E.reply)
  /\ writes' = E.writes
  /\ l' = l + 1

TraceNext == TraceReset \/ TraceStep
TraceView == <<mode, hasRoots, frozen, srcSize, srcSTHs, clock, store, bsize, queued, writes, adds, maxServed, l>>

\* high-water mark of consumed lines, with the state reached there (a postcondition cannot read state variables)
Reached == [mode |-> mode, bsize |-> bsize, srcSize |-> srcSize, store |-> store, queued |-> queued, writes |-> writes]
HighWater == IF TLCGet(1) < l THEN TLCSet(1, l) /\ TLCSet(2, Reached) ELSE TRUE
TraceAccepted ==
  IF TLCGet(1) = Len(Trace) + 1 THEN TRUE
  ELSE /\ PrintT(<<"STUCK", ToJson([line |-> TLCGet(1), event |-> Trace[TLCGet(1)], state |-> TLCGet(2)])>>)
       /\ FALSE
=============================================================================
