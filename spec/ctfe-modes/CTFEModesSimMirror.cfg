CONSTANTS
  Modes = {"mirror"}
  MaxSize = 5
  MaxTs = 4
  MaxAdds = 3
  InitSizes = {0, 1, 3}
  Defect = "none"
  Depth = 16
INIT Init
NEXT SimNext

INVARIANTS ExportFinished TypeOK MirrorNeverAhead ServedStaysBacked MirrorServesSourceSTH MirrorAsksWithBackendSize NoWritesWhereReadOnly AddNotServedWhereReadOnly FrozenIsConstant ErrorsCarryNoSTH StorageErrorIsError ReadsAreBacked

CHECK_DEADLOCK FALSE
