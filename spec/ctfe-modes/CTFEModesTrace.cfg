CONSTANTS
  Modes = {"regular", "readonly", "frozen", "frozenrw", "mirror", "mirrorfrozen"}
  MaxSize = 8
  MaxTs = 8
  MaxAdds = 4
  InitSizes = {0, 1, 2}
  Defect = "none"
INIT TraceInit
NEXT TraceNext
VIEW TraceView
CONSTRAINT HighWater
INVARIANTS TypeOK MirrorNeverAhead ServedStaysBacked MirrorServesSourceSTH MirrorAsksWithBackendSize NoWritesWhereReadOnly AddNotServedWhereReadOnly FrozenIsConstant ErrorsCarryNoSTH StorageErrorIsError ReadsAreBacked
POSTCONDITION TraceAccepted
CHECK_DEADLOCK FALSE
