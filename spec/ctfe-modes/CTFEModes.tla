------------------------------ MODULE CTFEModes ------------------------------
(***************************************************************************)
(* The personalities of a CTFE instance and the mirror pipeline            *)
(* (trillian/ctfe: config.go, instance.go, handlers.go newLogInfo /        *)
(* Handlers, sth.go; configpb/config.proto for what is promised).          *)
(*                                                                         *)
(* One LogConfig makes one instance in one of these modes:                 *)
(*   regular       own key; all eight endpoints; get-sth signs the         *)
(*                 backend's current root (LogSTHGetter)                   *)
(*   readonly      is_readonly: "serves only read endpoints, and rejects   *)
(*                 writes through the add-[pre-]chain endpoint"            *)
(*   frozen        frozen_sth + is_readonly: "the STH that this log will   *)
(*                 serve permanently" (FrozenSTHGetter)                    *)
(*   frozenrw      frozen_sth alone.  The documentation does not say       *)
(*                 whether a log with a frozen STH takes submissions; the  *)
(*                 code does (named clause FrozenAloneTakesWrites:         *)
(*                 observed, unasserted - the harness follows what the     *)
(*                 code does and only demands that the STH stays frozen)   *)
(*   mirror        is_mirror: no private key, public key = the SOURCE      *)
(*                 log's, roots optional; "doesn't handle write requests"; *)
(*                 get-sth serves a source STH out of a MirrorSTHStorage   *)
(*                 "such that TreeSize <= Trillian log size"               *)
(*                 (MirrorSTHGetter)                                       *)
(*   mirrorfrozen  is_mirror + frozen_sth (signed by the source key)       *)
(*                                                                         *)
(* The environment of a mirror.  The source log grows (SrcAppend) and      *)
(* publishes STHs (SrcPublish: its current size, a fresh timestamp).  The  *)
(* operator "must ensure to channel source log's STHs into CTFE"           *)
(* (StoreSTH: one published STH reaches the MirrorSTHStorage; Forget: the  *)
(* storage loses one).  A migration job copies source entries into the     *)
(* backend tree (Integrate), behind the source - and in no fixed order     *)
(* with respect to the STHs: an STH may be in the storage before its       *)
(* entries are in the backend.  This is what the size bound is for.        *)
(*                                                                         *)
(* MirrorSTHStorage.GetMirrorSTH(max): "returns an STH of TreeSize <=      *)
(* maxTreeSize.  It does best effort to maximize the returned STH's        *)
(* TreeSize and/or Timestamp": every request to a mirror carries what the  *)
(* storage does with it (pick): "best" = the largest eligible one,         *)
(* "older" = any eligible one, "err" = an error (the only possibility when *)
(* nothing is eligible).  The storage honours its contract; what a mirror  *)
(* does with a storage that does not (an STH beyond max, a signature that  *)
(* is not the source's) is observed by the harness and unasserted.         *)
(*                                                                         *)
(* Abstraction.  Trees are sizes: in a mirror the backend tree is a prefix *)
(* of the source's, elsewhere it is the log's own; leaf bytes, root hashes *)
(* and signatures are re-attached by the harness (real certificates, an    *)
(* independent Merkle tree, real keys).  An STH is (kind, size, ts): "own" *)
(* = signed by the instance's key over the backend root of that size (ts   *)
(* not modelled: 0), "src" = one the source published, "frozen" = the      *)
(* configured one.  A reply is (status, sth, n, asked): status "ok" = 200  *)
(* with a body that verifies, "refused" = 4xx, "error" = 5xx, "notserved"  *)
(* = the instance has no handler for the path; n = entries returned /      *)
(* leaf index / roots served; asked = the maxTreeSize the storage was      *)
(* asked with (-1: not asked).                                             *)
(***************************************************************************)
EXTENDS Integers, Sequences, FiniteSets, TLC

CONSTANTS Modes,      \* the modes explored (subset of AllModes)
          MaxSize,    \* bound on tree sizes
          MaxTs,      \* bound on source timestamps
          MaxAdds,    \* bound on submissions per behaviour
          InitSizes,  \* sizes the backend (and the source) may start with
          Defect      \* "none"; "ignoresMax": the mirror asks its storage without the bound (non-vacuity of MirrorNeverAhead)

AllModes == {"regular", "readonly", "frozen", "frozenrw", "mirror", "mirrorfrozen"}
MirrorModes == {"mirror", "mirrorfrozen"}
FrozenModes == {"frozen", "frozenrw", "mirrorfrozen"}
NoWriteModes == {"readonly", "frozen", "mirror", "mirrorfrozen"}    \* is_readonly or is_mirror

ASSUME Modes \subseteq AllModes /\ Defect \in {"none", "ignoresMax"}

VARIABLES mode,       \* the personality (fixed by the configuration)
          hasRoots,   \* the configuration lists root certificates (optional in mirrors only)
          frozen,     \* the configured frozen STH, NoSTH in modes without one
          srcSize,    \* entries in the source log (mirrors)
          srcSTHs,    \* STHs the source log has published
          clock,      \* the source's next timestamp
          store,      \* content of the MirrorSTHStorage
          bsize,      \* size of the backend's published tree
          queued,     \* leaves queued in the backend, not yet integrated
          writes,     \* write calls (QueueLeaf, AddSequencedLeaves) the instance has made to the backend
          adds,       \* submissions made
          maxServed,  \* largest tree size of an STH served so far (-1: none)
          last,       \* the last step
          hist        \* all steps (export)

cfgvars == <<mode, hasRoots, frozen>>
srcvars == <<srcSize, srcSTHs, clock, store>>
bevars == <<bsize, queued, writes, adds>>
vars == <<mode, hasRoots, frozen, srcSize, srcSTHs, clock, store, bsize, queued, writes, adds, maxServed, last, hist>>

NoSTH == [kind |-> "none", size |-> 0, ts |-> 0]
Own(n) == [kind |-> "own", size |-> n, ts |-> 0]
Src(n, t) == [kind |-> "src", size |-> n, ts |-> t]
Frozen(n) == [kind |-> "frozen", size |-> n, ts |-> 0]

Rep(st, sth, n, asked) == [status |-> st, sth |-> sth, n |-> n, asked |-> asked]
NotServed == Rep("notserved", NoSTH, 0, -1)
Refused == Rep("refused", NoSTH, 0, -1)
NoArgs == [x |-> 0]

Min(a, b) == IF a < b THEN a ELSE b

(* ------------------------------ the storage ---------------------------- *)
\* what the mirror asks its storage for: an STH no larger than the backend's current tree
AskMax == IF Defect = "ignoresMax" THEN MaxSize ELSE bsize
Eligible(max) == {s \in store : s.size <= max}
Better(a, b) == a.size > b.size \/ (a.size = b.size /\ a.ts >= b.ts)
Best(S) == CHOOSE s \in S : \A t \in S : Better(s, t)
Picks == {"best", "older", "err"}
\* is (pick, want) something a contract-honouring storage may do when asked with max?
StorageMay(pick, want, max) ==
  \/ pick = "err" /\ want = NoSTH
  \/ pick = "best" /\ Eligible(max) # {} /\ want = Best(Eligible(max))
  \/ pick = "older" /\ want \in Eligible(max)

(* -------------------------------- steps -------------------------------- *)
Step(op, args, reply) ==
  /\ last' = [op |-> op, args |-> args, reply |-> reply,
              pre |-> [mode |-> mode, roots |-> hasRoots, frozen |-> frozen, bsize |-> bsize, srcSize |-> srcSize,
                       queued |-> queued]]
  /\ hist' = Append(hist, last')

Init ==
  /\ mode \in Modes
  /\ hasRoots \in (IF mode \in MirrorModes THEN BOOLEAN ELSE {TRUE})
  /\ bsize \in InitSizes
  /\ srcSize \in (IF mode \in MirrorModes THEN {n \in InitSizes : n >= bsize} ELSE {0})
  \* a frozen log was frozen at a size its backend holds
  /\ frozen \in (IF mode \in FrozenModes THEN {Frozen(n) : n \in {m \in InitSizes : m <= bsize}} ELSE {NoSTH})
  /\ srcSTHs = {} /\ store = {} /\ clock = 1
  /\ queued = 0 /\ writes = 0 /\ adds = 0 /\ maxServed = -1
  /\ last = [op |-> "Init", args |-> NoArgs, reply |-> NotServed,
             pre |-> [mode |-> mode, roots |-> hasRoots, frozen |-> frozen, bsize |-> bsize, srcSize |-> srcSize, queued |-> 0]]
  /\ hist = <<>>

(* the environment *)
SrcAppend(k) ==
  /\ mode \in MirrorModes /\ k >= 1 /\ srcSize + k <= MaxSize
  /\ srcSize' = srcSize + k
  /\ Step("SrcAppend", [k |-> k], NotServed)
  /\ UNCHANGED <<cfgvars, srcSTHs, clock, store, bevars, maxServed>>

SrcPublish ==
  /\ mode \in MirrorModes /\ clock <= MaxTs
  /\ srcSTHs' = srcSTHs \cup {Src(srcSize, clock)}
  /\ clock' = clock + 1
  /\ Step("SrcPublish", [size |-> srcSize, ts |-> clock], NotServed)
  /\ UNCHANGED <<cfgvars, srcSize, store, bevars, maxServed>>

StoreSTH(s) ==
  /\ mode \in MirrorModes /\ s \in srcSTHs \ store
  /\ store' = store \cup {s}
  /\ Step("StoreSTH", [size |-> s.size, ts |-> s.ts], NotServed)
  /\ UNCHANGED <<cfgvars, srcSize, srcSTHs, clock, bevars, maxServed>>

Forget(s) ==
  /\ mode \in MirrorModes /\ s \in store
  /\ store' = store \ {s}
  /\ Step("Forget", [size |-> s.size, ts |-> s.ts], NotServed)
  /\ UNCHANGED <<cfgvars, srcSize, srcSTHs, clock, bevars, maxServed>>

\* the backend's tree grows by k entries that did not come through this instance: the migration job of a mirror
\* (entries of the source, in order, never beyond it), another writer elsewhere
Integrate(k) ==
  /\ k >= 1
  /\ IF mode \in MirrorModes THEN bsize + k <= srcSize ELSE bsize + queued + k <= MaxSize
  /\ bsize' = bsize + k
  /\ Step("Integrate", [k |-> k], NotServed)
  /\ UNCHANGED <<cfgvars, srcvars, queued, writes, adds, maxServed>>

\* the backend integrates what this instance queued
Sequence ==
  /\ queued > 0
  /\ bsize' = bsize + queued /\ queued' = 0
  /\ Step("Sequence", [k |-> queued], NotServed)
  /\ UNCHANGED <<cfgvars, srcvars, writes, adds, maxServed>>

(* the endpoints *)
\* bf: what the backend does with the root request ("none": answers); pick / want: what the storage does (mirrors)
STHReply(bf, pick, want) ==
  IF mode \in FrozenModes THEN Rep("ok", frozen, 0, -1)                      \* neither the backend nor the storage is asked
  ELSE IF bf # "none" THEN Rep("error", NoSTH, 0, -1)
  ELSE IF mode \in MirrorModes THEN
         (IF pick = "err" THEN Rep("error", NoSTH, 0, AskMax) ELSE Rep("ok", want, 0, AskMax))
  ELSE Rep("ok", Own(bsize), 0, -1)

GetSTH(bf, pick, want) ==
  /\ IF mode = "mirror" THEN pick \in Picks /\ StorageMay(pick, want, AskMax)
     ELSE pick = "na" /\ want = NoSTH
  /\ LET r == STHReply(bf, pick, want) IN
       /\ maxServed' = IF r.status = "ok" /\ r.sth.size > maxServed THEN r.sth.size ELSE maxServed
       /\ Step("GetSTH", [bf |-> bf, pick |-> pick, want |-> want], r)
  /\ UNCHANGED <<cfgvars, srcvars, bevars>>

\* every other read endpoint is served from the backend tree in every mode
GetConsistency(first, second) ==
  /\ 1 <= first /\ first <= second
  /\ Step("GetConsistency", [first |-> first, second |-> second],
          IF second <= bsize THEN Rep("ok", NoSTH, 0, -1) ELSE Refused)
  /\ UNCHANGED <<cfgvars, srcvars, bevars, maxServed>>

\* the hash of leaf `index` of the reference tree (in a mirror: of the SOURCE's tree, integrated or not)
GetProofByHash(index, size) ==
  /\ index >= 0 /\ size >= 1
  /\ Step("GetProofByHash", [index |-> index, size |-> size],
          IF index < size /\ size <= bsize THEN Rep("ok", NoSTH, index, -1) ELSE Refused)
  /\ UNCHANGED <<cfgvars, srcvars, bevars, maxServed>>

GetEntries(start, end) ==
  /\ 0 <= start /\ start <= end
  /\ Step("GetEntries", [start |-> start, end |-> end],
          IF start < bsize THEN Rep("ok", NoSTH, Min(end, bsize - 1) - start + 1, -1) ELSE Refused)
  /\ UNCHANGED <<cfgvars, srcvars, bevars, maxServed>>

GetEntryAndProof(index, size) ==
  /\ index >= 0 /\ size >= 1
  /\ Step("GetEntryAndProof", [index |-> index, size |-> size],
          IF index < size /\ size <= bsize THEN Rep("ok", NoSTH, index, -1) ELSE Refused)
  /\ UNCHANGED <<cfgvars, srcvars, bevars, maxServed>>

\* "The certs are served through get-roots endpoint.  Optional in mirrors."
GetRoots ==
  /\ Step("GetRoots", NoArgs, Rep("ok", NoSTH, IF hasRoots THEN 1 ELSE 0, -1))
  /\ UNCHANGED <<cfgvars, srcvars, bevars, maxServed>>

\* a fresh, acceptable chain to add-chain (pre = FALSE) or add-pre-chain (pre = TRUE)
AddChain(pre) ==
  /\ adds < MaxAdds
  /\ adds' = adds + 1
  /\ IF mode \in NoWriteModes
     THEN /\ Step("AddChain", [pre |-> pre], NotServed)
          /\ UNCHANGED <<bsize, queued, writes>>
     ELSE /\ bsize + queued < MaxSize
          /\ queued' = queued + 1 /\ writes' = writes + 1
          /\ Step("AddChain", [pre |-> pre], Rep("ok", NoSTH, 0, -1))
          /\ UNCHANGED bsize
  /\ UNCHANGED <<cfgvars, srcvars, maxServed>>

Sizes == 0..MaxSize
EnvNext == \/ \E k \in 1..MaxSize : SrcAppend(k) \/ Integrate(k)
           \/ SrcPublish \/ Sequence
           \/ \E s \in srcSTHs : StoreSTH(s) \/ Forget(s)
STHNext == \E bf \in {"none", "unavailable"} :
              \/ GetSTH(bf, "na", NoSTH)
              \/ \E pick \in Picks, want \in store \cup {NoSTH} : GetSTH(bf, pick, want)
ReadNext == \/ \E a \in 1..MaxSize, b \in 1..(MaxSize + 1) : GetConsistency(a, b)
            \/ \E i \in Sizes, n \in 1..(MaxSize + 1) : GetProofByHash(i, n) \/ GetEntryAndProof(i, n)
            \/ \E a \in Sizes, b \in Sizes : GetEntries(a, b)
            \/ GetRoots
Next == EnvNext \/ STHNext \/ ReadNext \/ \E pre \in BOOLEAN : AddChain(pre)

Spec == Init /\ [][Next]_vars

(* ------------------------------- the laws ------------------------------ *)
STHs == [kind : {"none", "own", "src", "frozen"}, size : 0..MaxSize, ts : 0..MaxTs]
TypeOK ==
  /\ mode \in Modes /\ hasRoots \in BOOLEAN /\ frozen \in STHs
  /\ srcSize \in Sizes /\ bsize \in Sizes /\ queued \in Sizes /\ clock \in 1..(MaxTs + 1)
  /\ srcSTHs \subseteq STHs /\ store \subseteq srcSTHs
  /\ writes \in 0..MaxAdds /\ adds \in 0..MaxAdds /\ maxServed \in -1..MaxSize

IsSTHReply == last.op = "GetSTH"
ServedSTH == IsSTHReply /\ last.reply.status = "ok"

\* sth.go, MirrorSTHGetter.GetSTH: "... such that TreeSize <= Trillian log size.  This is to ensure that the mirror
\* doesn't expose a "future" state of the log before it is properly stored in Trillian."
MirrorNeverAhead == (mode = "mirror" /\ ServedSTH) => last.reply.sth.size <= bsize
\* ... so that whatever an STH ever served commits to stays backed by the backend tree (sizes never shrink)
ServedStaysBacked == maxServed <= bsize
\* config.proto is_mirror: "it serves the data of another (source) log ... A mirror doesn't have the source log's key
\* and can't sign STHs.  Consequently, the log operator must ensure to channel source log's STHs into CTFE."
MirrorServesSourceSTH == (mode = "mirror" /\ ServedSTH) => last.reply.sth \in srcSTHs /\ last.reply.sth.kind = "src"
\* sth.go, MirrorSTHStorage: "GetMirrorSTH returns an STH of TreeSize <= maxTreeSize": the bound handed over is the
\* backend's size as the request found it
MirrorAsksWithBackendSize == (mode = "mirror" /\ IsSTHReply /\ last.reply.asked # -1) => last.reply.asked = bsize
\* config.proto is_mirror: "It doesn't handle write requests (add-chain, etc.)"; log_id: "CTFE in mirror mode uses only
\* read API"; is_readonly: "the log serves only read endpoints, and rejects writes through the add-[pre-]chain endpoint"
NoWritesWhereReadOnly == mode \in NoWriteModes => writes = 0 /\ queued = 0
AddNotServedWhereReadOnly == (mode \in NoWriteModes /\ last.op = "AddChain") => last.reply.status = "notserved"
\* config.proto frozen_sth: "The STH that this log will serve permanently (if present)"; sth.go: "FrozenSTHGetter is an
\* STHGetter implementation returning a constant STH"
FrozenIsConstant == (mode \in FrozenModes /\ IsSTHReply) => last.reply = Rep("ok", frozen, 0, -1)
\* an error of the storage or of the backend is an error of get-sth: no STH is made up
ErrorsCarryNoSTH == (IsSTHReply /\ last.reply.status # "ok") => last.reply.sth = NoSTH /\ last.reply.status = "error"
StorageErrorIsError == (mode = "mirror" /\ IsSTHReply /\ last.args.pick = "err") => last.reply.status = "error"
\* nothing is served that the backend tree cannot back
ReadsAreBacked ==
  /\ (last.op = "GetConsistency" /\ last.reply.status = "ok") => last.args.second <= bsize
  /\ (last.op \in {"GetProofByHash", "GetEntryAndProof"} /\ last.reply.status = "ok") => last.args.size <= bsize /\ last.args.index < last.args.size
  /\ (last.op = "GetEntries" /\ last.reply.status = "ok") => last.args.start + last.reply.n <= bsize /\ last.reply.n >= 1
\* the configuration does not change, the trees only grow
ConfigFixed == [][UNCHANGED cfgvars]_vars
TreesGrow == [][bsize' >= bsize /\ srcSize' >= srcSize]_vars
\* only a submission to a log that takes submissions makes the instance write to its backend
WritesOnlyByAddChain == [][writes' # writes => (last'.op = "AddChain" /\ mode \notin NoWriteModes /\ writes' = writes + 1)]_vars
\* the instance's endpoints change nothing of the source, the storage and the published tree
EndpointsReadOnly == [][last'.op \in {"GetSTH", "GetConsistency", "GetProofByHash", "GetEntries", "GetEntryAndProof", "GetRoots", "AddChain"}
                         => UNCHANGED <<srcvars, bsize>>]_vars
=============================================================================
