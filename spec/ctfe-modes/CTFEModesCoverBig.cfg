CONSTANTS
  Modes = {"regular", "readonly", "frozen", "frozenrw", "mirror", "mirrorfrozen"}
  MaxSize = 3
  MaxTs = 2
  MaxAdds = 1
  InitSizes = {0, 2}
  Defect = "none"
  Depth = 4
INIT Init
NEXT CoverNext
VIEW CoverView
INVARIANTS ExportAtDepth

CHECK_DEADLOCK FALSE
