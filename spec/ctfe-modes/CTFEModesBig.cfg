CONSTANTS
  Modes = {"regular", "readonly", "frozen", "frozenrw", "mirror", "mirrorfrozen"}
  MaxSize = 4
  MaxTs = 3
  MaxAdds = 2
  InitSizes = {0, 1, 3}
  Defect = "none"
  Depth = 0
INIT Init
NEXT Next
VIEW StateView
INVARIANTS TypeOK MirrorNeverAhead ServedStaysBacked MirrorServesSourceSTH MirrorAsksWithBackendSize NoWritesWhereReadOnly AddNotServedWhereReadOnly FrozenIsConstant ErrorsCarryNoSTH StorageErrorIsError ReadsAreBacked
PROPERTIES ConfigFixed TreesGrow WritesOnlyByAddChain EndpointsReadOnly
CHECK_DEADLOCK FALSE
