CONSTANTS
  Modes = {"mirror"}
  MaxSize = 3
  MaxTs = 2
  MaxAdds = 1
  InitSizes = {0, 2}
  Defect = "ignoresMax"
  Depth = 0
INIT Init
NEXT Next
VIEW StateView
INVARIANTS MirrorNeverAhead

CHECK_DEADLOCK FALSE
