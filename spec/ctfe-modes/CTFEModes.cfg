CONSTANTS
  Modes = {"regular", "readonly", "frozen", "frozenrw", "mirror", "mirrorfrozen"}
  MaxSize = 3
  MaxTs = 2
  MaxAdds = 2
  InitSizes = {0, 2}
  Defect = "none"
  Depth = 0
INIT Init
NEXT Next
VIEW StateView
INVARIANTS TypeOK MirrorNeverAhead ServedStaysBacked MirrorServesSourceSTH MirrorAsksWithBackendSize NoWritesWhereReadOnly AddNotServedWhereReadOnly FrozenIsConstant ErrorsCarryNoSTH StorageErrorIsError ReadsAreBacked
PROPERTIES ConfigFixed TreesGrow WritesOnlyByAddChain EndpointsReadOnly
CHECK_DEADLOCK FALSE
