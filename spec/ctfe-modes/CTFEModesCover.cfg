CONSTANTS
  Modes = {"regular", "readonly", "frozen", "frozenrw", "mirror", "mirrorfrozen"}
  MaxSize = 2
  MaxTs = 2
  MaxAdds = 1
  InitSizes = {0, 1}
  Defect = "none"
  Depth = 3
INIT Init
NEXT CoverNext
VIEW CoverView
INVARIANTS ExportAtDepth

CHECK_DEADLOCK FALSE
