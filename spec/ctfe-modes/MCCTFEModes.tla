---------------------------- MODULE MCCTFEModes ----------------------------
(* Model-checking, cover and simulation instances of CTFEModes. *)
EXTENDS CTFEModes, Json

CONSTANT Depth    \* length of exported behaviours (cover and simulation configs)

\* exhaustive check: the history variables do not distinguish states
StateView == <<mode, hasRoots, frozen, srcSize, srcSTHs, clock, store, bsize, queued, writes, adds, maxServed>>

(* --- cover: every (state reachable in Depth-1 steps) x (every action) pair ends one behaviour --- *)
CoverNext == Len(hist) < Depth /\ Next
CoverView == <<StateView, IF Len(hist) >= Depth THEN last ELSE <<>> >>
ExportAtDepth == Len(hist) = Depth => PrintT(<<"BEH", ToJson(hist)>>)

(* --- simulation: one successor per step, weighted towards histories in which a mirror has something to serve --- *)
End == [op |-> "End"]
Finish == Len(hist) = Depth /\ hist' = Append(hist, End)
          /\ UNCHANGED <<mode, hasRoots, frozen, srcSize, srcSTHs, clock, store, bsize, queued, writes, adds, maxServed, last>>
ExportFinished == (Len(hist) = Depth + 1) => PrintT(<<"BEH", ToJson(SubSeq(hist, 1, Depth))>>)

\* (a definition without parameters is a constant to TLC and would be drawn once: hence the unused parameters)
SomeBF(u) == IF RandomElement(1..7) = 1 THEN "unavailable" ELSE "none"
SomeSize(u) == RandomElement(1..(MaxSize + 1))
\* a size a client has reason to ask about: one it was served, the backend's, the source's
KnownSize(u) == IF RandomElement(1..3) = 1 /\ maxServed >= 1 THEN maxServed
                ELSE IF RandomElement(1..2) = 1 /\ bsize >= 1 THEN bsize
                ELSE IF srcSize >= 1 /\ RandomElement(1..2) = 1 THEN srcSize ELSE SomeSize(u)
Idle == /\ Step("GetRoots", NoArgs, Rep("ok", NoSTH, IF hasRoots THEN 1 ELSE 0, -1))
        /\ UNCHANGED <<cfgvars, srcvars, bevars, maxServed>>
\* what the storage of a mirror does with the next request
SimGetSTH(bf) ==
  IF mode # "mirror" THEN GetSTH(bf, "na", NoSTH)
  ELSE \E p \in {RandomElement(1..8)} :
         IF Eligible(AskMax) = {} \/ p = 1 THEN GetSTH(bf, "err", NoSTH)
         ELSE IF p \in 2..3 THEN \E w \in {RandomElement(Eligible(AskMax))} : GetSTH(bf, "older", w)
         ELSE GetSTH(bf, "best", Best(Eligible(AskMax)))
\* the environment steps that are possible now (a mirror's pipeline: append, publish, store, integrate; forgetting is rare);
\* a function of the state only: it is evaluated several times per step
EnvKinds(u) ==
  IF mode \in MirrorModes THEN
       (IF srcSize < MaxSize THEN {"append"} ELSE {}) \cup (IF clock <= MaxTs THEN {"publish"} ELSE {})
       \cup (IF srcSTHs \ store # {} THEN {"store"} ELSE {}) \cup (IF bsize < srcSize THEN {"integrate"} ELSE {})
       \cup (IF store # {} THEN {"forget"} ELSE {})
  ELSE (IF queued > 0 THEN {"sequence"} ELSE {}) \cup (IF bsize + queued < MaxSize THEN {"integrate1"} ELSE {})
       \cup (IF adds < MaxAdds /\ (mode \in NoWriteModes \/ bsize + queued < MaxSize) THEN {"add"} ELSE {})
\* storing a published STH and integrating fetched entries are what an operator's pipeline does most of the time
SimEnvKind(u) == IF "store" \in EnvKinds(u) /\ RandomElement(1..2) = 1 THEN "store"
                 ELSE IF "integrate" \in EnvKinds(u) /\ RandomElement(1..2) = 1 THEN "integrate"
                 ELSE RandomElement(EnvKinds(u))
SimEnv(u) ==
  IF EnvKinds(u) = {} THEN Idle
  ELSE \E kind \in {SimEnvKind(u)} :
         CASE kind = "append" -> \E k \in {RandomElement(1..Min(2, MaxSize - srcSize))} : SrcAppend(k)
           [] kind = "publish" -> SrcPublish
           [] kind = "store" -> \E s \in {RandomElement(srcSTHs \ store)} : StoreSTH(s)
           [] kind = "integrate" -> \E k \in {RandomElement(1..(srcSize - bsize))} : Integrate(k)
           [] kind = "forget" -> IF RandomElement(1..4) = 1 THEN \E s \in {RandomElement(store)} : Forget(s) ELSE Idle
           [] kind = "sequence" -> Sequence
           [] kind = "integrate1" -> Integrate(1)
           [] OTHER -> \E pre \in {RandomElement(BOOLEAN)} : AddChain(pre)
SimNext ==
  \/ Finish
  \/ /\ Len(hist) < Depth
     /\ \E kind \in {RandomElement(1..30)} :
          CASE kind \in 1..11 -> SimEnv(0)
            [] kind \in 12..17 -> IF mode = "mirror" /\ Eligible(AskMax) = {} /\ RandomElement(1..4) # 1 THEN SimEnv(0)
                                  ELSE SimGetSTH(SomeBF(0))
            [] kind \in 18..20 -> \E b \in {KnownSize(0)} : \E a \in {RandomElement(1..b)} : GetConsistency(a, b)
            [] kind \in 21..22 -> \E n \in {KnownSize(0)}, i \in {RandomElement(0..MaxSize)} : GetProofByHash(i, n)
            [] kind \in 23..24 -> \E n \in {KnownSize(0)} : \E i \in {RandomElement(0..n)} : GetEntryAndProof(i, n)
            [] kind \in 25..26 -> \E a \in {RandomElement(0..MaxSize)} : \E b \in {RandomElement(a..MaxSize)} : GetEntries(a, b)
            [] kind = 27 -> GetRoots
            [] OTHER -> IF adds < MaxAdds /\ (mode \in NoWriteModes \/ bsize + queued < MaxSize)
                        THEN \E pre \in {RandomElement(BOOLEAN)} : AddChain(pre) ELSE Idle
=============================================================================
