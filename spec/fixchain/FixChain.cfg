CONSTANTS
  NW = 2
  NP = 2
  ProgNames = {"twins", "sibl", "mixed", "all"}
  DevOutcomes = {"err", "garbage"}
  LogBads = {"La"}
INIT MCInit
NEXT Next
VIEW StateView
INVARIANTS TypeOK ChainTriedOnce IsPostedSound SkipsJustified FixedChainsValid OutcomeExclusive CacheFaithful ErrorsNotCached WaitMeansDone Accounted
PROPERTIES NoPostForPosted HitMeansNoFetch AfterDoneNothing
CHECK_DEADLOCK FALSE
