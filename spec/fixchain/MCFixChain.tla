---------------------------- MODULE MCFixChain ----------------------------
(* Model-checking and simulation instances of FixChain. *)
EXTENDS FixChain, Json

C(op, leaf, kind) == [op |-> op, leaf |-> leaf, kind |-> kind]

(* ---------------- exhaustive: small programs x one deviating URL x what the log refuses ---------------- *)
CONSTANTS ProgNames,    \* which of the programs below
          DevOutcomes,  \* the outcomes a single URL deviates to (every other URL serves its issuer)
          LogBads       \* leaves the log may refuse (one at a time, or none)

ProgOf(n) ==
  CASE n = "twins"   -> <<C("chain", "La", "bare"), C("chain", "La", "bare")>>                  \* the same job twice
    [] n = "sibl"    -> <<C("chain", "La", "short"), C("chain", "Lb", "gap")>>                   \* two leaves, shared URLs
    [] n = "mixed"   -> <<C("chain", "La", "gap"), C("chain", "Lc", "bare"), C("chain", "La", "full")>>
    [] n = "again"   -> <<C("chain", "La", "full"), C("chain", "La", "swap"), C("chain", "La", "extra")>>
    [] n = "bad"     -> <<C("chain", "Lx", "bare"), C("chain", "Lc", "full"), C("chain", "Lx", "full")>>
    [] n = "all"     -> <<C("all", "La", "full"), C("chain", "Lb", "bare"), C("all", "La", "swap")>>
    [] n = "allgap"  -> <<C("all", "La", "gap"), C("all", "Lb", "dup"), C("chain", "I1", "bare")>>
    [] n = "three"   -> <<C("chain", "La", "bare"), C("chain", "Lb", "bare"), C("chain", "Lc", "bare")>>
AllOk == [u \in Urls |-> "ok"]
ServeSel == {AllOk} \cup {[AllOk EXCEPT ![u] = o] : u \in Urls, o \in DevOutcomes}
Worlds == {[prog |-> ProgOf(n), serve |-> s, logbad |-> b] : n \in ProgNames, s \in ServeSel, b \in {{}} \cup {{x} : x \in LogBads}}

MCInit == world \in Worlds /\ Init

\* the order in which errors were reported / jobs handed / add-chain called is no part of any law
Bag(s) == [x \in Range(s) |-> Cardinality({k \in 1..Len(s) : s[k] = x})]
StateView == <<world, cl, closed, chclosed, wk, cache, fwd, pw, certPosted, chainTried, active, done,
               fstarts, Bag(addStarted), posted, Bag(reported), Bag(handed), finished, Range(skipped)>>

\* liveness: Wait returns whatever the URLs and the log answer, provided they answer
LiveSpec == MCInit /\ [][Next]_vars /\ WF_vars(Next)

\* non-vacuity: a Logger.QueueChain that forgets its tried-chain cache gives a chain to add-chain twice in the model
DefectDedupe ==
  /\ fwd.pc = "dedupe"
  /\ IF fwd.chain[1] \in certPosted THEN fwd' = IdleF /\ UNCHANGED active
     ELSE active' = active + 1 /\ fwd' = [fwd EXCEPT !.pc = "offer"]
  /\ UNCHANGED <<world, cl, closed, chclosed, wk, cache, pw, certPosted, chainTried, done, hvars>>
DefectNext == IF fwd.pc = "dedupe" THEN DefectDedupe ELSE Next
=============================================================================
