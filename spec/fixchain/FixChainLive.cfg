CONSTANTS
  NW = 2
  NP = 1
  ProgNames = {"twins"}
  DevOutcomes = {"err"}
  LogBads = {}
SPECIFICATION LiveSpec
PROPERTIES WaitReturns
CHECK_DEADLOCK FALSE
