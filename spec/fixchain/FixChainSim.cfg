CONSTANTS
  NW = 2
  NP = 2
INIT SimInit
NEXT SimNext
INVARIANTS ExportFinished NeverStuck ChainTriedOnce IsPostedSound SkipsJustified FixedChainsValid OutcomeExclusive CacheFaithful WaitMeansDone Accounted
CHECK_DEADLOCK FALSE
