CONSTANTS
  NW = 2
  NP = 2
  ProgNames = {"twins", "sibl", "bad"}
  DevOutcomes = {"err"}
  LogBads = {"La"}
SPECIFICATION LiveSpec
PROPERTIES WaitReturns
CHECK_DEADLOCK FALSE
