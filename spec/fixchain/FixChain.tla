------------------------------ MODULE FixChain ------------------------------
(***************************************************************************)
(* The chain fixer of certificate-transparency-go (package fixchain):      *)
(* FixAndLog = a Fixer (a pool of workers that repair certificate chains   *)
(* by fetching missing intermediates over the AIA URLs of the certificates,*)
(* through a URL cache shared by the workers) + a forwarder goroutine + a  *)
(* Logger (de-duplication of what is posted, a pool of post workers that   *)
(* call add-chain on a log), the caller's QueueChain / QueueAllCertsInChain*)
(* / Wait, and the error channel.                                          *)
(*                                                                         *)
(* One action per critical section of the code (what lies between two      *)
(* points where another goroutine can observe or change shared state):     *)
(* the rendezvous on the unbuffered channels (Handoff, EmitChain,          *)
(* FwdHandoff), the URL cache lookup / the HTTP fetch / the cache store,   *)
(* the look at the posted-certificate cache / add-chain / the store of the *)
(* posted certificate, the test-and-set on the tried-chain cache, every    *)
(* error pushed to the error channel, the stages of Wait.                  *)
(*                                                                         *)
(* Certificates are names; the hierarchy (who issued whom, which AIA URL a *)
(* certificate carries, what a URL serves) is fixed below.  Verify(c,pool) *)
(* is path building: a certificate verifies iff every CA certificate       *)
(* between it and a trusted root is in the pool.  The harness re-attaches  *)
(* real DER certificates with AIA extensions (harness/pki) and checks what *)
(* is posted with the standard library's verifier.                         *)
(*                                                                         *)
(* The laws are in the section LAWS; each is taken from a sentence of the  *)
(* package's documentation (see README.md in this directory).              *)
(***************************************************************************)
EXTENDS Naturals, Sequences, FiniteSets, TLC

CONSTANTS NW,      \* fixer workers
          NP       \* post workers

None == "none"

(* ------------------------------ the PKI ------------------------------ *)
\*   R (trusted) -> I2 -> I1 -> La, Lb          R -> J1 -> Lc          RX (not trusted) -> X1 -> Lx
Certs == {"La", "Lb", "Lc", "Lx", "I1", "I2", "J1", "X1", "R"}
Roots == {"R"}
\* the CA certificates between a certificate and its root, nearest first
Anc(c) == CASE c \in {"La", "Lb"} -> <<"I1", "I2">>
            [] c = "I1" -> <<"I2">>
            [] c = "Lc" -> <<"J1">>
            [] c = "Lx" -> <<"X1">>
            [] OTHER -> <<>>
Trusted(c) == c \notin {"Lx", "X1"}
\* the chain the verifier builds (leaf first, trusted root last); <<>> = none exists
Path(c) == IF ~Trusted(c) THEN <<>> ELSE IF c \in Roots THEN <<c>> ELSE <<c>> \o Anc(c) \o <<"R">>
SetOf(s) == {s[k] : k \in 1..Len(s)}
Verify(c, pool) == Trusted(c) /\ SetOf(Anc(c)) \subseteq pool

\* the AIA "CA issuers" URL a certificate carries (at most one)
Urls == {"uI1", "uI2", "uJ1", "uX1"}
Url(c) == CASE c \in {"La", "Lb"} -> "uI1" [] c = "I1" -> "uI2" [] c = "Lc" -> "uJ1" [] c = "Lx" -> "uX1" [] OTHER -> None
\* what a URL serves: the issuer ("ok"), a valid CA certificate that is not the issuer ("wrong"), bytes that are no
\* certificate ("garbage"), a 404 ("status"), a transport error ("err")
Outcomes == {"ok", "wrong", "garbage", "status", "err"}
Right(u) == CASE u = "uI1" -> "I1" [] u = "uI2" -> "I2" [] u = "uJ1" -> "J1" [] u = "uX1" -> "X1"
Wrong(u) == CASE u = "uI1" -> "J1" [] u = "uI2" -> "X1" [] u = "uJ1" -> "I1" [] u = "uX1" -> "J1"
Body(u, o) == CASE o = "ok" -> Right(u) [] o = "wrong" -> Wrong(u) [] o = "garbage" -> "garbage" [] OTHER -> None

(* --------------------------- the caller's calls --------------------------- *)
Kinds == {"full", "bare", "swap", "gap", "short", "extra", "dup"}
Reverse(s) == [k \in 1..Len(s) |-> s[Len(s) + 1 - k]]
\* the chain handed in with certificate c (c first, as the documentation asks)
Given(c, kind) ==
  CASE kind = "full"  -> <<c>> \o Anc(c)                         \* complete and in order
    [] kind = "bare"  -> <<c>>                                   \* every intermediate only reachable over AIA
    [] kind = "swap"  -> <<c>> \o Reverse(Anc(c))                \* complete, wrong order
    [] kind = "gap"   -> <<c>> \o Tail(Anc(c))                   \* the direct issuer is missing
    [] kind = "short" -> <<c>> \o SubSeq(Anc(c), 1, Len(Anc(c)) - 1)   \* the CA certificate next to the root is missing
    [] kind = "extra" -> <<c>> \o Anc(c) \o <<"X1">>             \* a superfluous certificate
    [] kind = "dup"   -> <<c>> \o Anc(c) \o Anc(c)               \* every intermediate twice
RECURSIVE Dedup(_)
Dedup(s) == IF s = <<>> THEN <<>>
            ELSE LET d == Dedup(SubSeq(s, 1, Len(s) - 1)) IN IF s[Len(s)] \in SetOf(d) THEN d ELSE Append(d, s[Len(s)])
\* a call: [op |-> "chain" (FixAndLog.QueueChain) or "all" (FixAndLog.QueueAllCertsInChain), leaf, kind]
CallChain(call) == Given(call.leaf, call.kind)

VARIABLES
  world,       \* [prog: the caller's calls in order, serve: Urls -> Outcomes, logbad: leaves the log refuses]
  cl,          \* the caller: [pc, i (call in progress / next call), k (position inside an "all" call), job]
  closed,      \* the fixer's queue is closed (Wait)
  chclosed,    \* the chains channel is closed (Wait)
  wk,          \* fixer workers
  cache,       \* the URL cache: Urls -> body or None
  fwd,         \* the forwarder goroutine of FixAndLog
  pw,          \* post workers
  certPosted,  \* Logger.postCertCache
  chainTried,  \* Logger.postChainCache
  active,      \* Logger.wg: requests handed to the post queue and not finished
  done,        \* FixAndLog.done: bags of certificates QueueAllCertsInChain was called with
  \* history
  fstarts,     \* Urls -> number of fetches started
  addStarted,  \* chains add-chain was called with, in order
  posted,      \* chains the log accepted
  reported,    \* errors pushed to the error channel, in order
  handed,      \* jobs handed to the fixer, in order: [cert, given]
  finished,    \* jobs the fixer finished: [cert, given, out (the fixed chain or <<>>), errs]
  skipped      \* calls / certificates the caller did not hand on: [i, cert, why]

vars == <<world, cl, closed, chclosed, wk, cache, fwd, pw, certPosted, chainTried, active, done,
          fstarts, addStarted, posted, reported, handed, finished, skipped>>
hvars == <<fstarts, addStarted, posted, reported, handed, finished, skipped>>

Workers == 1..NW
Posters == 1..NP

IdleW == [pc |-> "idle", cert |-> None, given |-> <<>>, dch |-> <<>>, pool |-> {}, idx |-> 0, seen |-> {}, expl |-> {},
          errs |-> <<>>, nrep |-> 0, out |-> <<>>, url |-> None, body |-> None]
IdleP == [pc |-> "idle", chain |-> <<>>]
IdleF == [pc |-> "idle", chain |-> <<>>]

Err(t, cert, given, url, chain) == [t |-> t, cert |-> cert, given |-> given, url |-> url, chain |-> chain]

Init ==
  /\ cl = [pc |-> "idle", i |-> 1, k |-> 0, job |-> <<>>]
  /\ closed = FALSE /\ chclosed = FALSE
  /\ wk = [w \in Workers |-> IdleW]
  /\ cache = [u \in Urls |-> None]
  /\ fwd = IdleF
  /\ pw = [p \in Posters |-> IdleP]
  /\ certPosted = {} /\ chainTried = {} /\ active = 0 /\ done = {}
  /\ fstarts = [u \in Urls |-> 0]
  /\ addStarted = <<>> /\ posted = {} /\ reported = <<>> /\ handed = <<>> /\ finished = {} /\ skipped = <<>>

(* ------------------------------ the caller ------------------------------ *)
Prog == world.prog
CurCall == Prog[cl.i]

\* FixAndLog.QueueChain: IsPosted(chain[0]) ? count : hand (chain[0], chain) to the fixer
\* FixAndLog.QueueAllCertsInChain: the bag of the de-duplicated chain is looked up in / added to `done`
CallStart ==
  /\ cl.pc = "idle" /\ cl.i <= Len(Prog) /\ ~closed
  /\ LET c == CurCall  g == CallChain(c) IN
     IF c.op = "chain" THEN
       IF g[1] \in certPosted
       THEN /\ cl' = [cl EXCEPT !.pc = "ret"]
            /\ skipped' = Append(skipped, [i |-> cl.i, cert |-> g[1], why |-> "posted"])
            /\ UNCHANGED done
       ELSE /\ cl' = [cl EXCEPT !.pc = "offer", !.job = [cert |-> g[1], given |-> g]]
            /\ UNCHANGED <<skipped, done>>
     ELSE
       IF SetOf(g) \in done
       THEN /\ cl' = [cl EXCEPT !.pc = "ret"]
            /\ skipped' = Append(skipped, [i |-> cl.i, cert |-> None, why |-> "done"])
            /\ UNCHANGED done
       ELSE /\ done' = done \cup {SetOf(g)}
            /\ cl' = [cl EXCEPT !.pc = "all", !.k = 1]
            /\ UNCHANGED skipped
  /\ UNCHANGED <<world, closed, chclosed, wk, cache, fwd, pw, certPosted, chainTried, active,
                 fstarts, addStarted, posted, reported, handed, finished>>

\* the loop of QueueAllCertsInChain over the certificates of the de-duplicated chain
AllStep ==
  /\ cl.pc = "all"
  /\ LET g == Dedup(CallChain(CurCall)) IN
     IF cl.k > Len(g) THEN cl' = [cl EXCEPT !.pc = "ret"] /\ UNCHANGED skipped
     ELSE IF g[cl.k] \in certPosted
          THEN /\ cl' = [cl EXCEPT !.k = cl.k + 1]
               /\ skipped' = Append(skipped, [i |-> cl.i, cert |-> g[cl.k], why |-> "posted"])
          ELSE /\ cl' = [cl EXCEPT !.pc = "offer", !.job = [cert |-> g[cl.k], given |-> g]]
               /\ UNCHANGED skipped
  /\ UNCHANGED <<world, closed, chclosed, wk, cache, fwd, pw, certPosted, chainTried, active, done,
                 fstarts, addStarted, posted, reported, handed, finished>>

\* Fixer.QueueChain: the rendezvous on the unbuffered queue with an idle worker
Handoff(w) ==
  /\ cl.pc = "offer" /\ wk[w].pc = "idle" /\ ~closed
  /\ LET j == cl.job  g == Dedup(j.given) IN
     /\ wk' = [wk EXCEPT ![w] = [IdleW EXCEPT !.pc = "construct", !.cert = j.cert, !.given = g,
                                                !.dch = IF j.cert \in SetOf(g) THEN g ELSE <<j.cert>> \o g]]
     /\ handed' = Append(handed, [cert |-> j.cert, given |-> g])
  /\ cl' = IF CurCall.op = "all" THEN [cl EXCEPT !.pc = "all", !.k = cl.k + 1, !.job = <<>>]
           ELSE [cl EXCEPT !.pc = "ret", !.job = <<>>]
  /\ UNCHANGED <<world, closed, chclosed, cache, fwd, pw, certPosted, chainTried, active, done,
                 fstarts, addStarted, posted, reported, finished, skipped>>

CallReturn ==
  /\ cl.pc = "ret"
  /\ cl' = [cl EXCEPT !.pc = "idle", !.i = cl.i + 1, !.k = 0]
  /\ UNCHANGED <<world, closed, chclosed, wk, cache, fwd, pw, certPosted, chainTried, active, done, hvars>>

\* FixAndLog.Wait: close the fixer's queue; wait for the workers; close the chains channel; wait for the forwarder;
\* wait for the requests of the logger
WaitStart ==
  /\ cl.pc = "idle" /\ cl.i > Len(Prog) /\ ~closed
  /\ closed' = TRUE
  /\ cl' = [cl EXCEPT !.pc = "waitfix"]
  /\ UNCHANGED <<world, chclosed, wk, cache, fwd, pw, certPosted, chainTried, active, done, hvars>>
WaitFix ==
  /\ cl.pc = "waitfix" /\ \A w \in Workers : wk[w].pc = "exited"
  /\ chclosed' = TRUE
  /\ cl' = [cl EXCEPT !.pc = "waitfwd"]
  /\ UNCHANGED <<world, closed, wk, cache, fwd, pw, certPosted, chainTried, active, done, hvars>>
WaitFwd ==
  /\ cl.pc = "waitfwd" /\ fwd.pc = "exited"
  /\ cl' = [cl EXCEPT !.pc = "waitpost"]
  /\ UNCHANGED <<world, closed, chclosed, wk, cache, fwd, pw, certPosted, chainTried, active, done, hvars>>
WaitPost ==
  /\ cl.pc = "waitpost" /\ active = 0
  /\ cl' = [cl EXCEPT !.pc = "done"]
  /\ UNCHANGED <<world, closed, chclosed, wk, cache, fwd, pw, certPosted, chainTried, active, done, hvars>>

(* ---------------------------- a fixer worker ---------------------------- *)
\* the walk from one certificate of the handed chain ended without a verified chain: mark what was seen
DeadEnd(s) == [s EXCEPT !.pc = "walk", !.expl = s.expl \cup (s.seen \cap SetOf(s.dch)), !.url = None, !.body = None]
\* toFix.augmentIntermediates on certificate c
Visit(s, c) ==
  IF c \in s.seen THEN DeadEnd(s)
  ELSE LET t == [s EXCEPT !.seen = s.seen \cup {c}, !.pool = s.pool \cup {c}] IN
       IF Verify(t.cert, t.pool) THEN [t EXCEPT !.pc = "report", !.out = Path(t.cert), !.url = None, !.body = None]
       ELSE IF Url(c) = None THEN DeadEnd(t)
       ELSE [t EXCEPT !.pc = "lookup", !.url = Url(c), !.body = None]
\* the bytes a URL gave: toFix.getIntermediates parses them
Consume(s, b) ==
  IF b = "garbage" THEN DeadEnd([s EXCEPT !.errs = Append(s.errs, Err("ParseFailure", s.cert, s.given, s.url, <<>>))])
  ELSE Visit(s, b)

\* toFix.constructChain: verify with what was handed in
Construct(w) ==
  /\ wk[w].pc = "construct"
  /\ LET s == wk[w] IN
     wk' = [wk EXCEPT ![w] =
              IF Verify(s.cert, SetOf(s.given)) THEN [s EXCEPT !.pc = "report", !.out = Path(s.cert)]
              ELSE [s EXCEPT !.pc = "walk", !.pool = SetOf(s.given),
                             !.errs = <<Err("VerifyFailed", s.cert, s.given, None, <<>>)>>]]
  /\ UNCHANGED <<world, cl, closed, chclosed, cache, fwd, pw, certPosted, chainTried, active, done, hvars>>

\* toFix.fixChain: the next certificate of the handed chain that no earlier walk has seen
WalkStep(w) ==
  /\ wk[w].pc = "walk"
  /\ LET s == wk[w]
         nxt == {k \in (s.idx + 1)..Len(s.dch) : s.dch[k] \notin s.expl} IN
     wk' = [wk EXCEPT ![w] =
              IF nxt = {} THEN [s EXCEPT !.pc = "report", !.errs = Append(s.errs, Err("FixFailed", s.cert, s.given, None, <<>>))]
              ELSE LET k == CHOOSE x \in nxt : \A y \in nxt : x <= y IN
                   Visit([s EXCEPT !.idx = k, !.seen = {}], s.dch[k])]
  /\ UNCHANGED <<world, cl, closed, chclosed, cache, fwd, pw, certPosted, chainTried, active, done, hvars>>

\* urlCache.getURL: the look into the cache ...
Lookup(w) ==
  /\ wk[w].pc = "lookup"
  /\ LET s == wk[w] IN
     wk' = [wk EXCEPT ![w] = IF cache[s.url] # None THEN Consume(s, cache[s.url]) ELSE [s EXCEPT !.pc = "miss"]]
  /\ UNCHANGED <<world, cl, closed, chclosed, cache, fwd, pw, certPosted, chainTried, active, done, hvars>>
\* ... the request leaves ...
FetchStart(w) ==
  /\ wk[w].pc = "miss"
  /\ wk' = [wk EXCEPT ![w].pc = "fetch"]
  /\ fstarts' = [fstarts EXCEPT ![wk[w].url] = @ + 1]
  /\ UNCHANGED <<world, cl, closed, chclosed, cache, fwd, pw, certPosted, chainTried, active, done,
                 addStarted, posted, reported, handed, finished, skipped>>
\* ... the answer arrives (only a 200 with a readable body is kept) ...
FetchReturn(w) ==
  /\ wk[w].pc = "fetch"
  /\ LET s == wk[w]  o == world.serve[s.url] IN
     wk' = [wk EXCEPT ![w] =
              IF o \in {"err", "status"}
              THEN DeadEnd([s EXCEPT !.errs = Append(s.errs, Err("CannotFetchURL", s.cert, s.given, s.url, <<>>))])
              ELSE [s EXCEPT !.pc = "got", !.body = Body(s.url, o)]]
  /\ UNCHANGED <<world, cl, closed, chclosed, cache, fwd, pw, certPosted, chainTried, active, done, hvars>>
\* ... and is stored
CacheSet(w) ==
  /\ wk[w].pc = "got"
  /\ cache' = [cache EXCEPT ![wk[w].url] = wk[w].body]
  /\ wk' = [wk EXCEPT ![w] = Consume(wk[w], wk[w].body)]
  /\ UNCHANGED <<world, cl, closed, chclosed, fwd, pw, certPosted, chainTried, active, done, hvars>>

\* Fixer.fixServer: the errors of the job, one by one, then the chain
Report(w) ==
  /\ wk[w].pc = "report"
  /\ LET s == wk[w] IN
     IF s.nrep < Len(s.errs)
     THEN /\ reported' = Append(reported, s.errs[s.nrep + 1])
          /\ wk' = [wk EXCEPT ![w].nrep = s.nrep + 1]
          /\ UNCHANGED finished
     ELSE /\ finished' = finished \cup {[cert |-> s.cert, given |-> s.given, out |-> s.out, errs |-> s.errs]}
          /\ wk' = [wk EXCEPT ![w] = IF s.out = <<>> THEN IdleW ELSE [s EXCEPT !.pc = "emit"]]
          /\ UNCHANGED reported
  /\ UNCHANGED <<world, cl, closed, chclosed, cache, fwd, pw, certPosted, chainTried, active, done,
                 fstarts, addStarted, posted, handed, skipped>>
\* the rendezvous on the chains channel with the forwarder
EmitChain(w) ==
  /\ wk[w].pc = "emit" /\ fwd.pc = "idle"
  /\ fwd' = [pc |-> "dedupe", chain |-> wk[w].out]
  /\ wk' = [wk EXCEPT ![w] = IdleW]
  /\ UNCHANGED <<world, cl, closed, chclosed, cache, pw, certPosted, chainTried, active, done, hvars>>
ExitW(w) ==
  /\ wk[w].pc = "idle" /\ closed /\ cl.pc # "offer"
  /\ wk' = [wk EXCEPT ![w].pc = "exited"]
  /\ UNCHANGED <<world, cl, closed, chclosed, cache, fwd, pw, certPosted, chainTried, active, done, hvars>>

(* ------------------- the forwarder and Logger.QueueChain ------------------- *)
FwdDedupe ==
  /\ fwd.pc = "dedupe"
  /\ IF fwd.chain[1] \in certPosted \/ fwd.chain \in chainTried
     THEN fwd' = IdleF /\ UNCHANGED <<chainTried, active>>
     ELSE /\ chainTried' = chainTried \cup {fwd.chain}
          /\ active' = active + 1
          /\ fwd' = [fwd EXCEPT !.pc = "offer"]
  /\ UNCHANGED <<world, cl, closed, chclosed, wk, cache, pw, certPosted, done, hvars>>
FwdHandoff(p) ==
  /\ fwd.pc = "offer" /\ pw[p].pc = "idle"
  /\ pw' = [pw EXCEPT ![p] = [pc |-> "check", chain |-> fwd.chain]]
  /\ fwd' = IdleF
  /\ UNCHANGED <<world, cl, closed, chclosed, wk, cache, certPosted, chainTried, active, done, hvars>>
FwdExit ==
  /\ fwd.pc = "idle" /\ chclosed
  /\ fwd' = [fwd EXCEPT !.pc = "exited"]
  /\ UNCHANGED <<world, cl, closed, chclosed, wk, cache, pw, certPosted, chainTried, active, done, hvars>>

(* ------------------------------ a post worker ------------------------------ *)
\* Logger.postChain: has a chain for this certificate been posted meanwhile?
Check(p) ==
  /\ pw[p].pc = "check"
  /\ IF pw[p].chain[1] \in certPosted
     THEN pw' = [pw EXCEPT ![p] = IdleP] /\ active' = active - 1
     ELSE pw' = [pw EXCEPT ![p].pc = "ready"] /\ UNCHANGED active
  /\ UNCHANGED <<world, cl, closed, chclosed, wk, cache, fwd, certPosted, chainTried, done, hvars>>
AddStart(p) ==
  /\ pw[p].pc = "ready"
  /\ pw' = [pw EXCEPT ![p].pc = "adding"]
  /\ addStarted' = Append(addStarted, pw[p].chain)
  /\ UNCHANGED <<world, cl, closed, chclosed, wk, cache, fwd, certPosted, chainTried, active, done,
                 fstarts, posted, reported, handed, finished, skipped>>
AddReturn(p) ==
  /\ pw[p].pc = "adding"
  /\ IF pw[p].chain[1] \in world.logbad
     THEN pw' = [pw EXCEPT ![p].pc = "reterr"] /\ UNCHANGED posted
     ELSE pw' = [pw EXCEPT ![p].pc = "retok"] /\ posted' = posted \cup {pw[p].chain}
  /\ UNCHANGED <<world, cl, closed, chclosed, wk, cache, fwd, certPosted, chainTried, active, done,
                 fstarts, addStarted, reported, handed, finished, skipped>>
SetPosted(p) ==
  /\ pw[p].pc = "retok"
  /\ certPosted' = certPosted \cup {pw[p].chain[1]}
  /\ pw' = [pw EXCEPT ![p] = IdleP]
  /\ active' = active - 1
  /\ UNCHANGED <<world, cl, closed, chclosed, wk, cache, fwd, chainTried, done, hvars>>
PostReport(p) ==
  /\ pw[p].pc = "reterr"
  /\ reported' = Append(reported, Err("LogPostFailed", None, <<>>, None, pw[p].chain))
  /\ pw' = [pw EXCEPT ![p] = IdleP]
  /\ active' = active - 1
  /\ UNCHANGED <<world, cl, closed, chclosed, wk, cache, fwd, certPosted, chainTried, done,
                 fstarts, addStarted, posted, handed, finished, skipped>>

(* ------------------------------------------------------------------------- *)
\* steps decided outside the package: the caller calls, a URL answers, the log answers
External == CallStart \/ WaitStart \/ (\E w \in Workers : FetchReturn(w)) \/ (\E p \in Posters : AddReturn(p))
\* steps the package takes by itself
Internal ==
  \/ AllStep \/ CallReturn \/ WaitFix \/ WaitFwd \/ WaitPost \/ FwdDedupe \/ FwdExit
  \/ \E w \in Workers : Handoff(w) \/ Construct(w) \/ WalkStep(w) \/ Lookup(w) \/ FetchStart(w) \/ CacheSet(w)
                        \/ Report(w) \/ EmitChain(w) \/ ExitW(w)
  \/ \E p \in Posters : FwdHandoff(p) \/ Check(p) \/ AddStart(p) \/ SetPosted(p) \/ PostReport(p)
Next == External \/ Internal

Spec == Init /\ [][Next]_vars
\* every step leads towards the end (no step can be repeated for ever), so weak fairness of Next is all the
\* fairness there is to assume: the caller goes on, URLs and the log answer, goroutines are scheduled
FairSpec == Spec /\ WF_vars(Next)

(* ================================== LAWS ================================== *)
Range(s) == {s[k] : k \in 1..Len(s)}
Leaves(chs) == {ch[1] : ch \in chs}

\* L1 (logger.go, QueueChain: "Has this Logger already tried to post this chain?"): no chain is given to add-chain twice
ChainTriedOnce == \A a, b \in 1..Len(addStarted) : a # b => addStarted[a] # addStarted[b]

\* L2 (logger.go, IsPosted: "whether a chain for the given certificate has already been successfully posted to the log
\* by this Logger"): the posted-certificate cache holds exactly the leaves of the chains the log accepted, up to the
\* stores in flight
IsPostedSound == /\ certPosted \subseteq Leaves(posted)
                 /\ Leaves(posted) \subseteq certPosted \cup {pw[p].chain[1] : p \in {q \in Posters : pw[q].pc = "retok"}}
\* ... and the caller's skips are justified by it (fix_and_log.go, "chains whose leaf cert has already been posted
\* to the log with a valid chain")
SkipsJustified == \A k \in 1..Len(skipped) : skipped[k].why = "posted" => skipped[k].cert \in Leaves(posted)

\* L3 (logger.go, postChain: "Don't post chain for a cert that has already had a chain posted"): add-chain is not
\* started for a certificate the worker saw as posted - as an action property
NoPostForPosted == [][\A p \in Posters : (pw[p].pc = "check" /\ pw[p].chain[1] \in certPosted) => pw'[p].pc # "ready"]_vars

\* L4 (fix.go, fixChain: "returns a slice of valid and verified chains for this cert to the roots"; QueueChain: "chain is
\* expected to be in the order of cert --> root"): what the fixer hands on begins with the job's certificate, every
\* certificate is issued by the next one and the last is a trusted root
IssuedBy(c) == IF c \in Roots THEN c ELSE IF Anc(c) = <<>> THEN (IF Trusted(c) THEN "R" ELSE None) ELSE Anc(c)[1]
ValidChain(ch, c) == /\ ch # <<>> /\ ch[1] = c /\ ch[Len(ch)] \in Roots
                     /\ \A k \in 1..(Len(ch) - 1) : IssuedBy(ch[k]) = ch[k + 1]
FixedChainsValid == /\ \A f \in finished : f.out # <<>> => ValidChain(f.out, f.cert)
                    /\ \A k \in 1..Len(addStarted) : ValidChain(addStarted[k], addStarted[k][1])

\* L5 (fix.go, Fix: "Callers should check for returned chains to determine success"; FixFailed): a job ends with a chain
\* or with a FixFailed error, never both; a chain without errors means the handed chain verified as it was
OutcomeExclusive == \A f \in finished :
                      LET ts == {f.errs[k].t : k \in 1..Len(f.errs)} IN
                      /\ (f.out = <<>>) <=> ("FixFailed" \in ts)
                      /\ ("FixFailed" \in ts) => ("VerifyFailed" \in ts)
                      /\ (f.errs = <<>>) <=> Verify(f.cert, SetOf(f.given))
\* L6 (url_cache.go): the cache holds what the URL served; a look that finds the URL cached leads to no fetch
CacheFaithful == \A u \in Urls : cache[u] # None => cache[u] = Body(u, world.serve[u])
HitMeansNoFetch == [][\A w \in Workers : (wk[w].pc = "lookup" /\ cache[wk[w].url] # None) => wk'[w].pc \notin {"miss", "fetch"}]_vars
\* transport errors and bad statuses are not kept ("TODO: Add caching of permanent errors")
ErrorsNotCached == \A u \in Urls : world.serve[u] \in {"err", "status"} => cache[u] = None

\* L7 (fix_and_log.go, Wait: "waits for the all of the queued chains to complete being fixed and logged"; fixer.go, Wait:
\* "Wait for all the fixer workers to finish"; logger.go, Wait: "Wait for all of the active requests to finish")
Quiet == /\ \A w \in Workers : wk[w].pc = "exited"
         /\ fwd.pc = "exited"
         /\ \A p \in Posters : pw[p].pc = "idle"
         /\ active = 0
WaitMeansDone == cl.pc = "done" => Quiet
\* every job handed to the fixer is accounted for when Wait returns: its errors are reported, and it ended with a
\* FixFailed error or its chain was given to add-chain, or was dropped for a chain of the same certificate that the log
\* accepted (or, the log refusing, for an identical chain tried before)
ErrBagIn(errs, rep) == \A k \in 1..Len(errs) : Cardinality({x \in 1..Len(errs) : errs[x] = errs[k]}) <=
                                                Cardinality({x \in 1..Len(rep) : rep[x] = errs[k]})
Accounted == cl.pc = "done" =>
               /\ \A k \in 1..Len(handed) : \E f \in finished : f.cert = handed[k].cert /\ f.given = handed[k].given
               /\ \A f \in finished : /\ ErrBagIn(f.errs, reported)
                                      /\ f.out # <<>> => (f.out \in Range(addStarted) \/ f.out[1] \in Leaves(posted))
               /\ \A k \in 1..Len(addStarted) : addStarted[k] \in posted
                                                \/ \E x \in 1..Len(reported) : reported[x].t = "LogPostFailed" /\ reported[x].chain = addStarted[k]
\* after Wait nothing moves
AfterDoneNothing == [][cl.pc = "done" => UNCHANGED vars]_vars

\* L8 liveness: if URLs and the log answer, Wait returns
WaitReturns == <>(cl.pc = "done")

TypeOK == /\ cl.pc \in {"idle", "offer", "all", "ret", "waitfix", "waitfwd", "waitpost", "done"}
          /\ \A w \in Workers : wk[w].pc \in {"idle", "construct", "walk", "lookup", "miss", "fetch", "got", "report", "emit", "exited"}
          /\ fwd.pc \in {"idle", "dedupe", "offer", "exited"}
          /\ \A p \in Posters : pw[p].pc \in {"idle", "check", "ready", "adding", "retok", "reterr"}
          /\ active \in 0..(NP + 1)
=============================================================================
