--------------------------- MODULE MCFixChainSim ---------------------------
(* Behaviours of FixChain for the replay into the real package: random worlds, random schedules of the steps that
   are decided outside the package (the caller's calls, the answers of the URLs and of the log); between two such
   steps the package runs by itself until nothing moves, as the gated harness makes the real goroutines do. *)
EXTENDS FixChain, Json

C(op, leaf, kind) == [op |-> op, leaf |-> leaf, kind |-> kind]
AllOk == [u \in Urls |-> "ok"]

(* ---------------- behaviours for the replay: the package runs by itself until nothing moves ---------------- *)
VARIABLES hist,    \* the exported behaviour
          mark     \* jobs handed / finished when the last outside step was taken
mvars == <<vars, hist, mark>>
FinCount == Len(handed) - Cardinality({w \in Workers : wk[w].pc \notin {"idle", "exited"}})
Mark == [h |-> Len(handed), f |-> FinCount]

Leafs == {"La", "Lb", "Lc", "Lx", "I1"}
CallSet == {C("chain", l, k) : l \in Leafs, k \in Kinds}
\* one call in six is a QueueAllCertsInChain
Op(c, coin) == IF coin = 1 THEN [c EXCEPT !.op = "all"] ELSE c
NoWorld == [prog |-> <<>>, serve |-> AllOk, logbad |-> {}]
SimInit == world = NoWorld /\ Init /\ hist = <<>> /\ mark = [h |-> 0, f |-> 0]

Setup ==
  /\ \E n \in {RandomElement(2..4)} :
     \E c1 \in {RandomElement(CallSet)}, c2 \in {RandomElement(CallSet)}, c3 \in {RandomElement(CallSet)}, c4 \in {RandomElement(CallSet)} :
     \E k1 \in {RandomElement(1..6)}, k2 \in {RandomElement(1..6)}, k3 \in {RandomElement(1..6)}, k4 \in {RandomElement(1..6)} :
     \E o1 \in {RandomElement(Outcomes \cup {"ok"})}, coin \in {RandomElement(1..4)}, u \in {RandomElement(Urls)},
        u2 \in {RandomElement(Urls)}, o2 \in {RandomElement(Outcomes)}, b \in {RandomElement({{}, {}, {"La"}, {"Lb"}, {"Lc"}, {"I1"}, {"La", "I2"}})} :
       world' = [prog |-> SubSeq(<<Op(c1, k1), Op(c2, k2), Op(c3, k3), Op(c4, k4)>>, 1, n),
                 serve |-> IF coin = 1 THEN AllOk ELSE IF coin = 2 THEN [AllOk EXCEPT ![u] = o1] ELSE [AllOk EXCEPT ![u] = o1, ![u2] = o2],
                 logbad |-> b]
  /\ hist' = <<[a |-> "World", world |-> world']>>
  /\ UNCHANGED mark
  /\ UNCHANGED <<cl, closed, chclosed, wk, cache, fwd, pw, certPosted, chainTried, active, done, hvars>>

\* what the harness can see when nothing moves
Obs == [fetching |-> [u \in Urls |-> Cardinality({w \in Workers : wk[w].pc = "fetch" /\ wk[w].url = u})],
        adding   |-> {pw[p].chain : p \in {q \in Posters : pw[q].pc = "adding"}},
        reported |-> reported,
        cl       |-> cl.pc,
        i        |-> cl.i,
        posted   |-> posted,
        fstarts  |-> fstarts,
        nadd     |-> Len(addStarted)]

\* nothing moves: no step of Internal is enabled (spelled out; QuiescentIsRest checks it against ENABLED)
Quiescent ==
  /\ cl.pc \notin {"all", "ret"}
  /\ ~(cl.pc = "offer" /\ \E w \in Workers : wk[w].pc = "idle")
  /\ ~(cl.pc = "waitfix" /\ \A w \in Workers : wk[w].pc = "exited")
  /\ ~(cl.pc = "waitfwd" /\ fwd.pc = "exited")
  /\ ~(cl.pc = "waitpost" /\ active = 0)
  /\ \A w \in Workers : /\ wk[w].pc \notin {"construct", "walk", "lookup", "miss", "got", "report"}
                        /\ ~(wk[w].pc = "emit" /\ fwd.pc = "idle")
                        /\ ~(wk[w].pc = "idle" /\ closed)
  /\ fwd.pc # "dedupe"
  /\ ~(fwd.pc = "offer" /\ \E p \in Posters : pw[p].pc = "idle")
  /\ ~(fwd.pc = "idle" /\ chclosed)
  /\ \A p \in Posters : pw[p].pc \notin {"check", "ready", "retok", "reterr"}
QuiescentIsRest == world.prog # <<>> => (Quiescent <=> ~ENABLED Internal)
\* two workers of different jobs waiting for the same URL: the harness could not tell their requests apart
Ambiguous == \E w1, w2 \in Workers : /\ w1 # w2 /\ wk[w1].pc = "fetch" /\ wk[w2].pc = "fetch" /\ wk[w1].url = wk[w2].url
                                     /\ <<wk[w1].cert, wk[w1].given>> # <<wk[w2].cert, wk[w2].given>>
\* what the scheduler decides, not the harness: (a) two workers with different chains wait for the forwarder; (b) since
\* the last outside step the caller handed on two or more jobs (QueueAllCertsInChain) and one of them has already gone
\* past its first gate - its chain and the later jobs' chains reach the forwarder in an order the scheduler chooses
Racy == \/ \E w1, w2 \in Workers : w1 # w2 /\ wk[w1].pc = "emit" /\ wk[w2].pc = "emit" /\ wk[w1].out # wk[w2].out
        \/ (Len(handed) - mark.h >= 2 /\ FinCount - mark.f >= 1)
Ended == Len(hist) > 0 /\ hist[Len(hist)].a \in {"End", "Abort"}

Choices == (IF cl.pc = "idle" /\ cl.i <= Len(Prog) THEN {[a |-> "call", n |-> 1], [a |-> "call", n |-> 2], [a |-> "call", n |-> 3]} ELSE {})
           \cup (IF cl.pc = "idle" /\ cl.i > Len(Prog) /\ ~closed THEN {[a |-> "wait", n |-> 1], [a |-> "wait", n |-> 2]} ELSE {})
           \cup {[a |-> "fetch", n |-> w] : w \in {x \in Workers : wk[x].pc = "fetch"}}
           \cup {[a |-> "add", n |-> p] : p \in {x \in Posters : pw[x].pc = "adding"}}

ExtStep ==
  /\ mark' = Mark
  /\ \E ch \in {RandomElement(Choices)} :
    CASE ch.a = "call"  -> CallStart /\ hist' = Append(hist, [a |-> "call", i |-> cl.i, pre |-> Obs])
      [] ch.a = "wait"  -> WaitStart /\ hist' = Append(hist, [a |-> "wait", pre |-> Obs])
      [] ch.a = "fetch" -> FetchReturn(ch.n) /\ hist' = Append(hist, [a |-> "fetch", url |-> wk[ch.n].url, pre |-> Obs])
      [] ch.a = "add"   -> AddReturn(ch.n) /\ hist' = Append(hist, [a |-> "add", chain |-> pw[ch.n].chain, pre |-> Obs])

Close(tag) == hist' = Append(hist, [a |-> tag, pre |-> Obs]) /\ UNCHANGED <<vars, mark>>

SimNext ==
  IF world.prog = <<>> THEN Setup
  ELSE IF Ended THEN FALSE
  ELSE IF ~Quiescent THEN Internal /\ UNCHANGED <<hist, mark>>
  ELSE IF Racy \/ Ambiguous THEN Close("Abort")
  ELSE IF cl.pc = "done" THEN Close("End")
  ELSE IF Choices = {} THEN Close("Stuck")
  ELSE ExtStep

ExportFinished == Ended => PrintT(<<"BEH", ToJson(hist)>>)
\* the package never comes to rest before Wait has returned with nothing left to answer
NeverStuck == ~(Len(hist) > 0 /\ hist[Len(hist)].a = "Stuck")
=============================================================================
