--------------------------- MODULE FixChainTrace ---------------------------
(***************************************************************************)
(* Trace validation: runs of a real, free-running fixchain.FixAndLog       *)
(* (race detector on) against FixChain.tla.                                *)
(*                                                                         *)
(* The harness records what crosses the boundaries of the package, each    *)
(* event by the goroutine that causes it, under one mutex:                 *)
(*   Reset    the world of the run that follows (prog, serve, logbad)      *)
(*   call/ret the caller enters / leaves QueueChain or QueueAllCertsInChain*)
(*   fstart   a request for a URL enters the RoundTripper                  *)
(*   fdone    the RoundTripper answers it                                  *)
(*   astart   add-chain is entered with a chain                            *)
(*   adone    add-chain answers                                            *)
(*   err      the consumer of the error channel has received an error (it  *)
(*            records after the rendezvous: the sender may already have    *)
(*            gone on, so an err event may come late - it is matched with  *)
(*            an error the model has reported and that no event has taken) *)
(*   wait/waitret  the caller enters / leaves Wait                         *)
(*   End      the error channel is closed and drained                      *)
(* Everything else the package does is silent: TLC searches for an         *)
(* interleaving of the silent steps of FixChain.tla that explains the      *)
(* events in their recorded order.  The laws of FixChain.tla are checked   *)
(* as invariants on every state of the explanation.                        *)
(***************************************************************************)
EXTENDS FixChain, Json, IOUtils, Integers

Trace == ndJsonDeserialize(IOEnv.TRACE_FILE)

VARIABLES l,        \* next line of Trace
          taken     \* the errors that err events have been matched with

tvars == <<vars, l, taken>>

NoWorld == [prog |-> <<>>, serve |-> [u \in Urls |-> "ok"], logbad |-> {}]

TraceInit == /\ world = NoWorld /\ Init /\ l = 1 /\ taken = <<>> /\ TLCSet(1, 1)

Ev(name) == l <= Len(Trace) /\ Trace[l].ev = name
Step(A) == A /\ l' = l + 1 /\ UNCHANGED taken
Silent(A) == A /\ UNCHANGED <<l, taken>>

CallOf(j) == [op |-> j.op, leaf |-> j.leaf, kind |-> j.kind]

TraceReset ==
  /\ Ev("Reset")
  /\ IF l = 1 THEN TRUE ELSE Trace[l - 1].ev = "End"
  /\ LET e == Trace[l] IN
     world' = [prog |-> [k \in 1..Len(e.prog) |-> CallOf(e.prog[k])],
               serve |-> [u \in Urls |-> e.serve[u]],
               logbad |-> {e.logbad[k] : k \in 1..Len(e.logbad)}]
  /\ cl' = [pc |-> "idle", i |-> 1, k |-> 0, job |-> <<>>]
  /\ closed' = FALSE /\ chclosed' = FALSE
  /\ wk' = [w \in Workers |-> IdleW]
  /\ cache' = [u \in Urls |-> None]
  /\ fwd' = IdleF
  /\ pw' = [p \in Posters |-> IdleP]
  /\ certPosted' = {} /\ chainTried' = {} /\ active' = 0 /\ done' = {}
  /\ fstarts' = [u \in Urls |-> 0]
  /\ addStarted' = <<>> /\ posted' = {} /\ reported' = <<>> /\ handed' = <<>> /\ finished' = {} /\ skipped' = <<>>
  /\ taken' = <<>>
  /\ l' = l + 1

\* the run is over: Wait has returned, every error the model reported has been seen
TraceEnd ==
  /\ Ev("End")
  /\ cl.pc = "done"
  /\ Len(taken) = Len(reported)
  /\ l' = l + 1
  /\ UNCHANGED <<vars, taken>>

Count(s, x) == Cardinality({k \in 1..Len(s) : s[k] = x})

TraceErr ==
  /\ Ev("err")
  /\ LET e == Trace[l]  r == Err(e.t, e.cert, e.given, e.url, e.chain) IN
     /\ Count(reported, r) > Count(taken, r)
     /\ taken' = Append(taken, r)
  /\ l' = l + 1
  /\ UNCHANGED vars

\* Steps that touch nothing another goroutine reads (the verification with what was handed in, the choice of the next
\* certificate to walk from, the push of an error, the end of a job) are taken as soon as they are enabled: taking them
\* early disables nothing and no event needs them late.  Everything else is interleaved freely.
LocalW == {w \in Workers : wk[w].pc \in {"construct", "walk", "report"}}
LocalP == {p \in Posters : pw[p].pc = "reterr"}
LocalNext ==
  IF LocalW # {} THEN LET w == CHOOSE x \in LocalW : \A y \in LocalW : x <= y IN
                      Silent(Construct(w)) \/ Silent(WalkStep(w)) \/ Silent(Report(w))
  ELSE LET p == CHOOSE x \in LocalP : \A y \in LocalP : x <= y IN Silent(PostReport(p))

TraceNext == IF LocalW # {} \/ LocalP # {} THEN LocalNext ELSE
  \/ TraceReset \/ TraceEnd \/ TraceErr
  \/ (Ev("call") /\ cl.i = Trace[l].i /\ Step(CallStart))
  \/ (Ev("ret") /\ cl.i = Trace[l].i /\ Step(CallReturn))
  \/ (Ev("wait") /\ Step(WaitStart))
  \/ (Ev("waitret") /\ Step(WaitPost))
  \/ (Ev("fstart") /\ \E w \in Workers : wk[w].url = Trace[l].url /\ Step(FetchStart(w)))
  \/ (Ev("fdone") /\ \E w \in Workers : wk[w].url = Trace[l].url /\ world.serve[wk[w].url] = Trace[l].o /\ Step(FetchReturn(w)))
  \/ (Ev("astart") /\ \E p \in Posters : pw[p].chain = Trace[l].chain /\ Step(AddStart(p)))
  \/ (Ev("adone") /\ \E p \in Posters : pw[p].chain = Trace[l].chain /\ (pw[p].chain[1] \notin world.logbad) = Trace[l].ok /\ Step(AddReturn(p)))
  \* silent
  \/ Silent(AllStep) \/ Silent(WaitFix) \/ Silent(WaitFwd) \/ Silent(FwdDedupe) \/ Silent(FwdExit)
  \/ \E w \in Workers : Silent(Handoff(w)) \/ Silent(Lookup(w)) \/ Silent(CacheSet(w)) \/ Silent(EmitChain(w)) \/ Silent(ExitW(w))
  \/ \E p \in Posters : Silent(FwdHandoff(p)) \/ Silent(Check(p)) \/ Silent(SetPosted(p))

TraceSpec == TraceInit /\ [][TraceNext]_tvars

\* the order of the history sequences is no part of any law
Bag(s) == [x \in Range(s) |-> Cardinality({k \in 1..Len(s) : s[k] = x})]
TraceView == <<world, cl, closed, chclosed, wk, cache, fwd, pw, certPosted, chainTried, active, done,
               fstarts, Bag(addStarted), posted, Bag(reported), Len(handed), finished, l, Bag(taken)>>

HighWater == TLCSet(1, IF TLCGet(1) < l THEN l ELSE TLCGet(1))

TraceAccepted ==
  IF TLCGet(1) = Len(Trace) + 1 THEN TRUE
  ELSE /\ PrintT(<<"STUCK", ToJson([line |-> TLCGet(1), event |-> Trace[TLCGet(1)]])>>)
       /\ FALSE
=============================================================================
