CONSTANTS
  NW = 2
  NP = 2
  ProgNames = {"twins"}
  DevOutcomes = {}
  LogBads = {"La"}
INIT MCInit
NEXT DefectNext
VIEW StateView
INVARIANTS ChainTriedOnce
CHECK_DEADLOCK FALSE
