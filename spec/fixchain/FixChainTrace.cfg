CONSTANTS
  NW = 2
  NP = 2
INIT TraceInit
NEXT TraceNext
VIEW TraceView
CONSTRAINT HighWater
INVARIANTS ChainTriedOnce IsPostedSound SkipsJustified FixedChainsValid OutcomeExclusive CacheFaithful WaitMeansDone Accounted
POSTCONDITION TraceAccepted
CHECK_DEADLOCK FALSE
