CONSTANTS
  NW = 2
  NP = 2
INIT SimInit
NEXT SimNext
INVARIANTS QuiescentIsRest NeverStuck
CHECK_DEADLOCK FALSE
