------------------------------ MODULE Temporal ------------------------------
(***************************************************************************)
(* Half-open temporal intervals with optional bounds, and the three places *)
(* of the repository that decide "is instant t inside [start, limit)":     *)
(*                                                                         *)
(*   ServerAdmits     trillian/ctfe/cert_checker.go  ValidateChain         *)
(*                    (NotAfter window of a log server / shard)            *)
(*   ConfigAccepts,   trillian/ctfe/config.go ValidateLogConfig and        *)
(*   ConfiguredAdmits trillian/ctfe/instance.go setUpLogInfo: the window   *)
(*                    an instance enforces is the configured one           *)
(*   ShardIndex,      client/multilog.go  TemporalLogClient.IndexByDate,   *)
(*   ConstructorAccepts                   NewTemporalLogClient             *)
(*   ListCompatible   loglist3/logfilter.go  LogList.TemporallyCompatible  *)
(*   Filter(v, ...)   loglist3/logfilter.go  the family of entry points:  *)
(*                    TemporallyCompatible, Compatible, RootCompatible and *)
(*                    their compositions (the API variants of the filter)  *)
(*                                                                         *)
(* InWindow and WellFormedList are written from the property text (C18);   *)
(* the component operators are written the way each component is           *)
(* structured (which comparisons, in which order, with which negations),   *)
(* so that the theorems at the end say "the three structures compute the   *)
(* one predicate" and a conformance harness can bind each operator to its  *)
(* component.  Instants are naturals; only their order matters, so any     *)
(* strictly monotone map into real instants is a materialization.          *)
(***************************************************************************)
EXTENDS Naturals, Sequences, FiniteSets

(* ---------- optional bounds ---------- *)
\* a bound is a record: p = present, v = its instant (0 when absent)
NoBound == [p |-> FALSE, v |-> 0]
At(n)   == [p |-> TRUE,  v |-> n]
Bounds(T) == {NoBound} \cup {At(n) : n \in T}

\* an interval is [lower, upper) with optional ends
Iv(lo, up) == [lower |-> lo, upper |-> up]
Intervals(T) == {Iv(lo, up) : lo \in Bounds(T), up \in Bounds(T)}

(* ---------- the predicate of the property ---------- *)
InWindow(t, start, limit) == /\ (start.p => start.v <= t)
                             /\ (limit.p => t < limit.v)
InIv(t, iv) == InWindow(t, iv.lower, iv.upper)

(* ---------- log server: ValidateChain ---------- *)
\*   if naStart != nil && cert.NotAfter.Before(*naStart)  -> reject
\*   if naLimit != nil && !cert.NotAfter.Before(*naLimit) -> reject
ServerAdmits(t, start, limit) ==
  IF start.p /\ t < start.v THEN FALSE
  ELSE IF limit.p /\ ~(t < limit.v) THEN FALSE
  ELSE TRUE

(* ---------- log server as configured: LogConfig -> ValidateLogConfig -> SetUpInstance -> add-chain ---------- *)
\* ValidateLogConfig: both bounds present and limit.Before(start) -> "limit before start".
\* NAMED CLAUSE EmptyWindowConfigurable: the property does not say whether a server may be configured with the empty
\* window [a, a); the server's configuration accepts it (such an instance admits nothing), only limit < start is refused.
ConfigAccepts(start, limit) == ~(start.p /\ limit.p /\ limit.v < start.v)
\* setUpLogInfo builds the validation options of the instance from the validated configuration.  From the property
\* text: the window the instance enforces is the window that was configured - a present bound stays present at the
\* same instant, an ABSENT bound stays absent (it is not completed by any instant).
InstanceWindow(start, limit) == Iv(start, limit)
ConfiguredAdmits(t, start, limit) ==
  LET w == InstanceWindow(start, limit) IN ServerAdmits(t, w.lower, w.upper)

(* ---------- temporal-shard client ---------- *)
\* IndexByDate: walk the intervals in order, `continue` past those that exclude t, return the first left
Skips(t, iv) == \/ (iv.lower.p /\ t < iv.lower.v)
                \/ (iv.upper.p /\ ~(t < iv.upper.v))
NoShard == 0
ShardIndex(t, S) ==
  LET hits == {i \in 1..Len(S) : ~Skips(t, S[i])}
  IN IF hits = {} THEN NoShard ELSE CHOOSE i \in hits : \A j \in hits : i <= j

\* shardInterval: both ends present and not lower < upper -> "inverted interval"
IntervalRefused(iv) == iv.lower.p /\ iv.upper.p /\ ~(iv.lower.v < iv.upper.v)

\* NewTemporalLogClient: `overall` starts as shard 1 and its upper end is moved along; shard i (i > 1) is refused when
\* it is itself refused, when overall has no upper end, when it has no lower end, when its lower end differs from
\* overall's upper end.
RECURSIVE ExtendOK(_, _, _)
ExtendOK(S, i, overallUpper) ==
  IF i > Len(S) THEN TRUE
  ELSE IF IntervalRefused(S[i]) THEN FALSE
  ELSE IF ~overallUpper.p THEN FALSE
  ELSE IF ~S[i].lower.p THEN FALSE
  ELSE IF S[i].lower.v # overallUpper.v THEN FALSE
  ELSE ExtendOK(S, i + 1, S[i].upper)
ConstructorAccepts(S) ==
  IF Len(S) = 0 THEN FALSE                          \* "empty config"
  ELSE IF IntervalRefused(S[1]) THEN FALSE
  ELSE ExtendOK(S, 2, S[1].upper)

(* ---------- log list filter ---------- *)
\* A log of the list either has no temporal interval (always compatible) or one with both ends:
\*   NotAfter.Before(End) && (NotAfter.After(Start) || NotAfter.Equal(Start))
Absent == [k |-> "absent", s |-> 0, e |-> 0]
Span(s, e) == [k |-> "span", s |-> s, e |-> e]
ListCompatible(t, ti) ==
  IF ti.k = "absent" THEN TRUE
  ELSE t < ti.e /\ (t > ti.s \/ t = ti.s)
\* the interval a log-list entry denotes
AsIv(ti) == IF ti.k = "absent" THEN Iv(NoBound, NoBound) ELSE Iv(At(ti.s), At(ti.e))

(* ---------- log list filter: the API variants (entry points) of the filter ---------- *)
\* The property names "the log-list compatibility filter" and observes it at TemporallyCompatible / Compatible.  The
\* filter is one temporal condition that is offered through a FAMILY of entry points, alone and combined with the
\* root-acceptance condition:
\*   "TC"     ll.TemporallyCompatible(cert)
\*   "C"      ll.Compatible(cert, root, roots)
\*   "TC.RC"  ll.TemporallyCompatible(cert).RootCompatible(root, roots)   (what Compatible is documented to be; the
\*            submission distributor calls this composition itself, with root = nil, for chains it cannot root)
\*   "RC.TC"  ll.RootCompatible(root, roots).TemporallyCompatible(cert)   (the other composition order)
\*   "RC"     ll.RootCompatible(root, roots)                              (takes no certificate: no temporal condition)
\* From the property text: the temporal verdict is the same function of (t, start, limit) in EVERY variant - a log with
\* a temporal interval is returned exactly when t is inside the interval and the same log WITHOUT an interval would
\* have been returned by the same call (VariantIsWindow).  What the calls do with the root arguments is not the
\* subject of the property; the code has a definite, documented behaviour, recorded as NAMED CLAUSE RootClause.
FilterVariants == {"TC", "C", "TC.RC", "RC.TC", "RC"}
TakesCert(v) == v # "RC"
\* the certificate argument: a certificate with NotAfter = n, or none (nil)
NoCert == NoBound
CertAt(n) == At(n)
Certs(T) == {NoCert} \cup {CertAt(n) : n \in T}
\* the root argument: none (nil), a CA certificate, a certificate that is not a CA
RootKinds == {"none", "ca", "notca"}
\* what the roots collection knows about a log: no entry for it, an entry that contains the root, an entry without it
RootsStates == {"unknown", "accepts", "rejects"}
\* a log of the list: its temporal interval (Absent or Span) and what the roots collection knows about it
FLog(ti, rs) == [ti |-> ti, rs |-> rs]
FLogs(T) == {FLog(ti, rs) : ti \in {Absent} \cup {Span(s, e) : s \in T, e \in T}, rs \in RootsStates}

\* TemporallyCompatible, on the set I of positions of the list L that are still in: nil certificate -> nothing
TemporalPass(L, I, cert) == IF ~cert.p THEN {} ELSE {i \in I : ListCompatible(cert.v, L[i].ti)}
\* RootCompatible: a root that is not a CA -> nothing; then per log: no entry in the collection -> in ("assuming no
\* knowledge of its roots"); no root given -> out; else in when the entry contains the root
RootKeeps(root, rs) ==
  IF rs = "unknown" THEN TRUE
  ELSE IF root = "none" THEN FALSE
  ELSE rs = "accepts"
RootPass(L, I, root) == IF root = "notca" THEN {} ELSE {i \in I : RootKeeps(root, L[i].rs)}
\* Compatible: the temporal filter; without a root the collection is not consulted; else RootCompatible of the result
CompatiblePass(L, I, cert, root) ==
  LET active == TemporalPass(L, I, cert)
  IN IF root = "none" THEN active ELSE RootPass(L, active, root)
\* the positions of L a call of variant v returns
Filter(v, L, cert, root) ==
  LET all == 1..Len(L)
  IN CASE v = "TC"    -> TemporalPass(L, all, cert)
       [] v = "C"     -> CompatiblePass(L, all, cert, root)
       [] v = "TC.RC" -> RootPass(L, TemporalPass(L, all, cert), root)
       [] v = "RC.TC" -> TemporalPass(L, RootPass(L, all, root), cert)
       [] v = "RC"    -> RootPass(L, all, root)

\* the root factor of a call: would a log with this roots knowledge and NO temporal interval be returned (the
\* certificate, where one is taken, being present)
RootFactor(v, root, rs) == Filter(v, <<FLog(Absent, rs)>>, CertAt(0), root) = {1}
\* FROM THE PROPERTY TEXT: in every variant the verdict on a log is (t inside the log's interval) and (root factor);
\* the temporal factor is InWindow in every variant that takes a certificate and is missing in none of them
VariantIsWindow(L, T) == \A v \in FilterVariants, root \in RootKinds, t \in T :
  Filter(v, L, CertAt(t), root) =
    {i \in 1..Len(L) : (TakesCert(v) => InIv(t, AsIv(L[i].ti))) /\ RootFactor(v, root, L[i].rs)}
\* consequences spelled out: the compositions commute, Compatible with a root is the composition, Compatible without
\* a root is TemporallyCompatible, and wherever two variants both let the interval-less twin of a log through they
\* agree on the log itself
VariantsAgree(L, T) == \A root \in RootKinds, crt \in Certs(T) :
  LET F == [v \in FilterVariants |-> Filter(v, L, crt, root)]
      R == [v \in FilterVariants |-> [rs \in RootsStates |-> RootFactor(v, root, rs)]]
  IN /\ F["TC.RC"] = F["RC.TC"]
     /\ (root # "none" => F["C"] = F["TC.RC"])
     /\ (root = "none" => F["C"] = F["TC"])
     /\ \A i \in 1..Len(L) :
          LET passing == {v \in FilterVariants : TakesCert(v) /\ R[v][L[i].rs]}
          IN Cardinality({(i \in F[v]) : v \in passing}) <= 1
\* NAMED CLAUSE NilCertNothing: the property does not mention a missing certificate; every variant that takes one
\* returns nothing without it (there is no NotAfter to place)
NilCertNothing(L) == \A v \in FilterVariants, root \in RootKinds :
  TakesCert(v) => Filter(v, L, NoCert, root) = {}
\* NAMED CLAUSE RootClause: the root factor of each call, as documented at RootCompatible / Compatible ("Logs that are
\* missing from the collection are treated as always compatible and included, even if an empty cert root is passed
\* in"; "Do not check root compatibility if roots are not being provided"; "Cert-root when provided is expected to
\* be CA-cert").  It never depends on the instant or on the interval.
RootClause == \A v \in FilterVariants, root \in RootKinds, rs \in RootsStates :
  RootFactor(v, root, rs) =
    CASE v = "TC" -> TRUE
      [] v = "C" /\ root = "none" -> TRUE
      [] OTHER -> root # "notca" /\ (rs = "unknown" \/ (root = "ca" /\ rs = "accepts"))

(* ---------- the representable range; the completion of absent bounds is NOT the predicate ---------- *)
\* The instants a certificate can carry form a bounded range First..Last (RFC 5280 4.1.2.5: GeneralizedTime has a
\* four-digit year; Last = 99991231235959Z is the value prescribed for "no well-defined expiration date").  InWindow knows
\* no such range: an absent bound excludes no instant.  A tempting completion - "an absent start is First, an absent
\* limit is Last", which makes every window fully specified - is a different predicate, because the limit is exclusive:
Completed(start, limit, First, Last) ==
  Iv(IF start.p THEN start ELSE At(First), IF limit.p THEN limit ELSE At(Last))
CompletedAdmits(t, start, limit, First, Last) ==
  LET w == Completed(start, limit, First, Last) IN ServerAdmits(t, w.lower, w.upper)
CompletedShardIndex(t, S, First, Last) ==
  ShardIndex(t, [i \in 1..Len(S) |-> Completed(S[i].lower, S[i].upper, First, Last)])
\* REFUTED OBSERVATION CompletionIsWindow (CompletedAdmits = InWindow): it fails, and exactly at the last instant of
\* the range under an absent limit.  Hence a materialization of the ticks that never puts the top tick on the last
\* representable instant cannot tell the two apart; MCTemporal's frames pin the extreme ticks to the extreme instants.
CompletionGap(t, start, limit, First, Last) == CompletedAdmits(t, start, limit, First, Last) # InWindow(t, start, limit)
CompletionGapIsTheLastInstant(T, First, Last) ==
  \A t \in T, s \in Bounds(T), l \in Bounds(T) :
    CompletionGap(t, s, l, First, Last) = (t = Last /\ ~l.p /\ InWindow(t, s, l))
\* what the property says about absent bounds, spelled out (a consequence of InWindow; checked for every component)
AbsentBoundExcludesNothing(T) ==
  \A t \in T, b \in Bounds(T) :
    /\ ServerAdmits(t, NoBound, b) = (b.p => t < b.v)
    /\ ServerAdmits(t, b, NoBound) = (b.p => b.v <= t)
    /\ ConfiguredAdmits(t, NoBound, b) = (b.p => t < b.v)
    /\ ConfiguredAdmits(t, b, NoBound) = (b.p => b.v <= t)
    /\ (ShardIndex(t, <<Iv(NoBound, b)>>) = 1) = (b.p => t < b.v)
    /\ (ShardIndex(t, <<Iv(b, NoBound)>>) = 1) = (b.p => b.v <= t)

(* ---------- the integration tests' NotAfter chooser (trillian/integration NotAfterForLog) ---------- *)
\* NAMED CLAUSE ChooserInside: for the configuration of a shard whose window contains an instant, the chooser returns
\* an instant of that window (otherwise the shard rejects what its own tests submit).  The chosen instant need not be
\* one of the ticks; the harness evaluates InWindow on the real instants.  Nothing is asserted for windows [a, a).
ChooserMustBeInside(start, limit) == ConfigAccepts(start, limit) /\ ~(start.p /\ limit.p /\ start.v = limit.v)
ChooserOK(picked, start, limit) == InWindow(picked, start, limit)

(* ---------- shard lists, from the property text ---------- *)
Inverted(iv) == iv.lower.p /\ iv.upper.p /\ iv.upper.v < iv.lower.v
\* NAMED CLAUSE EmptyShardRefused: the property speaks of inverted intervals; the constructor also refuses the empty
\* interval [a, a) (which contains no instant, so nothing the property states about routing depends on it).
EmptyShard(iv) == iv.lower.p /\ iv.upper.p /\ iv.upper.v = iv.lower.v
\* consecutive shards meet: the earlier one ends (it is bounded above) exactly where the later one starts
Contiguous(a, b) == a.upper.p /\ b.lower.p /\ a.upper.v = b.lower.v
WellFormedList(S) ==
  /\ Len(S) > 0                                     \* NAMED CLAUSE EmptyListRefused: a list without shards is refused
  /\ \A i \in 1..Len(S) : ~Inverted(S[i]) /\ ~EmptyShard(S[i])
  /\ \A i \in 1..Len(S) - 1 : Contiguous(S[i], S[i + 1])   \* covers "extends an unbounded interval" on either side
OverallSpan(S) == Iv(S[1].lower, S[Len(S)].upper)

(* ---------- theorems (checked by TLC over the whole bounded domain, see MCTemporal) ---------- *)
ServerIsWindow(T) == \A t \in T, s \in Bounds(T), l \in Bounds(T) : ServerAdmits(t, s, l) = InWindow(t, s, l)
ConfiguredIsWindow(T) == \A t \in T, s \in Bounds(T), l \in Bounds(T) :
  ConfigAccepts(s, l) => ConfiguredAdmits(t, s, l) = InWindow(t, s, l)
ListIsWindow(T) == /\ \A t \in T : ListCompatible(t, Absent) = InIv(t, AsIv(Absent))
                   /\ \A t \in T, s \in T, e \in T : ListCompatible(t, Span(s, e)) = InIv(t, AsIv(Span(s, e)))
ConstructorIsWellFormed(S) == ConstructorAccepts(S) = WellFormedList(S)
\* for lists the constructor accepts:
IndexIsWindow(S, T) == \A t \in T : \A i \in 1..Len(S) : (ShardIndex(t, S) = i) = InIv(t, S[i])
ExactlyOneShard(S, T) == \A t \in T :
  Cardinality({i \in 1..Len(S) : InIv(t, S[i])}) = IF InIv(t, OverallSpan(S)) THEN 1 ELSE 0
RoutingIsAdmission(S, T) == \A t \in T : \A i \in 1..Len(S) :
  (ShardIndex(t, S) = i) = ServerAdmits(t, S[i].lower, S[i].upper)
NoneOutside(S, T) == \A t \in T : (ShardIndex(t, S) = NoShard) = ~InIv(t, OverallSpan(S))
\* routing <=> admission by the server AS CONFIGURED with that shard's window (every shard of an accepted list is a
\* window the server's configuration accepts)
RoutingIsConfiguredAdmission(S, T) == \A t \in T : \A i \in 1..Len(S) :
  /\ ConfigAccepts(S[i].lower, S[i].upper)
  /\ (ShardIndex(t, S) = i) = ConfiguredAdmits(t, S[i].lower, S[i].upper)
=============================================================================
