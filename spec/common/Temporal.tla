------------------------------ MODULE Temporal ------------------------------
(***************************************************************************)
(* Half-open temporal intervals with optional bounds, and the three places *)
(* of the repository that decide "is instant t inside [start, limit)":     *)
(*                                                                         *)
(*   ServerAdmits     trillian/ctfe/cert_checker.go  ValidateChain         *)
(*                    (NotAfter window of a log server / shard)            *)
(*   ConfigAccepts,   trillian/ctfe/config.go ValidateLogConfig and        *)
(*   ConfiguredAdmits trillian/ctfe/instance.go setUpLogInfo: the window   *)
(*                    an instance enforces is the configured one           *)
(*   ShardIndex,      client/multilog.go  TemporalLogClient.IndexByDate,   *)
(*   ConstructorAccepts                   NewTemporalLogClient             *)
(*   ListCompatible   loglist3/logfilter.go  LogList.TemporallyCompatible  *)
(*                                                                         *)
(* InWindow and WellFormedList are written from the property text (C18);   *)
(* the component operators are written the way each component is           *)
(* structured (which comparisons, in which order, with which negations),   *)
(* so that the theorems at the end say "the three structures compute the   *)
(* one predicate" and a conformance harness can bind each operator to its  *)
(* component.  Instants are naturals; only their order matters, so any     *)
(* strictly monotone map into real instants is a materialization.          *)
(***************************************************************************)
EXTENDS Naturals, Sequences, FiniteSets

(* ---------- optional bounds ---------- *)
\* a bound is a record: p = present, v = its instant (0 when absent)
NoBound == [p |-> FALSE, v |-> 0]
At(n)   == [p |-> TRUE,  v |-> n]
Bounds(T) == {NoBound} \cup {At(n) : n \in T}

\* an interval is [lower, upper) with optional ends
Iv(lo, up) == [lower |-> lo, upper |-> up]
Intervals(T) == {Iv(lo, up) : lo \in Bounds(T), up \in Bounds(T)}

(* ---------- the predicate of the property ---------- *)
InWindow(t, start, limit) == /\ (start.p => start.v <= t)
                             /\ (limit.p => t < limit.v)
InIv(t, iv) == InWindow(t, iv.lower, iv.upper)

(* ---------- log server: ValidateChain ---------- *)
\*   if naStart != nil && cert.NotAfter.Before(*naStart)  -> reject
\*   if naLimit != nil && !cert.NotAfter.Before(*naLimit) -> reject
ServerAdmits(t, start, limit) ==
  IF start.p /\ t < start.v THEN FALSE
  ELSE IF limit.p /\ ~(t < limit.v) THEN FALSE
  ELSE TRUE

(* ---------- log server as configured: LogConfig -> ValidateLogConfig -> SetUpInstance -> add-chain ---------- *)
\* ValidateLogConfig: both bounds present and limit.Before(start) -> "limit before start".
\* NAMED CLAUSE EmptyWindowConfigurable: the property does not say whether a server may be configured with the empty
\* window [a, a); the server's configuration accepts it (such an instance admits nothing), only limit < start is refused.
ConfigAccepts(start, limit) == ~(start.p /\ limit.p /\ limit.v < start.v)
\* setUpLogInfo builds the validation options of the instance from the validated configuration.  From the property
\* text: the window the instance enforces is the window that was configured - a present bound stays present at the
\* same instant, an ABSENT bound stays absent (it is not completed by any instant).
InstanceWindow(start, limit) == Iv(start, limit)
ConfiguredAdmits(t, start, limit) ==
  LET w == InstanceWindow(start, limit) IN ServerAdmits(t, w.lower, w.upper)

(* ---------- temporal-shard client ---------- *)
\* IndexByDate: walk the intervals in order, `continue` past those that exclude t, return the first left
Skips(t, iv) == \/ (iv.lower.p /\ t < iv.lower.v)
                \/ (iv.upper.p /\ ~(t < iv.upper.v))
NoShard == 0
ShardIndex(t, S) ==
  LET hits == {i \in 1..Len(S) : ~Skips(t, S[i])}
  IN IF hits = {} THEN NoShard ELSE CHOOSE i \in hits : \A j \in hits : i <= j

\* shardInterval: both ends present and not lower < upper -> "inverted interval"
IntervalRefused(iv) == iv.lower.p /\ iv.upper.p /\ ~(iv.lower.v < iv.upper.v)

\* NewTemporalLogClient: `overall` starts as shard 1 and its upper end is moved along; shard i (i > 1) is refused when
\* it is itself refused, when overall has no upper end, when it has no lower end, when its lower end differs from
\* overall's upper end.
RECURSIVE ExtendOK(_, _, _)
ExtendOK(S, i, overallUpper) ==
  IF i > Len(S) THEN TRUE
  ELSE IF IntervalRefused(S[i]) THEN FALSE
  ELSE IF ~overallUpper.p THEN FALSE
  ELSE IF ~S[i].lower.p THEN FALSE
  ELSE IF S[i].lower.v # overallUpper.v THEN FALSE
  ELSE ExtendOK(S, i + 1, S[i].upper)
ConstructorAccepts(S) ==
  IF Len(S) = 0 THEN FALSE                          \* "empty config"
  ELSE IF IntervalRefused(S[1]) THEN FALSE
  ELSE ExtendOK(S, 2, S[1].upper)

(* ---------- log list filter ---------- *)
\* A log of the list either has no temporal interval (always compatible) or one with both ends:
\*   NotAfter.Before(End) && (NotAfter.After(Start) || NotAfter.Equal(Start))
Absent == [k |-> "absent", s |-> 0, e |-> 0]
Span(s, e) == [k |-> "span", s |-> s, e |-> e]
ListCompatible(t, ti) ==
  IF ti.k = "absent" THEN TRUE
  ELSE t < ti.e /\ (t > ti.s \/ t = ti.s)
\* the interval a log-list entry denotes
AsIv(ti) == IF ti.k = "absent" THEN Iv(NoBound, NoBound) ELSE Iv(At(ti.s), At(ti.e))

(* ---------- the representable range; the completion of absent bounds is NOT the predicate ---------- *)
\* The instants a certificate can carry form a bounded range First..Last (RFC 5280 4.1.2.5: GeneralizedTime has a
\* four-digit year; Last = 99991231235959Z is the value prescribed for "no well-defined expiration date").  InWindow knows
\* no such range: an absent bound excludes no instant.  A tempting completion - "an absent start is First, an absent
\* limit is Last", which makes every window fully specified - is a different predicate, because the limit is exclusive:
Completed(start, limit, First, Last) ==
  Iv(IF start.p THEN start ELSE At(First), IF limit.p THEN limit ELSE At(Last))
CompletedAdmits(t, start, limit, First, Last) ==
  LET w == Completed(start, limit, First, Last) IN ServerAdmits(t, w.lower, w.upper)
CompletedShardIndex(t, S, First, Last) ==
  ShardIndex(t, [i \in 1..Len(S) |-> Completed(S[i].lower, S[i].upper, First, Last)])
\* REFUTED OBSERVATION CompletionIsWindow (CompletedAdmits = InWindow): it fails, and exactly at the last instant of
\* the range under an absent limit.  Hence a materialization of the ticks that never puts the top tick on the last
\* representable instant cannot tell the two apart; MCTemporal's frames pin the extreme ticks to the extreme instants.
CompletionGap(t, start, limit, First, Last) == CompletedAdmits(t, start, limit, First, Last) # InWindow(t, start, limit)
CompletionGapIsTheLastInstant(T, First, Last) ==
  \A t \in T, s \in Bounds(T), l \in Bounds(T) :
    CompletionGap(t, s, l, First, Last) = (t = Last /\ ~l.p /\ InWindow(t, s, l))
\* what the property says about absent bounds, spelled out (a consequence of InWindow; checked for every component)
AbsentBoundExcludesNothing(T) ==
  \A t \in T, b \in Bounds(T) :
    /\ ServerAdmits(t, NoBound, b) = (b.p => t < b.v)
    /\ ServerAdmits(t, b, NoBound) = (b.p => b.v <= t)
    /\ ConfiguredAdmits(t, NoBound, b) = (b.p => t < b.v)
    /\ ConfiguredAdmits(t, b, NoBound) = (b.p => b.v <= t)
    /\ (ShardIndex(t, <<Iv(NoBound, b)>>) = 1) = (b.p => t < b.v)
    /\ (ShardIndex(t, <<Iv(b, NoBound)>>) = 1) = (b.p => b.v <= t)

(* ---------- the integration tests' NotAfter chooser (trillian/integration NotAfterForLog) ---------- *)
\* NAMED CLAUSE ChooserInside: for the configuration of a shard whose window contains an instant, the chooser returns
\* an instant of that window (otherwise the shard rejects what its own tests submit).  The chosen instant need not be
\* one of the ticks; the harness evaluates InWindow on the real instants.  Nothing is asserted for windows [a, a).
ChooserMustBeInside(start, limit) == ConfigAccepts(start, limit) /\ ~(start.p /\ limit.p /\ start.v = limit.v)
ChooserOK(picked, start, limit) == InWindow(picked, start, limit)

(* ---------- shard lists, from the property text ---------- *)
Inverted(iv) == iv.lower.p /\ iv.upper.p /\ iv.upper.v < iv.lower.v
\* NAMED CLAUSE EmptyShardRefused: the property speaks of inverted intervals; the constructor also refuses the empty
\* interval [a, a) (which contains no instant, so nothing the property states about routing depends on it).
EmptyShard(iv) == iv.lower.p /\ iv.upper.p /\ iv.upper.v = iv.lower.v
\* consecutive shards meet: the earlier one ends (it is bounded above) exactly where the later one starts
Contiguous(a, b) == a.upper.p /\ b.lower.p /\ a.upper.v = b.lower.v
WellFormedList(S) ==
  /\ Len(S) > 0                                     \* NAMED CLAUSE EmptyListRefused: a list without shards is refused
  /\ \A i \in 1..Len(S) : ~Inverted(S[i]) /\ ~EmptyShard(S[i])
  /\ \A i \in 1..Len(S) - 1 : Contiguous(S[i], S[i + 1])   \* covers "extends an unbounded interval" on either side
OverallSpan(S) == Iv(S[1].lower, S[Len(S)].upper)

(* ---------- theorems (checked by TLC over the whole bounded domain, see MCTemporal) ---------- *)
ServerIsWindow(T) == \A t \in T, s \in Bounds(T), l \in Bounds(T) : ServerAdmits(t, s, l) = InWindow(t, s, l)
ConfiguredIsWindow(T) == \A t \in T, s \in Bounds(T), l \in Bounds(T) :
  ConfigAccepts(s, l) => ConfiguredAdmits(t, s, l) = InWindow(t, s, l)
ListIsWindow(T) == /\ \A t \in T : ListCompatible(t, Absent) = InIv(t, AsIv(Absent))
                   /\ \A t \in T, s \in T, e \in T : ListCompatible(t, Span(s, e)) = InIv(t, AsIv(Span(s, e)))
ConstructorIsWellFormed(S) == ConstructorAccepts(S) = WellFormedList(S)
\* for lists the constructor accepts:
IndexIsWindow(S, T) == \A t \in T : \A i \in 1..Len(S) : (ShardIndex(t, S) = i) = InIv(t, S[i])
ExactlyOneShard(S, T) == \A t \in T :
  Cardinality({i \in 1..Len(S) : InIv(t, S[i])}) = IF InIv(t, OverallSpan(S)) THEN 1 ELSE 0
RoutingIsAdmission(S, T) == \A t \in T : \A i \in 1..Len(S) :
  (ShardIndex(t, S) = i) = ServerAdmits(t, S[i].lower, S[i].upper)
NoneOutside(S, T) == \A t \in T : (ShardIndex(t, S) = NoShard) = ~InIv(t, OverallSpan(S))
\* routing <=> admission by the server AS CONFIGURED with that shard's window (every shard of an accepted list is a
\* window the server's configuration accepts)
RoutingIsConfiguredAdmission(S, T) == \A t \in T : \A i \in 1..Len(S) :
  /\ ConfigAccepts(S[i].lower, S[i].upper)
  /\ (ShardIndex(t, S) = i) = ConfiguredAdmits(t, S[i].lower, S[i].upper)
=============================================================================
