\* quick and thorough: instants 0..3, every log list of length <= 2 (2 653 lists x 5 variants x 3 root arguments x 5 certificates)
CONSTANTS
  MaxT = 3
  MaxLogs = 2
INIT Init
NEXT Next
INVARIANTS FilterLaws FExport
CHECK_DEADLOCK FALSE
