\* thorough, second run: log lists of length <= 3 over instants 0..2 (27 931 lists)
CONSTANTS
  MaxT = 2
  MaxLogs = 3
INIT Init
NEXT Next
INVARIANTS FilterLaws FExport
CHECK_DEADLOCK FALSE
