----------------------------- MODULE MCLogFilter -----------------------------
(* Exhaustive case analysis of the API variants of the log-list filter (Temporal.tla, "log list filter: the API        *)
(* variants"): every log list of length <= MaxLogs whose logs have no temporal interval or any interval [s, e) over     *)
(* instants 0..MaxT (well-formed, empty or inverted) and any roots knowledge (no entry in the roots collection, an      *)
(* entry with the root, an entry without it) is one state.  The laws are invariants over every call - variant x root    *)
(* argument x certificate (NotAfter at every instant, or no certificate); every case is exported (FCASE) with the set   *)
(* of positions each call returns, so that the harness can replay every call into loglist3.LogList.                     *)
EXTENDS Temporal, TemporalFrames, Integers, Json, TLC

CONSTANTS MaxLogs    \* MaxT, T == 0..MaxT and the frames: TemporalFrames

LogLists == UNION {[1..n -> FLogs(T)] : n \in 0..MaxLogs}

VARIABLE c
Init == c \in LogLists
Next == UNCHANGED c

\* laws that do not depend on a list: evaluated once
ASSUME ListIsWindow(T)
ASSUME RootClause
\* the dimensions of the case space, for the harness (it must know every value and materialize every one)
ASSUME PrintT(<<"FDIM", ToJson([variants |-> FilterVariants, roots |-> RootKinds, states |-> RootsStates, top |-> MaxT])>>)

FilterLaws == /\ VariantIsWindow(c, T)
              /\ VariantsAgree(c, T)
              /\ NilCertNothing(c)

\* the certificate axis of the exported tables: positions 1..MaxT+1 are NotAfter = 0..MaxT, position MaxT+2 is "no certificate"
CertOf(k) == IF k = MaxT + 2 THEN NoCert ELSE CertAt(k - 1)
\* positions are exported 0-based
Keep(v, root, k) == {i - 1 : i \in Filter(v, c, CertOf(k), root)}
FCase == [L    |-> [i \in 1..Len(c) |-> [s  |-> IF c[i].ti.k = "absent" THEN -1 ELSE c[i].ti.s,
                                          e  |-> IF c[i].ti.k = "absent" THEN -1 ELSE c[i].ti.e,
                                          rs |-> c[i].rs]],
          keep |-> [v \in FilterVariants |-> [root \in RootKinds |-> [k \in 1..(MaxT + 2) |-> Keep(v, root, k)]]]]
FExport == PrintT(<<"FCASE", ToJson(FCase)>>)
=============================================================================
