--------------------------- MODULE TemporalFrames ---------------------------
(* The frames in which the cases of the C18 case-analysis modules (MCTemporal: shard lists / windows; MCLogFilter:    *)
(* log lists and the API variants of the filter) have to be materialized.  Shared so that every module over instants  *)
(* 0..MaxT exports the same frames for its own MaxT.                                                                  *)
EXTENDS Naturals, Sequences, Json, TLC

CONSTANT MaxT
T == 0..MaxT

(* ---------- frames: where in the range of real instants the ticks are placed ---------- *)
\* Only the order of the ticks enters the laws, so the verdicts of a case are the same wherever a strictly monotone
\* map puts the ticks.  The components, however, compare real instants with real machinery (time.Time, protobuf
\* Timestamps, ASN.1 UTCTime / GeneralizedTime, Unix seconds / nanoseconds), whose behaviour depends on WHERE the instants
\* lie.  A frame names a landmark instant of that machinery and the ticks that are pinned to it in turn; the other ticks
\* lie one unit apart on either side of the pinned one, as far as the range allows.  The harness holds the table
\* landmark -> real instant and must realize every frame (it reports one counter per frame; the driver checks them).
\*   pins     the ticks that are put on the landmark, one materialization each
\*   boundMin the lowest tick a BOUND may use in this frame (a configuration cannot name instants before ConfFirst,
\*            a certificate can carry them: in frame First tick 0 is an instant only, never a bound)
Frame(at, pins, boundMin, why) == [at |-> at, pins |-> pins, boundMin |-> boundMin, why |-> why]
Frames == <<
  Frame("Mid",       T,      0, "an ordinary instant (2031)"),
  Frame("First",     {0},    1, "0000-01-01T00:00:00Z, the earliest GeneralizedTime; the other ticks start at ConfFirst"),
  Frame("ConfFirst", {0},    0, "0001-01-01T00:00:00Z, the earliest protobuf Timestamp and the zero time.Time"),
  Frame("UTCFirst",  T,      0, "1950-01-01T00:00:00Z, the first instant encoded as UTCTime"),
  Frame("Epoch",     T,      0, "1970-01-01T00:00:00Z, Unix time 0"),
  Frame("Int32Last", T,      0, "2038-01-19T03:14:07Z, the last 32-bit Unix second"),
  Frame("GenFirst",  T,      0, "2050-01-01T00:00:00Z, the first instant after the UTCTime years"),
  Frame("NanoLast",  T,      0, "2262-04-11T23:47:16Z, the last whole second with a 64-bit nanosecond Unix time"),
  Frame("Last",      T,      0, "9999-12-31T23:59:59Z, the last instant a certificate can carry (RFC 5280: no expiry); ticks above the pinned one are sub-second bounds, pin MaxT puts every other tick below")
>>
\* the extremes of the representable range are materializations of the extreme ranks (CompletionGapIsTheLastInstant:
\* the only place where a completed absent bound shows is t = MaxT on Last; symmetrically tick 0 on First / ConfFirst)
ASSUME \A i \in 1..Len(Frames) : LET f == Frames[i] IN
         /\ f.pins # {} /\ f.pins \subseteq T /\ f.boundMin \in 0..1
         /\ (f.at = "Last" => MaxT \in f.pins)
         /\ (f.at \in {"First", "ConfFirst"} => f.pins = {0})
ASSUME \A i \in 1..Len(Frames) :
         PrintT(<<"FRAME", ToJson([at |-> Frames[i].at, pins |-> Frames[i].pins, boundMin |-> Frames[i].boundMin,
                                   top |-> MaxT])>>)
=============================================================================
