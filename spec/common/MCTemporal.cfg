\* thorough: instants 0..7, bounds None or 0..7, all shard lists of length <= 3 (538 084 lists)
CONSTANTS
  MaxT = 7
  MaxLen = 3
INIT Init
NEXT Next
INVARIANTS Laws Export
CHECK_DEADLOCK FALSE
