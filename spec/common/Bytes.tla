------------------------------- MODULE Bytes -------------------------------
(***************************************************************************)
(* Byte strings as sequences of segments (DESIGN.md section 3).            *)
(*                                                                         *)
(*   Lit(<<b1, ..., bn>>)   n literal bytes                                *)
(*   Fill(n, id)            n bytes, byte j (0-based) = (id + j) % 251     *)
(*                                                                         *)
(* A fill is a ramp of period 251 (prime, so it never lines up with the    *)
(* 2^8 / 2^16 / 2^24 boundaries the codecs are tested at).  Its content is *)
(* known to the model, so a decoder that is made to read a length or an    *)
(* integer out of the middle of a 2^24-byte payload still has a defined    *)
(* result, and 2^16 / 2^24 sized fields stay a single record for TLC.  The *)
(* Go harness expands a segment sequence to real bytes of exactly that     *)
(* length (harness/tlsmodel.Expand).                                       *)
(*                                                                         *)
(* Numbers that do not fit TLC's 32-bit integers (uint64 fields, 2^64-1    *)
(* bounds) are canonical base-256 digit sequences: <<>> is 0, <<1, 0>> is  *)
(* 256.                                                                    *)
(***************************************************************************)
EXTENDS Naturals, Sequences

P == 251        \* ramp period of a fill
RunMin == 16    \* canonical form: ramps shorter than this are literal bytes

Lit(b) == [k |-> "lit", b |-> b, n |-> Len(b), id |-> 0]
Fill(n, id) == [k |-> "fill", b |-> <<>>, n |-> n, id |-> id % P]
B(b) == IF b = <<>> THEN <<>> ELSE <<Lit(b)>>      \* the byte string of literal bytes b

RECURSIVE BLen(_)
BLen(bs) == IF bs = <<>> THEN 0 ELSE Head(bs).n + BLen(Tail(bs))

SegBytes(s) == IF s.k = "lit" THEN s.b ELSE [j \in 1..s.n |-> (s.id + j - 1) % P]
SegTake(s, n) == IF s.k = "lit" THEN Lit(SubSeq(s.b, 1, n)) ELSE Fill(n, s.id)
SegDrop(s, n) == IF s.k = "lit" THEN Lit(SubSeq(s.b, n + 1, Len(s.b))) ELSE Fill(s.n - n, s.id + n)

\* first n bytes / all but the first n bytes (n <= BLen(bs))
RECURSIVE Take(_, _)
Take(bs, n) == IF n = 0 \/ bs = <<>> THEN <<>>
               ELSE IF Head(bs).n <= n THEN <<Head(bs)>> \o Take(Tail(bs), n - Head(bs).n)
               ELSE <<SegTake(Head(bs), n)>>
RECURSIVE Drop(_, _)
Drop(bs, n) == IF n = 0 \/ bs = <<>> THEN bs
               ELSE IF Head(bs).n <= n THEN Drop(Tail(bs), n - Head(bs).n)
               ELSE <<SegDrop(Head(bs), n)>> \o Tail(bs)

\* the bytes written out (small strings only)
RECURSIVE Expand(_)
Expand(bs) == IF bs = <<>> THEN <<>> ELSE SegBytes(Head(bs)) \o Expand(Tail(bs))

(* ---------- canonical form: equal byte strings <=> equal canonical forms ---------- *)
\* atoms <<n, id>>: a ramp of n bytes starting at id; id >= P is a single byte that is in no ramp
LitAtoms(b) == [j \in 1..Len(b) |-> <<1, b[j]>>]
RECURSIVE Atoms(_)
Atoms(bs) == IF bs = <<>> THEN <<>>
             ELSE (IF Head(bs).k = "lit" THEN LitAtoms(Head(bs).b)
                   ELSE IF Head(bs).n = 0 THEN <<>> ELSE << <<Head(bs).n, Head(bs).id>> >>) \o Atoms(Tail(bs))
Continues(a, c) == a[2] < P /\ c[2] < P /\ c[2] = (a[2] + a[1]) % P
\* maximal ramps: the break points depend on the bytes only, not on the segmentation
RECURSIVE Runs(_, _)
Runs(at, acc) == IF at = <<>> THEN acc
                 ELSE IF acc # <<>> /\ Continues(acc[Len(acc)], Head(at))
                      THEN Runs(Tail(at), [acc EXCEPT ![Len(acc)] = <<@[1] + Head(at)[1], @[2]>>])
                      ELSE Runs(Tail(at), Append(acc, Head(at)))
RunBytes(r) == [j \in 1..r[1] |-> IF r[2] >= P THEN r[2] ELSE (r[2] + j - 1) % P]
RECURSIVE FromRuns(_, _)
FromRuns(rs, lit) == IF rs = <<>> THEN B(lit)
                     ELSE IF Head(rs)[1] < RunMin THEN FromRuns(Tail(rs), lit \o RunBytes(Head(rs)))
                     ELSE B(lit) \o <<Fill(Head(rs)[1], Head(rs)[2])>> \o FromRuns(Tail(rs), <<>>)
Norm(bs) == FromRuns(Runs(Atoms(bs), <<>>), <<>>)
BytesEq(a, b) == Norm(a) = Norm(b)

(* ---------- numbers as canonical base-256 digit sequences ---------- *)
RECURSIVE NumOf(_)
NumOf(n) == IF n = 0 THEN <<>> ELSE Append(NumOf(n \div 256), n % 256)
RECURSIVE Strip(_)
Strip(d) == IF d # <<>> /\ Head(d) = 0 THEN Strip(Tail(d)) ELSE d
Pad(d, w) == [j \in 1..w |-> IF j <= w - Len(d) THEN 0 ELSE d[j - (w - Len(d))]]   \* Len(d) <= w
RECURSIVE LexLE(_, _)
LexLE(a, b) == a = <<>> \/ Head(a) < Head(b) \/ (Head(a) = Head(b) /\ LexLE(Tail(a), Tail(b)))
NumLE(a, b) == Len(a) < Len(b) \/ (Len(a) = Len(b) /\ LexLE(a, b))
RECURSIVE IntOf(_)
IntOf(d) == IF d = <<>> THEN 0 ELSE IntOf(SubSeq(d, 1, Len(d) - 1)) * 256 + d[Len(d)]   \* d < 2^31
MaxNum(w) == [j \in 1..w |-> 255]                     \* 2^(8w) - 1
PowNum(w) == <<1>> \o [j \in 1..w |-> 0]              \* 2^(8w)
\* d + 1 and d - 1 on digit sequences
RECURSIVE Inc(_)
Inc(d) == IF d = <<>> THEN <<1>>
          ELSE IF d[Len(d)] < 255 THEN [d EXCEPT ![Len(d)] = @ + 1]
          ELSE Append(Inc(SubSeq(d, 1, Len(d) - 1)), 0)
RECURSIVE DecRaw(_)
DecRaw(d) == IF d[Len(d)] > 0 THEN [d EXCEPT ![Len(d)] = @ - 1]
             ELSE Append(DecRaw(SubSeq(d, 1, Len(d) - 1)), 255)
Pred(d) == Strip(DecRaw(d))                           \* d > 0
=============================================================================
