\* thorough, second run: lists of length <= 4 over instants 0..3 (406 901 lists)
CONSTANTS
  MaxT = 3
  MaxLen = 4
INIT Init
NEXT Next
INVARIANTS Laws Export
CHECK_DEADLOCK FALSE
