\* thorough, third run: log lists of length <= 2 over instants 0..4 (6 163 lists)
CONSTANTS
  MaxT = 4
  MaxLogs = 2
INIT Init
NEXT Next
INVARIANTS FilterLaws FExport
CHECK_DEADLOCK FALSE
