----------------------------- MODULE MCTemporal -----------------------------
(* Exhaustive case analysis of Temporal: every shard list of length <= MaxLen over instants 0..MaxT with present or  *)
(* absent bounds is one state.  The laws are invariants; every case is exported (CASE) with the verdict of each      *)
(* component operator so that the harness can replay it into the three real components.                              *)
EXTENDS Temporal, Integers, Json, TLC

CONSTANTS MaxT, MaxLen

T == 0..MaxT
Lists == UNION {[1..n -> Intervals(T)] : n \in 0..MaxLen}

VARIABLE c
Init == c \in Lists
Next == UNCHANGED c

\* laws that do not depend on a list: evaluated once
ASSUME ServerIsWindow(T)
ASSUME ListIsWindow(T)
ASSUME ConfiguredIsWindow(T)
ASSUME AbsentBoundExcludesNothing(T)
\* the ticks ARE the representable range in rank form: 0 is its first instant, MaxT its last
ASSUME CompletionGapIsTheLastInstant(T, 0, MaxT)
\* the refuted observation, kept refuted: completing absent bounds is not the window (witness: t = MaxT, no limit) ...
ASSUME ~(\A t \in T, s \in Bounds(T), l \in Bounds(T) : CompletedAdmits(t, s, l, 0, MaxT) = InWindow(t, s, l))
\* ... and a shard client that completes its intervals loses the last instant of an open-ended list
ASSUME CompletedShardIndex(MaxT, <<Iv(NoBound, At(1)), Iv(At(1), NoBound)>>, 0, MaxT) = NoShard
       /\ ShardIndex(MaxT, <<Iv(NoBound, At(1)), Iv(At(1), NoBound)>>) = 2

(* ---------- frames: where in the range of real instants the ticks are placed ---------- *)
\* Only the order of the ticks enters the laws, so the verdicts of a case are the same wherever a strictly monotone
\* map puts the ticks.  The components, however, compare real instants with real machinery (time.Time, protobuf
\* Timestamps, ASN.1 UTCTime / GeneralizedTime, Unix seconds / nanoseconds), whose behaviour depends on WHERE the instants
\* lie.  A frame names a landmark instant of that machinery and the ticks that are pinned to it in turn; the other ticks
\* lie one unit apart on either side of the pinned one, as far as the range allows.  The harness holds the table
\* landmark -> real instant and must realize every frame (it reports one counter per frame; the driver checks them).
\*   pins     the ticks that are put on the landmark, one materialization each
\*   boundMin the lowest tick a BOUND may use in this frame (a configuration cannot name instants before ConfFirst,
\*            a certificate can carry them: in frame First tick 0 is an instant only, never a bound)
Frame(at, pins, boundMin, why) == [at |-> at, pins |-> pins, boundMin |-> boundMin, why |-> why]
Frames == <<
  Frame("Mid",       T,      0, "an ordinary instant (2031)"),
  Frame("First",     {0},    1, "0000-01-01T00:00:00Z, the earliest GeneralizedTime; the other ticks start at ConfFirst"),
  Frame("ConfFirst", {0},    0, "0001-01-01T00:00:00Z, the earliest protobuf Timestamp and the zero time.Time"),
  Frame("UTCFirst",  T,      0, "1950-01-01T00:00:00Z, the first instant encoded as UTCTime"),
  Frame("Epoch",     T,      0, "1970-01-01T00:00:00Z, Unix time 0"),
  Frame("Int32Last", T,      0, "2038-01-19T03:14:07Z, the last 32-bit Unix second"),
  Frame("GenFirst",  T,      0, "2050-01-01T00:00:00Z, the first instant after the UTCTime years"),
  Frame("NanoLast",  T,      0, "2262-04-11T23:47:16Z, the last whole second with a 64-bit nanosecond Unix time"),
  Frame("Last",      T,      0, "9999-12-31T23:59:59Z, the last instant a certificate can carry (RFC 5280: no expiry); ticks above the pinned one are sub-second bounds, pin MaxT puts every other tick below")
>>
\* the extremes of the representable range are materializations of the extreme ranks (CompletionGapIsTheLastInstant:
\* the only place where a completed absent bound shows is t = MaxT on Last; symmetrically tick 0 on First / ConfFirst)
ASSUME \A i \in 1..Len(Frames) : LET f == Frames[i] IN
         /\ f.pins # {} /\ f.pins \subseteq T /\ f.boundMin \in 0..1
         /\ (f.at = "Last" => MaxT \in f.pins)
         /\ (f.at \in {"First", "ConfFirst"} => f.pins = {0})
ASSUME \A i \in 1..Len(Frames) :
         PrintT(<<"FRAME", ToJson([at |-> Frames[i].at, pins |-> Frames[i].pins, boundMin |-> Frames[i].boundMin,
                                   top |-> MaxT])>>)

Laws == /\ ConstructorIsWellFormed(c)
        /\ ConstructorAccepts(c) => /\ IndexIsWindow(c, T)
                                    /\ ExactlyOneShard(c, T)
                                    /\ RoutingIsAdmission(c, T)
                                    /\ NoneOutside(c, T)
                                    /\ RoutingIsConfiguredAdmission(c, T)

\* vacuity guards: the domain contains accepted lists of every length and refused lists of every kind
B(b) == IF b.p THEN b.v ELSE -1
OverT(f(_)) == [k \in 1..(MaxT + 1) |-> f(k - 1)]
Expressible(iv) == iv.lower.p = iv.upper.p      \* a log-list entry has both ends or no interval at all
AsEntry(iv) == IF iv.lower.p THEN Span(iv.lower.v, iv.upper.v) ELSE Absent
\* refused lists of length > 1 carry no further verdicts (the constructor must refuse them, nothing else is observable)
Brief == [S |-> [i \in 1..Len(c) |-> <<B(c[i].lower), B(c[i].upper)>>], ok |-> FALSE]
Full == LET idx(t) == ShardIndex(t, c)
        IN [S   |-> [i \in 1..Len(c) |-> <<B(c[i].lower), B(c[i].upper)>>],
            ok  |-> ConstructorAccepts(c),
            idx |-> OverT(idx),
            srv |-> [i \in 1..Len(c) |-> LET a(t) == ServerAdmits(t, c[i].lower, c[i].upper) IN OverT(a)],
            cfg |-> [i \in 1..Len(c) |-> ConfigAccepts(c[i].lower, c[i].upper)],
            ins |-> [i \in 1..Len(c) |-> IF ConfigAccepts(c[i].lower, c[i].upper)
                                            THEN LET a(t) == ConfiguredAdmits(t, c[i].lower, c[i].upper) IN OverT(a)
                                            ELSE <<>>],
            pick |-> [i \in 1..Len(c) |-> ChooserMustBeInside(c[i].lower, c[i].upper)],
            lst |-> [i \in 1..Len(c) |-> IF Expressible(c[i])
                                            THEN LET l(t) == ListCompatible(t, AsEntry(c[i])) IN OverT(l)
                                            ELSE <<>>]]
Case == IF ConstructorAccepts(c) \/ Len(c) = 1 THEN Full ELSE Brief
Export == PrintT(<<"CASE", ToJson(Case)>>)
=============================================================================
