----------------------------- MODULE MCTemporal -----------------------------
(* Exhaustive case analysis of Temporal: every shard list of length <= MaxLen over instants 0..MaxT with present or  *)
(* absent bounds is one state.  The laws are invariants; every case is exported (CASE) with the verdict of each      *)
(* component operator so that the harness can replay it into the three real components.                              *)
EXTENDS Temporal, TemporalFrames, Integers, Json, TLC

CONSTANTS MaxLen    \* MaxT, T == 0..MaxT and the frames: TemporalFrames

Lists == UNION {[1..n -> Intervals(T)] : n \in 0..MaxLen}

VARIABLE c
Init == c \in Lists
Next == UNCHANGED c

\* laws that do not depend on a list: evaluated once
ASSUME ServerIsWindow(T)
ASSUME ListIsWindow(T)
ASSUME ConfiguredIsWindow(T)
ASSUME AbsentBoundExcludesNothing(T)
\* the ticks ARE the representable range in rank form: 0 is its first instant, MaxT its last
ASSUME CompletionGapIsTheLastInstant(T, 0, MaxT)
\* the refuted observation, kept refuted: completing absent bounds is not the window (witness: t = MaxT, no limit) ...
ASSUME ~(\A t \in T, s \in Bounds(T), l \in Bounds(T) : CompletedAdmits(t, s, l, 0, MaxT) = InWindow(t, s, l))
\* ... and a shard client that completes its intervals loses the last instant of an open-ended list
ASSUME CompletedShardIndex(MaxT, <<Iv(NoBound, At(1)), Iv(At(1), NoBound)>>, 0, MaxT) = NoShard
       /\ ShardIndex(MaxT, <<Iv(NoBound, At(1)), Iv(At(1), NoBound)>>) = 2

Laws == /\ ConstructorIsWellFormed(c)
        /\ ConstructorAccepts(c) => /\ IndexIsWindow(c, T)
                                    /\ ExactlyOneShard(c, T)
                                    /\ RoutingIsAdmission(c, T)
                                    /\ NoneOutside(c, T)
                                    /\ RoutingIsConfiguredAdmission(c, T)

\* vacuity guards: the domain contains accepted lists of every length and refused lists of every kind
B(b) == IF b.p THEN b.v ELSE -1
OverT(f(_)) == [k \in 1..(MaxT + 1) |-> f(k - 1)]
Expressible(iv) == iv.lower.p = iv.upper.p      \* a log-list entry has both ends or no interval at all
AsEntry(iv) == IF iv.lower.p THEN Span(iv.lower.v, iv.upper.v) ELSE Absent
\* refused lists of length > 1 carry no further verdicts (the constructor must refuse them, nothing else is observable)
Brief == [S |-> [i \in 1..Len(c) |-> <<B(c[i].lower), B(c[i].upper)>>], ok |-> FALSE]
Full == LET idx(t) == ShardIndex(t, c)
        IN [S   |-> [i \in 1..Len(c) |-> <<B(c[i].lower), B(c[i].upper)>>],
            ok  |-> ConstructorAccepts(c),
            idx |-> OverT(idx),
            srv |-> [i \in 1..Len(c) |-> LET a(t) == ServerAdmits(t, c[i].lower, c[i].upper) IN OverT(a)],
            cfg |-> [i \in 1..Len(c) |-> ConfigAccepts(c[i].lower, c[i].upper)],
            ins |-> [i \in 1..Len(c) |-> IF ConfigAccepts(c[i].lower, c[i].upper)
                                            THEN LET a(t) == ConfiguredAdmits(t, c[i].lower, c[i].upper) IN OverT(a)
                                            ELSE <<>>],
            pick |-> [i \in 1..Len(c) |-> ChooserMustBeInside(c[i].lower, c[i].upper)],
            lst |-> [i \in 1..Len(c) |-> IF Expressible(c[i])
                                            THEN LET l(t) == ListCompatible(t, AsEntry(c[i])) IN OverT(l)
                                            ELSE <<>>]]
Case == IF ConstructorAccepts(c) \/ Len(c) = 1 THEN Full ELSE Brief
Export == PrintT(<<"CASE", ToJson(Case)>>)
=============================================================================
