CONSTANTS
  MaxIdx = 10
  FaultKinds = {"short", "emptyPage", "fetchErr", "quota", "fatal", "rootErr", "sthErr", "consErr", "cancel", "revoke"}
  KeepHist = FALSE
INIT TraceInit
NEXT TraceNext
VIEW TraceView
CONSTRAINT HighWater
INVARIANTS Gate Mirror Bounded NoConflict QuotaRetried Complete NoGap NoRepeat VerbatimBad PrefixOK
PROPERTIES
POSTCONDITION TraceAccepted
CHECK_DEADLOCK FALSE
