\* refutation: a migrator that takes an explicit end_index for the end of the tree (Hi <- HiUnclamped) MUST violate Bounded on this instance - the range / ahead dimension distinguishes the two (expected: Invariant Bounded is violated)
CONSTANTS
  MaxIdx = 5
  FaultKinds = {"short"}
  KeepHist = FALSE
  SrcSizes = {3}
  Growths = {0, 1}
  Batches = {2}
  FetcherCounts = {1}
  SubmitterCounts = {1}
  Modes = {"run"}
  Conts = {TRUE, FALSE}
  Forks = {FALSE}
  Starts = {0, 3}
  TreeStart = TRUE
  Ends = {0, 2, 3, 5}
  Aheads = {0, 1}
  Lags = {0}
  MaxFaults = 0
  FaultBudgets = {0}
  MaxRestarts = 0
  Hi <- HiUnclamped
INIT MCInit
NEXT Next
INVARIANTS Bounded
CHECK_DEADLOCK FALSE
