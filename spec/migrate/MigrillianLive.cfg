\* liveness under weak fairness: finite faults, honest source => the migration completes
CONSTANTS
  MaxIdx = 3
  FaultKinds = {"short", "emptyPage", "fetchErr", "quota", "fatal", "rootErr", "sthErr", "consErr", "cancel", "revoke"}
  KeepHist = FALSE
  SrcSizes = {2}
  Growths = {0, 1}
  Batches = {1, 2}
  FetcherCounts = {1, 2}
  SubmitterCounts = {1, 2}
  Modes = {"run", "master"}
  Conts = {TRUE, FALSE}
  Forks = {FALSE}
  Starts = {0}
  TreeStart = TRUE
  Ends = {0}
  Aheads = {0}
  Lags = {0}
  MaxFaults = 2
  FaultBudgets = {2}
  MaxRestarts = 1
SPECIFICATION MCLive
INVARIANTS TypeOK
PROPERTIES Progress
CHECK_DEADLOCK FALSE
