\* quick tier: the configured range.  start_index (-1 = destination tree size, 0, inside, equal to, beyond the STH) x end_index (0 = none, inside, equal to, beyond the STH) x one-shot / continuous x a source that serves 1 entry more than its STH covers, destination empty/partial/full, 1..2 submitters, 1 fault
CONSTANTS
  MaxIdx = 5
  FaultKinds = {"short", "emptyPage", "fetchErr", "fatal", "cancel"}
  KeepHist = FALSE
  SrcSizes = {3}
  Growths = {0}
  Batches = {2}
  FetcherCounts = {2}
  SubmitterCounts = {1, 2}
  Modes = {"run"}
  Conts = {TRUE, FALSE}
  Forks = {FALSE}
  Starts = {0, 1, 3, 5}
  TreeStart = TRUE
  Ends = {0, 2, 3, 5}
  Aheads = {1}
  Lags = {0}
  MaxFaults = 1
  FaultBudgets = {1}
  MaxRestarts = 1
INIT MCInit
NEXT Next
INVARIANTS TypeOK Mirror Bounded Gate NoConflict QuotaRetried Complete PosCovered NoRepeat VerbatimBad PrefixOK
PROPERTIES GateAct QuotaAct
CHECK_DEADLOCK FALSE
