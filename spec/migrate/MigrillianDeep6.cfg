\* thorough tier: source 4+2, most concurrent shape x 2 faults
CONSTANTS
  MaxIdx = 6
  FaultKinds = {"short", "emptyPage", "fetchErr", "quota", "fatal", "rootErr", "sthErr", "consErr", "cancel", "revoke"}
  KeepHist = FALSE
  SrcSizes = {4}
  Growths = {2}
  Batches = {2}
  FetcherCounts = {2}
  SubmitterCounts = {2}
  Modes = {"run", "master"}
  Conts = {TRUE, FALSE}
  Forks = {FALSE}
  Starts = {0}
  TreeStart = TRUE
  Ends = {0}
  Aheads = {0}
  Lags = {0}
  MaxFaults = 2
  FaultBudgets = {2}
  MaxRestarts = 1
INIT MCInit
NEXT Next
INVARIANTS TypeOK Mirror Bounded Gate NoConflict QuotaRetried Complete PosCovered NoRepeat VerbatimBad PrefixOK
PROPERTIES GateAct QuotaAct
CHECK_DEADLOCK FALSE
