\* thorough tier: as MigrillianWide with and without growth
CONSTANTS
  MaxIdx = 4
  FaultKinds = {"short", "emptyPage", "fetchErr", "quota", "fatal", "rootErr", "sthErr", "consErr", "cancel", "revoke"}
  KeepHist = FALSE
  SrcSizes = {3}
  Growths = {0, 1}
  Batches = {1, 2}
  FetcherCounts = {1, 2}
  SubmitterCounts = {1, 2}
  Modes = {"run", "master"}
  Conts = {TRUE, FALSE}
  Forks = {TRUE, FALSE}
  Starts = {0}
  TreeStart = TRUE
  Ends = {0}
  Aheads = {0}
  Lags = {0}
  MaxFaults = 1
  FaultBudgets = {1}
  MaxRestarts = 1
INIT MCInit
NEXT Next
INVARIANTS TypeOK Mirror Bounded Gate NoConflict QuotaRetried Complete PosCovered NoRepeat VerbatimBad PrefixOK
PROPERTIES GateAct QuotaAct
CHECK_DEADLOCK FALSE
