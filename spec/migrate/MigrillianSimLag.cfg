\* simulation: continuous runs over a growing source (up to three rounds) against a signer that sleeps through the first 1..4 root requests (cfg.lag), on every destination shape, with benign faults, lost mastership and restarts, exported as fault schedules (KeepHist)
CONSTANTS
  MaxIdx = 6
  FaultKinds = {"short", "fetchErr", "quota", "fatal", "cancel", "revoke"}
  KeepHist = TRUE
  SrcSizes = {1, 2, 3}
  Growths = {1, 2, 3}
  Batches = {1, 2, 3}
  FetcherCounts = {1, 2}
  SubmitterCounts = {1, 2}
  Modes = {"run", "master"}
  Conts = {TRUE}
  Forks = {FALSE}
  Starts = {0}
  TreeStart = FALSE
  Ends = {0}
  Aheads = {0}
  Lags = {1, 2, 3, 4}
  MaxFaults = 2
  FaultBudgets = {0, 1, 2}
  MaxRestarts = 1
INIT SimInit
NEXT SimLagNext
INVARIANTS Export Mirror Bounded Gate NoConflict QuotaRetried Complete PosCovered NoRepeat VerbatimBad
CHECK_DEADLOCK FALSE
