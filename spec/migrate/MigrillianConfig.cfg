\* configuration sets of migrillian: every single member, sets of 2..3 sane members, one arbitrary member next to a sane one
CONSTANTS
  Uris = {"", "a", "b"}
  Backends = {"", "x", "y"}
  LogIds <- MCLogIds
  BatchSizes <- MCBatchSizes
  IdFns = {0, 1, 2, 7}
  SetIds = {1, 2, 3}
  MaxSet = 3
INIT Init
NEXT Next
INVARIANTS NoConflict OneTree Sane Usable Export
CHECK_DEADLOCK FALSE
