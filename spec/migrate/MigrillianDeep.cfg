\* quick tier: 2 faults on the most concurrent shape (batch 2, 2 fetchers, 2 submitters), honest source (pairs with an empty page: MigrillianPages.cfg; all kinds together: MigrillianDeep2/Deep6.cfg)
CONSTANTS
  MaxIdx = 4
  FaultKinds = {"short", "fetchErr", "quota", "fatal", "rootErr", "sthErr", "consErr", "cancel", "revoke"}
  KeepHist = FALSE
  SrcSizes = {3}
  Growths = {1}
  Batches = {2}
  FetcherCounts = {2}
  SubmitterCounts = {2}
  Modes = {"run", "master"}
  Conts = {TRUE, FALSE}
  Forks = {FALSE}
  Starts = {0}
  TreeStart = TRUE
  Ends = {0}
  Aheads = {0}
  Lags = {0}
  MaxFaults = 2
  FaultBudgets = {2}
  MaxRestarts = 1
INIT MCInit
NEXT Next
INVARIANTS TypeOK Mirror Bounded Gate NoConflict QuotaRetried Complete PosCovered NoRepeat VerbatimBad PrefixOK
PROPERTIES GateAct QuotaAct
CHECK_DEADLOCK FALSE
