\* quick tier: 2 faults on the most concurrent shape (batch 2, 2 fetchers, 2 submitters), honest source
CONSTANTS
  MaxIdx = 4
  FaultKinds = {"short", "emptyPage", "fetchErr", "quota", "fatal", "rootErr", "sthErr", "consErr", "cancel", "revoke"}
  KeepHist = FALSE
  SrcSizes = {3}
  Growths = {1}
  Batches = {2}
  FetcherCounts = {2}
  SubmitterCounts = {2}
  Modes = {"run", "master"}
  Conts = {TRUE, FALSE}
  Forks = {FALSE}
  MaxFaults = 2
  FaultBudgets = {2}
  MaxRestarts = 1
INIT MCInit
NEXT Next
INVARIANTS TypeOK Mirror Bounded Gate NoConflict QuotaRetried Complete PosCovered VerbatimBad PrefixOK
PROPERTIES GateAct QuotaAct
CHECK_DEADLOCK FALSE
