------------------------------ MODULE Migrillian ------------------------------
(***************************************************************************)
(* Migration of a CT log into a pre-ordered Trillian tree                   *)
(* (trillian/migrillian/core: Controller.Run / RunWhenMaster, fetchTail,    *)
(* verifyConsistency, runSubmitter, PreorderedLogClient.addSequencedLeaves, *)
(* with scanner.Fetcher embedded as range generator + workers).             *)
(*                                                                         *)
(* Written from property C20.  The source log is a sequence of entries      *)
(* 0..srcSize-1 that only grows.  Entry i of the history the source serves  *)
(* is the token Tok(i); a misbehaving ("forked") source serves a history    *)
(* that shares only its first cfg.forkAt entries with the honest history    *)
(* the destination was filled from earlier.  The destination is a map       *)
(* index -> leaf; destSize is the integrated contiguous prefix, which is    *)
(* what its signed root commits to.  Merkle roots are not modelled: a       *)
(* consistency proof from the destination root (size n, honest history) to  *)
(* an STH of the served history exists iff the two histories agree on the   *)
(* first n entries (collision resistance; the harness re-attaches real      *)
(* SHA-256 trees, signatures and proofs and has the reference verifier      *)
(* judge every proof served).                                              *)
(*                                                                         *)
(* One pass: start -GetRoot-> prepare -STH-> verify -Cons-> run -> passDone *)
(* In "run" the range generator hands out [gen, gen+batch) ranges up to the *)
(* verified STH, fetch workers turn ranges into batches (a log MAY return   *)
(* fewer entries than asked for: the rest of the range is asked again),     *)
(* submitters take batches and call AddSequenced.  A failed pass unwinds:   *)
(* calls already in flight may still land, nothing new is started.          *)
(*                                                                         *)
(* The extreme short read is the empty page: get-entries answered 200 with  *)
(* zero entries.  The property only says that it must not cause a gap.      *)
(* Named clause EmptyPageHandedOn (the migrator's definite behaviour): the  *)
(* worker hands the empty batch on like any other and asks for the same     *)
(* range again; named clause EmptyRequestRefused (the destination's, as     *)
(* Trillian's validateAddSequencedLeavesRequest): an AddSequenced request   *)
(* without leaves is answered InvalidArgument, which is fatal for the pass. *)
(* So an empty page makes the pass fail loudly; what it must never do is    *)
(* end the range (PosCovered, Complete).                                    *)
(*                                                                         *)
(* The configured range.  A one-shot migration may be given start_index    *)
(* (cfg.start: -1 = the destination's tree size, otherwise an index: 0,     *)
(* inside, equal to or beyond the STH) and end_index (cfg.end: 0 = none,    *)
(* otherwise inside, equal to or beyond the STH).  The property bounds what *)
(* any configuration may do: "nothing beyond the source tree size it        *)
(* verified" - so the range of a pass is [Lo, Hi) with Hi never larger than *)
(* the STH obtained, signature-checked and proven consistent in this pass,  *)
(* whatever end_index says (RangeWithinSTH).  Named clauses for what the    *)
(* property leaves open: ContIgnoresRange (continuous mode ignores both     *)
(* parameters, as the configuration's comment says: it always goes on from  *)
(* the destination's tree size to the STH), RangeIsTheJob (a one-shot run   *)
(* copies the configured range only: "no gaps" is demanded inside it).      *)
(* The source log is not obliged to serve only what its STH covers: its     *)
(* get-entries end-point serves Served = srcSize + cfg.ahead entries (a     *)
(* front end whose STH lags behind; growth during the pass does the same).  *)
(* A migrator that obeys RangeWithinSTH cannot see the difference; one that *)
(* takes end_index (or a batch boundary) for the end of the tree can: the   *)
(* instance with Hi <- HiUnclamped must violate Bounded (MCMigrillian).     *)
(*                                                                         *)
(* Signer lag.  A pre-ordered Trillian log only queues what AddSequenced    *)
(* brings; its signed root (destSize) advances when the signer integrates   *)
(* the queue - action Integrate, arbitrarily later than the submission:     *)
(* within the pass, rounds later, or not before the run is over.  The       *)
(* migrator must not take the root for its own position: "in continuous    *)
(* mode it carries on with newly published entries without gaps or repeats" *)
(* (C16) - round k+1 goes on from where round k ended (FirstIndex = the     *)
(* larger of root and pos), whatever the root says.  Invariant NoRepeat:    *)
(* within one run of the controller (ghost subm: the indices submitted with *)
(* an OK answer since Run last started: since pos was last reset) no index  *)
(* is submitted a second time; together with PosCovered: every index is     *)
(* submitted exactly once across the rounds of a run.  Named clause         *)
(* RunStartsFromRoot for what the property leaves open: a NEW run (after a  *)
(* failed pass, lost mastership, restart of the process) knows only the     *)
(* destination's root and may submit again what the signer has not          *)
(* integrated yet (the destination answers such leaves ALREADY_EXISTS); a   *)
(* batch answered ResourceExhausted was not submitted and comes again.      *)
(* cfg.lag names the signer's schedule for simulation and for the harness:  *)
(* the signer sleeps until the migrator has asked for the root more than    *)
(* cfg.lag times (SignerAwake); the exhaustive instances leave Integrate    *)
(* free, which covers every schedule.  The instance with                    *)
(* FirstIndex <- FirstIndexFromRoot (a migrator that believes the root)     *)
(* must violate NoRepeat: lag x growth between rounds is what tells them    *)
(* apart (MigrillianRewind.cfg).                                            *)
(***************************************************************************)
EXTENDS Naturals, Integers, Sequences, FiniteSets, TLC

CONSTANTS
  MaxIdx,       \* indices are 0..MaxIdx-1
  FaultKinds,   \* which faults the oracle may inject:
                \* "short" "emptyPage" "fetchErr" "quota" "fatal" "rootErr" "sthErr" "consErr" "cancel" "revoke"
  KeepHist      \* TRUE: record the environment's choices (hist, pass, calls) for replay; FALSE: finite state space

None == [k |-> "none"]
Idx == 0..(MaxIdx - 1)
Max(a, b) == IF a >= b THEN a ELSE b
Min(a, b) == IF a <= b THEN a ELSE b

VARIABLES
  cfg,        \* the scenario (constant along a behaviour): src0, growth, ahead, bad, destLen, destInt, batch, fetchers,
              \*   submitters, cont, start, end, forked, forkAt, mode ("run" | "master"), faults, restarts, lag
  srcSize,    \* current size of the source log
  dest,       \* [Idx -> leaf or None]
  destSize,   \* integrated prefix of the destination
  pc,         \* "start" "prepare" "verify" "run" "passDone" "unwind" "await" "returned"
  why,        \* reason of unwinding: "err" | "cancel" | "revoke"   ("" otherwise)
  result,     \* "" | "nil" | "error" | "canceled"
  pos,        \* Run's position: the size of the last STH fully transferred (continuous mode)
  root,       \* size of the destination root obtained in this pass
  sth,        \* size of the source STH obtained in this pass (-1: none)
  proved,     \* a valid consistency proof root -> sth was obtained in this pass
  gen,        \* range generator: next index to hand out
  out,        \* ranges [s, e] held by fetch workers
  bag,        \* fetched batches [s, n, u] waiting for a submitter (n = 0: an empty page handed on; u tells empty
              \*   batches of the same range apart: 0 for n > 0, the fault budget at the time of the empty page otherwise)
  hold,       \* batches held by submitters: [s, n, u, st], st = "try" (about to call) | "wait" (backing off)
  master, alive,
  faults,     \* remaining fault budget
  restarts,   \* remaining process restarts
  verified,   \* largest STH size that passed the gate (ghost, for Bounded)
  subm,       \* ghost, for NoRepeat: indices submitted with an OK answer in this run of the controller (since pos was reset)
  flags,      \* ghost: names of broken rules ("conflict", "quotaAbort", "ungated", ...)
  pass, calls,\* ghost: pass number and number of calls to the fakes in this pass (keys of the fault schedule)
  hist        \* ghost: what the environment did (for replay)

vars == <<cfg, srcSize, dest, destSize, pc, why, result, pos, root, sth, proved, gen, out, bag, hold,
          master, alive, faults, restarts, verified, subm, flags, pass, calls, hist>>
ctl == <<pc, why, result, pos, root, sth, proved, gen>>
pipe == <<out, bag, hold>>
envv == <<srcSize, destSize, master, alive>>

(* ---------- histories ---------- *)
Tok(i) == IF cfg.forked /\ i >= cfg.forkAt THEN <<"f", i>> ELSE <<"h", i>>
Leaf(tok, id) == [tok |-> tok, id |-> id]
SrcLeaf(i) == Leaf(Tok(i), "ok")          \* what must be stored under index i: the entry verbatim + the configured identity hash
OldLeaf(i) == Leaf(<<"h", i>>, "ok")      \* what the destination was filled with earlier
\* a proof from the destination's root of size n to an STH of the served history exists iff the destination's
\* first n leaves are the served history's first n entries
Consistent(n) == \A i \in 0..(n - 1) : dest[i] # None /\ dest[i].tok = Tok(i)
Contig == IF \A i \in Idx : dest[i] # None THEN MaxIdx ELSE CHOOSE n \in Idx : dest[n] = None /\ \A i \in 0..(n - 1) : dest[i] # None
Has(k) == k \in FaultKinds /\ faults > 0

Log(e) == hist' = IF KeepHist THEN Append(hist, e) ELSE hist
Call == calls' = IF KeepHist THEN calls + 1 ELSE calls
NewPass == pass' = (IF KeepHist THEN pass + 1 ELSE pass) /\ calls' = (IF KeepHist THEN 1 ELSE calls)
Terminal == flags' = flags \cup {"terminal"}     \* a fault after which completion is not promised

(* ---------- the destination: AddSequenced ---------- *)
\* leaves: a function from a set of indices to leaves.  Identical (index, content): no change;
\* different content under an occupied index: refused, and recorded.
Store(leaves) ==
  /\ dest' = [i \in Idx |-> IF i \in DOMAIN leaves /\ dest[i] = None THEN leaves[i] ELSE dest[i]]
  /\ flags' = flags \cup (IF \E i \in DOMAIN leaves \cap Idx : dest[i] # None /\ dest[i] # leaves[i] THEN {"conflict"} ELSE {})
                    \cup (IF root > 0 /\ ~proved THEN {"ungated"} ELSE {})
                    \cup (IF DOMAIN leaves \subseteq Idx THEN {} ELSE {"outOfRange"})
                    \cup (IF DOMAIN leaves \cap subm # {} THEN {"repeat"} ELSE {})
  /\ subm' = subm \cup DOMAIN leaves
BatchLeaves(s, n) == [i \in s..(s + n - 1) |-> SrcLeaf(i)]

(* ---------- controller ---------- *)
CanRun == alive /\ (cfg.mode = "master" => master)

Fail(w) == /\ pc' = "unwind" /\ why' = w
           /\ UNCHANGED <<result, pos, root, sth, proved, gen>>

GetRoot ==
  /\ pc = "start" /\ CanRun
  /\ NewPass
  /\ \/ /\ root' = destSize /\ sth' = -1 /\ proved' = FALSE /\ pc' = "prepare"
        /\ Log([ev |-> "GetRoot", pass |-> pass + 1, size |-> destSize, code |-> "OK"])
        /\ UNCHANGED <<why, result, pos, gen, faults, flags>>
     \/ /\ Has("rootErr") /\ faults' = faults - 1 /\ Terminal
        /\ pc' = "unwind" /\ why' = "err" /\ root' = 0 /\ sth' = -1 /\ proved' = FALSE
        /\ Log([ev |-> "GetRoot", pass |-> pass + 1, size |-> 0, code |-> "ERR"])
        /\ UNCHANGED <<result, pos, gen>>
  /\ UNCHANGED <<cfg, dest, pipe, envv, restarts, verified, subm>>

PrepareSTH ==
  /\ pc = "prepare" /\ Call
  /\ \/ /\ sth' = srcSize
        /\ pc' = IF srcSize <= pos THEN "passDone" ELSE "verify"     \* nothing new: the pass is over
        /\ Log([ev |-> "STH", pass |-> pass, size |-> srcSize, code |-> "OK"])
        /\ UNCHANGED <<why, result, pos, root, proved, gen, faults, flags>>
     \/ /\ Has("sthErr") /\ faults' = faults - 1 /\ Fail("err") /\ Terminal
        /\ Log([ev |-> "STH", pass |-> pass, size |-> 0, code |-> "ERR"])
  /\ UNCHANGED <<cfg, dest, pipe, envv, restarts, verified, subm, pass>>

FirstIndex == IF cfg.cont THEN Max(root, pos)                        \* ContIgnoresRange
              ELSE IF cfg.start < 0 THEN root ELSE Max(cfg.start, pos)
\* what a migrator would do that takes the destination's root for its position (refuted: violates NoRepeat once the
\* signer lags a round behind and the source has grown; used as `FirstIndex <- FirstIndexFromRoot` by MigrillianRewind.cfg)
FirstIndexFromRoot == IF cfg.cont THEN root
                      ELSE IF cfg.start < 0 THEN root ELSE Max(cfg.start, pos)
\* the end of the range of this pass: the STH, or an explicit end_index inside it - never beyond it (RangeWithinSTH)
Hi == IF cfg.cont \/ cfg.end = 0 THEN sth ELSE Min(cfg.end, sth)
\* what a migrator would do that believes an explicit end_index (refuted: violates Bounded once the source serves more
\* than its STH covers; used as `Hi <- HiUnclamped` by MigrillianNoClamp.cfg and by the defect step of trace validation)
HiUnclamped == IF cfg.cont \/ cfg.end = 0 THEN sth ELSE cfg.end
\* index i belongs to the job the configuration describes (RangeIsTheJob; below the destination's tree size - start -1 -
\* everything is there already)
InRange(i) == cfg.cont \/ (i >= cfg.start /\ (cfg.end = 0 \/ i < cfg.end))
\* what the source's get-entries end-point serves: at least what its STH covers
Served == srcSize + cfg.ahead

\* the gate: an empty destination root is consistent with everything; otherwise the source must prove it
Verify ==
  /\ pc = "verify"
  /\ IF root = 0
       THEN /\ pc' = "run" /\ gen' = FirstIndex /\ verified' = Max(verified, sth)
            /\ UNCHANGED <<why, result, pos, root, sth, proved, faults, calls, hist, flags>>
       ELSE /\ Call
            /\ \/ /\ Consistent(root)
                  /\ proved' = TRUE /\ pc' = "run" /\ gen' = FirstIndex /\ verified' = Max(verified, sth)
                  /\ Log([ev |-> "Cons", pass |-> pass, code |-> "OK", valid |-> TRUE])
                  /\ UNCHANGED <<why, result, pos, root, sth, faults, flags>>
               \/ /\ ~Consistent(root)                      \* whatever the source sends does not verify: refuse
                  /\ Fail("err") /\ UNCHANGED <<verified, faults>> /\ Terminal
                  /\ Log([ev |-> "Cons", pass |-> pass, code |-> "OK", valid |-> FALSE])
               \/ /\ Has("consErr") /\ faults' = faults - 1
                  /\ Fail("err") /\ UNCHANGED verified /\ Terminal
                  /\ Log([ev |-> "Cons", pass |-> pass, code |-> "ERR", valid |-> FALSE])
  /\ UNCHANGED <<cfg, dest, pipe, envv, restarts, pass, subm>>

(* ---------- fetcher: range generator and workers ---------- *)
AssignRange ==
  /\ pc = "run" /\ gen < Hi /\ Cardinality(out) < cfg.fetchers
  /\ LET e == Min(gen + cfg.batch, Hi) - 1 IN
       /\ out' = out \cup {[s |-> gen, e |-> e]}
       /\ gen' = e + 1
  /\ UNCHANGED <<cfg, dest, bag, hold, envv, faults, restarts, verified, subm, flags, pass, calls, hist,
                 pc, why, result, pos, root, sth, proved>>

Fetch(r) ==
  /\ pc = "run" /\ r \in out /\ Call
  /\ LET asked == r.e - r.s + 1
         avail == Min(asked, Served - r.s)      \* a log returns at most what it has (never fewer for a range within its STH)
     IN
     \/ \E k \in 1..avail :
          /\ (k < avail) => Has("short")
          /\ faults' = IF k < avail THEN faults - 1 ELSE faults
          /\ bag' = bag \cup {[s |-> r.s, n |-> k, u |-> 0]}
          /\ out' = (out \ {r}) \cup (IF k < asked THEN {[s |-> r.s + k, e |-> r.e]} ELSE {})
          /\ Log([ev |-> "Fetch", pass |-> pass, start |-> r.s, end |-> r.e, n |-> k, code |-> "OK"])
     \/ /\ Has("emptyPage") /\ faults' = faults - 1           \* 200 with zero entries: the batch is handed on all the
        /\ bag' = bag \cup {[s |-> r.s, n |-> 0, u |-> faults]}  \* same (EmptyPageHandedOn); the range stays: asked again
        /\ UNCHANGED out
        /\ Log([ev |-> "Fetch", pass |-> pass, start |-> r.s, end |-> r.e, n |-> 0, code |-> "OK"])
     \/ /\ Has("fetchErr") /\ faults' = faults - 1            \* the worker asks again
        /\ UNCHANGED <<out, bag>>
        /\ Log([ev |-> "Fetch", pass |-> pass, start |-> r.s, end |-> r.e, n |-> 0, code |-> "ERR"])
     \/ /\ avail <= 0 /\ UNCHANGED <<out, bag, faults>>       \* no such entry (400): not a fault of the source; the worker
        /\ Log([ev |-> "Fetch", pass |-> pass, start |-> r.s, end |-> r.e, n |-> 0, code |-> "ERR"])   \* asks again
  /\ UNCHANGED <<cfg, dest, hold, envv, restarts, verified, subm, flags, pass, ctl>>

(* ---------- submitters ---------- *)
Take(b) ==
  /\ pc = "run" /\ b \in bag /\ Cardinality(hold) < cfg.submitters
  /\ bag' = bag \ {b}
  /\ hold' = hold \cup {[s |-> b.s, n |-> b.n, u |-> b.u, st |-> "try"]}
  /\ UNCHANGED <<cfg, dest, out, envv, faults, restarts, verified, subm, flags, pass, calls, hist, ctl>>

\* leaves: what the request carries (BatchLeaves(h.s, h.n) for the migrator this specification describes;
\* trace validation passes what the real request carried); o: the backend's answer.
\* A fatal answer dooms the pass (why = "err"), but the submitter only then cancels the others: until
\* DoFail everything else goes on.
SubmitL(h, leaves, o) ==
  /\ pc = "run" /\ h \in hold /\ h.st = "try" /\ Call
  /\ CASE o = "ok" ->
             /\ DOMAIN leaves # {}
             /\ Store(leaves)
             /\ hold' = hold \ {h}
             /\ Log([ev |-> "Add", pass |-> pass, start |-> h.s, n |-> h.n, code |-> "OK"])
             /\ UNCHANGED <<faults, ctl>>
       [] o = "quota" ->
             /\ Has("quota") /\ faults' = faults - 1          \* ResourceExhausted: back off, then the same batch again
             /\ hold' = (hold \ {h}) \cup {[h EXCEPT !.st = "wait"]}
             /\ Log([ev |-> "Add", pass |-> pass, start |-> h.s, n |-> h.n, code |-> "ResourceExhausted"])
             /\ UNCHANGED <<dest, flags, ctl, subm>>
       [] o = "refused" ->                                    \* EmptyRequestRefused: no leaves, InvalidArgument; not a
             /\ DOMAIN leaves = {}                             \* fault of the environment, but fatal for the pass
             /\ hold' = hold \ {h}
             /\ why' = "err" /\ Terminal
             /\ Log([ev |-> "Add", pass |-> pass, start |-> h.s, n |-> 0, code |-> "InvalidArgument"])
             /\ UNCHANGED <<dest, faults, pc, result, pos, root, sth, proved, gen, subm>>
       [] OTHER ->
             /\ Has("fatal") /\ faults' = faults - 1          \* any other code: the pass fails
             /\ hold' = hold \ {h}
             /\ why' = "err" /\ Terminal
             /\ Log([ev |-> "Add", pass |-> pass, start |-> h.s, n |-> h.n, code |-> "Internal"])
             /\ UNCHANGED <<dest, pc, result, pos, root, sth, proved, gen, subm>>
  /\ UNCHANGED <<cfg, out, bag, envv, restarts, verified, pass>>

\* the failed submitter cancels the pass
DoFail ==
  /\ pc = "run" /\ why = "err"
  /\ pc' = "unwind"
  /\ UNCHANGED <<cfg, dest, pipe, envv, faults, restarts, verified, subm, flags, pass, calls, hist, why, result, pos, root, sth, proved, gen>>

Submit(h) == IF h.n = 0 THEN SubmitL(h, BatchLeaves(h.s, 0), "refused")
             ELSE \E o \in {"ok", "quota", "fatal"} : SubmitL(h, BatchLeaves(h.s, h.n), o)

Wake(h) ==
  /\ pc = "run" /\ h \in hold /\ h.st = "wait"
  /\ hold' = (hold \ {h}) \cup {[h EXCEPT !.st = "try"]}
  /\ UNCHANGED <<cfg, dest, out, bag, envv, faults, restarts, verified, subm, flags, pass, calls, hist, ctl>>

PassDone ==
  /\ pc = "run" /\ why = "" /\ gen >= Hi /\ out = {} /\ bag = {} /\ hold = {}
  /\ pc' = "passDone" /\ pos' = sth
  /\ UNCHANGED <<cfg, dest, pipe, envv, faults, restarts, verified, subm, flags, pass, calls, hist, why, result, root, sth, proved, gen>>

Return(r) == /\ pc' = "returned" /\ result' = r /\ why' = ""
             /\ Log([ev |-> "Return", pass |-> pass, result |-> r])

NextPass ==
  /\ pc = "passDone"
  /\ \/ /\ cfg.cont /\ pc' = "start" /\ UNCHANGED <<why, result, hist>>
     \/ /\ ~cfg.cont /\ Return("nil")
     \/ /\ cfg.cont /\ cfg.stop /\ Return("nil")              \* StopAfter elapsed
  /\ UNCHANGED <<cfg, dest, pipe, envv, faults, restarts, verified, subm, flags, pass, calls, pos, root, sth, proved, gen>>

(* ---------- unwinding a failed / cancelled pass ---------- *)
StragglerSubmitL(h, leaves) ==
  /\ pc = "unwind" /\ h \in hold /\ h.st = "try" /\ DOMAIN leaves # {} /\ Call
  /\ Store(leaves)
  /\ hold' = hold \ {h}
  /\ Log([ev |-> "Add", pass |-> pass, start |-> h.s, n |-> h.n, code |-> "OK"])
  /\ UNCHANGED <<cfg, out, bag, envv, faults, restarts, verified, pass, ctl>>

\* an empty request that lands while the pass unwinds is refused as well
StragglerRefused(h) ==
  /\ pc = "unwind" /\ h \in hold /\ h.st = "try" /\ h.n = 0 /\ Call
  /\ hold' = hold \ {h}
  /\ Log([ev |-> "Add", pass |-> pass, start |-> h.s, n |-> 0, code |-> "InvalidArgument"])
  /\ UNCHANGED <<cfg, dest, out, bag, envv, faults, restarts, verified, subm, flags, pass, ctl>>

StragglerSubmit(h) == IF h.n = 0 THEN StragglerRefused(h) ELSE StragglerSubmitL(h, BatchLeaves(h.s, h.n))

StragglerFetch(r) ==
  /\ pc = "unwind" /\ r \in out /\ Call
  /\ out' = out \ {r}
  /\ Log([ev |-> "Fetch", pass |-> pass, start |-> r.s, end |-> r.e, n |-> r.e - r.s + 1, code |-> "OK"])
  /\ UNCHANGED <<cfg, dest, bag, hold, envv, faults, restarts, verified, subm, flags, pass, ctl>>

\* f: the ghost flags afterwards (trace validation settles its suspicions here)
EndUnwindF(f) ==
  /\ pc = "unwind" /\ flags' = f
  /\ out' = {} /\ bag' = {} /\ hold' = {}
  /\ CASE why = "cancel" -> (Return("canceled") /\ UNCHANGED <<pos, subm>>)
       [] why = "revoke" -> (pc' = "await" /\ why' = "" /\ UNCHANGED <<result, pos, hist, subm>>)
       [] OTHER -> IF cfg.mode = "master" /\ cfg.cont
                     THEN pc' = "start" /\ why' = "" /\ pos' = 0 /\ subm' = {} /\ UNCHANGED <<result, hist>>   \* runWithRestarts: a new run
                     ELSE Return("error") /\ UNCHANGED <<pos, subm>>
  /\ UNCHANGED <<cfg, dest, envv, faults, restarts, verified, pass, calls, root, sth, proved, gen>>
EndUnwind == EndUnwindF(flags)

AwaitDone ==
  /\ pc = "await" /\ master /\ alive
  /\ pc' = "start" /\ pos' = 0 /\ subm' = {}              \* a new run
  /\ UNCHANGED <<cfg, dest, pipe, envv, faults, restarts, verified, flags, pass, calls, hist, why, result, root, sth, proved, gen>>

(* ---------- environment ---------- *)
\* the signer's schedule named by cfg.lag: asleep until the migrator has asked for the root more than cfg.lag times (or
\* has returned).  Integrate itself is not bound by it - the exhaustive instances cover every schedule -; the simulation
\* instances (pass is counted there) and the harness's signer are.
SignerAwake == pass > cfg.lag \/ pc = "returned"

Integrate ==
  /\ destSize < Contig
  /\ destSize' = destSize + 1
  /\ UNCHANGED <<cfg, srcSize, dest, pipe, master, alive, faults, restarts, verified, subm, flags, pass, calls, hist, ctl>>

Grow ==
  /\ srcSize < cfg.src0 + cfg.growth /\ pc # "returned"
  /\ srcSize' = srcSize + 1
  /\ Log([ev |-> "Grow", pass |-> pass, calls |-> calls, size |-> srcSize + 1])
  /\ UNCHANGED <<cfg, dest, destSize, pipe, master, alive, faults, restarts, verified, subm, flags, pass, calls, ctl>>

Cancel ==
  /\ Has("cancel") /\ alive /\ pc # "returned"
  /\ faults' = faults - 1 /\ alive' = FALSE
  /\ pc' = "unwind" /\ why' = "cancel"
  /\ Log([ev |-> "Cancel", pass |-> pass, calls |-> calls]) /\ Terminal
  /\ UNCHANGED <<cfg, srcSize, dest, destSize, pipe, master, restarts, verified, subm, pass, calls, result, pos, root, sth, proved, gen>>

Revoke ==
  /\ Has("revoke") /\ cfg.mode = "master" /\ master /\ alive /\ pc \notin {"returned", "await"}
  /\ faults' = faults - 1 /\ master' = FALSE
  /\ pc' = "unwind" /\ why' = "revoke"
  /\ Log([ev |-> "Revoke", pass |-> pass, calls |-> calls])
  /\ UNCHANGED <<cfg, srcSize, dest, destSize, pipe, alive, restarts, verified, subm, flags, pass, calls, result, pos, root, sth, proved, gen>>

Regain ==
  /\ ~master /\ master' = TRUE
  /\ UNCHANGED <<cfg, srcSize, dest, destSize, pipe, alive, faults, restarts, verified, subm, flags, pass, calls, hist, ctl>>

\* the process is started again on the same destination (operator / supervisor)
Restart ==
  /\ pc = "returned" /\ result # "nil" /\ restarts > 0
  /\ restarts' = restarts - 1 /\ alive' = TRUE
  /\ pc' = "start" /\ pos' = 0 /\ subm' = {} /\ result' = "" /\ why' = ""
  /\ flags' = flags \ {"terminal"}
  /\ Log([ev |-> "Restart", pass |-> pass])
  /\ UNCHANGED <<cfg, srcSize, dest, destSize, pipe, master, faults, verified, pass, calls, root, sth, proved, gen>>

(* ---------- initial states ---------- *)
InitWith(c) ==
  /\ cfg = c
  /\ srcSize = c.src0
  /\ dest = [i \in Idx |-> IF i < c.destLen THEN Leaf(<<"h", i>>, "ok") ELSE None]
  /\ destSize = c.destInt
  /\ pc = "start" /\ why = "" /\ result = "" /\ pos = 0 /\ root = 0 /\ sth = -1 /\ proved = FALSE /\ gen = 0
  /\ out = {} /\ bag = {} /\ hold = {}
  /\ master = TRUE /\ alive = TRUE
  /\ faults = c.faults /\ restarts = c.restarts
  /\ verified = c.destLen /\ subm = {}
  /\ flags = {}
  /\ pass = 0 /\ calls = 0 /\ hist = <<>>

Controller == GetRoot \/ PrepareSTH \/ Verify \/ AssignRange \/ PassDone \/ NextPass \/ DoFail \/ EndUnwind \/ AwaitDone
Workers == (\E r \in out : Fetch(r) \/ StragglerFetch(r))
Submitters == (\E b \in bag : Take(b)) \/ (\E h \in hold : Submit(h) \/ Wake(h) \/ StragglerSubmit(h))
Env == Integrate \/ Grow \/ Cancel \/ Revoke \/ Regain \/ Restart
Next == Controller \/ Workers \/ Submitters \/ Env

(* ---------- the property (C20) ---------- *)
\* every index holds exactly the source's entry for that index, stored under that index with the configured
\* identity hash (or what the destination held before the migration started)
Mirror == \A i \in Idx : dest[i] # None => (dest[i] = SrcLeaf(i) \/ (i < cfg.destLen /\ dest[i] = OldLeaf(i)))
\* nothing beyond the source tree size it verified
Bounded == \A i \in Idx : dest[i] # None => i < verified
\* it moves past a non-empty destination root only with a proof of consistency obtained in this pass
Gate == "ungated" \notin flags
GateAct == [][dest' # dest => (root = 0 \/ proved)]_vars
\* no conflicting duplicates
NoConflict == "conflict" \notin flags /\ "outOfRange" \notin flags
\* a quota reply never ends the pass: the batch is retried (after a back-off) unless something else ended the pass
QuotaRetried == "quotaAbort" \notin flags
QuotaAct == [][\A h \in hold : h.st = "wait" =>
                  \/ \E g \in hold' : g.s = h.s /\ g.n = h.n           \* still held: waiting or trying again
                  \/ pc = "unwind"]_vars                                \* or the pass ended for another reason (EndUnwind)
\* a completed one-shot migration has no gaps: every index of the configured range below the verified STH is there,
\* unparsable ones included
Complete == (result = "nil" /\ ~cfg.cont) => \A i \in 0..(sth - 1) : InRange(i) => dest[i] # None
VerbatimBad == (result = "nil" /\ ~cfg.cont) => \A i \in cfg.bad : (i < sth /\ InRange(i)) => dest[i] \in {SrcLeaf(i), OldLeaf(i)}
\* a pass that reports success leaves no gap (one-shot and continuous alike): the position Run carries into the next
\* pass - from which it will never look back - has everything below it in the destination.  Short reads, empty pages,
\* fetch errors and retries may delay a pass or fail it, they never end a range early.
PosCovered == \A i \in 0..(pos - 1) : InRange(i) => dest[i] # None
\* the integrated prefix never runs ahead of what is stored
PrefixOK == destSize <= Contig
\* no repeats (C16: "carries on with newly published entries without gaps or repeats", "exactly once"): within one run of
\* the controller no index is submitted a second time, however far the destination's root lags behind the submissions
\* (RunStartsFromRoot: a new run may).  With PosCovered: exactly once.
NoRepeat == "repeat" \notin flags

Safety == Mirror /\ Bounded /\ Gate /\ NoConflict /\ QuotaRetried /\ Complete /\ PosCovered /\ VerbatimBad /\ PrefixOK /\ NoRepeat

(* ---------- liveness ---------- *)
Fair == WF_vars(Controller) /\ WF_vars(Workers) /\ WF_vars(Submitters) /\ WF_vars(Integrate) /\ WF_vars(Regain)
Covered == destSize = srcSize /\ \A i \in 0..(srcSize - 1) : dest[i] # None
\* finite faults, honest source: the migration completes (one-shot: returns nil; continuous: catches up again and again)
Progress == []<>("terminal" \in flags \/ result = "nil" \/ (cfg.cont /\ Covered))
=============================================================================
