--------------------------- MODULE SimMigrillian ---------------------------
(* Simulation instance: behaviours of Migrillian that end, exported as fault schedules for replay. *)
EXTENDS MCMigrillian

(* --- simulation: behaviours that end, exported for replay into the real Controller --- *)
VARIABLE done
svars == <<vars, done>>
SimInit == MCInit /\ done = FALSE
\* continuous runs are ended by the operator once the destination has caught up (or, rarely, at any time)
SimCancel == Cancel /\ ((cfg.cont /\ Covered /\ pc \in {"passDone", "start"}) \/ RandomElement(1..25) = 1)
\* the signer keeps the schedule the scenario names (cfg.lag): whole rounds may pass before the root moves
SimStep == Controller \/ Workers \/ Submitters \/ (SignerAwake /\ Integrate) \/ Grow \/ Revoke \/ Regain \/ Restart \/ SimCancel
\* --- signer-lag simulation (MigrillianSimLag.cfg): continuous runs that last for several rounds.  The operator ends the run
\* only once the destination has caught up (which takes the signer, asleep for the first cfg.lag root requests) - not
\* counted as a fault -, rarely at any other time; the source grows mostly between the rounds, so that round after round
\* begins with new entries and a root that has not moved.
OperatorStop ==
  /\ cfg.cont /\ Covered /\ pc \in {"passDone", "start"} /\ alive /\ srcSize = cfg.src0 + cfg.growth
  /\ alive' = FALSE /\ pc' = "unwind" /\ why' = "cancel"
  /\ Log([ev |-> "Cancel", pass |-> pass, calls |-> calls]) /\ Terminal
  /\ UNCHANGED <<cfg, srcSize, dest, destSize, pipe, master, faults, restarts, verified, subm, pass, calls, result, pos, root, sth, proved, gen>>
GrowBetween == Grow /\ (pc \in {"start", "prepare", "passDone"} \/ RandomElement(1..4) = 1)
SimLagStep == Controller \/ Workers \/ Submitters \/ (SignerAwake /\ Integrate) \/ GrowBetween \/ Revoke \/ Regain \/ Restart
              \/ OperatorStop \/ (Cancel /\ RandomElement(1..80) = 1)
Finish == pc = "returned" /\ ~done /\ done' = TRUE /\ UNCHANGED vars
SimNext == (~done /\ SimStep /\ UNCHANGED done) \/ Finish
SimLagNext == (~done /\ SimLagStep /\ UNCHANGED done) \/ Finish
Export == done => PrintT(<<"BEH", ToJson([cfg |-> cfg, hist |-> hist, dest |-> {i \in Idx : dest[i] # None},
                                          destSize |-> destSize, srcSize |-> srcSize, result |-> result,
                                          terminal |-> ("terminal" \in flags), passes |-> pass])>>)
=============================================================================
