--------------------------- MODULE SimMigrillian ---------------------------
(* Simulation instance: behaviours of Migrillian that end, exported as fault schedules for replay. *)
EXTENDS MCMigrillian

(* --- simulation: behaviours that end, exported for replay into the real Controller --- *)
VARIABLE done
svars == <<vars, done>>
SimInit == MCInit /\ done = FALSE
\* continuous runs are ended by the operator once the destination has caught up (or, rarely, at any time)
SimCancel == Cancel /\ ((cfg.cont /\ Covered /\ pc \in {"passDone", "start"}) \/ RandomElement(1..25) = 1)
SimStep == Controller \/ Workers \/ Submitters \/ Integrate \/ Grow \/ Revoke \/ Regain \/ Restart \/ SimCancel
Finish == pc = "returned" /\ ~done /\ done' = TRUE /\ UNCHANGED vars
SimNext == (~done /\ SimStep /\ UNCHANGED done) \/ Finish
Export == done => PrintT(<<"BEH", ToJson([cfg |-> cfg, hist |-> hist, dest |-> {i \in Idx : dest[i] # None},
                                          destSize |-> destSize, srcSize |-> srcSize, result |-> result,
                                          terminal |-> ("terminal" \in flags), passes |-> pass])>>)
=============================================================================
