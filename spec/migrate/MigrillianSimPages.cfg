\* simulation: random behaviours whose faults are all about get-entries pages (short reads of every length, empty pages, fetch errors) and the restarts that follow a pass failed by an empty page, exported as fault schedules (KeepHist)
CONSTANTS
  MaxIdx = 6
  FaultKinds = {"short", "emptyPage", "fetchErr", "cancel"}
  KeepHist = TRUE
  SrcSizes = {2, 3, 4}
  Growths = {0, 1, 2}
  Batches = {1, 2, 3}
  FetcherCounts = {1, 2}
  SubmitterCounts = {1, 2}
  Modes = {"run", "master"}
  Conts = {TRUE, FALSE}
  Forks = {FALSE}
  Starts = {0}
  TreeStart = TRUE
  Ends = {0}
  Aheads = {0}
  Lags = {0, 2, 3}
  MaxFaults = 3
  FaultBudgets = {1, 2, 3}
  MaxRestarts = 1
INIT SimInit
NEXT SimNext
INVARIANTS Export Mirror Bounded Gate NoConflict QuotaRetried Complete PosCovered NoRepeat VerbatimBad
CHECK_DEADLOCK FALSE
