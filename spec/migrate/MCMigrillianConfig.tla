------------------------- MODULE MCMigrillianConfig -------------------------
(* One state per configuration set, the laws as invariants, every case exported as JSON (-workers 1). *)
EXTENDS MigrillianConfig, Json, TLC

ASSUME SetIds \subseteq {i \in LogIds : i > 0} /\ MaxSet >= 2 /\ "" \in Uris /\ "" \in Backends

\* cfg files take no negative numbers
MCLogIds == {-1, 0, 1, 2, 3}
MCLogIdsSmall == {0, 1, 2}
MCBatchSizes == {-1, 0, 1}

VARIABLE c
Init == c \in Cases
Next == UNCHANGED c

NoConflict == NoConflictingFeeds(c)
OneTree == OneTreeOneMigration(c)
Sane == SaneAccepted(c)
Usable == UsableAccepted(c)

SharedTree(s) == \E i, j \in Idx(s) : i # j /\ Tree(s[i]) = Tree(s[j])
Export ==
  PrintT(<<"CASE", ToJson([members |-> c, expect |-> Verdict(c), n |-> Len(c),
                           sharedtree |-> SharedTree(c),
                           sharedkeyb |-> \E i, j \in Idx(c) : i # j /\ KeyWithBackend(c[i]) = KeyWithBackend(c[j]),
                           conflict |-> \E i, j \in Idx(c) : i # j /\ Tree(c[i]) = Tree(c[j]) /\ c[i].uri # c[j].uri])>>)
=============================================================================
