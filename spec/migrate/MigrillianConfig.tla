-------------------------- MODULE MigrillianConfig --------------------------
(* C20, the configuration-SET dimension: what a migrillian process is allowed to start with.            *)
(*                                                                                                      *)
(* A MigrillianConfig is a sequence of migration configs; the process (trillian/migrillian/main.go)     *)
(* dials ONE Trillian backend (--backend) and starts one Controller per member, each feeding the        *)
(* PREORDERED_LOG tree named by its log_id from the source log named by its source_uri.  The deprecated *)
(* field log_backend_name is carried by the configuration but decides nothing (BackendNameIgnored).     *)
(*                                                                                                      *)
(* From the property ("the destination tree holds at every index exactly the source's leaf ... never    *)
(* cause gaps, reordering or conflicting duplicates", quantifier over configurations): a set that is    *)
(* accepted never has two members that feed the same destination tree from different sources            *)
(* (NoConflictingFeeds).  Where the property is silent and the validator's comment is definite          *)
(* ("Each migration config has a unique log ID"): named clause OneTreeOneMigration - two members that   *)
(* name the same tree are refused even when they name the same source.  Single-member rules as the      *)
(* validator documents them (SaneMember): source URI and public key present, log ID > 0, batch size > 0,*)
(* identity function one of the two defined ones.                                                       *)
EXTENDS Integers, Sequences, FiniteSets

CONSTANTS Uris,       \* source URIs; "" = missing
          Backends,   \* values of the deprecated log_backend_name; "" = unset
          LogIds,     \* destination tree IDs, including non-positive ones
          BatchSizes, \* including non-positive ones
          IdFns,      \* identity_function enum numbers: 0 = UNKNOWN, 1 = SHA256_CERT_DATA, 2 = SHA256_LEAF_INDEX, others undefined
          SetIds,     \* tree IDs used in the multi-member sets (all positive)
          MaxSet      \* largest set

Member == [uri : Uris, key : BOOLEAN, id : LogIds, batch : BatchSizes, idfn : IdFns, backend : Backends]

SaneMember(m) == /\ m.uri # ""
                 /\ m.key
                 /\ m.id > 0
                 /\ m.batch > 0
                 /\ m.idfn \in {1, 2}

\* the destination tree a member feeds: the tree ID on the one backend connection (BackendNameIgnored)
Tree(m) == m.id
\* what the validator takes for the identity of a destination; the refutation instance replaces it
Key(m) == Tree(m)
KeyWithBackend(m) == <<m.backend, m.id>>

Idx(c) == 1..Len(c)
AllSane(c) == \A i \in Idx(c) : SaneMember(c[i])
KeysDistinct(c) == \A i, j \in Idx(c) : i # j => Key(c[i]) # Key(c[j])

Accept(c) == AllSane(c) /\ KeysDistinct(c)
\* why a set is refused (the first reason in the order the members are read is the implementation's business;
\* only the class is named): "member" = some member is not sane, "duplicate" = all sane, two share a tree
Verdict(c) == IF Accept(c) THEN "accept" ELSE IF ~AllSane(c) THEN "member" ELSE "duplicate"

\* ---- the laws
Feeds(c, t) == {i \in Idx(c) : Tree(c[i]) = t}
Trees(c) == {Tree(c[i]) : i \in Idx(c)}
NoConflictingFeeds(c) == Accept(c) => \A i, j \in Idx(c) : (i # j /\ Tree(c[i]) = Tree(c[j])) => c[i].uri = c[j].uri
OneTreeOneMigration(c) == Accept(c) => \A t \in Trees(c) : Cardinality(Feeds(c, t)) = 1
SaneAccepted(c) == Accept(c) => AllSane(c)
\* refusal is not idle: a set of sane members feeding pairwise different trees is accepted whatever the backend names and sources
UsableAccepted(c) == (AllSane(c) /\ \A i, j \in Idx(c) : i # j => Tree(c[i]) # Tree(c[j])) => Accept(c)

\* ---- the case space
\* every single member (the small table of the single-config rules)
Singles == {<<m>> : m \in Member}
\* sets of sane members: equal / distinct tree x equal / distinct / unset backend name x equal / distinct source
SetMember == {m \in Member : m.uri # "" /\ m.key /\ m.id \in SetIds /\ m.batch = 1 /\ m.idfn = 1}
Sets == UNION {[1..n -> SetMember] : n \in 2..MaxSet}
\* one arbitrary member next to a sane one, at either position
Anchor == [uri |-> "a", key |-> TRUE, id |-> 1, batch |-> 1, idfn |-> 2, backend |-> ""]
Mixed == {<<m, Anchor>> : m \in Member} \cup {<<Anchor, m>> : m \in Member}
Cases == Singles \cup Sets \cup Mixed
=============================================================================
