\* refutation: a validator that takes (log_backend_name, log_id) for the identity of a destination tree (Key <- KeyWithBackend) MUST violate NoConflict: the backend-name dimension of the sets distinguishes the two (expected: Invariant NoConflict is violated)
CONSTANTS
  Uris = {"", "a", "b"}
  Backends = {"", "x", "y"}
  LogIds <- MCLogIdsSmall
  BatchSizes = {0, 1}
  IdFns = {1}
  SetIds = {1, 2}
  MaxSet = 2
  Key <- KeyWithBackend
INIT Init
NEXT Next
INVARIANTS NoConflict
CHECK_DEADLOCK FALSE
