\* simulation: random behaviours with benign faults only (short reads, fetch errors, quota replies), exported as fault schedules (KeepHist)
CONSTANTS
  MaxIdx = 6
  FaultKinds = {"short", "fetchErr", "quota", "cancel"}
  KeepHist = TRUE
  SrcSizes = {2, 3, 4}
  Growths = {0, 1, 2}
  Batches = {1, 2}
  FetcherCounts = {1, 2}
  SubmitterCounts = {1, 2}
  Modes = {"run", "master"}
  Conts = {TRUE, FALSE}
  Forks = {TRUE, FALSE}
  Starts = {0}
  TreeStart = TRUE
  Ends = {0}
  Aheads = {0}
  Lags = {0, 2, 3}
  MaxFaults = 3
  FaultBudgets = {0, 1, 2, 3}
  MaxRestarts = 1
INIT SimInit
NEXT SimNext
INVARIANTS Export Mirror Bounded Gate NoConflict QuotaRetried Complete PosCovered NoRepeat VerbatimBad
CHECK_DEADLOCK FALSE
