\* signer lag x growth between rounds, exhaustively: continuous mode, source 2 growing by up to 2 (three rounds), every schedule of the signer (Integrate is free: within the pass, rounds later, never), batch 1..2, fetchers 1..2, Run / RunWhenMaster, 1 fault of every kind, 1 restart: NoRepeat + PosCovered = every index submitted exactly once across the rounds of a run
CONSTANTS
  MaxIdx = 4
  FaultKinds = {"short", "emptyPage", "fetchErr", "quota", "fatal", "rootErr", "sthErr", "consErr", "cancel", "revoke"}
  KeepHist = FALSE
  SrcSizes = {1, 2}
  Growths = {1, 2}
  Batches = {1, 2}
  FetcherCounts = {1, 2}
  SubmitterCounts = {1, 2}
  Modes = {"run", "master"}
  Conts = {TRUE}
  Forks = {FALSE}
  Starts = {0}
  TreeStart = FALSE
  Ends = {0}
  Aheads = {0}
  Lags = {0}
  MaxFaults = 1
  FaultBudgets = {0, 1}
  MaxRestarts = 1
INIT MCInit
NEXT Next
INVARIANTS TypeOK Mirror Bounded Gate NoConflict QuotaRetried Complete PosCovered NoRepeat VerbatimBad PrefixOK
PROPERTIES GateAct QuotaAct
CHECK_DEADLOCK FALSE
