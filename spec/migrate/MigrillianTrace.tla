--------------------------- MODULE MigrillianTrace ---------------------------
(***************************************************************************)
(* Trace validation: runs of the real Controller against Migrillian.tla.    *)
(*                                                                         *)
(* The harness records one event per call into its fakes (source log,       *)
(* destination backend, election) and per environment action, under the     *)
(* fakes' single mutex: Reset{cfg} GetRoot{code,size} STH{code,size}        *)
(* Cons{first,second,code,valid} Fetch{start,end,code,n}                    *)
(* Add{start,n,code,leaves} Integrate{size} Grow{size} Master{on} Cancel    *)
(* Restart Return{err}.  Each event is bound to the specification's action  *)
(* with the logged values; what the Controller does between calls (range    *)
(* generation, hand-over to submitters, timers, end of pass, unwinding) is  *)
(* not observable and is taken as silent steps.  TLC searches for a         *)
(* placement of the silent steps that explains the whole trace; all         *)
(* invariants of Migrillian.tla are checked on every state on the way.      *)
(* Add events carry, per leaf, the index it was submitted under, whether    *)
(* leaf_input/extra_data are the source's for that index ("src") and        *)
(* whether the identity hash is the configured function of it ("ok"), as    *)
(* judged by the harness with reference code: the destination of the        *)
(* specification is updated with exactly that.                             *)
(*                                                                         *)
(* Three silent "defect" steps let a run that breaks a rule continue, so    *)
(* that the broken rule is reported by name instead of as an unexplained    *)
(* trace: SkipGate (leaving verify without a proof), AbortOnQuota (ending a *)
(* pass while a batch waits for its retry) and AbandonRanges (taking a pass *)
(* for finished while fetch workers still hold ranges or remainders of      *)
(* ranges: an empty page or a short read taken for the end of the range).   *)
(* They only mark suspicion; a flag is raised when an event proves it (a    *)
(* submission in an ungated pass; the next GetRoot / Return while           *)
(* suspected; Return nil with a hole, or the GetRoot of the next pass with  *)
(* a position that has a hole below it).                                    *)
(*                                                                         *)
(* Empty pages (Fetch with code OK and n = 0): the property leaves open     *)
(* what the migrator does with an empty batch as long as no gap results.    *)
(* The specification's clause is EmptyPageHandedOn (the empty request is    *)
(* sent and refused: Add with n = 0, no index, InvalidArgument); the silent *)
(* step SkipEmpty also accepts a migrator that drops the empty batch and    *)
(* simply asks again.  Neither lets the range end.                          *)
(*                                                                         *)
(* The configured range (Reset carries start, end and ahead: how many       *)
(* entries the source serves beyond the STH it announces).  A fourth        *)
(* defect step, OverrunRange, explains get-entries requests that reach      *)
(* beyond the STH of the pass towards an explicit end_index (or to the end  *)
(* of a batch): the run goes on, and if the source serves such an entry and *)
(* it is submitted, invariant Bounded reports it by name.                   *)
(*                                                                         *)
(* Signer lag (Reset carries lag: the schedule of the harness's signer;     *)
(* Integrate events say when the root really moved).  A fifth defect step,  *)
(* RewindRange, explains a get-entries request of a later round of a run    *)
(* that starts below the position the previous round reached (a migrator    *)
(* that takes the lagging root for its position); it is enabled only when   *)
(* such a request lies ahead in the pass, and taking it raises the flag:    *)
(* invariant NoRepeat reports it by name.  NoRepeat also convicts *)
(* any Add answered OK that carries an index already submitted in this run  *)
(* (ghost subm of Migrillian.tla).                                          *)
(***************************************************************************)
EXTENDS Migrillian, Json, IOUtils

Trace == ndJsonDeserialize(IOEnv.TRACE_FILE)

VARIABLE l
tvars == <<vars, l>>

Ev(name) == l <= Len(Trace) /\ Trace[l].ev = name
E == Trace[l]
Step == l' = l + 1
SeqToSet(s) == {s[i] : i \in DOMAIN s}

CfgOf(j) == [src0 |-> j.src0, growth |-> j.growth, ahead |-> j.ahead, end |-> j.end, bad |-> SeqToSet(j.bad), destLen |-> j.destLen, destInt |-> j.destInt,
             batch |-> j.batch, fetchers |-> j.fetchers, submitters |-> j.submitters, cont |-> j.cont, stop |-> FALSE,
             start |-> j.start, forked |-> j.forked, forkAt |-> j.forkAt,
             mode |-> IF j.mode = "run" THEN "run" ELSE "master", faults |-> 1000, restarts |-> 1000, lag |-> j.lag]

Blank == [src0 |-> 0, growth |-> 0, ahead |-> 0, end |-> 0, bad |-> {}, destLen |-> 0, destInt |-> 0, batch |-> 1, fetchers |-> 1, submitters |-> 1,
          cont |-> FALSE, stop |-> FALSE, start |-> 0, forked |-> FALSE, forkAt |-> 0, mode |-> "run", faults |-> 0, restarts |-> 0, lag |-> 0]

TraceInit == InitWith(Blank) /\ l = 1 /\ TLCSet(1, 1)

TReset ==
  /\ Ev("Reset") /\ Step
  /\ LET c == CfgOf(E.cfg) IN
     /\ cfg' = c /\ srcSize' = c.src0
     /\ dest' = [i \in Idx |-> IF i < c.destLen THEN Leaf(<<"h", i>>, "ok") ELSE None]
     /\ destSize' = c.destInt
     /\ pc' = "start" /\ why' = "" /\ result' = "" /\ pos' = 0 /\ root' = 0 /\ sth' = -1 /\ proved' = FALSE /\ gen' = 0
     /\ out' = {} /\ bag' = {} /\ hold' = {} /\ master' = TRUE /\ alive' = TRUE
     /\ faults' = c.faults /\ restarts' = c.restarts /\ verified' = c.destLen /\ subm' = {} /\ flags' = {}
     /\ UNCHANGED <<pass, calls, hist>>

\* a suspicion recorded by AbortOnQuota becomes a fact when the pass is indeed over
Convict(f) == IF "quotaSuspect" \in f THEN (f \ {"quotaSuspect"}) \cup {"quotaAbort"} ELSE f

TGetRoot ==
  /\ Ev("GetRoot") /\ Step
  /\ pc = "start" /\ CanRun
  /\ IF E.code = "OK"
       THEN /\ destSize = E.size
            /\ root' = destSize /\ sth' = -1 /\ proved' = FALSE /\ pc' = "prepare" /\ UNCHANGED why
       ELSE /\ pc' = "unwind" /\ why' = "err" /\ root' = 0 /\ sth' = -1 /\ proved' = FALSE
  \* a new pass begins with Run's position `pos`: Run will never look below it again
  /\ flags' = Convict(flags) \cup (IF PosCovered THEN {} ELSE {"gap"})
  /\ UNCHANGED <<cfg, dest, pipe, envv, restarts, verified, subm, result, pos, gen, faults, pass, calls, hist>>

TSTH ==
  /\ Ev("STH") /\ Step
  /\ PrepareSTH
  /\ IF E.code = "OK" THEN sth' = E.size ELSE pc' = "unwind"

\* the harness judges the served proof with the reference verifier against the real roots; the
\* specification's notion of consistency (histories agree on the first `root` entries) must say the same
TCons ==
  /\ Ev("Cons") /\ Step
  /\ pc = "verify" /\ root > 0 /\ E.first = root /\ E.second = sth
  /\ IF E.code = "OK"
       THEN /\ E.valid = Consistent(root)
            /\ \/ Verify /\ (pc' = "run") = E.valid
               \/ /\ ~E.valid                       \* defect: going on although the proof did not verify
                  /\ pc' = "run" /\ gen' = FirstIndex /\ UNCHANGED <<why, result, pos, root, sth, proved, verified, flags>>
                  /\ UNCHANGED <<cfg, dest, pipe, envv, restarts, faults, pass, calls, hist, subm>>
       ELSE Verify /\ pc' = "unwind"

\* defect: leaving the gate without asking for a proof
SkipGate ==
  /\ pc = "verify" /\ root > 0
  /\ pc' = "run" /\ gen' = FirstIndex
  /\ UNCHANGED <<cfg, dest, pipe, envv, restarts, faults, pass, calls, hist, why, result, pos, root, sth, proved, verified, subm, flags, l>>

TFetch ==
  /\ Ev("Fetch") /\ Step
  /\ \E r \in out :
       /\ r.s = E.start /\ r.e = E.end
       /\ \/ /\ pc = "run" /\ Fetch(r)
             /\ IF E.code = "OK" THEN \E b \in bag' \ bag : b.s = r.s /\ b.n = E.n       \* n = 0: an empty page
                                 ELSE bag' = bag /\ out' = out
          \/ pc = "unwind" /\ StragglerFetch(r)

LeavesOf(ls) == LET I == {ls[j].i : j \in DOMAIN ls}
                    At(i) == CHOOSE j \in DOMAIN ls : ls[j].i = i
                IN [i \in I |-> Leaf(IF ls[At(i)].c = "src" THEN Tok(i) ELSE <<"x", i>>, ls[At(i)].id)]

TAdd ==
  /\ Ev("Add") /\ Step
  /\ \E h \in hold :
       \* a request without leaves carries no index: any empty batch held by a submitter explains it
       /\ (E.n = 0 \/ h.s = E.start) /\ h.n = E.n /\ h.st = "try"
       /\ \/ /\ pc = "run"
             /\ SubmitL(h, LeavesOf(E.leaves), CASE E.code = "OK" -> "ok" [] E.code = "ResourceExhausted" -> "quota"
                                                  [] E.n = 0 -> "refused" [] OTHER -> "fatal")
          \/ /\ pc = "unwind" /\ E.code = "OK" /\ StragglerSubmitL(h, LeavesOf(E.leaves))
          \/ /\ pc = "unwind" /\ E.code # "OK" /\ hold' = hold \ {h}
             \* a genuine failure seen while unwinding: whatever was suspected, this may have ended the pass
             /\ flags' = IF E.code = "ResourceExhausted" THEN flags ELSE flags \ {"quotaSuspect"}
             /\ UNCHANGED <<cfg, dest, out, bag, envv, faults, restarts, verified, subm, pass, calls, hist, ctl>>

\* a control call (GetRoot / get-sth / get-sth-consistency) that was already on its way when the pass was
\* cancelled is still answered; the Controller discards the answer
TStray ==
  /\ (Ev("GetRoot") \/ Ev("STH") \/ Ev("Cons")) /\ Step
  /\ pc = "unwind" /\ why \in {"cancel", "revoke"}
  /\ \/ UNCHANGED vars
     \* one-shot: an STH that shows nothing to do ends the pass before the cancellation is noticed: Run returns nil
     \/ /\ Ev("STH") /\ E.code = "OK" /\ E.size <= pos /\ ~cfg.cont /\ why = "cancel"
        /\ pc' = "passDone" /\ why' = "" /\ sth' = E.size
        /\ UNCHANGED <<cfg, dest, pipe, envv, faults, restarts, verified, subm, flags, pass, calls, hist, result, pos, root, proved, gen>>

TIntegrate ==
  /\ Ev("Integrate") /\ Step
  /\ destSize < E.size /\ E.size <= Contig
  /\ destSize' = E.size
  /\ UNCHANGED <<cfg, srcSize, dest, pipe, master, alive, faults, restarts, verified, subm, flags, pass, calls, hist, ctl>>

TGrow ==
  /\ Ev("Grow") /\ Step
  /\ srcSize' = E.size /\ E.size > srcSize /\ E.size <= MaxIdx
  /\ UNCHANGED <<cfg, dest, destSize, pipe, master, alive, faults, restarts, verified, subm, flags, pass, calls, hist, ctl>>

TMaster == Ev("Master") /\ Step /\ IF E.on THEN Regain ELSE Revoke
TCancel == Ev("Cancel") /\ Step /\ Cancel
TRestart == Ev("Restart") /\ Step /\ Restart

\* at the end of an unwinding: a suspicion stands only if nothing else (cancellation, lost mastership) ended the pass
Settle == IF why = "err" THEN Convict(flags) ELSE flags \ {"quotaSuspect"}
Keep == IF why = "err" THEN flags ELSE flags \ {"quotaSuspect"}

TReturn ==
  /\ Ev("Return") /\ Step
  /\ (NextPass \/ EndUnwindF(Settle)) /\ pc' = "returned" /\ result' = E.err

\* defect: the pass ends although a batch only waits for its quota retry
AbortOnQuota ==
  /\ pc = "run" /\ why = "" /\ \E h \in hold : h.st = "wait"
  /\ pc' = "unwind" /\ why' = "err" /\ flags' = flags \cup {"quotaSuspect"}
  /\ UNCHANGED <<cfg, dest, pipe, envv, restarts, faults, pass, calls, hist, result, pos, root, sth, proved, gen, verified, subm, l>>

\* defect: the pass is taken for finished although fetch workers still hold ranges (or the remainders of ranges after a
\* short read or an empty page): the rest is given up.  PassDone then advances the position past the hole; the hole is
\* reported when an event proves that the pass was indeed reported as successful (Complete at Return nil, NoGap at the
\* next GetRoot).
AbandonRanges ==
  /\ pc = "run" /\ why = "" /\ gen >= Hi /\ out # {} /\ hold = {} /\ \A b \in bag : b.n = 0
  /\ (root = 0 \/ proved)                    \* not on top of another suspicion (SkipGate, an unverified proof)
  /\ out' = {} /\ bag' = {}
  /\ UNCHANGED <<cfg, dest, hold, envv, restarts, faults, pass, calls, hist, ctl, verified, subm, flags, l>>

\* defect: the range generator hands out a range that reaches beyond the end of the pass's range - up to an explicit
\* end_index beyond the STH, or to the end of a full batch - as if the STH did not bound the job
OverrunRange ==
  /\ pc = "run" /\ sth >= 0 /\ Cardinality(out) < cfg.fetchers
  /\ LET lim == IF ~cfg.cont /\ cfg.end > sth THEN cfg.end ELSE MaxIdx
         e == Min(Min(gen + cfg.batch, lim), MaxIdx) - 1 IN
       /\ e >= Hi /\ e >= gen
       /\ out' = out \cup {[s |-> gen, e |-> e]}
       /\ gen' = e + 1
  /\ UNCHANGED <<cfg, dest, bag, hold, envv, faults, restarts, verified, subm, flags, pass, calls, hist,
                 pc, why, result, pos, root, sth, proved, l>>

\* defect: a later round of a run starts below the position the previous round reached (the lagging root taken for the
\* position).  The evidence is in the trace: a get-entries request of this pass (before the next root request / return)
\* that starts below pos - no range handed out from FirstIndex on can explain it, whichever worker's request is recorded
\* first.  The entries it asks for were delivered in an earlier round of this run: a repeat, reported by name (NoRepeat).
PassEnds(k) == Trace[k].ev \in {"GetRoot", "Reset", "Return", "Restart"}
LowFetchAhead == \E k \in l..Min(Len(Trace), l + 80) :
                   /\ Trace[k].ev = "Fetch" /\ Trace[k].start < pos
                   /\ \A j \in l..(k - 1) : ~PassEnds(j)
RewindRange ==
  /\ pc = "run" /\ pos > 0 /\ gen = FirstIndex /\ out = {} /\ bag = {} /\ hold = {}
  /\ LowFetchAhead
  /\ \E g \in 0..(gen - 1) : gen' = g
  /\ flags' = flags \cup {"repeat"}
  /\ UNCHANGED <<cfg, dest, pipe, envv, faults, restarts, verified, subm, pass, calls, hist,
                 pc, why, result, pos, root, sth, proved, l>>

\* permitted: an empty batch is dropped instead of being submitted (the range is still held and asked again)
SkipEmpty ==
  /\ pc = "run" /\ \E b \in bag : b.n = 0 /\ bag' = bag \ {b}
  /\ UNCHANGED <<cfg, dest, out, hold, envv, restarts, faults, pass, calls, hist, ctl, verified, subm, flags, l>>

\* no pass was reported successful with a hole below the position it handed to the next pass
NoGap == "gap" \notin flags

Silent == /\ UNCHANGED l
          /\ \/ AssignRange \/ PassDone \/ AwaitDone \/ DoFail
             \/ (Verify /\ root = 0)
             \/ (NextPass /\ pc' = "start")
             \/ (EndUnwindF(Keep) /\ pc' # "returned")
             \/ (\E b \in bag : Take(b))
             \/ (\E h \in hold : Wake(h))

TraceNext == TReset \/ TGetRoot \/ TSTH \/ TCons \/ TStray \/ TFetch \/ TAdd \/ TIntegrate \/ TGrow \/ TMaster \/ TCancel
             \/ TRestart \/ TReturn \/ Silent \/ SkipGate \/ AbortOnQuota \/ AbandonRanges \/ SkipEmpty \/ OverrunRange \/ RewindRange

TraceView == <<cfg, srcSize, dest, destSize, pc, why, result, pos, root, sth, proved, gen, out, bag, hold,
               master, alive, verified, subm, flags, l>>

HighWater == TLCSet(1, IF TLCGet(1) < l THEN l ELSE TLCGet(1))

TraceAccepted ==
  IF TLCGet(1) = Len(Trace) + 1 THEN TRUE
  ELSE /\ PrintT(<<"STUCK", ToJson([line |-> TLCGet(1), event |-> Trace[TLCGet(1)]])>>)
       /\ FALSE

=============================================================================
