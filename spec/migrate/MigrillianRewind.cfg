\* refutation: a migrator that takes the destination's root for its position in continuous mode (FirstIndex <- FirstIndexFromRoot) MUST violate NoRepeat on this instance - signer lag x growth between rounds distinguishes the two (expected: Invariant NoRepeat is violated)
CONSTANTS
  MaxIdx = 4
  FaultKinds = {"short"}
  KeepHist = FALSE
  SrcSizes = {2}
  Growths = {1}
  Batches = {2}
  FetcherCounts = {1}
  SubmitterCounts = {1}
  Modes = {"run"}
  Conts = {TRUE}
  Forks = {FALSE}
  Starts = {0}
  TreeStart = FALSE
  Ends = {0}
  Aheads = {0}
  Lags = {0}
  MaxFaults = 0
  FaultBudgets = {0}
  MaxRestarts = 0
  FirstIndex <- FirstIndexFromRoot
INIT MCInit
NEXT Next
INVARIANTS NoRepeat
CHECK_DEADLOCK FALSE
