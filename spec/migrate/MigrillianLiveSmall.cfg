\* liveness under weak fairness: finite faults, honest source => the migration completes (empty pages, after which completion of the pass is not promised: MigrillianLive.cfg)
CONSTANTS
  MaxIdx = 3
  FaultKinds = {"short", "fetchErr", "quota", "fatal", "rootErr", "sthErr", "consErr", "cancel", "revoke"}
  KeepHist = FALSE
  SrcSizes = {2}
  Growths = {0, 1}
  Batches = {1, 2}
  FetcherCounts = {2}
  SubmitterCounts = {1, 2}
  Modes = {"run", "master"}
  Conts = {TRUE, FALSE}
  Forks = {FALSE}
  Starts = {0}
  TreeStart = TRUE
  Ends = {0}
  Aheads = {0}
  Lags = {0}
  MaxFaults = 1
  FaultBudgets = {1}
  MaxRestarts = 1
SPECIFICATION MCLive
INVARIANTS TypeOK
PROPERTIES Progress
CHECK_DEADLOCK FALSE
