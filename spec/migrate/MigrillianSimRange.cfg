\* simulation: random behaviours over the configured range (start_index -1 / 0 / inside / equal to / beyond the STH x end_index none / inside / equal to / beyond the STH x one-shot / continuous) on a source that serves 0..2 entries more than its STH covers, with page faults and restarts, exported as fault schedules (KeepHist)
CONSTANTS
  MaxIdx = 7
  FaultKinds = {"short", "fetchErr", "quota", "cancel"}
  KeepHist = TRUE
  SrcSizes = {2, 3, 4}
  Growths = {0, 1}
  Batches = {2, 3}
  FetcherCounts = {2}
  SubmitterCounts = {1, 2}
  Modes = {"run", "master"}
  Conts = {TRUE, FALSE}
  Forks = {FALSE}
  Starts = {0, 1, 3, 6}
  TreeStart = TRUE
  Ends = {0, 2, 3, 4, 7}
  Aheads = {0, 2}
  Lags = {0, 2, 3}
  MaxFaults = 2
  FaultBudgets = {0, 2}
  MaxRestarts = 1
INIT SimInit
NEXT SimNext
INVARIANTS Export Mirror Bounded Gate NoConflict QuotaRetried Complete PosCovered NoRepeat VerbatimBad
CHECK_DEADLOCK FALSE
