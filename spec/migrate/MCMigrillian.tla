--------------------------- MODULE MCMigrillian ---------------------------
(* Model-checking, liveness and simulation instances of Migrillian. *)
EXTENDS Migrillian, Json

CONSTANTS
  SrcSizes,     \* initial source sizes
  Growths,      \* how much the source may grow
  Batches, FetcherCounts, SubmitterCounts,
  Modes,        \* subset of {"run", "master"}
  Conts,        \* subset of BOOLEAN
  Forks,        \* subset of BOOLEAN
  Starts,       \* start_index values: 0, inside, equal to, beyond the STH
  TreeStart,    \* TRUE: also start_index -1 (= the destination's tree size; cfg files take no negative numbers)
  Ends,         \* end_index values: 0 (none), inside, equal to, beyond the STH
  Aheads,       \* how many entries the source serves beyond the STH it announces
  Lags,         \* signer schedules: the signer sleeps until the root has been asked for more than this many times (SignerAwake;
                \*   binds the simulation instances only: Integrate is free in the exhaustive ones, so {0} there)
  MaxFaults, FaultBudgets, MaxRestarts

\* destination at the start: empty, partial (some of it integrated), full
DestShapes(s) == {<<0, 0>>} \cup {<<dl, di>> \in (1..s) \X (0..s) : di <= dl /\ (di = dl \/ di = 0 \/ di = dl - 1)}

\* the scenarios.  Built shape by shape (not as one filtered product, which outgrows TLC's set limit once the range
\* dimension is in): the environment, the destination's shape, the fork (one fork point inside the initial history;
\* what the destination holds beyond its integrated prefix must not already contradict the fork - that conflict would
\* be the environment's doing), then the migrator's configuration.
Envs == { e \in [ src0 : SrcSizes, growth : Growths, ahead : Aheads ] : e.src0 + e.growth + e.ahead <= MaxIdx }
ForkChoices(e, d) == {<<FALSE, 0>>} \cup
                     (IF TRUE \in Forks /\ e.src0 >= 2 /\ (d[1] <= 1 \/ d[2] = d[1]) THEN {<<TRUE, 1>>} ELSE {})
Worlds == UNION { UNION { { [ src0 |-> e.src0, growth |-> e.growth, ahead |-> e.ahead, bad |-> {1},
                              destLen |-> d[1], destInt |-> d[2], forked |-> f[1], forkAt |-> f[2] ] :
                            f \in {g \in ForkChoices(e, d) : g[1] \in Forks} } :
                          d \in DestShapes(e.src0) } : e \in Envs }
Knobs == { k \in [ batch : Batches, fetchers : FetcherCounts, submitters : SubmitterCounts, cont : Conts, stop : {FALSE},
                   start : Starts \cup (IF TreeStart THEN {-1} ELSE {}), end : Ends,
                   mode : Modes, faults : FaultBudgets, restarts : {MaxRestarts}, lag : Lags ] :
             \* continuous mode ignores the range (ContIgnoresRange): start -1 says nothing new there, every other value does
             k.cont => k.start # -1 }
Cfgs == { [ src0 |-> w.src0, growth |-> w.growth, ahead |-> w.ahead, bad |-> w.bad, destLen |-> w.destLen, destInt |-> w.destInt,
            batch |-> k.batch, fetchers |-> k.fetchers, submitters |-> k.submitters, cont |-> k.cont, stop |-> k.stop,
            start |-> k.start, end |-> k.end, forked |-> w.forked, forkAt |-> w.forkAt, mode |-> k.mode,
            faults |-> k.faults, restarts |-> k.restarts, lag |-> k.lag ] : w \in Worlds, k \in Knobs }

MCInit == \E c \in Cfgs : InitWith(c)
MCSpec == MCInit /\ [][Next]_vars
MCLive == MCInit /\ [][Next]_vars /\ Fair

TypeOK ==
  /\ srcSize \in 0..MaxIdx /\ destSize \in 0..MaxIdx /\ pos \in 0..MaxIdx /\ root \in 0..MaxIdx /\ sth \in -1..MaxIdx
  /\ pc \in {"start", "prepare", "verify", "run", "passDone", "unwind", "await", "returned"}
  /\ Cardinality(out) <= cfg.fetchers /\ Cardinality(hold) <= cfg.submitters
  /\ \A r \in out : r.s <= r.e /\ r.e < Hi /\ r.s >= 0
  /\ \A b \in bag : b.n >= 0 /\ b.s + b.n <= Hi /\ (b.n = 0 <=> b.u > 0)
  /\ \A h \in hold : h.n >= 0 /\ (h.n = 0 <=> h.u > 0) /\ (h.st = "wait" => h.n > 0)
  /\ faults \in 0..MaxFaults
  /\ subm \subseteq Idx /\ \A i \in subm : dest[i] # None

=============================================================================
