--------------------------- MODULE MCMigrillian ---------------------------
(* Model-checking, liveness and simulation instances of Migrillian. *)
EXTENDS Migrillian, Json

CONSTANTS
  SrcSizes,     \* initial source sizes
  Growths,      \* how much the source may grow
  Batches, FetcherCounts, SubmitterCounts,
  Modes,        \* subset of {"run", "master"}
  Conts,        \* subset of BOOLEAN
  Forks,        \* subset of BOOLEAN
  MaxFaults, FaultBudgets, MaxRestarts

\* destination at the start: empty, partial (some of it integrated), full
DestShapes(s) == {<<0, 0>>} \cup {<<dl, di>> \in (1..s) \X (0..s) : di <= dl /\ (di = dl \/ di = 0 \/ di = dl - 1)}

Cfgs ==
  { c \in [ src0 : SrcSizes, growth : Growths, bad : {{1}}, destLen : 0..MaxIdx, destInt : 0..MaxIdx,
            batch : Batches, fetchers : FetcherCounts, submitters : SubmitterCounts,
            cont : Conts, stop : {FALSE}, start : {0, -1}, forked : Forks, forkAt : 0..MaxIdx,
            mode : Modes, faults : FaultBudgets, restarts : {MaxRestarts} ] :
      /\ c.src0 + c.growth <= MaxIdx
      /\ <<c.destLen, c.destInt>> \in DestShapes(c.src0)
      /\ (c.cont => c.start = 0)
      /\ (~c.forked => c.forkAt = 0)
      \* a forked source: one fork point inside the initial history; what the destination holds beyond its
      \* integrated prefix must not already contradict the fork (that conflict would be the environment's doing)
      /\ (c.forked => c.forkAt = 1 /\ c.src0 >= 2 /\ (c.destLen <= c.forkAt \/ c.destInt = c.destLen)) }

MCInit == \E c \in Cfgs : InitWith(c)
MCSpec == MCInit /\ [][Next]_vars
MCLive == MCInit /\ [][Next]_vars /\ Fair

TypeOK ==
  /\ srcSize \in 0..MaxIdx /\ destSize \in 0..MaxIdx /\ pos \in 0..MaxIdx /\ root \in 0..MaxIdx /\ sth \in -1..MaxIdx
  /\ pc \in {"start", "prepare", "verify", "run", "passDone", "unwind", "await", "returned"}
  /\ Cardinality(out) <= cfg.fetchers /\ Cardinality(hold) <= cfg.submitters
  /\ \A r \in out : r.s <= r.e /\ r.e < sth
  /\ \A b \in bag : b.n >= 0 /\ b.s + b.n <= sth /\ (b.n = 0 <=> b.u > 0)
  /\ \A h \in hold : h.n >= 0 /\ (h.n = 0 <=> h.u > 0) /\ (h.st = "wait" => h.n > 0)
  /\ faults \in 0..MaxFaults

=============================================================================
