\* thorough tier: signer lag x growth between rounds, exhaustively: continuous mode, source 2..3 growing by up to 2 (indices up to 5), every schedule of the signer, batch 1..2, fetchers 1..2, submitters 1..2, Run / RunWhenMaster, 1 fault of every kind, 1 restart
CONSTANTS
  MaxIdx = 5
  FaultKinds = {"short", "emptyPage", "fetchErr", "quota", "fatal", "rootErr", "sthErr", "consErr", "cancel", "revoke"}
  KeepHist = FALSE
  SrcSizes = {2, 3}
  Growths = {1, 2}
  Batches = {1, 2}
  FetcherCounts = {1, 2}
  SubmitterCounts = {1, 2}
  Modes = {"run", "master"}
  Conts = {TRUE}
  Forks = {FALSE}
  Starts = {0}
  TreeStart = FALSE
  Ends = {0}
  Aheads = {0}
  Lags = {0}
  MaxFaults = 1
  FaultBudgets = {0, 1}
  MaxRestarts = 1
INIT MCInit
NEXT Next
INVARIANTS TypeOK Mirror Bounded Gate NoConflict QuotaRetried Complete PosCovered NoRepeat VerbatimBad PrefixOK
PROPERTIES GateAct QuotaAct
CHECK_DEADLOCK FALSE
