CONSTANTS
  Certs = {"x1", "x2", "x3", "p1", "p2"}
  Precerts = {"p1", "p2"}
  MaxClock = 6
  MaxTree = 5
  FrontEnds = {"A", "B"}
  CacheWriteFirst = FALSE
  Depth = 25
INIT Init
NEXT SimNext
INVARIANTS ExportFinished TypeOK STHFaithful STHVerifies SignedHeadCoherent DupStable SCTBindsStored SingleIndex QueueSound
CHECK_DEADLOCK FALSE
