CONSTANTS
  Certs = {"x1", "x2", "p1", "p2"}
  Precerts = {"p1", "p2"}
  MaxClock = 3
  MaxTree = 4
  Depth = 0
INIT Init
NEXT MCNext
VIEW StateView
INVARIANTS TypeOK STHFaithful DupStable SCTBindsStored SingleIndex QueueSound
PROPERTIES AppendOnly
CHECK_DEADLOCK FALSE
