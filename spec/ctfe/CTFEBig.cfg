\* thorough: two front ends, clocks 0..2
CONSTANTS
  Certs = {"x1", "p1"}
  Precerts = {"p1"}
  MaxClock = 2
  MaxTree = 2
  FrontEnds = {"A", "B"}
  CacheWriteFirst = FALSE
  Depth = 0
INIT Init
NEXT MCNext
VIEW ExhaustiveView
INVARIANTS TypeOK STHFaithful STHVerifies SignedHeadCoherent DupStable SCTBindsStored SingleIndex QueueSound
PROPERTIES STHStep AppendOnly StoredNeverRestamped DupIgnoresClock SCTOnlyOn200 FailedRequestLeavesNothing
CHECK_DEADLOCK FALSE
