\* thorough: one front end, 3 certificates, tree <= 3
CONSTANTS
  Certs = {"x1", "x2", "p1"}
  Precerts = {"p1"}
  MaxClock = 2
  MaxTree = 3
  FrontEnds = {"A"}
  CacheWriteFirst = FALSE
  Depth = 0
INIT Init
NEXT MCNext
VIEW ExhaustiveView
INVARIANTS TypeOK STHFaithful STHVerifies SignedHeadCoherent DupStable SCTBindsStored SingleIndex QueueSound
PROPERTIES STHStep AppendOnly StoredNeverRestamped DupIgnoresClock SCTOnlyOn200 FailedRequestLeavesNothing
CHECK_DEADLOCK FALSE
