------------------------- MODULE MCChainAdmissionWin -------------------------
(* The NotAfter window over the whole line of instants.  The option table of ChainAdmissionWorld places the bounds    *)
(* next to the NotAfter of the leaves (instants 4, 5); here every state is one WINDOW AS CONFIGURED - start and limit  *)
(* each absent or at any instant 1..8: start only, limit only, both, none; limit below, at and above start - with a   *)
(* rest of the options (WinRest), and the verdicts on the chains <<Wk, I1>> whose leaves expire at every instant 1..8 *)
(* are exported (WIN).  The harness realizes every state in every FRAME of ChainAdmissionWorld: the instants on       *)
(* ordinary dates an hour apart, and spread over the landmarks of the line a certificate's NotAfter can lie on (year  *)
(* 1000 .. the first second a 64-bit nanosecond count holds .. 1950; 2049 .. the last such second .. 2300 .. 9999-12-31 *)
(* 23:59:59), so that a bound on an ordinary date meets a NotAfter beyond the range of the machine's arithmetic.       *)
(* Laws: WindowIsTheText (the filter is start <= t < limit with absent bounds unbounded, whatever else is configured), *)
(* FrameFree (only the order of the instants matters), ServerShape (the code-shaped comparison is the window).         *)
EXTENDS ChainAdmissionWorld, Sequences

WinBounds == {NoBound} \cup {At(k) : k \in WinTicks}
Lenient(o) == ~o.start.p /\ ~o.limit.p /\ ~o.onlyCA /\ o.ekus = {} /\ o.rejExts = {}
FirstOf(S) == CHOOSE k \in S : \A j \in S : k <= j
RestRow(e, u, n) == FirstOf({k \in 1..NOpts : Lenient(OptTab[k]) /\ OptTab[k].rejExp = e /\ OptTab[k].rejUnexp = u /\ OptTab[k].now = n})
\* nothing else configured, before / after every NotAfter; expired certificates refused at instant 4; unexpired ones at 5
WinRest == {RestRow(FALSE, FALSE, 0), RestRow(FALSE, FALSE, 9), RestRow(TRUE, FALSE, 4), RestRow(FALSE, TRUE, 5)}

WinChains == [k \in WinTicks |-> <<WinLeafId(k), "I1">>]
WinT == "T1"
Leaf(i) == Cert[WinChains[i][1]]
ChainOKs == [i \in WinTicks |-> ChainOK(Recs(WinChains[i]), TRecs(WinT))]
ASSUME \A i \in WinTicks : ChainOKs[i] /\ Leaf(i).notAfter = i

VARIABLE wf      \* [start, limit : bounds, rest : a row of the option table]
Init == wf \in [start : WinBounds, limit : WinBounds, rest : WinRest]
Next == UNCHANGED wf

O == [OptTab[wf.rest] EXCEPT !.start = wf.start, !.limit = wf.limit]
Verdict(i) == [val |-> ValidateWith(ChainOKs[i], Leaf(i), O),
               admC |-> AdmitWith(ChainOKs[i], Leaf(i), O, "add-chain"),
               admP |-> AdmitWith(ChainOKs[i], Leaf(i), O, "add-pre-chain")]

Laws == \A i \in WinTicks :
          LET t == Leaf(i).notAfter
              rest == LeafFilters(Leaf(i), OptTab[wf.rest])       \* the row itself has no window
          IN \* WindowIsTheText
             /\ Verdict(i).val = (rest /\ (wf.start.p => wf.start.v <= t) /\ (wf.limit.p => t < wf.limit.v))
             /\ Verdict(i).admC = Verdict(i).val /\ ~Verdict(i).admP
             \* one-sided windows are unbounded on the other side
             /\ (~wf.start.p /\ wf.limit.p /\ rest) => (Verdict(i).val = (t < wf.limit.v))
             /\ (wf.start.p /\ ~wf.limit.p /\ rest) => (Verdict(i).val = (wf.start.v <= t))
             \* ServerShape, FrameFree
             /\ ServerAdmits(t, wf.start, wf.limit) = InWindow(t, wf.start, wf.limit)
             /\ FrameFree(t, wf.start, wf.limit)

B(b) == IF b.p THEN b.v ELSE -1
Row == [OptRow(wf.rest) EXCEPT !.start = B(wf.start), !.limit = B(wf.limit)] @@ [rest |-> wf.rest]
Export == PrintT(<<"WIN", ToJson([row |-> Row,
                                  chains |-> [i \in WinTicks |->
                                     [ch |-> WinChains[i], T |-> WinT, ok |-> ChainOKs[i], kind |-> Kind(Leaf(i)),
                                      paths |-> {Ids(p) : p \in Paths(Recs(WinChains[i]), TRecs(WinT))},
                                      v |-> Verdict(i)]]])>>)
=============================================================================
