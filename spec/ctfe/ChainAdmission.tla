--------------------------- MODULE ChainAdmission ---------------------------
(***************************************************************************)
(* Which submitted certificate chains a CT log front end admits (C02).     *)
(*                                                                         *)
(* Code: trillian/ctfe/cert_checker.go (ValidateChain, IsPrecertificate),  *)
(* trillian/ctfe/handlers.go (verifyAddChain behind add-chain and          *)
(* add-pre-chain), x509/verify.go (path building).                         *)
(*                                                                         *)
(* A certificate is a record of the facts admission depends on:            *)
(*   id        which certificate (two records with different ids are       *)
(*             different byte strings, also when all other fields agree:   *)
(*             a re-issued root, a forged twin)                            *)
(*   parses    the bytes decode as X.509                                   *)
(*   subj, issuer   names                                                  *)
(*   key       the subject public key (a token)                            *)
(*   signer    the key under which the signature verifies ("bad": under    *)
(*             none, the forged-signature twin)                            *)
(*   isCA      basic constraints CA bit                                    *)
(*   ski, aki  subject / authority key identifier: a token or "none"       *)
(*             (hints for the search, they take no part in Links)          *)
(*   ekus      extended key usages present                                 *)
(*   poison    CT poison extension: "none"; "ok" (critical, value is       *)
(*             exactly the DER NULL 05 00); every other state is a         *)
(*             malformed one: "noncritical" (NULL, not critical),          *)
(*             "nonnull" (another well-formed value), "nullTrailing"       *)
(*             (05 00 followed by a further byte), "nullTrailingTLV"       *)
(*             (05 00 followed by a well-formed element), "wrongTag"       *)
(*             (empty content under another tag), "longFormNull"           *)
(*             (NULL with the BER length 81 00), "empty" (no value)        *)
(*   notAfter  an instant (Temporal)                                       *)
(*   exts      ids of further extensions present                           *)
(*                                                                         *)
(* An ENTRY of a submission is a byte string: a certificate in some        *)
(* encoding, followed by something or by nothing (Form below).  It is a    *)
(* certificate exactly when nothing follows and the encoding is one the    *)
(* front end reads; an entry that parses is a certificate of its own (its  *)
(* bytes differ from those of the DER form), and the path handed on        *)
(* carries the entries as submitted, byte for byte.                        *)
(*                                                                         *)
(* Admit / Paths are written from the property text.  CodePaths /          *)
(* CodeChainOK are written the way the code is structured (search for      *)
(* every path from the leaf through the submitted certificates to a        *)
(* trusted certificate, then keep a path that equals the submission        *)
(* position by position); TLC checks that the two agree on every chain of  *)
(* the model, which is where the NAMED CLAUSES below come from.            *)
(***************************************************************************)
EXTENDS Temporal

Last(s) == s[Len(s)]
Range(s) == {s[i] : i \in 1..Len(s)}

(* ---------- links ---------- *)
\* a names b as its issuer, a's signature verifies under b's key, b may sign certificates
Links(a, b) == /\ a.parses /\ b.parses
               /\ a.issuer = b.subj
               /\ a.signer = b.key
               /\ b.isCA

(* ---------- the bytes of an entry ---------- *)
\* A submitted entry is the certificate c written in the encoding enc and followed by trailer:
\*   enc      "der"         the DER encoding
\*            "serialPad"   the serial number INTEGER carries a superfluous leading 00 octet
\*            "versionPad"  the version INTEGER carries one (02 02 00 02)
\*            "lenLong"     the length of the outer SEQUENCE carries a superfluous leading 00 octet
\*            (the padded forms are signed anew by the same issuer key over the bytes as they stand)
\*   trailer  "none"; "byte" (one further octet); "bytes" (several); "tlv" (a further well-formed element);
\*            "cert" (a second certificate glued on)
\* The property: "every certificate parses".  An entry that is a certificate PLUS something is not a certificate,
\* whatever the encoding of its first part.
\* NAMED CLAUSES PaddedIntegersRead / PaddedLengthRefused.  The text does not say which deviations from DER still
\* "parse".  The code reads INTEGERs that are not minimally encoded (it decodes a second time, leniently, and keeps the
\* complaint as a non-fatal error) and refuses lengths that are not (in both modes): recorded behaviour.
Encs == {"der", "serialPad", "versionPad", "lenLong"}
Trailers == {"none", "byte", "bytes", "tlv", "cert"}
ReadEncs == {"der", "serialPad", "versionPad"}
EntryParses(enc, trailer) == enc \in ReadEncs /\ trailer = "none"
FormId(id, enc, trailer) == id \o (IF enc = "der" THEN "" ELSE "~" \o enc) \o (IF trailer = "none" THEN "" ELSE "+" \o trailer)
\* the entry as a certificate record: other bytes, hence another certificate (id); the same facts when it parses; the
\* record remembers its encoding (a record without the field is in DER)
Form(c, enc, trailer) == IF enc = "der" /\ trailer = "none" THEN c
                         ELSE LET d == [c EXCEPT !.id = FormId(c.id, enc, trailer), !.parses = c.parses /\ EntryParses(enc, trailer)]
                              IN [f \in DOMAIN c \cup {"enc"} |-> IF f = "enc" THEN enc ELSE d[f]]
EncOf(c) == IF "enc" \in DOMAIN c THEN c.enc ELSE "der"
\* NAMED CLAUSE PaddedPrecertRefused.  add-pre-chain derives the log entry from the TBSCertificate of the precertificate
\* (the poison removed, the issuer rewritten) and reads it for that with the strict decoder: a precertificate LEAF whose
\* TBSCertificate carries a padded INTEGER is refused by the endpoint (400) although chain validation reads it, while
\* add-chain admits a certificate with the same padding.  The text is silent; the specification records the code's
\* behaviour (reported as an observation).  Padded certificates further up the chain - the pre-issuer too - are read.
PrecertLeafDER(leaf) == EncOf(leaf) = "der"

AllParse(ch) == \A i \in 1..Len(ch) : ch[i].parses
Linked(ch) == \A i \in 1..Len(ch) - 1 : Links(ch[i], ch[i + 1])
\* trusted certificates that directly issued the last submitted one
Anchors(ch, T) == {r \in T : Links(Last(ch), r) /\ r \notin Range(ch)}
Anchored(ch, T) == Last(ch) \in T \/ Anchors(ch, T) # {}

\* NAMED CLAUSE KeyIdsAgree.  Key identifiers are hints: the property speaks of names, signatures and the CA bit only,
\* and so do Links / ChainOK.  The hierarchies of the model are those RFC 5280 s4.2.1.2 allows: a certificate that has an
\* authority key identifier carries the subject key identifier of every certificate holding its signer key (several
\* certificates may share a key and therefore an identifier: a re-issued, a cross-signed, a RENAMED CA - same key under
\* another name - next to the same name under ANOTHER key).  Hierarchies in which a certificate's authority key
\* identifier names somebody else's key while its true issuer has another identifier are outside the model (the code's
\* candidate lookup by identifier would hide the issuer it finds by name: an observation, not asserted).
\* (records of models that do not speak of key identifiers - EntryShapes - have none: every lookup is by name)
AkiOf(c) == IF "aki" \in DOMAIN c THEN c.aki ELSE "none"
SkiOf(c) == IF "ski" \in DOMAIN c THEN c.ski ELSE "none"
KeyIdsAgree(C) == \A a, b \in C : (a.parses /\ b.parses /\ AkiOf(a) # "none" /\ SkiOf(b) # "none" /\ a.signer = b.key) => AkiOf(a) = SkiOf(b)

\* NAMED CLAUSE NoRepeat.  The text is silent about a certificate submitted twice (a self-signed root links to itself,
\* so <<.., R, R>> satisfies "each certificate is signed by the next one").  A path never uses a certificate twice, so
\* "every submitted certificate is used" cannot hold: such chains are refused.
NoRepeat(ch) == \A i, j \in 1..Len(ch) : i # j => ch[i] # ch[j]

\* NAMED CLAUSE TrustedLeafAlone.  When the first certificate is itself in the trusted pool the code looks no further:
\* the only path is that certificate alone.  It is admitted when submitted alone (TrustedSelfPath: "the last one is a
\* trusted root") and refused when followed by further certificates, also when those would link up to another trusted
\* certificate.  The text would admit the latter; the specification records the code's behaviour (reported as an
\* observation, not asserted as a violation).
TrustedLeafAlone(ch, T) == ch[1] \in T => Len(ch) = 1

ChainOK(ch, T) == /\ Len(ch) > 0
                  /\ AllParse(ch)
                  /\ Linked(ch)
                  /\ Anchored(ch, T)
                  /\ NoRepeat(ch)
                  /\ TrustedLeafAlone(ch, T)

\* the validated paths the property allows: the submission, followed by a trusted issuer of its last certificate
\* unless that one is trusted itself (TrustedLastEndsPath: then the submission as it stands is a path too)
Paths(ch, T) == (IF Last(ch) \in T THEN {ch} ELSE {}) \cup {Append(ch, r) : r \in Anchors(ch, T)}

(* ---------- leaf ---------- *)
\* the value must BE the NULL, not merely begin with one or decode to one: whatever is not "ok" is malformed
Kind(c) == CASE c.poison = "none" -> "cert"
             [] c.poison = "ok"   -> "precert"
             [] OTHER             -> "malformed"

\* options of a log: [start, limit : bounds, now, rejExp, rejUnexp, onlyCA : BOOLEAN, ekus, rejExts : sets]
\* a certificate is valid through its last second: it is expired strictly after NotAfter
Expired(c, now) == now > c.notAfter
\* "any" in the configured list switches the EKU filter off (as the configuration documents)
EkuOK(c, o) == o.ekus = {} \/ "any" \in o.ekus \/ c.ekus \cap o.ekus # {}
LeafFilters(c, o) == /\ InWindow(c.notAfter, o.start, o.limit)
                     /\ ~(o.rejExp /\ Expired(c, o.now))
                     /\ ~(o.rejUnexp /\ ~Expired(c, o.now))
                     /\ (o.onlyCA => c.isCA)
                     /\ EkuOK(c, o)
                     /\ c.exts \cap o.rejExts = {}

(* ---------- a log's configuration as it is written ---------- *)
\* The required EKUs and the forbidden extensions of a log are configured as LISTS of names (ext_key_usages,
\* reject_extensions).  The filter is the SET of the names listed: position, order and repetition mean nothing, and
\* "any" - first, in the middle, last, alone, repeated - switches the EKU filter off.
FilterOf(list) == Range(list)
\* The code's structure: the list is read front to back into the key usages the instance is set up with, and an "any"
\* seen anywhere empties them afterwards (an empty list of key usages is "no filter").
CodeKeyUsages(list) == IF \E i \in 1..Len(list) : list[i] = "any" THEN <<>> ELSE list
CodeEkuOK(c, list) == LET ku == CodeKeyUsages(list) IN Len(ku) = 0 \/ \E i \in 1..Len(ku) : ku[i] \in c.ekus
CodeExtOK(c, list) == \A i \in 1..Len(list) : list[i] \notin c.exts
\* options as configured: o.ekuList / o.extList are what the operator wrote, o.ekus / o.rejExts the filter they mean
Configured(o, ekuList, extList) == [o EXCEPT !.ekus = FilterOf(ekuList), !.rejExts = FilterOf(extList)]
ListShape(c, o, ekuList, extList) == LET oc == Configured(o, ekuList, extList)
                                     IN /\ CodeEkuOK(c, ekuList) = EkuOK(c, oc)
                                        /\ CodeExtOK(c, extList) = (c.exts \cap oc.rejExts = {})

(* ---------- admission ---------- *)
Endpoints == {"add-chain", "add-pre-chain"}
\* The verdicts as functions of "is the chain in order" (so that a model checker evaluates ChainOK once per chain):
\* what chain validation decides (ctfe.ValidateChain) ...
ValidateWith(chainOK, leaf, o) == chainOK /\ LeafFilters(leaf, o)
\* ... and what an endpoint decides
AdmitWith(chainOK, leaf, o, endpoint) == /\ ValidateWith(chainOK, leaf, o)
                                         /\ Kind(leaf) # "malformed"
                                         /\ (Kind(leaf) = "precert") = (endpoint = "add-pre-chain")
                                         /\ (endpoint = "add-pre-chain" => PrecertLeafDER(leaf))
ValidateOK(ch, T, o) == ValidateWith(ChainOK(ch, T), ch[1], o)
Admit(ch, T, o, endpoint) == AdmitWith(ChainOK(ch, T), ch[1], o, endpoint)

(* ---------- laws of the model ---------- *)
PathLaw(ch, T) == ChainOK(ch, T) =>
  /\ Paths(ch, T) # {}
  /\ \A p \in Paths(ch, T) : /\ p[1] = ch[1]
                             /\ Len(p) >= Len(ch) /\ SubSeq(p, 1, Len(ch)) = ch
                             /\ Last(p) \in T
                             /\ Linked(p) /\ NoRepeat(p)
\* replacing entry i of a submission by a form of the same certificate: a form that does not parse refuses the chain; a
\* form that parses is judged on its facts, and every path carries THE FORM (the bytes as submitted) at position i
EntryLaw(ch, T, i, enc, trailer) ==
  LET ch2 == [ch EXCEPT ![i] = Form(ch[i], enc, trailer)]
  IN IF ~EntryParses(enc, trailer) THEN ~ChainOK(ch2, T)
     ELSE ChainOK(ch2, T) => \A p \in Paths(ch2, T) : p[i] = ch2[i]
OneEndpoint(ch, T, o) == /\ ~(Admit(ch, T, o, "add-chain") /\ Admit(ch, T, o, "add-pre-chain"))
                         /\ (Kind(ch[1]) = "malformed" => \A e \in Endpoints : ~Admit(ch, T, o, e))

(* ---------- the code's structure ---------- *)
\* buildChains: extend the current chain by every unused trusted certificate that links (a finished path) and by
\* every unused submitted certificate that links (continue from there)
\* findPotentialParents: the candidates of a pool are looked up by key identifier FIRST - the certificates whose subject
\* key identifier is c's authority key identifier, whatever their names - and by name only when that finds nobody.  A
\* candidate that does not link (a renamed CA found by identifier, a namesake with another key found by name, a forged
\* twin) is passed over: the search goes on with the other candidates of the trusted pool AND with the submitted
\* certificates (CodeShape below says that nothing the property admits is lost on the way).
Candidates(c, pool) == LET byId == {x \in pool : x.parses /\ AkiOf(c) # "none" /\ SkiOf(x) = AkiOf(c)}
                       IN IF byId # {} THEN byId ELSE {x \in pool : x.parses /\ x.subj = c.issuer}
RECURSIVE Build(_, _, _)
Build(cur, pool, T) ==
  LET c == Last(cur)
      fresh(x) == \A i \in 1..Len(cur) : cur[i] # x
  IN {Append(cur, r) : r \in {r \in Candidates(c, T) : fresh(r) /\ Links(c, r)}}
     \cup UNION {Build(Append(cur, m), pool, T) : m \in {m \in Candidates(c, pool) : fresh(m) /\ Links(c, m)}}
\* the trusted candidates that are looked at and passed over while the path is found elsewhere (vacuity measure of the
\* hierarchies: > 0 means the search had to go past a decoy)
Decoys(ch, T) == {p \in (1..Len(ch)) \X T : ch[p[1]].parses /\ p[2] \in Candidates(ch[p[1]], T) /\ ~Links(ch[p[1]], p[2])}
\* Verify: a leaf found in the trusted pool is its own (only) path; otherwise search through ch[2..]
CodePaths(ch, T) == IF ~AllParse(ch) THEN {}
                    ELSE IF ch[1] \in T THEN {<<ch[1]>>}
                    ELSE Build(<<ch[1]>>, Range(Tail(ch)), T)
\* chainsEquivalent: same length or one longer, equal position by position
Equivalent(ch, p) == /\ (Len(p) = Len(ch) \/ Len(p) = Len(ch) + 1)
                     /\ \A i \in 1..Len(ch) : ch[i] = p[i]
CodeChainOK(ch, T) == \E p \in CodePaths(ch, T) : Equivalent(ch, p)
CodeShape(ch, T) == /\ CodeChainOK(ch, T) = ChainOK(ch, T)
                    \* every path the code can hand on is one the property allows (the code need not produce all of them:
                    \* a trusted leaf is never extended by a further trusted issuer)
                    /\ {p \in CodePaths(ch, T) : Equivalent(ch, p)} \subseteq Paths(ch, T)
=============================================================================
