\* NEGATIVE instance: a log that memoises verdicts by (log, leaf, route), a key too coarse (the rest of the chain and
\* the instant are missing); TLC must report JudgedAlone violated
CONSTANTS
  Depth = 1
  Steps = 0
  LogIds = {1, 2}
  MaxClock = 6
  Memory = "memoByLeaf"
  Configs <- SmallConfigs
  WalkChains <- SmallChains
  StartClocks <- SmallStarts
INIT SmallInit
NEXT SmallNext
VIEW SmallView
INVARIANTS JudgedAlone
CHECK_DEADLOCK FALSE
