-------------------------- MODULE GetEntriesRange --------------------------
(***************************************************************************)
(* The range computation of get-entries (C07), as a pure function.         *)
(*                                                                         *)
(* SpecRange is written from the property text with ordinary integers.     *)
(* CodeRange transcribes parseGetEntriesRange + the count computation of   *)
(* getEntries with explicit machine-word arithmetic: every intermediate    *)
(* result is wrapped to the word.  TLC integers are 32-bit while the code  *)
(* uses int64, so the word is SCALED: MaxWord plays the role of 2^63-1 and *)
(* values are drawn from a low cluster 0..K and a high cluster             *)
(* MaxWord-K..MaxWord.  MaxWord is chosen with (2^63-1-MaxWord) divisible  *)
(* by every batch size of the configuration, which makes the harness' map  *)
(*    v |-> v              (|v| small)                                      *)
(*    v |-> v + (2^63-1-MaxWord)   (v near MaxWord),  v - (...) near -MaxWord-1 *)
(* a homomorphism for + - < % including wrap-around, so each model case    *)
(* is one real int64 case.  CodeRangeOld is the computation before the     *)
(* repair of finding F4 (kept to show what TLC reports for it).            *)
(***************************************************************************)
EXTENDS Integers, TLC

CONSTANTS MaxWord,   \* scaled 2^63-1
          Maxes,     \* batch sizes (MaxGetEntriesAllowed)
          K          \* cluster width factor: values within K*max+1 of 0 and of MaxWord

\* the two clusters must not meet, otherwise a model value would stand for two different int64 values
ASSUME \A m \in Maxes : 2 * (K * m + 2) < MaxWord

Min(a, b) == IF a < b THEN a ELSE b
Modulus == 2 * (MaxWord + 1)
Wrap(x) == ((x + (MaxWord + 1)) % Modulus) - (MaxWord + 1)
\* Go's % truncates toward zero (sign of the dividend)
GoMod(a, b) == IF a >= 0 THEN a % b ELSE -((-a) % b)

Bad == [ok |-> FALSE, start |-> 0, count |-> 0]

(* ------------------------------------------------------------------ *)
(* what the property demands                                          *)
(* ------------------------------------------------------------------ *)
\* largest x in [lo, hi] with (x+1) % max = 0; the window always holds one when it has max elements
AlignedEnd(lo, hi, max) == CHOOSE x \in lo..hi : (x + 1) % max = 0 /\ \A y \in (x + 1)..hi : (y + 1) % max # 0

SpecRange(start, end, max, align) ==
  IF start < 0 \/ end < 0 \/ start > end THEN Bad
  ELSE LET e1 == Min(end, start + max - 1)
           e2 == IF align /\ end - start + 1 >= max THEN AlignedEnd(start, e1, max) ELSE e1
       IN [ok |-> TRUE, start |-> start, count |-> e2 - start + 1]

(* ------------------------------------------------------------------ *)
(* what the code computes (word arithmetic)                           *)
(* ------------------------------------------------------------------ *)
CodeRange(start, end, max, align) ==
  IF start < 0 \/ end < 0 \/ start > end THEN Bad
  ELSE LET span == Wrap(end - start)                                   \* cannot overflow for 0 <= start <= end
           end1 == IF span >= max THEN Wrap(Wrap(start + max) - 1) ELSE end
           span1 == IF span >= max THEN max - 1 ELSE span
           end2 == IF align /\ span1 >= max - 1
                   THEN Wrap(end1 - GoMod(Wrap(GoMod(end1, max) + 1), max))
                   ELSE end1
       IN [ok |-> TRUE, start |-> start, count |-> Wrap(Wrap(end2 + 1) - start)]

CodeRangeOld(start, end, max, align) ==
  IF start < 0 \/ end < 0 \/ start > end THEN Bad
  ELSE LET count == Wrap(Wrap(end - start) + 1)
           end1 == IF count > max THEN Wrap(Wrap(start + max) - 1) ELSE end
           end2 == IF align /\ count >= max
                   THEN Wrap(end1 - GoMod(Wrap(end1 + 1), max))
                   ELSE end1
       IN [ok |-> TRUE, start |-> start, count |-> Wrap(Wrap(end2 + 1) - start)]

(* ------------------------------------------------------------------ *)
(* case enumeration                                                   *)
(* ------------------------------------------------------------------ *)
\* boundary points: within 2 of every multiple of max up to K*max, counted up from 0 and down from MaxWord
Near(max) == {j * max + d : j \in 0..K, d \in -2..2}
Cluster(max) == {v \in Near(max) : v >= -2} \cup {MaxWord - v : v \in {x \in Near(max) : x >= 0}}

VARIABLE c
Cases == {[start |-> s, end |-> e, max |-> m, align |-> a] :
             m \in Maxes, s \in UNION {Cluster(x) : x \in Maxes}, e \in UNION {Cluster(x) : x \in Maxes}, a \in BOOLEAN}
          \* (restricted per case to the cluster of its own batch size)
CaseOK(x) == x.start \in Cluster(x.max) /\ x.end \in Cluster(x.max)

Init == c \in {x \in Cases : CaseOK(x)}
Next == UNCHANGED c

S(x) == SpecRange(x.start, x.end, x.max, x.align)

\* the laws of C07 on the specification itself
Laws == LET r == S(c) IN
        r.ok => /\ r.count >= 1
                /\ r.start = c.start
                /\ r.start + r.count - 1 <= c.end
                /\ r.count <= c.max
                /\ r.count <= SpecRange(c.start, c.end, c.max, FALSE).count     \* alignment only shortens

\* the code's word arithmetic computes the specified range for every valid request
CodeEqSpec == CodeRange(c.start, c.end, c.max, c.align) = S(c)
OldCodeEqSpec == CodeRangeOld(c.start, c.end, c.max, c.align) = S(c)
=============================================================================
