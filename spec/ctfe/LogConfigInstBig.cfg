\* exhaustive: the instance state machine
CONSTANTS
  MaxSize = 5
  FrozenSize = 2
  Depth = 0
INIT InitInst
NEXT NextInst
VIEW InstView
INVARIANTS FrozenOnly MirrorClamped
PROPERTIES MirrorClampedAct FrozenAcrossGrowth
CHECK_DEADLOCK FALSE
