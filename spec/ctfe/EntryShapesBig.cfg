CONSTANTS
  KeySet = {"p256", "p384", "rsa2048", "ed25519"}
  StorageSet = {"direct", "lru1", "lruBig", "noop"}
  Big = TRUE
INIT Init
NEXT Next
INVARIANTS LawAdmissible LawDetermined LawFinalIssuer LawCrossKept LawFieldsVerbatim LawEkuMembership Export
CHECK_DEADLOCK FALSE
