\* random walks of 18 entries over three logs (run with -simulate num=N -depth >= Steps + 3, -workers 1)
CONSTANTS
  Depth = 1
  Steps = 18
  LogIds = {1, 2, 3}
  MaxClock = 7
  Memory = "none"
  Configs = {}
  WalkChains = {}
  StartClocks = {}
INIT SimInit
NEXT SimNext
INVARIANTS JudgedAlone NothingRemembered WhenShape ExportWalk
PROPERTIES ConfigFixed Repeatable TimeForward
CHECK_DEADLOCK FALSE
