CONSTANTS
  TreeSize = 7
  MaxPage = 6
  Small = TRUE
  SmallLens = {4, 5, 6}
  Pattern <- MCPatternSmall
  Lens <- MCLens
  StartSet <- MCStartSet
  Caps <- MCCaps
  Dialects = {"memory"}
  Workers = {1, 2}
  MaxFaults = 1
  Threshold = 3
  Defect = "laterWorkerErrorLost"
  Depth = 1
INIT InitAny
NEXT NextPage
VIEW StateView
PROPERTIES UnfixableIsError
CHECK_DEADLOCK FALSE
