CONSTANTS
  MaxWord = 22807
  Maxes = {1, 2, 3, 4, 5, 8, 10, 1000}
  K = 6
INIT Init
NEXT Next
INVARIANTS Export
CHECK_DEADLOCK FALSE
