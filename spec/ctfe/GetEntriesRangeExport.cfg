CONSTANTS
  MaxWord = 7807
  Maxes = {1, 2, 3, 4, 1000}
  K = 3
INIT Init
NEXT Next
INVARIANTS Export
CHECK_DEADLOCK FALSE
