-------------------------- MODULE LogConfigHistMC --------------------------
(* Instances of LogConfigHist.                                                                                      *)
(*  - simulation (LogConfigHist.cfg / LogConfigHistDeep.cfg): TLC draws sessions (random walks over neighbouring   *)
(*    configurations, with repetition and return), checks the laws of the history on every state and exports each   *)
(*    finished walk with the verdicts of every call and the set of coarse memos the walk exposes;                   *)
(*  - exhaustive (LogConfigHistPairs.cfg): every session of HDepth calls over the frozen-STH components and the     *)
(*    key, the laws as invariants;                                                                                  *)
(*  - LogConfigHistMemo.cfg: model-level mutation test of the ghost (TLC must find a history that exposes a memo    *)
(*    of verified signatures that leaves the timestamp out of its key).                                             *)
EXTENDS LogConfigHist, Json

ASSUME HDepth \in Nat /\ HDepth >= 2

\* the instance machine of LogConfig.tla is not part of this layer: its variables stay put
Dummy == /\ kind = [isMirror |-> FALSE, isReadonly |-> FALSE, frozen |-> FALSE]
         /\ backend = 0 /\ source = {} /\ served = None /\ hist = <<>>
Still == UNCHANGED ivars
allvars == <<calls, last, exposed, kind, backend, source, served, hist>>

(* ---------- the configurations a session starts from: accepted, frozen ---------- *)
PlainBase == [logId |-> 1, prefix |-> "a", isReadonly |-> TRUE, privKey |-> "ok", isMirror |-> FALSE,
              start |-> TsAbsent, limit |-> TsAbsent, mmd |-> 0, expected |-> 0,
              rejectExpired |-> FALSE, rejectUnexpired |-> FALSE, ekus |-> "none",
              backend |-> "trillian", connStr |-> ConnEmpty]
Genuine == [ts |-> 1, size |-> 1, root |-> 1, sig |-> SigOf(1, 1, 1, 1), hashOk |-> TRUE]
Frozen(f) == [f |-> f, pub |-> "k1", sthP |-> TRUE, sth |-> Genuine]
Starts == {Frozen(PlainBase),                                                                  \* a frozen read-only log
           Frozen([PlainBase EXCEPT !.isMirror = TRUE, !.privKey = "absent", !.isReadonly = FALSE]),   \* a frozen mirror
           Frozen([PlainBase EXCEPT !.isReadonly = FALSE, !.start = Ts(1, 1), !.limit = Ts(1, 2), !.mmd = 10, !.expected = 5,
                                    !.rejectExpired = TRUE, !.ekus = "known", !.backend = "ctfe", !.connStr = ConnMysqlOK,
                                    !.prefix = "b"]),                                          \* every optional field in use
           Frozen([PlainBase EXCEPT !.rejectUnexpired = TRUE, !.limit = Ts(2, 0), !.mmd = 5, !.ekus = "any",
                                    !.backend = "ctfe", !.connStr = ConnPgOK])}        \* the other halves of the pairs
ASSUME \A p \in Starts, kt \in {"ecdsa", "rsa"} : Alone(p, kt) = <<TRUE, TRUE, TRUE>>

(* ---------- neighbours: one component changed ---------- *)
Domain(x) ==
  CASE x = "logId" -> {0, 1}               [] x = "prefix" -> PrefixStates
    [] x \in {"isReadonly", "isMirror", "rejectExpired", "rejectUnexpired", "sthP", "sthHashOk"} -> BOOLEAN
    [] x = "privKey" -> PrivKeyStates      [] x \in {"start", "limit"} -> TsStates
    [] x \in {"mmd", "expected"} -> DelayStates
    [] x = "ekus" -> EkuStates             [] x = "backend" -> BackendStates
    [] x = "connStr" -> ConnCore           [] x = "pubKey" -> HPubStates
    [] x \in {"sthTs", "sthSize", "sthRoot"} -> 1..2
    [] OTHER -> SigIds   \* sthSig
GetC(p, x) ==
  CASE x \in PlainFields -> p.f[x]        [] x = "pubKey" -> p.pub       [] x = "sthP" -> p.sthP
    [] x = "sthTs" -> p.sth.ts             [] x = "sthSize" -> p.sth.size [] x = "sthRoot" -> p.sth.root
    [] x = "sthSig" -> p.sth.sig           [] OTHER -> p.sth.hashOk
SetC(p, x, v) ==
  CASE x \in PlainFields -> [p EXCEPT !.f[x] = v]
    [] x = "pubKey" -> [p EXCEPT !.pub = v]          [] x = "sthP" -> [p EXCEPT !.sthP = v]
    [] x = "sthTs" -> [p EXCEPT !.sth.ts = v]        [] x = "sthSize" -> [p EXCEPT !.sth.size = v]
    [] x = "sthRoot" -> [p EXCEPT !.sth.root = v]    [] x = "sthSig" -> [p EXCEPT !.sth.sig = v]
    [] OTHER -> [p EXCEPT !.sth.hashOk = v]
\* the signature the presented key makes over the presented fields (none for a key that signs nothing)
Right(p) == IF KeyNo(p.pub) = 0 THEN p.sth.sig ELSE SigOf(KeyNo(p.pub), p.sth.ts, p.sth.size, p.sth.root)
\* the components of the message (the parts of an absent STH cannot be changed)
Live(p) == IF p.sthP THEN Components ELSE Components \ SthFields
KeyAndSth == {"pubKey", "sthP"} \cup SthFields

(* ---------- the walk: one successor per step ---------- *)
\* Neighbours are what matters: consecutive calls that differ in ONE component.  After an accepted call: 14 in 20 one
\* component changed (one time in three a component of the key / frozen STH, else any), 2 in 20 the same
\* configuration again, else the configuration of the call before.  After a rejected call: 13 in 20 back to the
\* configuration before it (valid - altered - valid gives both directions for the altered component), 2 in 20 again,
\* else one more component changed (so that the walk also reaches accepted configurations through rejected ones: the
\* altered STH re-signed, the altered STH dropped).
SimOpen == /\ Len(calls) = 0
           /\ \E p \in {RandomElement(Starts)}, kt \in {RandomElement({"ecdsa", "rsa"})}, rot \in {RandomElement(0..8)} :
                Call(p, kt, rot)
SimCall ==
  /\ Len(calls) > 0 /\ Len(calls) < HDepth
  /\ \E w \in {RandomElement(1..20)}, rot \in {RandomElement(0..8)}, g \in {RandomElement(1..3)}, h \in {RandomElement(1..2)} :
       LET prev == Newest.p
           kt == Newest.kt
           before == IF Len(calls) >= 2 THEN calls[Len(calls) - 1].p ELSE prev
           Mutated == \E x \in {RandomElement(IF g = 1 THEN Live(prev) \cap KeyAndSth ELSE Live(prev))} :
                        IF SthClass(prev) = "badSig" /\ h = 1 /\ prev.sth.sig # Right(prev)
                          THEN Call(SetC(prev, "sthSig", Right(prev)), kt, rot)                \* the altered STH, re-signed
                          ELSE \E v \in {RandomElement(Domain(x) \ {GetC(prev, x)})} : Call(SetC(prev, x, v), kt, rot)
       IN IF Newest.res[1] /\ Newest.res[2] /\ Newest.res[3]
            THEN CASE w \in 1..14 -> Mutated
                   [] w \in 15..16 -> Call(prev, kt, rot)
                   [] OTHER -> Call(before, kt, rot)
            ELSE CASE w \in 1..13 -> Call(before, kt, rot)
                   [] w \in 14..15 -> Call(prev, kt, rot)
                   [] OTHER -> Mutated
\* Simulation evaluates invariants on every candidate successor: the export hangs on a unique closing step.
End == [op |-> "End"]
Finish == /\ Len(calls) = HDepth
          /\ calls' = Append(calls, End)
          /\ UNCHANGED <<last, exposed>>
SimInit == HInit /\ Dummy
SimNext == (SimOpen \/ SimCall \/ Finish) /\ Still

Row(h) == [p |-> h.p, kt |-> h.kt, rot |-> h.rot, c |-> CfgOf(h.p, h.kt), res |-> h.res, why |-> WhyNot(h.p, h.kt),
           hands |-> h.hands, changed |-> h.changed]
ExportWalk ==
  (Len(calls) = HDepth + 1) =>
     PrintT(<<"WALK", ToJson([calls |-> [i \in 1..HDepth |-> Row(calls[i])], exposed |-> exposed, required |-> Required])>>)

(* ---------- exhaustive: every session of HDepth calls over the key and the frozen STH ---------- *)
PairConfigs == {[Frozen(PlainBase) EXCEPT !.pub = k, !.sth = s] : k \in {"k1", "k2"}, s \in SthRecs}
PairNext == /\ Len(calls) < HDepth
            /\ \E p \in PairConfigs : Call(p, "ecdsa", 0)
            /\ Still
PairView == <<calls, exposed>>
\* the two calls that tell a memo of verified signatures without the timestamp from the function: the genuine frozen log,
\* then the same message with another timestamp (signature bytes untouched)
MemoTsFound == LET a == Frozen(PlainBase)
                   b == [a EXCEPT !.sth.ts = 2]
               IN /\ Alone(a, "ecdsa")[1] /\ ~Alone(b, "ecdsa")[1]
                  /\ Changed(Args(a), Args(b)) = {"sthTs"}
                  /\ a \in PairConfigs /\ b \in PairConfigs
ASSUME MemoTsFound

\* model-level mutation test of the ghost (LogConfigHistMemo.cfg): an implementation that memoises on everything but the
\* timestamp of the frozen STH agrees with the function on every reachable history.  TLC must report this violated.
MemoTsAgrees == <<"sthTs", "accept">> \notin exposed
=============================================================================
