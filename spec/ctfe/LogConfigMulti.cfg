CONSTANTS
  MaxSize = 4
  FrozenSize = 2
  Depth = 0
INIT InitMulti
NEXT Stay
INVARIANTS MultiSanity ExportMulti
CHECK_DEADLOCK FALSE
