---------------------------- MODULE MCLogConfig ----------------------------
(* Model-checking instances of LogConfig: case sets (single configs, config sets, multi-configs), *)
(* random draws from the full product, and the instance state machine (exhaustive, cover, walks). *)
EXTENDS LogConfig, Json

CONSTANT Depth    \* length of exported instance behaviours

VARIABLE c        \* the case under analysis (Part 1)

vars == <<c, kind, backend, source, served, hist>>

(* ------------------------------------------------------------------------ *)
(* Part 1: case sets                                                        *)
(* ------------------------------------------------------------------------ *)
Override(b, r) == [f \in DOMAIN b |-> IF f \in DOMAIN r THEN r[f] ELSE b[f]]

\* a plain regular log: the smallest accepted configuration
Base == [logId |-> 1, prefix |-> "a", isReadonly |-> FALSE,
         pubKey |-> "absent", privKey |-> "ok", isMirror |-> FALSE, frozenSth |-> "absent",
         start |-> TsAbsent, limit |-> TsAbsent, mmd |-> 0, expected |-> 0,
         rejectExpired |-> FALSE, rejectUnexpired |-> FALSE, ekus |-> "none",
         backend |-> "trillian", connStr |-> ConnEmpty, backendName |-> ""]
MirrorBase == [Base EXCEPT !.isMirror = TRUE, !.pubKey = "ecdsa", !.privKey = "absent"]
FrozenBase == [Base EXCEPT !.pubKey = "ecdsa", !.frozenSth = "okSigned", !.isReadonly = TRUE]
\* every optional field in use
RichBase == [Base EXCEPT !.pubKey = "rsa", !.start = Ts(1, 2), !.limit = Ts(2, 1), !.mmd = 10, !.expected = 5,
                         !.rejectExpired = TRUE, !.ekus = "known", !.backend = "ctfe", !.connStr = ConnMysqlOK,
                         !.prefix = "b"]
Bases == {Base, MirrorBase, FrozenBase, RichBase}

\* In products with other groups the window varies over a core of bound states: absent, two instants inside one second,
\* an instant in a later second with smaller nanos, an invalid timestamp.  The full product of bound states (31 x 31) is
\* swept on its own over every base (WindowSweep).
TsCore == {TsAbsent, Ts(1, 1), Ts(1, 2), Ts(2, 0), Ts(1, 3)}
WindowCore == [start : TsCore, limit : TsCore]
\* in the triples: absent, two instants inside one second, an invalid timestamp
WindowSlim == [start : TsCore \ {Ts(2, 0)}, limit : TsCore \ {Ts(2, 0)}]
\* every named spelling of "the frozen STH does not verify" with every state of the keys and the log kind, over every base
FrozenSweepGroup == [pubKey : PubKeyStates, privKey : PrivKeyStates, isMirror : BOOLEAN, frozenSth : BadSigSpellings]
\* every shape of the connection string with either backend, over every base
ConnSweepGroup == [backend : BackendStates, connStr : ConnStates]
Groups == <<KeyGroup, WindowCore, DelayGroup, RejectGroup, EkuGroup, StorageGroup, IdentGroup>>

\* The case set: every pair of field groups in full product with the rest as in a base, and some triples.
\* Written as a disjunction of existentials (TLC enumerates it as initial states and removes duplicates by
\* fingerprint; a UNION of large sets costs quadratic time in TLC).
GroupPairs == {q \in (1..7) \X (1..7) : q[1] < q[2]}
RejectEku == {x @@ y : x \in RejectGroup, y \in EkuGroup}
Triple(b, G1, G2, G3) == \E x \in G1, y \in G2, z \in G3 : c = Override(b, x @@ y @@ z)
IsSingleCase ==
  \/ \E b \in Bases, p \in GroupPairs : \E x \in Groups[p[1]], y \in Groups[p[2]] : c = Override(b, x @@ y)
  \/ \E b \in Bases, x \in WindowGroup : c = Override(b, x)                                      \* WindowSweep
  \/ \E b \in Bases, x \in FrozenSweepGroup : c = Override(b, x)                                 \* FrozenSweep
  \/ \E b \in Bases, x \in ConnSweepGroup : c = Override(b, x)                                   \* ConnSweep
  \/ Triple(Base, KeyGroup, WindowSlim, DelayGroup)
  \/ Triple(Base, KeyGroup, StorageGroup, RejectEku)
  \/ Triple(Base, KeyGroup, StorageGroup, IdentGroup)
  \/ Triple(Base, KeyGroup, IdentGroup, RejectEku)
  \/ Triple(Base, KeyGroup, DelayGroup, StorageGroup)
  \/ Triple(Base, KeyGroup, WindowSlim, StorageGroup)
  \/ Triple(RichBase, WindowSlim, DelayGroup, StorageGroup)

AllFields == DOMAIN Base
TypeOKSingle == DOMAIN c = AllFields /\ c.frozenSth \in FrozenFine /\ c.connStr \in ConnStates

\* the decision structure of ValidateLogConfig, one branch per return statement (cross-check of Valid,
\* which is written from the property text, against config.go; "mysql" is the input on which the code
\* indexes past the end of strings.Split - the branch says what its error handling intends)
\* timestamppb.CheckValid (range of both components) and AsTime (one instant on a single axis; 3 nano ranks per second)
CheckValid(t) == t.sec >= -1 /\ t.sec <= 2 /\ t.nanos >= 0 /\ t.nanos < 3
Instant(t) == t.sec * 3 + t.nanos
CodeAccepts(x) ==
  IF x.logId = 0 THEN FALSE
  ELSE IF x.pubKey = "garbage" THEN FALSE
  ELSE IF x.pubKey = "absent" /\ x.isMirror THEN FALSE
  ELSE IF x.pubKey = "absent" /\ x.frozenSth # "absent" THEN FALSE
  ELSE IF ~x.isMirror /\ x.privKey # "ok" THEN FALSE
  ELSE IF x.isMirror /\ x.privKey # "absent" THEN FALSE
  ELSE IF x.rejectExpired /\ x.rejectUnexpired THEN FALSE
  ELSE IF x.ekus \in {"unknown", "unknownThenAny", "anyThenUnknown"} THEN FALSE   \* every name is looked up, Any or not
  ELSE IF x.start.p /\ ~CheckValid(x.start) THEN FALSE
  ELSE IF x.limit.p /\ ~CheckValid(x.limit) THEN FALSE
  ELSE IF x.start.p /\ x.limit.p /\ Instant(x.limit) < Instant(x.start) THEN FALSE   \* time.Time.Before on the converted instants
  ELSE IF x.mmd < 0 \/ x.expected < 0 \/ x.expected > x.mmd THEN FALSE
  ELSE IF x.frozenSth \notin {"absent", "okSigned"} THEN FALSE     \* ToSignedTreeHead / VerifySTHSignature, on every call
  ELSE IF x.backend = "ctfe" THEN
         LET s == ShapeOf[x.connStr] IN
         IF s.scheme = "none" /\ s.seps = 0 /\ s.rest = "empty" THEN FALSE                      \* the empty string: "missing"
         ELSE IF s.scheme = "mysql" THEN s.seps = 1 /\ DriverParses(s)                          \* Split gives two parts, ParseDSN accepts
         ELSE IF s.scheme \in {"postgres", "postgresql"} THEN s.seps = 1 /\ DriverParses(s)     \* as the storage layer splits it
         ELSE FALSE                                                                             \* unsupported driver
  ELSE TRUE
TextMatchesCode == Valid(c) = CodeAccepts(c)
\* the two readings of "usable" coincide on every shape, and the shapes have distinct names
ASSUME \A s \in ConnShapes : Usable(s) = StorageOpens(s)
ASSUME \A s, t \in ConnShapes : ConnName(s) = ConnName(t) => s = t
ASSUME ConnCore \subseteq ConnStates /\ Cardinality(ConnShapes) = 162

Dummy == /\ kind = [isMirror |-> FALSE, isReadonly |-> FALSE, frozen |-> FALSE]
         /\ backend = 0 /\ source = {} /\ served = None /\ hist = <<>>

Failed(x) == LET k == Clauses(x) IN {f \in DOMAIN k : ~k[f]}

InitSingle == IsSingleCase /\ Dummy
Stay == UNCHANGED vars
\* the same config as a one-element set and as a one-log multi-config (as ToMultiLogConfig wraps it)
AsMulti(x) == [bPresent |-> TRUE, backends |-> <<[name |-> "default", spec |-> "spec"]>>, lPresent |-> TRUE,
               logs |-> <<[x EXCEPT !.backendName = "default"]>>]
FailedIn(k) == {f \in DOMAIN k : ~k[f]}
ExportSingle == PrintT(<<"CASE", ToJson([c |-> c, valid |-> Valid(c), failed |-> Failed(c),
                                         validAsSet |-> ValidSet(<<c>>), validAsMulti |-> ValidMulti(AsMulti(c)),
                                         usable |-> c.connStr \in UsableConn,
                                         handlers |-> IF Valid(c) THEN Handlers(c) ELSE {},
                                         validated |-> ValidatedWindow(c)])>>)

(* --- random draws from the full product of field states (seeded simulation) --- *)
Draw == /\ c = None
        /\ c' = [logId |-> RandomElement({0, 1}), prefix |-> RandomElement(PrefixStates),
                 isReadonly |-> RandomElement(BOOLEAN),
                 pubKey |-> RandomElement(PubKeyStates), privKey |-> RandomElement(PrivKeyStates),
                 isMirror |-> RandomElement(BOOLEAN), frozenSth |-> RandomElement(FrozenFine),
                 start |-> RandomElement(TsStates), limit |-> RandomElement(TsStates),
                 mmd |-> RandomElement(DelayStates), expected |-> RandomElement(DelayStates),
                 rejectExpired |-> RandomElement(BOOLEAN), rejectUnexpired |-> RandomElement(BOOLEAN),
                 ekus |-> RandomElement(EkuStates), backend |-> RandomElement(BackendStates),
                 connStr |-> RandomElement(ConnStates), backendName |-> ""]
        /\ UNCHANGED <<kind, backend, source, served, hist>>
\* a second draw biased towards accepted configurations: a base with three groups redrawn
DrawNear == /\ c = None
            /\ \E b \in {RandomElement(Bases)}, x \in {RandomElement(KeyGroup)}, y \in {RandomElement(StorageGroup)},
                  z \in {RandomElement(WindowGroup)}, w \in {RandomElement(IdentGroup)}, k \in {RandomElement(1..4)} :
                  c' = CASE k = 1 -> Override(b, x @@ y @@ w)
                         [] k = 2 -> Override(b, x @@ z @@ w)
                         [] k = 3 -> Override(b, y @@ z @@ w)
                         [] OTHER -> Override(b, x @@ y @@ z @@ w)
            /\ UNCHANGED <<kind, backend, source, served, hist>>
InitDraw == c = None /\ Dummy
NextDraw == \E k \in {RandomElement(1..2)} : IF k = 1 THEN Draw ELSE DrawNear
ExportDraw == c # None => (TextMatchesCode /\ ExportSingle)

(* --- sets of configs for one backend (ValidateLogConfigs) --- *)
SetLogs == {Override(Base, r) : r \in [logId : {0, 1, 2}, prefix : PrefixStates, privKey : {"ok", "absent"}]}
SeqsUpTo2(S) == {<<>>} \cup {<<x>> : x \in S} \cup {<<x, y>> : x \in S, y \in S}
InitSet == c \in SeqsUpTo2(SetLogs) /\ Dummy
ExportSet == PrintT(<<"SETCASE", ToJson([logs |-> c, valid |-> ValidSet(c), failed |-> FailedIn(SetClauses(c)),
                                           loadable |-> LoadableSet(c)])>>)

(* --- multi-configs (ValidateLogMultiConfig) --- *)
\* the log configs of a multi-config vary in four fields, the rest is Base
SlimLogs == [logId : {1, 2}, prefix : PrefixStates, backendName : {"", "A", "B"}, privKey : {"ok", "absent"}]
BackendRecs == [name : {"", "A", "B"}, spec : {"", "s1", "s2"}]
\* a set of records (enumerated lazily by TLC); an absent message has no elements
MultiCases == [bPresent : BOOLEAN, backends : SeqsUpTo2(BackendRecs), lPresent : BOOLEAN, logs : SeqsUpTo2(SlimLogs)]
WellFormedCase(m) == (~m.bPresent => m.backends = <<>>) /\ (~m.lPresent => m.logs = <<>>)
FullMulti(m) == [m EXCEPT !.logs = [i \in 1..Len(m.logs) |-> Override(Base, m.logs[i])]]
InitMulti == c \in MultiCases /\ WellFormedCase(c) /\ Dummy
ExportMulti == PrintT(<<"MULTICASE", ToJson([m |-> c, valid |-> ValidMulti(FullMulti(c)),
                                               failed |-> FailedIn(MultiClauses(FullMulti(c))), loadable |-> LoadableMulti(c)])>>)
ASSUME PrintT(<<"BASE", ToJson(Base)>>)

\* sanity of the specification itself
MultiSanity == LET m == FullMulti(c) IN
               ValidMulti(m) => /\ \A i \in 1..Len(m.logs) : Valid(m.logs[i])
                                /\ Len(m.logs) > 0 => Len(m.backends) > 0
\* tree IDs need only be unique per backend: the multi form accepts what the single-backend form refuses
PerBackendWitness ==
  LET m == [bPresent |-> TRUE, backends |-> <<[name |-> "A", spec |-> "s1"], [name |-> "B", spec |-> "s2"]>>, lPresent |-> TRUE,
            logs |-> <<Override(Base, [backendName |-> "A"]), Override(Base, [backendName |-> "B", prefix |-> "b"])>>]
  IN ValidMulti(m) /\ ~ValidSet(m.logs)
ASSUME PerBackendWitness

(* ------------------------------------------------------------------------ *)
(* Part 2: the instance                                                     *)
(* ------------------------------------------------------------------------ *)
InitInst == InstInit /\ c = None
NextInst == InstNext /\ UNCHANGED c
InstView == <<kind, backend, source, served>>

\* transition cover: every (state reachable in Depth-1 steps) x (every action) ends one behaviour
CoverNext == Len(hist) < Depth /\ NextInst
CoverView == <<kind, backend, source, served, IF Len(hist) >= Depth THEN hist[Depth] ELSE None>>
ExportAtDepth == Len(hist) = Depth => PrintT(<<"BEH", ToJson([kind |-> kind, steps |-> hist])>>)

\* random walks: one successor per step, Get after most changes
End == [op |-> "End", n |-> 0, backend |-> 0, reply |-> None]
Finish == Len(hist) = Depth /\ hist' = Append(hist, End) /\ UNCHANGED <<c, kind, backend, source, served>>
SimStep ==
  /\ Len(hist) < Depth
  /\ UNCHANGED c
  /\ \E r \in {RandomElement(1..10)}, n \in {RandomElement(1..2)}, s \in {RandomElement(0..MaxSize)} :
        IF r <= 3 /\ backend + n <= MaxSize THEN Grow(n)
        ELSE IF r <= 7 /\ kind.isMirror /\ s \notin source THEN Learn(s)
        ELSE Get
SimNext == SimStep \/ Finish
ExportFinished == (Len(hist) = Depth + 1) => PrintT(<<"BEH", ToJson([kind |-> kind, steps |-> SubSeq(hist, 1, Depth)])>>)
=============================================================================
