\* quick: base chains and every single perturbation x 7 trusted sets; 2160 option combinations x 2 endpoints per state
CONSTANTS
  Depth = 1
INIT Init
NEXT Next
INVARIANTS Laws Export
CHECK_DEADLOCK FALSE
