\* exhaustive: one front end, clocks 0..2 (backend clock and front-end clock apart), 2 certificates, tree <= 2, signer / backend faults
CONSTANTS
  Certs = {"x1", "p1"}
  Precerts = {"p1"}
  MaxClock = 2
  MaxTree = 2
  FrontEnds = {"A"}
  CacheWriteFirst = FALSE
  Depth = 0
INIT Init
NEXT MCNext
VIEW ExhaustiveView
INVARIANTS TypeOK STHFaithful STHVerifies SignedHeadCoherent DupStable SCTBindsStored SingleIndex QueueSound
PROPERTIES STHStep AppendOnly StoredNeverRestamped DupIgnoresClock SCTOnlyOn200 FailedRequestLeavesNothing
CHECK_DEADLOCK FALSE
