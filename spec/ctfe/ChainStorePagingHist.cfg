CONSTANTS
  TreeSize = 7
  MaxPage = 6
  Small = TRUE
  SmallLens = {4}
  Pattern <- MCPatternSmall
  Lens <- MCLens
  StartSet <- MCStartSet
  Caps <- MCCaps
  Dialects = {"memory"}
  Workers = {1, 2}
  MaxFaults = 2
  Threshold = 3
  Defect = "none"
  Depth = 1
INIT Init
NEXT NextHist
VIEW StateView
INVARIANTS CacheFromLookups
PROPERTIES PageWhole UnfixableIsError PlanIrrelevant LegacyNeedsNoLookup ConfigFixed PageLeavesState
CHECK_DEADLOCK FALSE
