CONSTANTS
  Certs = {"x1", "x3", "p1"}
  ChainOf <- MCChainOf
  NoCache = FALSE
  Cap = 2
  MaxTree = 2
  MaxFaults = 1
  Depth = 0
INIT Init
NEXT Next
VIEW StateView
CONSTRAINT PendingBound
INVARIANTS CacheSound CacheBounded
PROPERTIES SameAsDirect FaultIsError RangeWhole LegacyUnchanged AckAfterStore CacheFromStore StoreMonotone ServableStays RestartIsCold
CHECK_DEADLOCK FALSE
