------------------------ MODULE ChainAdmissionWorld ------------------------
(* The world of the ChainAdmission models: one certificate hierarchy (genuine certificates, forged twins, bytes   *)
(* that do not parse), the sets of trusted certificates a log may be configured with, base chains and their      *)
(* perturbations, and the table of admission options (2160 combinations).  Constant level: no variables.  Used  *)
(* by MCChainAdmission (case analysis: every chain x trusted pool is a state) and by ChainAdmissionLog (a log   *)
(* serving requests one after the other while the clock advances).  The tables the harness materializes are    *)
(* exported once per TLC run (OPTS, CERTS, TRUST).                                                             *)
(* Key identifiers: a CA certificate carries the identifier of its key (ski = the key token), every certificate  *)
(* that is not self-issued the identifier of its signer's key (aki) - unless it says otherwise below.  DECOYS are  *)
(* self-signed CA certificates that share exactly one of (key and identifier, name) with a CA of the hierarchy:   *)
(* the key under another name (R1n, I1n, I2n, Pn) or the name with another key (R1k, I1k).  A decoy in the trusted *)
(* pool is found by the candidate lookup and does not link; the decoy pools (TSets) pair them with a root under     *)
(* which the submitted chain is in order, so that the search has to go past the decoy.                            *)
EXTENDS ChainAdmission, Integers, Json, TLC

CONSTANT Depth     \* number of stacked perturbations: 1 or 2

(* ---------- the hierarchy ---------- *)
\* instants: end-entity certificates expire at 4, CA certificates at 5; bounds and "now" are placed around them
CAcert(id, subj, issuer, key, signer) ==
  [id |-> id, parses |-> TRUE, subj |-> subj, issuer |-> issuer, key |-> key, signer |-> signer, isCA |-> TRUE,
   ski |-> key, aki |-> IF subj = issuer THEN "none" ELSE signer,
   ekus |-> {}, poison |-> "none", notAfter |-> 5, exts |-> {}]
EE(id, issuer, signer, ekus, poison, exts) ==
  [id |-> id, parses |-> TRUE, subj |-> id, issuer |-> issuer, key |-> "k" \o id, signer |-> signer, isCA |-> FALSE,
   ski |-> "none", aki |-> signer,
   ekus |-> ekus, poison |-> poison, notAfter |-> 4, exts |-> exts]

\* the NotAfter dimension: one end-entity certificate under I1 expiring at every instant a window bound may name (W4
\* expires with the other leaves, W5 with the CA certificates); MCChainAdmissionWin.tla crosses them with every window
WinTicks == 1..8
WinLeafId(k) == "W" \o ToString(k)
WinLeaves == {[EE(WinLeafId(k), "I1", "kI1", {"server"}, "none", {}) EXCEPT !.notAfter = k] : k \in WinTicks}

Genuine == {
  CAcert("R1",  "R1", "R1", "kR1", "kR1"),                 \* root
  CAcert("R2",  "R2", "R2", "kR2", "kR2"),                 \* second root
  CAcert("R1b", "R1", "R1", "kR1", "kR1"),                 \* R1 re-issued: same name and key, other certificate
  CAcert("R1n", "R1n", "R1n", "kR1", "kR1"),               \* R1's key under another name
  CAcert("R1x", "R1", "R2", "kR1", "kR2"),                 \* R1 cross-signed by R2 (R1 itself links to it)
  CAcert("I1",  "I1", "R1", "kI1", "kR1"),                 \* intermediate under R1
  CAcert("I1x", "I1", "R2", "kI1", "kR2"),                 \* the same intermediate cross-signed by R2
  CAcert("I2",  "I2", "I1", "kI2", "kI1"),                 \* second-level intermediate
  [CAcert("P",  "P",  "I1", "kP",  "kI1") EXCEPT !.ekus = {"ct"}],   \* precertificate signing certificate
  CAcert("U",   "U",  "U",  "kU",  "kU"),                  \* unrelated self-signed CA
  CAcert("I1n", "I1n", "I1n", "kI1", "kI1"),               \* decoys: I1's key (and key identifier) under another name,
  CAcert("I2n", "I2n", "I2n", "kI2", "kI2"),               \*   I2's,
  CAcert("Pn",  "Pn",  "Pn",  "kP",  "kP"),                \*   the pre-issuer's;
  CAcert("R1k", "R1", "R1", "kR1k", "kR1k"),               \*   R1's name with another key,
  CAcert("I1k", "I1", "I1", "kI1k", "kI1k"),               \*   I1's name with another key
  [CAcert("I1a", "I1", "R1", "kI1", "kR1") EXCEPT !.aki = "none"],   \* I1 as issued without an authority key identifier
  [EE("L1a", "I1", "kI1", {}, "none", {}) EXCEPT !.aki = "none"],    \* a leaf without one: its issuer is found by name
  EE("L2",  "I2", "kI2", {"server"}, "none", {}),
  EE("L1",  "I1", "kI1", {}, "none", {}),                  \* no EKU extension
  EE("LE",  "I2", "kI2", {"email", "client"}, "none", {}),
  EE("LX",  "I2", "kI2", {"server"}, "none", {"X"}),       \* carries an extension a log may forbid
  EE("LP",  "P",  "kP",  {"server"}, "ok", {}),            \* precertificate issued by the pre-issuer
  EE("LQ",  "I2", "kI2", {"server"}, "ok", {}),            \* precertificate issued by the CA itself
  EE("LNC", "I2", "kI2", {"server"}, "noncritical", {}),   \* malformed poison
  EE("LNN", "I2", "kI2", {"server"}, "nonnull", {}),
  EE("LNT", "I2", "kI2", {"server"}, "nullTrailing", {}),
  EE("LNV", "I2", "kI2", {"server"}, "nullTrailingTLV", {}),
  EE("LWT", "I2", "kI2", {"server"}, "wrongTag", {}),
  EE("LLF", "I2", "kI2", {"server"}, "longFormNull", {}),
  EE("LEV", "I2", "kI2", {"server"}, "empty", {}),
  [EE("LCA", "I1", "kI1", {}, "none", {}) EXCEPT !.isCA = TRUE, !.ski = "kLCA"],     \* a CA certificate submitted as leaf
  [EE("LL",  "L1", "kL1", {"server"}, "none", {}) EXCEPT !.aki = "none"]   \* signed with the key of L1, which is not a CA (and has no key identifier)
} \cup WinLeaves
\* same fields, signature verifies under no key
Twin(c) == [c EXCEPT !.id = c.id \o "~f", !.signer = "bad"]
\* bytes that do not decode
Bad == [id |-> "BAD", parses |-> FALSE, subj |-> "", issuer |-> "", key |-> "", signer |-> "", isCA |-> FALSE,
        ski |-> "none", aki |-> "none", ekus |-> {}, poison |-> "none", notAfter |-> 0, exts |-> {}]
ASSUME KeyIdsAgree(Genuine)
\* every certificate of the hierarchy in every encoding, followed by every trailer (ChainAdmission: Form); the DER
\* form followed by nothing is the certificate itself
FormsOf(c) == {Form(c, f[1], f[2]) : f \in (Encs \X Trailers) \ {<<"der", "none">>}}
FormCerts == UNION {FormsOf(c) : c \in Genuine}
AllCerts == Genuine \cup {Twin(c) : c \in Genuine} \cup {Bad} \cup FormCerts
GenuineIds == {c.id : c \in Genuine}
CertIds == {c.id : c \in AllCerts}
Cert == [i \in CertIds |-> CHOOSE c \in AllCerts : c.id = i]
Recs(s) == [i \in 1..Len(s) |-> Cert[s[i]]]
Ids(p) == [i \in 1..Len(p) |-> p[i].id]

\* which certificates a log trusts (TI: also an intermediate; TB, T1B: the re-issued root; TN: the renamed root only;
\* TS: the root R1 in an encoding with a padded INTEGER - another certificate with R1's name and key).
\* Decoy pools: a root under which chains are in order next to decoys that the candidate lookup finds first -
\*   TD1: under R1, the keys of I1, I2 and P under other names (every certificate below R1 hits one by identifier)
\*   TD2: under R2, R1's key under another name (hit by identifier from I1; the path goes on through the submitted R1x)
\*   TD3: under R2, R1's and I1's names with other keys (hit by name: no identifier matches in the pool)
\*   TD4: under R2, all of them
TSets == [T1 |-> {"R1"}, T2 |-> {"R2"}, T12 |-> {"R1", "R2"}, TI |-> {"R1", "I1"}, TB |-> {"R1b"}, T1B |-> {"R1", "R1b"},
          TN |-> {"R1n"},
          TS |-> {FormId("R1", "serialPad", "none")},       \* the root as a roots file holds it with a padded serial number
          TD1 |-> {"R1", "I1n", "I2n", "Pn"}, TD2 |-> {"R2", "R1n"}, TD3 |-> {"R2", "R1k", "I1k"},
          TD4 |-> {"R2", "R1n", "R1k", "I1n", "I1k", "I2n"}]
TNames == DOMAIN TSets
DecoyPools == {"TD1", "TD2", "TD3", "TD4"}
PlainPools == TNames \ DecoyPools
ClassicPools == PlainPools \ {"TS"}
TRecs(n) == {Cert[i] : i \in TSets[n]}

(* ---------- chains ---------- *)
Bases == {
  <<"L2", "I2", "I1">>, <<"L2", "I2", "I1", "R1">>, <<"L2", "I2", "I1x">>, <<"L2", "I2", "I1x", "R2">>,
  <<"L2", "I2", "I1", "R1b">>,
  <<"L1", "I1">>, <<"L1", "I1", "R1">>, <<"L1", "I1x", "R2">>, <<"L1", "I1", "R1x", "R2">>, <<"L1", "I1", "R1", "R1x", "R2">>,
  <<"L2", "I2", "I1", "R1x">>, <<"LP", "P", "I1", "R1x", "R2">>,
  <<"L1a", "I1">>, <<"L1", "I1a", "R1">>, <<"L1a", "I1a", "R1x">>,
  <<"LP", "P", "I1">>, <<"LP", "P", "I1", "R1">>, <<"LP", "P", "I1x", "R2">>,
  <<"LQ", "I2", "I1">>, <<"LQ", "I2", "I1", "R1">>,
  <<"LCA", "I1">>, <<"LCA", "I1", "R1">>,
  <<"LE", "I2", "I1">>, <<"LE", "I2", "I1", "R1">>,
  <<"LX", "I2", "I1", "R1">>,
  <<"LNC", "I2", "I1">>, <<"LNC", "I2", "I1", "R1">>, <<"LNN", "I2", "I1", "R1">>,
  <<"LL", "L1", "I1", "R1">>,
  <<"I2", "I1", "R1">>, <<"I1">>, <<"R1">>, <<"R1b">> }

Insertable == {"U", "I1x", "I2", "P", "R2", "R1", "R1b", "R1n", "I1"}

DropAt(s, i) == SubSeq(s, 1, i - 1) \o SubSeq(s, i + 1, Len(s))
InsertAt(s, i, x) == SubSeq(s, 1, i - 1) \o <<x>> \o SubSeq(s, i, Len(s))      \* x becomes element i
SwapAt(s, i) == [s EXCEPT ![i] = s[i + 1], ![i + 1] = s[i]]
Pt(tag, ch) == [tag |-> tag, ch |-> ch]
Perturb(s) ==
  {Pt("drop", DropAt(s, i)) : i \in IF Len(s) > 1 THEN 1..Len(s) ELSE {}}            \* incl. "remove root"
  \cup {Pt("swap", SwapAt(s, i)) : i \in 1..Len(s) - 1}
  \cup {Pt("dup", InsertAt(s, i + 1, s[i])) : i \in 1..Len(s)}
  \cup {Pt("dup", Append(s, s[i])) : i \in 1..Len(s) - 1}
  \cup {Pt("insert", InsertAt(s, i, x)) : i \in 1..Len(s) + 1, x \in Insertable \ Range(s)}   \* incl. "append root"
  \cup {Pt("forge", [s EXCEPT ![i] = s[i] \o "~f"]) : i \in {j \in 1..Len(s) : s[j] \in GenuineIds}}
  \cup {Pt("garble", [s EXCEPT ![i] = "BAD"]) : i \in 1..Len(s)}

\* one entry of the submission in another form: the same certificate in another encoding and / or followed by a trailer
\* (every position, every encoding x trailer but the certificate itself).  The tag names the class of the entry.
FormTag(e, t) == "entry:" \o e \o "+" \o t
FormPerturb(s) ==
  {Pt(FormTag(f[1], f[2]), [s EXCEPT ![i] = FormId(s[i], f[1], f[2])]) :
      i \in {j \in 1..Len(s) : s[j] \in GenuineIds}, f \in (Encs \X Trailers) \ {<<"der", "none">>}}

\* chains submitted as they are only (their perturbations would repeat those of the LNC / LNN chains): the further
\* malformed-poison leaves
PlainBases == {<<l, "I2", "I1", "R1">> : l \in {"LNT", "LNV", "LWT", "LLF", "LEV"}}
              \cup {<<l, "I2", "I1">> : l \in {"LNT", "LNV"}}
P0 == {[tags |-> <<>>, ch |-> b] : b \in Bases \cup PlainBases}
P1 == UNION {{[tags |-> <<q.tag>>, ch |-> q.ch] : q \in Perturb(b)} : b \in Bases}
Ch01 == {p.ch : p \in P0 \cup P1}
Ch2 == IF Depth >= 2 THEN UNION {{q.ch : q \in Perturb(c)} : c \in {p.ch : p \in P1}} \ Ch01 ELSE {}
\* every chain x every plain pool; the decoy pools with the chains as submitted and the perturbations that keep the
\* length or shorten (Depth 2: all single perturbations)
DecoyTags == IF Depth >= 2 THEN {"drop", "swap", "dup", "insert", "forge", "garble"} ELSE {"drop", "swap", "forge"}
\* the pools the forms are submitted to: every form under R1; the encodings without a trailer (the forms that may be read)
\* also under R2, under R1 and a trusted intermediate, under the padded root
FormPools == {"T1", "T2", "TI", "TS"}
PF == UNION {{[tags |-> <<q.tag>>, ch |-> q.ch] : q \in FormPerturb(b)} : b \in Bases}
PFBare == {p \in PF : \E e \in Encs : p.tags[1] = FormTag(e, "none")}
Cases == {[ch |-> p.ch, tags |-> p.tags, T |-> t] : p \in P0 \cup P1, t \in ClassicPools}
         \cup {[ch |-> p.ch, tags |-> p.tags, T |-> "TS"] : p \in P0 \cup {q \in P1 : q.tags[1] \in {"drop", "swap", "forge"}}}
         \cup {[ch |-> p.ch, tags |-> p.tags, T |-> "T1"] : p \in PF}
         \cup {[ch |-> p.ch, tags |-> p.tags, T |-> t] : p \in PFBare, t \in FormPools}
         \cup {[ch |-> p.ch, tags |-> p.tags, T |-> t] : p \in P0 \cup {q \in P1 : q.tags[1] \in DecoyTags}, t \in DecoyPools}
         \cup {[ch |-> c, tags |-> <<"two">>, T |-> t] : c \in Ch2, t \in ClassicPools}

(* ---------- the option table ---------- *)
N == NoBound
Starts == <<N, At(4), At(5)>>
Limits == <<N, At(4), At(5)>>
\* <<rejectExpired, rejectUnexpired, now>>; now = 0 / 9: before / after every NotAfter of the hierarchy
Rejs == << <<FALSE, FALSE, 0>>, <<FALSE, FALSE, 9>>, <<TRUE, FALSE, 4>>, <<TRUE, FALSE, 5>>, <<FALSE, TRUE, 4>>,
           <<FALSE, TRUE, 5>>, <<TRUE, FALSE, 0>>, <<TRUE, FALSE, 9>>, <<FALSE, TRUE, 0>>, <<FALSE, TRUE, 9>> >>
EkuOpts == << {}, {"server"}, {"email", "ipsec"}, {"server", "any"} >>
ExtOpts == << {}, {"X"}, {"Y"} >>
NOpts == 3 * 3 * 10 * 2 * 4 * 3
Opt(k) == LET z == k - 1
              x == z % 3
              e == (z \div 3) % 4
              ca == (z \div 12) % 2
              r == (z \div 24) % 10
              l == (z \div 240) % 3
              s == (z \div 720) % 3
          IN [start |-> Starts[s + 1], limit |-> Limits[l + 1],
              rejExp |-> Rejs[r + 1][1], rejUnexp |-> Rejs[r + 1][2], now |-> Rejs[r + 1][3],
              onlyCA |-> (ca = 1), ekus |-> EkuOpts[e + 1], rejExts |-> ExtOpts[x + 1]]
OptRow(k) == LET o == Opt(k) IN
  [start |-> IF o.start.p THEN o.start.v ELSE -1, limit |-> IF o.limit.p THEN o.limit.v ELSE -1,
   rejExp |-> o.rejExp, rejUnexp |-> o.rejUnexp, now |-> o.now, onlyCA |-> o.onlyCA, ekus |-> o.ekus, rejExts |-> o.rejExts]
ASSUME PrintT(<<"OPTS", ToJson([k \in 1..NOpts |-> OptRow(k)])>>)
(* ---------- frames: where on the line of real instants the model's instants lie ---------- *)
\* Admission depends on the ORDER of NotAfter, the window bounds and "now" only (Temporal: any strictly monotone map
\* into real instants is a materialization).  The code compares real instants, and a certificate may carry any second
\* of the years 0000..9999 - far more than a 64-bit count of nanoseconds since 1970 can hold (1677-09-21T00:12:44Z ..
\* 2262-04-11T23:47:16Z).  A FRAME places the instants 0..9 on landmarks of that line, not necessarily at equal
\* distances: the harness must realize every case in every frame (clock = where the wall clock lies: a log reads it).
\* TimeLine lists the landmarks in their order; "Now" stands for the wall clock of the run.
TimeLine == << "Y0500", "Y1000", "Y1500", "Y1600", "NanoFirst-1s", "NanoFirst", "Y1800", "UTCFirst-1s", "UTCFirst",
               "P0", "P1", "P2", "P3", "P4", "P5", "P6", "P7", "P8", "P9",          \* 1995-06-01 + k hours
               "Now",
               "GenFirst-1s", "GenFirst", "Y2100",
               "F0", "F1", "F2", "F3", "F4", "F5", "F6", "F7", "F8", "F9",          \* 2120-01-01 + k hours
               "NanoLast-1s", "NanoLast", "NanoLast+1s", "Y2300", "Last-1s", "Last", "Beyond" >>
Pos(l) == CHOOSE i \in 1..Len(TimeLine) : TimeLine[i] = l
Frames == [
  past    |-> [clock |-> "after",  at |-> <<"P0", "P1", "P2", "P3", "P4", "P5", "P6", "P7", "P8", "P9">>],
  future  |-> [clock |-> "before", at |-> <<"F0", "F1", "F2", "F3", "F4", "F5", "F6", "F7", "F8", "F9">>],
  \* the last second a 64-bit nanosecond count holds lies between the leaves (4) and the CA certificates (5); above it
  \* 2300 and the last instant a certificate can carry (RFC 5280 s4.1.2.5: "no well-defined expiration"); below it the
  \* last UTCTime second, the first GeneralizedTime one, 2100
  far     |-> [clock |-> "before", at |-> <<"GenFirst-1s", "GenFirst", "Y2100", "NanoLast-1s", "NanoLast", "NanoLast+1s", "Y2300", "Last-1s", "Last", "Beyond">>],
  \* the first such second lies between 4 and 5; above it 1800 and the switch to UTCTime (1950)
  ancient |-> [clock |-> "after",  at |-> <<"Y0500", "Y1000", "Y1500", "Y1600", "NanoFirst-1s", "NanoFirst", "Y1800", "UTCFirst-1s", "UTCFirst", "P0">>] ]
FrameNames == DOMAIN Frames
\* every frame is strictly monotone, and the wall clock lies before every NotAfter (instants 1..8) or after all of them
ASSUME \A f \in FrameNames : /\ Len(Frames[f].at) = 10
                              /\ \A i \in 1..9 : Pos(Frames[f].at[i]) < Pos(Frames[f].at[i + 1])
                              /\ IF Frames[f].clock = "before" THEN Pos("Now") < Pos(Frames[f].at[2]) ELSE Pos(Frames[f].at[9]) < Pos("Now")
\* instant k of the model in frame f, as a position on the line
Real(f, k) == Pos(Frames[f].at[k + 1])
RealBound(f, b) == IF b.p THEN At(Real(f, b.v)) ELSE NoBound
\* (law) the window judges alike in every frame
FrameFree(t, start, limit) == \A f \in FrameNames : InWindow(Real(f, t), RealBound(f, start), RealBound(f, limit)) = InWindow(t, start, limit)
ASSUME PrintT(<<"FRAMES", ToJson([frames |-> Frames, line |-> TimeLine])>>)
ASSUME PrintT(<<"FORMS", ToJson({[id |-> FormId(c.id, f[1], f[2]), base |-> c.id, enc |-> f[1], trailer |-> f[2]] :
                                    c \in Genuine, f \in (Encs \X Trailers) \ {<<"der", "none">>}})>>)
\* hierarchy as the harness must materialize it
ASSUME PrintT(<<"CERTS", ToJson(Genuine)>>)
ASSUME PrintT(<<"TRUST", ToJson(TSets)>>)

OptTab == [k \in 1..NOpts |-> Opt(k)]
=============================================================================
