----------------------------- MODULE CTFEFaults -----------------------------
(***************************************************************************)
(* C08: backend faults and bad requests never surface as success.          *)
(*                                                                         *)
(* A finite matrix, enumerated completely: every endpoint x the backend    *)
(* RPC it issues x every gRPC status code and every class of malformed     *)
(* reply, with the fault at any position of a three-request sequence       *)
(* (state carried across requests: signature cache), with and without      *)
(* error masking; and every endpoint x every class of bad parameter.       *)
(* Expected(...) is written from the property text; where the text leaves  *)
(* a class open and the front end has a documented behaviour the clause    *)
(* is named.                                                               *)
(*                                                                         *)
(* The leaf a submission gets back from QueueLeaf is opened field by field *)
(* (Echoes): besides broken framing (ends early, goes on, absent) every    *)
(* enumerated field with values the protocol does not define and every     *)
(* vector with a floor at length 0, alone and combined, in perfectly       *)
(* framed TLS - none of them is a MerkleTreeLeaf, each must end in 5xx     *)
(* without an SCT.                                                         *)
(***************************************************************************)
EXTENDS Naturals, Sequences, FiniteSets, TLC

Endpoints == {"add-chain", "add-pre-chain", "get-sth", "get-sth-consistency", "get-proof-by-hash",
              "get-entries", "get-roots", "get-entry-and-proof"}

RPC(ep) == CASE ep \in {"add-chain", "add-pre-chain"} -> "QueueLeaf"
             [] ep = "get-sth" -> "GetLatestSignedLogRoot"
             [] ep = "get-sth-consistency" -> "GetConsistencyProof"
             [] ep = "get-proof-by-hash" -> "GetInclusionProofByHash"
             [] ep = "get-entries" -> "GetLeavesByRange"
             [] ep = "get-entry-and-proof" -> "GetEntryAndProof"
             [] OTHER -> "none"          \* get-roots talks to no backend

Codes == 1..17     \* gRPC status codes Canceled .. Unauthenticated; 17: an error that carries no gRPC status at all

\* classes of malformed replies and the RPCs they apply to
Malformed(rpc) ==
  CASE rpc = "QueueLeaf" -> {"nilQueuedLeaf", "queuedLeafWithoutLeaf", "echoedLeafUndecodable", "echoedLeafTrailing", "echoedLeafEmpty"}
    [] rpc = "GetLatestSignedLogRoot" -> {"noRoot", "garbledRoot", "rootHashSize31", "rootHashSize33", "rootHashEmpty"}
    [] rpc = "GetConsistencyProof" -> {"noRoot", "garbledRoot", "treeSmaller", "nilProof", "proofHashSize31", "proofHashSize33", "proofHashEmpty"}
    [] rpc = "GetInclusionProofByHash" -> {"noRoot", "garbledRoot", "treeSmaller", "emptyProofList", "proofHashSize31", "proofHashEmpty"}
    [] rpc = "GetLeavesByRange" -> {"noRoot", "garbledRoot", "treeSmaller", "surplusLeaves", "misIndexedLeaf"}
    [] rpc = "GetEntryAndProof" -> {"noRoot", "garbledRoot", "treeSmaller", "nilLeaf", "emptyLeafValue", "nilProof", "emptyProofHashes"}
    [] OTHER -> {}

\* ---- the status class the property demands ----
\* "quota exhaustion, unavailability and timeouts give 429, 503 and 504; caller-caused conditions give 4xx;
\*  every other backend fault gives 5xx" with the front end's documented code map for the caller-caused ones
CodeClass(code) ==
  CASE code \in {1, 4} -> "504"                       \* Canceled, DeadlineExceeded
    [] code = 8 -> "429"                              \* ResourceExhausted
    [] code = 14 -> "503"                             \* Unavailable
    [] code \in {3, 5, 6, 7, 9, 10, 11, 16} -> "4xx"  \* InvalidArgument, NotFound, AlreadyExists, PermissionDenied,
                                                      \* FailedPrecondition, Aborted, OutOfRange, Unauthenticated
    [] OTHER -> "5xx"                                 \* Unknown, Unimplemented, Internal, DataLoss

MalformedClass(m) ==
  CASE m = "treeSmaller" -> "4xx"         \* the tree the backend reports is smaller than the request needs
    [] m = "emptyProofList" -> "4xx"      \* NoProofMeansNotFound: the backend answers an unknown hash with its root only
    [] OTHER -> "5xx"

(* ---- the configuration: InstanceOptions.ErrorMapper ---- *)
\* "toHTTPStatus gRPC code mapping ... and ErrorMapper override": an operator may configure a function from a backend
\* error to (status, ok).  Where it answers ok the status is the mapper's (named clause MapperOverrides: the operator's
\* word; the matrix only holds mappers that never say 2xx - named assumption MapperNeverSuccess); where it DECLINES
\* (ok = false) the configuration says nothing about that error and the property's table holds as on an instance
\* without a mapper (law DeclinedFallsBack) - for every code, on every endpoint, with masking on and off.
\*   none         no mapper configured (what ct_server runs)
\*   declinesAll  a mapper that has no opinion on anything
\*   partial      the usual shape: overrides a few conditions (NotFound -> 410, Aborted -> 503, Internal -> 502), declines the rest
\*   total        has an answer for every error, also for one without a gRPC status
Mappers == {"none", "declinesAll", "partial", "total"}
\* 0: the mapper declines (or there is none)
MapperSays(m, code) ==
  CASE m = "partial" -> (CASE code = 5 -> 410 [] code = 10 -> 503 [] code = 13 -> 502 [] OTHER -> 0)
    [] m = "total" -> (CASE code \in {1, 4} -> 504 [] code = 8 -> 429 [] code = 14 -> 503
                         [] code \in {3, 5, 6, 7, 9, 10, 11, 16} -> 422 [] OTHER -> 502)
    [] OTHER -> 0
StatusName(n) == CASE n = 410 -> "410" [] n = 422 -> "422" [] n = 429 -> "429" [] n = 502 -> "502" [] n = 503 -> "503" [] n = 504 -> "504"
CodeExpected(m, code) == IF MapperSays(m, code) # 0 THEN StatusName(MapperSays(m, code)) ELSE CodeClass(code)

(* ---- get-proof-by-hash: a reply that carries several proofs ---- *)
\* RFC 6962 4.5 answers with ONE leaf_index and ONE audit_path; the backend's reply is a LIST of proofs (a leaf hash
\* that is in the tree several times comes back once per occurrence).  The reply is described proof by proof: the leaf
\* index it is for and whether one of its nodes (the first / the last of the path) has the wrong size (31 octets, 33,
\* none at all).  Lists of 1, 2, 3 proofs; leaf indices ascending, descending, all equal; the malformed proofs any
\* subset of the positions - so the malformed one is the first / a later one, is / is not the one with the lowest index.
\* "whose proof hashes have the wrong size (on the two proof-only endpoints) ... neither crashes nor answers 200":
\*   ProofNeverMalformed  a 200 never carries an audit_path with a node that is not 32 octets, and what it carries is
\*                        (leaf_index, audit_path) of ONE proof of the reply; if every proof of the reply is malformed
\*                        the answer is 5xx.
\* NAMED CLAUSE ServedProofUnasserted.  The property does not say WHICH of several proofs is served, nor that a reply
\* must be refused for a malformed proof that is not the one served: a list with at least one well-formed proof may be
\* answered 5xx or with any well-formed proof of it (class "5xx-or-wellformed").
ProofCounts == 1..3
IndexOrders == {"asc", "desc", "equal"}
BadNodes == {"size31", "size33", "empty"}
NodeAt == {"first", "last"}
IndexOf(order, n, i) == CASE order = "asc" -> i [] order = "desc" -> n + 1 - i [] OTHER -> 1
ProofList(n, order, bad, kind, at) ==
  [i \in 1..n |-> [idx |-> IndexOf(order, n, i), bad |-> IF i \in bad THEN kind ELSE "none", at |-> at]]
ProofLists ==
  {ProofList(n, o, {}, "none", "first") : n \in ProofCounts \ {1}, o \in IndexOrders}      \* surplus proofs, none malformed
  \cup UNION {{ProofList(n, o, b, k, a) : o \in (IF n = 1 THEN {"asc"} ELSE IndexOrders), b \in (SUBSET (1..n)) \ {{}},
                                         k \in BadNodes, a \in NodeAt} : n \in ProofCounts}
GoodProofs(pl) == {i \in DOMAIN pl : pl[i].bad = "none"}
ProofListClass(pl) == IF GoodProofs(pl) = {} THEN "5xx" ELSE "5xx-or-wellformed"
LowestIndexAt(pl) == {i \in DOMAIN pl : \A j \in DOMAIN pl : pl[i].idx <= pl[j].idx}

(* ---- get-entry-and-proof: the reply judged against the REQUEST ---- *)
\* Whether a GetEntryAndProof reply "whose optional parts are absent" is malformed depends on what was asked: the
\* audit path of leaf i in a tree of n leaves has no node exactly when n = 1 (RFC 6962 2.1.1: PATH(0, {d0}) = {}).
\* The absent-part classes are therefore crossed with the request shape (leaf_index, tree_size): the first / a middle /
\* the last leaf; a tree of one leaf, of two, a power of two, not a power of two (the backend's tree has 5 leaves).
\* NAMED CLAUSE SingleLeafEmptyPath.  A reply that carries the leaf and a Proof without hashes to a request with
\* tree_size = 1 is the HONEST reply (not a fault): 200 with an empty audit_path.  For every other shape it is a reply
\* whose proof is absent: 5xx.  A nil Proof message, a nil leaf and an empty leaf value are absent parts under every shape.
EntryShapes == {[leaf |-> 0, size |-> 1], [leaf |-> 0, size |-> 2], [leaf |-> 0, size |-> 4], [leaf |-> 0, size |-> 5],
                [leaf |-> 1, size |-> 2], [leaf |-> 1, size |-> 3], [leaf |-> 3, size |-> 4], [leaf |-> 4, size |-> 5]}
EntryReplyFaults == {"nilLeaf", "emptyLeafValue", "nilProof", "emptyProofHashes"}
EmptyPathLegit(s) == s.size = 1
EntryShapeClass(m, s) == IF m = "emptyProofHashes" /\ EmptyPathLegit(s) THEN "200" ELSE "5xx"

(* ---- the leaf QueueLeaf echoes, field by field (RFC 6962 3.4 / 3.2 / 3.1) ---- *)
\*   struct { Version version; MerkleLeafType leaf_type;
\*            select (leaf_type) { case timestamped_entry: TimestampedEntry; } } MerkleTreeLeaf;
\*   struct { uint64 timestamp; LogEntryType entry_type;
\*            select (entry_type) { case x509_entry: ASN.1Cert; case precert_entry: PreCert; } signed_entry;
\*            CtExtensions extensions; } TimestampedEntry;
\*   opaque ASN.1Cert<1..2^24-1>;  struct { opaque issuer_key_hash[32]; TBSCertificate tbs_certificate; } PreCert;
\*   opaque TBSCertificate<1..2^24-1>;  opaque CtExtensions<0..2^16-1>;
\*   enum { v1(0), (255) } Version;  enum { timestamped_entry(0), (255) } MerkleLeafType;
\*   enum { x509_entry(0), precert_entry(1), (65535) } LogEntryType;
\* The catalogue classes echoedLeafUndecodable / Trailing / Empty break the FRAMING of the echoed leaf (it ends early,
\* goes on after its end, is absent).  An echo can also be framed perfectly - every length prefix is honoured, nothing
\* is left over - and still not be a MerkleTreeLeaf of this protocol: an enumerated field holds a value the protocol
\* does not define, or a vector is shorter than its declared floor.  The echo is described by its fields; every
\* description that is not WellFormedV1 is a fault of the catalogue.
\* NAMED CLAUSE EchoVersionUnasserted.  "version is the version of the protocol to which the MerkleTreeLeaf corresponds.
\* This version is v1."  (3.4)  An echo that is a well-formed v1 leaf in everything but its version octet is framed
\* correctly and the library's codec reads it (Version is an enumeration that admits every octet); the front end never
\* looks at the octet and answers 200 with a v1 SCT over the echoed entry.  The property speaks of a leaf that "does
\* not decode" and does not say that the version must be refused (the same class is unasserted for the entry parsers
\* in C04): the case stays in the matrix, is executed, and its status is RECORDED, not judged - only the clauses that
\* hold for every outcome are (no crash; an SCT only with 200; the request log agrees with the status).  With the
\* switch TRUE the reading "another version is not a leaf of this protocol: 5xx, no SCT" would be asserted instead.
\* A version other than v1 TOGETHER with another deviation is a fault like that deviation alone.
EchoVersionAsserted == FALSE
EchoVersions   == {0, 1, 255}                  \* v1 is 0
EchoLeafTypes  == {0, 1, 255}                  \* timestamped_entry is 0
EchoEntryTypes == {0, 1, 2, 32768, 65535}      \* x509_entry 0, precert_entry 1; 32768 is the number the library's own
                                               \* experimental JSON entry uses (not an RFC 6962 entry, never to be signed here)
\* the length of the ASN.1Cert (x509_entry) / TBSCertificate (precert_entry) vector: as the honest leaf has it, or 0
\* with a well-formed 3-byte length prefix 000000 (the floor of both vectors is 1)
EchoLens == {"own", "zero"}
\* CtExtensions<0..2^16-1>: empty (what a v1 log writes) or some octets (within bounds either way)
EchoExts == {"none", "some"}
\* what follows leaf_type: the TimestampedEntry, or nothing at all (only of interest under an unknown leaf_type, where
\* the select has no arm and a decoder may not make one up)
EchoBodies == {"entry", "absent"}
Echoes == {e \in [version : EchoVersions, leafType : EchoLeafTypes, entryType : EchoEntryTypes, len : EchoLens,
                  ext : EchoExts, body : EchoBodies] :
             /\ (e.body = "absent" => e.leafType # 0)
             \* under an unknown leaf_type the inner fields are not reached: one honest representative each
             /\ (e.leafType # 0 => e.entryType \in {0, 1} /\ e.len = "own" /\ e.ext = "none")}
\* "the echoed leaf decodes": as a v1 MerkleTreeLeaf of RFC 6962
WellFormedV1(e) == /\ e.version = 0 /\ e.leafType = 0 /\ e.body = "entry"
                   /\ e.entryType \in {0, 1} /\ e.len # "zero"
EchoFaults == {e \in Echoes : ~WellFormedV1(e)}
OnlyVersionDeviates(e) == e.version # 0 /\ WellFormedV1([e EXCEPT !.version = 0])
EchoClass(e) == IF ~EchoVersionAsserted /\ OnlyVersionDeviates(e) THEN "unasserted" ELSE "5xx"

Fault == [kind : {"code"}, code : Codes] \cup [kind : {"malformed"}, class : STRING]
         \cup [kind : {"malformed"}, class : {"echoedLeafFields"}, echo : EchoFaults]
         \cup [kind : {"malformed"}, class : {"proofList"}, proofs : ProofLists]
         \cup [kind : {"malformed"}, class : EntryReplyFaults, shape : EntryShapes]

Expected(ep, f) == IF f.kind = "code" THEN CodeClass(f.code)
                   ELSE IF f.class = "echoedLeafFields" THEN EchoClass(f.echo)
                   ELSE IF f.class = "proofList" THEN ProofListClass(f.proofs)
                   ELSE IF "shape" \in DOMAIN f THEN EntryShapeClass(f.class, f.shape)
                   ELSE MalformedClass(f.class)

(* ---- bad requests: 4xx before any backend call ---- *)
\* badEscape / semicolonSeparator: a query string that is malformed as a whole (an invalid %-escape, a ';'
\* separator) although the required parameters it also carries are well formed
\* jsonThenGarbage / jsonTwice: a body that BEGINS with a complete, admissible add-chain object followed by other
\* non-blank bytes is malformed as a whole (a streaming decoder that stops after the first value would admit it)
ParamClasses(ep) ==
  CASE ep \in {"add-chain", "add-pre-chain"} -> {"wrongMethod", "notJSON", "emptyObject", "emptyChain", "chainNotBase64", "garbageCert", "trailingJunkCert",
                                                     "emptyBody", "truncatedJSON", "jsonThenGarbage", "jsonTwice", "nullChain", "chainWrongType", "chainElementNumber"}
    [] ep = "get-sth" -> {"wrongMethod", "badEscape", "semicolonSeparator"}
    [] ep = "get-roots" -> {"wrongMethod", "badEscape", "semicolonSeparator"}
    [] ep = "get-sth-consistency" -> {"wrongMethod", "badEscape", "semicolonSeparator", "missingFirst", "missingSecond", "emptyFirst", "negativeFirst", "negativeSecond",
                                      "overflowSecond", "nonNumericFirst", "firstGreaterThanSecond"}
    [] ep = "get-proof-by-hash" -> {"wrongMethod", "badEscape", "semicolonSeparator", "missingHash", "emptyHash", "badBase64Hash", "missingTreeSize", "zeroTreeSize",
                                    "negativeTreeSize", "overflowTreeSize", "nonNumericTreeSize"}
    [] ep = "get-entries" -> {"wrongMethod", "badEscape", "semicolonSeparator", "missingStart", "missingEnd", "negativeStart", "negativeEnd", "overflowEnd", "nonNumericStart", "startGreaterThanEnd"}
    [] ep = "get-entry-and-proof" -> {"wrongMethod", "badEscape", "semicolonSeparator", "missingIndex", "missingTreeSize", "negativeIndex", "zeroTreeSize", "negativeTreeSize",
                                      "overflowTreeSize", "nonNumericIndex", "indexNotBelowTreeSize"}
    [] OTHER -> {}

(* ---- wrong methods, token by token ---- *)
\* "Wrong HTTP methods ... are rejected with 4xx before any backend call."  The method of a request is a TOKEN and
\* tokens are case-sensitive (RFC 9110 9.1: "The method token is case-sensitive"): get, Get, gET are not GET.  Every
\* token that is not exactly the endpoint's method is a wrong method - the other standard methods and the tokens that
\* differ from GET / POST by letter case only (of the endpoint's own method and of the other one).  The request is
\* otherwise the valid one (query / body), so an endpoint that lets the token through reaches its backend.
RightMethod(ep) == IF ep \in {"add-chain", "add-pre-chain"} THEN "POST" ELSE "GET"
CaseVariants == {"get", "Get", "gET", "GEt", "post", "Post", "pOST", "POSt"}
MethodTokens == {"GET", "POST", "HEAD", "PUT", "DELETE", "PATCH", "OPTIONS"} \cup CaseVariants
WrongTokens(ep) == MethodTokens \ {RightMethod(ep)}
MethodCases == {[t |-> "param", ep |-> ep, class |-> "wrongMethodToken", method |-> tok] : ep \in Endpoints, tok \in MethodTokens \ {"GET", "POST"}}
               \cup UNION {{[t |-> "param", ep |-> ep, class |-> "wrongMethodToken", method |-> tok] : tok \in {"GET", "POST"} \ {RightMethod(ep)}} : ep \in Endpoints}

(* ---- case enumeration ---- *)
VARIABLE c

\* mapper: the configured ErrorMapper; mapped: what it says to this error (0: it declines / there is none)
FaultCases == {[t |-> "fault", ep |-> ep, fault |-> [kind |-> "code", code |-> k], pos |-> p, mask |-> m, mapper |-> mp, mapped |-> MapperSays(mp, k)] :
                  ep \in {e \in Endpoints : RPC(e) # "none"}, k \in Codes, p \in 1..3, m \in BOOLEAN, mp \in Mappers}
              \cup UNION {{[t |-> "fault", ep |-> ep, fault |-> [kind |-> "malformed", class |-> x], pos |-> p, mask |-> m] :
                             x \in Malformed(RPC(ep)), p \in 1..3, m \in BOOLEAN} : ep \in Endpoints}
\* the field-by-field echoes: both submission endpoints (the honest leaf is an x509_entry on add-chain and a
\* precert_entry on add-pre-chain; the echo's entry_type is the description's, so "the other arm" occurs on both)
EchoCases == {[t |-> "fault", ep |-> ep, fault |-> [kind |-> "malformed", class |-> "echoedLeafFields", echo |-> e], pos |-> p, mask |-> m] :
                 ep \in {x \in Endpoints : RPC(x) = "QueueLeaf"}, e \in EchoFaults, p \in 1..3, m \in BOOLEAN}
\* the proof lists of get-proof-by-hash
ProofListCases == {[t |-> "fault", ep |-> "get-proof-by-hash", fault |-> [kind |-> "malformed", class |-> "proofList", proofs |-> pl], pos |-> p, mask |-> m] :
                      pl \in ProofLists, p \in 1..3, m \in BOOLEAN}
\* get-entry-and-proof: absent parts x request shape
EntryShapeCases == {[t |-> "fault", ep |-> "get-entry-and-proof", fault |-> [kind |-> "malformed", class |-> x, shape |-> sh], pos |-> p, mask |-> m] :
                       x \in EntryReplyFaults, sh \in EntryShapes, p \in 1..3, m \in BOOLEAN}
ParamCases == UNION {{[t |-> "param", ep |-> ep, class |-> x] : x \in ParamClasses(ep)} : ep \in Endpoints}

Init == c \in FaultCases \cup EchoCases \cup ProofListCases \cup EntryShapeCases \cup ParamCases \cup MethodCases
Next == UNCHANGED c

Exp(x) == IF x.t = "param" THEN "4xx-nobackend"
          ELSE IF x.fault.kind = "code" THEN CodeExpected(x.mapper, x.fault.code)
          ELSE Expected(x.ep, x.fault)

\* the model-level statement of "never surfaces as success"
\* (the only case without a demanded status class is the named clause EchoVersionUnasserted)
IsProofList(x) == x.t = "fault" /\ x.fault.kind = "malformed" /\ x.fault.class = "proofList"
IsCode(x) == x.t = "fault" /\ x.fault.kind = "code"
IsEntryShape(x) == x.t = "fault" /\ x.fault.kind = "malformed" /\ "shape" \in DOMAIN x.fault
NeverOK == \/ Exp(c) \in {"4xx", "429", "503", "504", "5xx", "4xx-nobackend"}
           \/ IsCode(c) /\ c.mapped # 0 /\ Exp(c) = StatusName(c.mapped)             \* MapperOverrides
           \/ IsEntryShape(c) /\ Exp(c) = "200" /\ c.fault.class = "emptyProofHashes" /\ EmptyPathLegit(c.fault.shape)   \* SingleLeafEmptyPath: not a fault
           \/ IsProofList(c) /\ Exp(c) = "5xx-or-wellformed" /\ GoodProofs(c.fault.proofs) # {}    \* ServedProofUnasserted
           \/ /\ Exp(c) = "unasserted" /\ ~EchoVersionAsserted
              /\ c.t = "fault" /\ c.fault.kind = "malformed" /\ c.fault.class = "echoedLeafFields" /\ OnlyVersionDeviates(c.fault.echo)
\* retryable statuses are exactly quota / unavailability / timeout
\* an echo in the fault matrix is never a leaf of the protocol, and every way of not being one is in the matrix:
\* each enumerated field with each undefined value, each floored vector at length 0, alone and combined
EchoFaultsAreFaults ==
     (c.t = "fault" /\ c.fault.kind = "malformed" /\ c.fault.class = "echoedLeafFields") =>
        (~WellFormedV1(c.fault.echo) /\ (Exp(c) = "5xx" \/ (~EchoVersionAsserted /\ OnlyVersionDeviates(c.fault.echo))))
\* (the constant part: checked once, as an assumption of the model-checking module)
EchoDimensionComplete ==
  /\ \A v \in EchoVersions \ {0} : \E e \in EchoFaults : e.version = v /\ e.leafType = 0 /\ e.entryType \in {0, 1} /\ e.len = "own"
  /\ \A l \in EchoLeafTypes \ {0} : \A b \in EchoBodies : \E e \in EchoFaults : e.version = 0 /\ e.leafType = l /\ e.body = b
  /\ \A y \in EchoEntryTypes \ {0, 1} : \E e \in EchoFaults : e.version = 0 /\ e.leafType = 0 /\ e.entryType = y /\ e.len = "own"
  /\ \A y \in {0, 1} : \A x \in EchoExts : \E e \in EchoFaults : e.version = 0 /\ e.leafType = 0 /\ e.entryType = y /\ e.len = "zero" /\ e.ext = x
\* the mapper dimension: no mapper of the matrix says 2xx; an error the mapper declines is judged exactly as on an instance
\* without a mapper; the matrix holds, for every mapper with an opinion, errors it maps AND errors it declines whose
\* class is not plain 5xx (so "declined = 500" and "declined = table" differ)
MapperLaws ==
     IsCode(c) => /\ c.mapped = MapperSays(c.mapper, c.fault.code) /\ (c.mapped = 0 \/ c.mapped \in 400..599)
                  /\ (c.mapped = 0 => Exp(c) = CodeClass(c.fault.code))
                  /\ (c.mapper \in {"none", "declinesAll"} => c.mapped = 0)
\* (constant: checked once, as an assumption of the model-checking module)
MapperDimensionComplete ==
  /\ \E k \in Codes : MapperSays("partial", k) # 0
  /\ \A cl \in {"4xx", "429", "503", "504"} : \E k \in Codes : MapperSays("partial", k) = 0 /\ CodeClass(k) = cl
  /\ \A k \in Codes : MapperSays("total", k) # 0
\* the proof lists: 5xx is demanded exactly when no proof of the reply could be served; every combination the dimension
\* names is in the matrix (the malformed proof first / later; in / not in the lowest-index proof; every order; all malformed)
ProofListLaws ==
     IsProofList(c) => LET pl == c.fault.proofs IN
        /\ Len(pl) \in ProofCounts /\ (Exp(c) = "5xx" <=> GoodProofs(pl) = {})
        /\ \A i \in DOMAIN pl : pl[i].idx \in 1..3 /\ pl[i].bad \in BadNodes \cup {"none"}
ProofListDimensionComplete ==
  /\ \E pl \in ProofLists : Len(pl) >= 2 /\ pl[1].bad = "none" /\ pl[2].bad # "none" /\ 2 \in LowestIndexAt(pl) /\ 1 \notin LowestIndexAt(pl)
  /\ \E pl \in ProofLists : Len(pl) >= 2 /\ pl[1].bad = "none" /\ pl[2].bad # "none" /\ 1 \in LowestIndexAt(pl) /\ 2 \notin LowestIndexAt(pl)
  /\ \E pl \in ProofLists : Len(pl) >= 2 /\ pl[1].bad # "none" /\ pl[2].bad = "none"
  /\ \E pl \in ProofLists : Len(pl) = 3 /\ pl[1].bad = "none" /\ pl[2].bad = "none" /\ pl[3].bad # "none" /\ LowestIndexAt(pl) = {3}
  /\ \E pl \in ProofLists : Len(pl) = 3 /\ GoodProofs(pl) = {}
  /\ \E pl \in ProofLists : Len(pl) = 2 /\ LowestIndexAt(pl) = {1, 2} /\ pl[2].bad # "none" /\ pl[1].bad = "none"
\* the request-shape dimension: a reply without proof hashes is acceptable exactly for a tree of one leaf; the shapes
\* hold the first leaf of larger trees (where "leaf_index = 0" and "tree_size = 1" differ), later leaves, the last leaf
EntryShapeLaws ==
     IsEntryShape(c) => LET sh == c.fault.shape IN
        /\ sh.leaf < sh.size /\ sh.size \in 1..5
        /\ (Exp(c) = "200" <=> (c.fault.class = "emptyProofHashes" /\ sh.size = 1))
        /\ (Exp(c) # "200" => Exp(c) = "5xx")
EntryShapeDimensionComplete ==
  /\ \E sh \in EntryShapes : sh.size = 1
  /\ \E sh \in EntryShapes : sh.leaf = 0 /\ sh.size = 2
  /\ \E sh \in EntryShapes : sh.leaf = 0 /\ sh.size > 2
  /\ \E sh \in EntryShapes : sh.leaf > 0 /\ sh.leaf + 1 < sh.size
  /\ \E sh \in EntryShapes : sh.leaf > 0 /\ sh.leaf + 1 = sh.size
\* the method dimension: no case carries the endpoint's own token; every endpoint meets a case variant of its own
\* method and of the other one
MethodLaws ==
     (c.t = "param" /\ c.class = "wrongMethodToken") => (c.method # RightMethod(c.ep) /\ c.method \in WrongTokens(c.ep) /\ Exp(c) = "4xx-nobackend")
MethodDimensionComplete ==
  \A ep \in Endpoints : /\ \E x \in MethodCases : x.ep = ep /\ x.method \in {"get", "Get", "gET", "GEt"}
                        /\ \E x \in MethodCases : x.ep = ep /\ x.method \in {"post", "Post", "pOST", "POSt"}
                        /\ \E x \in MethodCases : x.ep = ep /\ x.method \in {"GET", "POST"}
                        /\ \A x \in MethodCases : x.ep = ep => x.method # RightMethod(ep)
RetryableOnlyForTransient == (c.t = "fault" /\ c.fault.kind = "malformed") => Exp(c) \notin {"429", "503", "504"}
=============================================================================
