----------------------------- MODULE CTFEFaults -----------------------------
(***************************************************************************)
(* C08: backend faults and bad requests never surface as success.          *)
(*                                                                         *)
(* A finite matrix, enumerated completely: every endpoint x the backend    *)
(* RPC it issues x every gRPC status code and every class of malformed     *)
(* reply, with the fault at any position of a three-request sequence       *)
(* (state carried across requests: signature cache), with and without      *)
(* error masking; and every endpoint x every class of bad parameter.       *)
(* Expected(...) is written from the property text; where the text leaves  *)
(* a class open and the front end has a documented behaviour the clause    *)
(* is named.                                                               *)
(***************************************************************************)
EXTENDS Naturals, Sequences, TLC

Endpoints == {"add-chain", "add-pre-chain", "get-sth", "get-sth-consistency", "get-proof-by-hash",
              "get-entries", "get-roots", "get-entry-and-proof"}

RPC(ep) == CASE ep \in {"add-chain", "add-pre-chain"} -> "QueueLeaf"
             [] ep = "get-sth" -> "GetLatestSignedLogRoot"
             [] ep = "get-sth-consistency" -> "GetConsistencyProof"
             [] ep = "get-proof-by-hash" -> "GetInclusionProofByHash"
             [] ep = "get-entries" -> "GetLeavesByRange"
             [] ep = "get-entry-and-proof" -> "GetEntryAndProof"
             [] OTHER -> "none"          \* get-roots talks to no backend

Codes == 1..16     \* gRPC status codes Canceled .. Unauthenticated

\* classes of malformed replies and the RPCs they apply to
Malformed(rpc) ==
  CASE rpc = "QueueLeaf" -> {"nilQueuedLeaf", "queuedLeafWithoutLeaf", "echoedLeafUndecodable", "echoedLeafTrailing", "echoedLeafEmpty"}
    [] rpc = "GetLatestSignedLogRoot" -> {"noRoot", "garbledRoot", "rootHashSize31", "rootHashSize33", "rootHashEmpty"}
    [] rpc = "GetConsistencyProof" -> {"noRoot", "garbledRoot", "treeSmaller", "nilProof", "proofHashSize31", "proofHashEmpty"}
    [] rpc = "GetInclusionProofByHash" -> {"noRoot", "garbledRoot", "treeSmaller", "emptyProofList", "proofHashSize31", "proofHashEmpty"}
    [] rpc = "GetLeavesByRange" -> {"noRoot", "garbledRoot", "treeSmaller", "surplusLeaves", "misIndexedLeaf"}
    [] rpc = "GetEntryAndProof" -> {"noRoot", "garbledRoot", "treeSmaller", "nilLeaf", "emptyLeafValue", "nilProof", "emptyProofHashes"}
    [] OTHER -> {}

\* ---- the status class the property demands ----
\* "quota exhaustion, unavailability and timeouts give 429, 503 and 504; caller-caused conditions give 4xx;
\*  every other backend fault gives 5xx" with the front end's documented code map for the caller-caused ones
CodeClass(code) ==
  CASE code \in {1, 4} -> "504"                       \* Canceled, DeadlineExceeded
    [] code = 8 -> "429"                              \* ResourceExhausted
    [] code = 14 -> "503"                             \* Unavailable
    [] code \in {3, 5, 6, 7, 9, 10, 11, 16} -> "4xx"  \* InvalidArgument, NotFound, AlreadyExists, PermissionDenied,
                                                      \* FailedPrecondition, Aborted, OutOfRange, Unauthenticated
    [] OTHER -> "5xx"                                 \* Unknown, Unimplemented, Internal, DataLoss

MalformedClass(m) ==
  CASE m = "treeSmaller" -> "4xx"         \* the tree the backend reports is smaller than the request needs
    [] m = "emptyProofList" -> "4xx"      \* NoProofMeansNotFound: the backend answers an unknown hash with its root only
    [] OTHER -> "5xx"

Fault == [kind : {"code"}, code : Codes] \cup [kind : {"malformed"}, class : STRING]

Expected(ep, f) == IF f.kind = "code" THEN CodeClass(f.code) ELSE MalformedClass(f.class)

(* ---- bad requests: 4xx before any backend call ---- *)
\* badEscape / semicolonSeparator: a query string that is malformed as a whole (an invalid %-escape, a ';'
\* separator) although the required parameters it also carries are well formed
\* jsonThenGarbage / jsonTwice: a body that BEGINS with a complete, admissible add-chain object followed by other
\* non-blank bytes is malformed as a whole (a streaming decoder that stops after the first value would admit it)
ParamClasses(ep) ==
  CASE ep \in {"add-chain", "add-pre-chain"} -> {"wrongMethod", "notJSON", "emptyObject", "emptyChain", "chainNotBase64", "garbageCert", "trailingJunkCert",
                                                     "emptyBody", "truncatedJSON", "jsonThenGarbage", "jsonTwice", "nullChain", "chainWrongType", "chainElementNumber"}
    [] ep = "get-sth" -> {"wrongMethod", "badEscape", "semicolonSeparator"}
    [] ep = "get-roots" -> {"wrongMethod", "badEscape", "semicolonSeparator"}
    [] ep = "get-sth-consistency" -> {"wrongMethod", "badEscape", "semicolonSeparator", "missingFirst", "missingSecond", "emptyFirst", "negativeFirst", "negativeSecond",
                                      "overflowSecond", "nonNumericFirst", "firstGreaterThanSecond"}
    [] ep = "get-proof-by-hash" -> {"wrongMethod", "badEscape", "semicolonSeparator", "missingHash", "emptyHash", "badBase64Hash", "missingTreeSize", "zeroTreeSize",
                                    "negativeTreeSize", "overflowTreeSize", "nonNumericTreeSize"}
    [] ep = "get-entries" -> {"wrongMethod", "badEscape", "semicolonSeparator", "missingStart", "missingEnd", "negativeStart", "negativeEnd", "overflowEnd", "nonNumericStart", "startGreaterThanEnd"}
    [] ep = "get-entry-and-proof" -> {"wrongMethod", "badEscape", "semicolonSeparator", "missingIndex", "missingTreeSize", "negativeIndex", "zeroTreeSize", "negativeTreeSize",
                                      "overflowTreeSize", "nonNumericIndex", "indexNotBelowTreeSize"}
    [] OTHER -> {}

(* ---- case enumeration ---- *)
VARIABLE c

FaultCases == {[t |-> "fault", ep |-> ep, fault |-> [kind |-> "code", code |-> k], pos |-> p, mask |-> m] :
                  ep \in {e \in Endpoints : RPC(e) # "none"}, k \in Codes, p \in 1..3, m \in BOOLEAN}
              \cup UNION {{[t |-> "fault", ep |-> ep, fault |-> [kind |-> "malformed", class |-> x], pos |-> p, mask |-> m] :
                             x \in Malformed(RPC(ep)), p \in 1..3, m \in BOOLEAN} : ep \in Endpoints}
ParamCases == UNION {{[t |-> "param", ep |-> ep, class |-> x] : x \in ParamClasses(ep)} : ep \in Endpoints}

Init == c \in FaultCases \cup ParamCases
Next == UNCHANGED c

Exp(x) == IF x.t = "fault" THEN Expected(x.ep, x.fault) ELSE "4xx-nobackend"

\* the model-level statement of "never surfaces as success"
NeverOK == Exp(c) \in {"4xx", "429", "503", "504", "5xx", "4xx-nobackend"}
\* retryable statuses are exactly quota / unavailability / timeout
RetryableOnlyForTransient == (c.t = "fault" /\ c.fault.kind = "malformed") => Exp(c) \notin {"429", "503", "504"}
=============================================================================
