----------------------------- MODULE CTFEFaults -----------------------------
(***************************************************************************)
(* C08: backend faults and bad requests never surface as success.          *)
(*                                                                         *)
(* A finite matrix, enumerated completely: every endpoint x the backend    *)
(* RPC it issues x every gRPC status code and every class of malformed     *)
(* reply, with the fault at any position of a three-request sequence       *)
(* (state carried across requests: signature cache), with and without      *)
(* error masking; and every endpoint x every class of bad parameter.       *)
(* Expected(...) is written from the property text; where the text leaves  *)
(* a class open and the front end has a documented behaviour the clause    *)
(* is named.                                                               *)
(*                                                                         *)
(* The leaf a submission gets back from QueueLeaf is opened field by field *)
(* (Echoes): besides broken framing (ends early, goes on, absent) every    *)
(* enumerated field with values the protocol does not define and every     *)
(* vector with a floor at length 0, alone and combined, in perfectly       *)
(* framed TLS - none of them is a MerkleTreeLeaf, each must end in 5xx     *)
(* without an SCT.                                                         *)
(***************************************************************************)
EXTENDS Naturals, Sequences, TLC

Endpoints == {"add-chain", "add-pre-chain", "get-sth", "get-sth-consistency", "get-proof-by-hash",
              "get-entries", "get-roots", "get-entry-and-proof"}

RPC(ep) == CASE ep \in {"add-chain", "add-pre-chain"} -> "QueueLeaf"
             [] ep = "get-sth" -> "GetLatestSignedLogRoot"
             [] ep = "get-sth-consistency" -> "GetConsistencyProof"
             [] ep = "get-proof-by-hash" -> "GetInclusionProofByHash"
             [] ep = "get-entries" -> "GetLeavesByRange"
             [] ep = "get-entry-and-proof" -> "GetEntryAndProof"
             [] OTHER -> "none"          \* get-roots talks to no backend

Codes == 1..16     \* gRPC status codes Canceled .. Unauthenticated

\* classes of malformed replies and the RPCs they apply to
Malformed(rpc) ==
  CASE rpc = "QueueLeaf" -> {"nilQueuedLeaf", "queuedLeafWithoutLeaf", "echoedLeafUndecodable", "echoedLeafTrailing", "echoedLeafEmpty"}
    [] rpc = "GetLatestSignedLogRoot" -> {"noRoot", "garbledRoot", "rootHashSize31", "rootHashSize33", "rootHashEmpty"}
    [] rpc = "GetConsistencyProof" -> {"noRoot", "garbledRoot", "treeSmaller", "nilProof", "proofHashSize31", "proofHashEmpty"}
    [] rpc = "GetInclusionProofByHash" -> {"noRoot", "garbledRoot", "treeSmaller", "emptyProofList", "proofHashSize31", "proofHashEmpty"}
    [] rpc = "GetLeavesByRange" -> {"noRoot", "garbledRoot", "treeSmaller", "surplusLeaves", "misIndexedLeaf"}
    [] rpc = "GetEntryAndProof" -> {"noRoot", "garbledRoot", "treeSmaller", "nilLeaf", "emptyLeafValue", "nilProof", "emptyProofHashes"}
    [] OTHER -> {}

\* ---- the status class the property demands ----
\* "quota exhaustion, unavailability and timeouts give 429, 503 and 504; caller-caused conditions give 4xx;
\*  every other backend fault gives 5xx" with the front end's documented code map for the caller-caused ones
CodeClass(code) ==
  CASE code \in {1, 4} -> "504"                       \* Canceled, DeadlineExceeded
    [] code = 8 -> "429"                              \* ResourceExhausted
    [] code = 14 -> "503"                             \* Unavailable
    [] code \in {3, 5, 6, 7, 9, 10, 11, 16} -> "4xx"  \* InvalidArgument, NotFound, AlreadyExists, PermissionDenied,
                                                      \* FailedPrecondition, Aborted, OutOfRange, Unauthenticated
    [] OTHER -> "5xx"                                 \* Unknown, Unimplemented, Internal, DataLoss

MalformedClass(m) ==
  CASE m = "treeSmaller" -> "4xx"         \* the tree the backend reports is smaller than the request needs
    [] m = "emptyProofList" -> "4xx"      \* NoProofMeansNotFound: the backend answers an unknown hash with its root only
    [] OTHER -> "5xx"

(* ---- the leaf QueueLeaf echoes, field by field (RFC 6962 3.4 / 3.2 / 3.1) ---- *)
\*   struct { Version version; MerkleLeafType leaf_type;
\*            select (leaf_type) { case timestamped_entry: TimestampedEntry; } } MerkleTreeLeaf;
\*   struct { uint64 timestamp; LogEntryType entry_type;
\*            select (entry_type) { case x509_entry: ASN.1Cert; case precert_entry: PreCert; } signed_entry;
\*            CtExtensions extensions; } TimestampedEntry;
\*   opaque ASN.1Cert<1..2^24-1>;  struct { opaque issuer_key_hash[32]; TBSCertificate tbs_certificate; } PreCert;
\*   opaque TBSCertificate<1..2^24-1>;  opaque CtExtensions<0..2^16-1>;
\*   enum { v1(0), (255) } Version;  enum { timestamped_entry(0), (255) } MerkleLeafType;
\*   enum { x509_entry(0), precert_entry(1), (65535) } LogEntryType;
\* The catalogue classes echoedLeafUndecodable / Trailing / Empty break the FRAMING of the echoed leaf (it ends early,
\* goes on after its end, is absent).  An echo can also be framed perfectly - every length prefix is honoured, nothing
\* is left over - and still not be a MerkleTreeLeaf of this protocol: an enumerated field holds a value the protocol
\* does not define, or a vector is shorter than its declared floor.  The echo is described by its fields; every
\* description that is not WellFormedV1 is a fault of the catalogue.
\* NAMED CLAUSE EchoVersionUnasserted.  "version is the version of the protocol to which the MerkleTreeLeaf corresponds.
\* This version is v1."  (3.4)  An echo that is a well-formed v1 leaf in everything but its version octet is framed
\* correctly and the library's codec reads it (Version is an enumeration that admits every octet); the front end never
\* looks at the octet and answers 200 with a v1 SCT over the echoed entry.  The property speaks of a leaf that "does
\* not decode" and does not say that the version must be refused (the same class is unasserted for the entry parsers
\* in C04): the case stays in the matrix, is executed, and its status is RECORDED, not judged - only the clauses that
\* hold for every outcome are (no crash; an SCT only with 200; the request log agrees with the status).  With the
\* switch TRUE the reading "another version is not a leaf of this protocol: 5xx, no SCT" would be asserted instead.
\* A version other than v1 TOGETHER with another deviation is a fault like that deviation alone.
EchoVersionAsserted == FALSE
EchoVersions   == {0, 1, 255}                  \* v1 is 0
EchoLeafTypes  == {0, 1, 255}                  \* timestamped_entry is 0
EchoEntryTypes == {0, 1, 2, 32768, 65535}      \* x509_entry 0, precert_entry 1; 32768 is the number the library's own
                                               \* experimental JSON entry uses (not an RFC 6962 entry, never to be signed here)
\* the length of the ASN.1Cert (x509_entry) / TBSCertificate (precert_entry) vector: as the honest leaf has it, or 0
\* with a well-formed 3-byte length prefix 000000 (the floor of both vectors is 1)
EchoLens == {"own", "zero"}
\* CtExtensions<0..2^16-1>: empty (what a v1 log writes) or some octets (within bounds either way)
EchoExts == {"none", "some"}
\* what follows leaf_type: the TimestampedEntry, or nothing at all (only of interest under an unknown leaf_type, where
\* the select has no arm and a decoder may not make one up)
EchoBodies == {"entry", "absent"}
Echoes == {e \in [version : EchoVersions, leafType : EchoLeafTypes, entryType : EchoEntryTypes, len : EchoLens,
                  ext : EchoExts, body : EchoBodies] :
             /\ (e.body = "absent" => e.leafType # 0)
             \* under an unknown leaf_type the inner fields are not reached: one honest representative each
             /\ (e.leafType # 0 => e.entryType \in {0, 1} /\ e.len = "own" /\ e.ext = "none")}
\* "the echoed leaf decodes": as a v1 MerkleTreeLeaf of RFC 6962
WellFormedV1(e) == /\ e.version = 0 /\ e.leafType = 0 /\ e.body = "entry"
                   /\ e.entryType \in {0, 1} /\ e.len # "zero"
EchoFaults == {e \in Echoes : ~WellFormedV1(e)}
OnlyVersionDeviates(e) == e.version # 0 /\ WellFormedV1([e EXCEPT !.version = 0])
EchoClass(e) == IF ~EchoVersionAsserted /\ OnlyVersionDeviates(e) THEN "unasserted" ELSE "5xx"

Fault == [kind : {"code"}, code : Codes] \cup [kind : {"malformed"}, class : STRING]
         \cup [kind : {"malformed"}, class : {"echoedLeafFields"}, echo : EchoFaults]

Expected(ep, f) == IF f.kind = "code" THEN CodeClass(f.code)
                   ELSE IF f.class = "echoedLeafFields" THEN EchoClass(f.echo)
                   ELSE MalformedClass(f.class)

(* ---- bad requests: 4xx before any backend call ---- *)
\* badEscape / semicolonSeparator: a query string that is malformed as a whole (an invalid %-escape, a ';'
\* separator) although the required parameters it also carries are well formed
\* jsonThenGarbage / jsonTwice: a body that BEGINS with a complete, admissible add-chain object followed by other
\* non-blank bytes is malformed as a whole (a streaming decoder that stops after the first value would admit it)
ParamClasses(ep) ==
  CASE ep \in {"add-chain", "add-pre-chain"} -> {"wrongMethod", "notJSON", "emptyObject", "emptyChain", "chainNotBase64", "garbageCert", "trailingJunkCert",
                                                     "emptyBody", "truncatedJSON", "jsonThenGarbage", "jsonTwice", "nullChain", "chainWrongType", "chainElementNumber"}
    [] ep = "get-sth" -> {"wrongMethod", "badEscape", "semicolonSeparator"}
    [] ep = "get-roots" -> {"wrongMethod", "badEscape", "semicolonSeparator"}
    [] ep = "get-sth-consistency" -> {"wrongMethod", "badEscape", "semicolonSeparator", "missingFirst", "missingSecond", "emptyFirst", "negativeFirst", "negativeSecond",
                                      "overflowSecond", "nonNumericFirst", "firstGreaterThanSecond"}
    [] ep = "get-proof-by-hash" -> {"wrongMethod", "badEscape", "semicolonSeparator", "missingHash", "emptyHash", "badBase64Hash", "missingTreeSize", "zeroTreeSize",
                                    "negativeTreeSize", "overflowTreeSize", "nonNumericTreeSize"}
    [] ep = "get-entries" -> {"wrongMethod", "badEscape", "semicolonSeparator", "missingStart", "missingEnd", "negativeStart", "negativeEnd", "overflowEnd", "nonNumericStart", "startGreaterThanEnd"}
    [] ep = "get-entry-and-proof" -> {"wrongMethod", "badEscape", "semicolonSeparator", "missingIndex", "missingTreeSize", "negativeIndex", "zeroTreeSize", "negativeTreeSize",
                                      "overflowTreeSize", "nonNumericIndex", "indexNotBelowTreeSize"}
    [] OTHER -> {}

(* ---- case enumeration ---- *)
VARIABLE c

FaultCases == {[t |-> "fault", ep |-> ep, fault |-> [kind |-> "code", code |-> k], pos |-> p, mask |-> m] :
                  ep \in {e \in Endpoints : RPC(e) # "none"}, k \in Codes, p \in 1..3, m \in BOOLEAN}
              \cup UNION {{[t |-> "fault", ep |-> ep, fault |-> [kind |-> "malformed", class |-> x], pos |-> p, mask |-> m] :
                             x \in Malformed(RPC(ep)), p \in 1..3, m \in BOOLEAN} : ep \in Endpoints}
\* the field-by-field echoes: both submission endpoints (the honest leaf is an x509_entry on add-chain and a
\* precert_entry on add-pre-chain; the echo's entry_type is the description's, so "the other arm" occurs on both)
EchoCases == {[t |-> "fault", ep |-> ep, fault |-> [kind |-> "malformed", class |-> "echoedLeafFields", echo |-> e], pos |-> p, mask |-> m] :
                 ep \in {x \in Endpoints : RPC(x) = "QueueLeaf"}, e \in EchoFaults, p \in 1..3, m \in BOOLEAN}
ParamCases == UNION {{[t |-> "param", ep |-> ep, class |-> x] : x \in ParamClasses(ep)} : ep \in Endpoints}

Init == c \in FaultCases \cup EchoCases \cup ParamCases
Next == UNCHANGED c

Exp(x) == IF x.t = "fault" THEN Expected(x.ep, x.fault) ELSE "4xx-nobackend"

\* the model-level statement of "never surfaces as success"
\* (the only case without a demanded status class is the named clause EchoVersionUnasserted)
NeverOK == \/ Exp(c) \in {"4xx", "429", "503", "504", "5xx", "4xx-nobackend"}
           \/ /\ Exp(c) = "unasserted" /\ ~EchoVersionAsserted
              /\ c.t = "fault" /\ c.fault.kind = "malformed" /\ c.fault.class = "echoedLeafFields" /\ OnlyVersionDeviates(c.fault.echo)
\* retryable statuses are exactly quota / unavailability / timeout
\* an echo in the fault matrix is never a leaf of the protocol, and every way of not being one is in the matrix:
\* each enumerated field with each undefined value, each floored vector at length 0, alone and combined
EchoFaultsAreFaults ==
  /\ (c.t = "fault" /\ c.fault.kind = "malformed" /\ c.fault.class = "echoedLeafFields") =>
        (~WellFormedV1(c.fault.echo) /\ (Exp(c) = "5xx" \/ (~EchoVersionAsserted /\ OnlyVersionDeviates(c.fault.echo))))
  /\ \A v \in EchoVersions \ {0} : \E e \in EchoFaults : e.version = v /\ e.leafType = 0 /\ e.entryType \in {0, 1} /\ e.len = "own"
  /\ \A l \in EchoLeafTypes \ {0} : \A b \in EchoBodies : \E e \in EchoFaults : e.version = 0 /\ e.leafType = l /\ e.body = b
  /\ \A y \in EchoEntryTypes \ {0, 1} : \E e \in EchoFaults : e.version = 0 /\ e.leafType = 0 /\ e.entryType = y /\ e.len = "own"
  /\ \A y \in {0, 1} : \A x \in EchoExts : \E e \in EchoFaults : e.version = 0 /\ e.leafType = 0 /\ e.entryType = y /\ e.len = "zero" /\ e.ext = x
RetryableOnlyForTransient == (c.t = "fault" /\ c.fault.kind = "malformed") => Exp(c) \notin {"429", "503", "504"}
=============================================================================
