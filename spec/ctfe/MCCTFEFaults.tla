---------------------------- MODULE MCCTFEFaults ----------------------------
EXTENDS CTFEFaults, Json
ASSUME MapperDimensionComplete /\ ProofListDimensionComplete /\ EchoDimensionComplete /\ EntryShapeDimensionComplete /\ MethodDimensionComplete
Export == PrintT(<<"CASE", ToJson([c |-> c, expect |-> Exp(c)])>>)
=============================================================================
