---------------------------- MODULE MCCTFEFaults ----------------------------
EXTENDS CTFEFaults, Json
Export == PrintT(<<"CASE", ToJson([c |-> c, expect |-> Exp(c)])>>)
=============================================================================
