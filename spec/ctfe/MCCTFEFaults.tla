---------------------------- MODULE MCCTFEFaults ----------------------------
EXTENDS CTFEFaults, Json
ASSUME MapperDimensionComplete /\ ProofListDimensionComplete /\ EchoDimensionComplete
Export == PrintT(<<"CASE", ToJson([c |-> c, expect |-> Exp(c)])>>)
=============================================================================
