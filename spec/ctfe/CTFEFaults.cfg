INIT Init
NEXT Next
INVARIANTS NeverOK RetryableOnlyForTransient EchoFaultsAreFaults
CHECK_DEADLOCK FALSE
