INIT Init
NEXT Next
INVARIANTS NeverOK RetryableOnlyForTransient
CHECK_DEADLOCK FALSE
