INIT Init
NEXT Next
INVARIANTS NeverOK RetryableOnlyForTransient EchoFaultsAreFaults MapperLaws ProofListLaws
CHECK_DEADLOCK FALSE
