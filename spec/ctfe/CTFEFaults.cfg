INIT Init
NEXT Next
INVARIANTS NeverOK RetryableOnlyForTransient EchoFaultsAreFaults MapperLaws ProofListLaws EntryShapeLaws MethodLaws
CHECK_DEADLOCK FALSE
