CONSTANTS
  MaxSize = 5
  FrozenSize = 2
  Depth = 5
INIT InitInst
NEXT CoverNext
VIEW CoverView
INVARIANTS ExportAtDepth
CHECK_DEADLOCK FALSE
