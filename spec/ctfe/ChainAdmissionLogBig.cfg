\* exhaustive: two logs x sixteen configurations each (thorough tier), five chains, the clock from 3 to 6 (the leaves expire at 4, the CA
\* certificates at 5); the specification's log (no memory): all laws hold
CONSTANTS
  Depth = 1
  Steps = 0
  LogIds = {1, 2}
  MaxClock = 6
  Memory = "none"
  Configs <- BigConfigs
  WalkChains <- SmallChains
  StartClocks <- SmallStarts
INIT SmallInit
NEXT SmallNext
VIEW SmallView
INVARIANTS JudgedAlone NothingRemembered WhenShape
PROPERTIES ConfigFixed Repeatable TimeForward
CHECK_DEADLOCK FALSE
