------------------------------- MODULE MCCTFE -------------------------------
EXTENDS CTFE, Json

CONSTANT Depth

\* exhaustive check: the read endpoints other than get-sth are functions of the state that change nothing the
\* invariants speak about, so they are left to the replay (simulation below enumerates them with arguments)
MCNext ==
  \/ Tick
  \/ \E k \in 1..MaxTree, r \in Rems : Sequence(k, r)
  \/ \E r \in Rems : Resign(r)
  \/ \E c \in Certs, ep \in Endpoints : AddChain(c, ep)
  \/ GetSTH

StateView == <<now, stored, queue, tree, rootTs, issued, sths, roots>>

End == [op |-> "End"]
Finish == Len(hist) = Depth /\ hist' = Append(hist, End)
          /\ UNCHANGED <<now, stored, queue, tree, rootTs, issued, sths, roots, last>>
ExportFinished == (Len(hist) = Depth + 1) => PrintT(<<"BEH", ToJson(SubSeq(hist, 1, Depth))>>)

\* weighted random walk, one successor per step (see check/BUILDING.md)
SimNext ==
  \/ Finish
  \/ /\ Len(hist) < Depth
     /\ \E kind \in {RandomElement(1..20)} :
        CASE kind \in 1..6 -> \E c \in {RandomElement(Certs)} :
                                 AddChain(c, IF RandomElement(1..8) = 1
                                             THEN RandomElement(Endpoints)
                                             ELSE IF c \in Precerts THEN "add-pre-chain" ELSE "add-chain")
          [] kind \in 7..8 -> IF now < MaxClock THEN Tick ELSE GetSTH
          [] kind \in 9..11 -> IF Len(queue) > 0 /\ Len(tree) < MaxTree
                               THEN \E k \in {RandomElement(1..(IF Len(queue) < MaxTree - Len(tree) THEN Len(queue) ELSE MaxTree - Len(tree)))},
                                       r \in {RandomElement(Rems)} : Sequence(k, r)
                               ELSE GetSTH
          [] kind = 12 -> IF rootTs.tick < now THEN \E r \in {RandomElement(Rems)} : Resign(r) ELSE GetSTH
          [] kind = 13 -> GetSTH
          [] kind = 14 -> \E f \in {RandomElement(Sizes)}, s \in {RandomElement(Sizes)} : GetConsistency(f, s)
          [] kind = 15 -> \E s \in {RandomElement(0..Size)} : \E f \in {RandomElement(0..s)} : GetConsistency(f, s)
          [] kind = 16 -> \E c \in {RandomElement(Certs)} :
                            \E t \in {IF stored[c] # None /\ RandomElement(1..5) > 1 THEN stored[c] ELSE RandomElement(0..MaxClock)},
                               n \in {RandomElement(Sizes)} : GetProofByHash(c, t, n)
          [] kind = 17 -> \E s \in {RandomElement(Sizes)}, e \in {RandomElement(Sizes)} : GetEntries(s, e)
          [] kind = 18 -> \E s \in {RandomElement(0..Size)} : \E e \in {RandomElement(s..(MaxTree + 1))} : GetEntries(s, e)
          [] kind = 19 -> \E n \in {RandomElement(Sizes)} : \E i \in {RandomElement(Sizes)} : GetEntryAndProof(i, n)
          [] OTHER -> IF Size > 0 THEN \E n \in {RandomElement(1..Size)} : \E i \in {RandomElement(0..(n - 1))} : GetEntryAndProof(i, n)
                      ELSE GetRoots
=============================================================================
