------------------------------- MODULE MCCTFE -------------------------------
EXTENDS CTFE, Json

CONSTANT Depth

\* exhaustive check: the read endpoints other than get-sth are functions of the state that change nothing the
\* invariants speak about, so they are left to the replay (simulation below enumerates them with arguments)
\* (the refusals differ in the status only: one of them stands for all in the exhaustive check)
MCSameEffect == RpcFaults \ {"unavailable"}
RightEndpoint(c) == IF c \in Precerts THEN "add-pre-chain" ELSE "add-chain"
WrongEndpoint(c) == IF c \in Precerts THEN "add-chain" ELSE "add-pre-chain"
MCNext ==
  \/ Tick
  \/ \E f \in FrontEnds, t \in 0..MaxClock : ClockSet(f, t)
  \/ \E k \in 1..MaxTree, r \in Rems : Sequence(k, r)
  \/ \E r \in Rems : Resign(r)
  \/ \E c \in Certs, f \in FrontEnds, x \in AddFaults \ MCSameEffect : AddChain(c, RightEndpoint(c), f, x)
  \/ \E c \in Certs, f \in FrontEnds : AddChain(c, WrongEndpoint(c), f, "none")   \* rejected before anything can go wrong
  \/ \E f \in FrontEnds, x \in STHFaults \ MCSameEffect : GetSTH(f, x)

StateView == <<now, clk, stored, queue, tree, rootTs, sigc, issued, sths, roots>>
\* the exhaustive check carries no served-STH / published-root histories: what they are needed for is said of the
\* serving step (STHStep), and the root a step serves is the current one
ExhaustiveView == <<now, clk, stored, queue, tree, rootTs, sigc, issued>>

End == [op |-> "End"]
Finish == Len(hist) = Depth /\ hist' = Append(hist, End)
          /\ UNCHANGED <<now, clk, stored, queue, tree, rootTs, sigc, issued, sths, roots, last>>
ExportFinished == (Len(hist) = Depth + 1) => PrintT(<<"BEH", ToJson(SubSeq(hist, 1, Depth))>>)

\* what goes wrong with a simulated request: mostly nothing
SomeFault(S) == IF RandomElement(1..6) = 1 THEN RandomElement(S \ {"none"}) ELSE "none"
\* get-sth signs: the signer is what fails most often there
\* (a definition without parameters is a constant to TLC and would be drawn once: hence the unused parameter)
SomeSTHFault(u) == IF RandomElement(1..4) = 1 THEN "sign"
                ELSE IF RandomElement(1..6) = 1 THEN RandomElement(RpcFaults) ELSE "none"
\* clients retry what failed: the request that follows a failed get-sth or submission is, every other time, the same
\* request again (a submission possibly through the other front end) with nothing going wrong
Failed == last.op \in {"GetSTH", "AddChain"} /\ last.reply.status >= 429
\* ... and ask again what they were served: every fourth time a read was answered 200 the same front end gets the same
\* request once more while the backend refuses the call (nothing remembered from the first answer may be served)
Served == /\ last.op \in {"GetSTH", "GetConsistency", "GetProofByHash", "GetEntries", "GetEntryAndProof"}
          /\ last.reply.status = 200
Again(op, a, x) ==
  CASE op = "GetSTH" -> GetSTH(a.fe, x)
    [] op = "GetConsistency" -> GetConsistency(a.first, a.second, a.fe, x)
    [] op = "GetProofByHash" -> GetProofByHash(a.cert, a.ts, a.size, a.fe, x)
    [] op = "GetEntries" -> GetEntries(a.start, a.end, a.fe, x)
    [] OTHER -> GetEntryAndProof(a.index, a.size, a.fe, x)
\* a front end for a simulated request
SomeFE(u) == RandomElement(FrontEnds)
\* where a simulated clock goes: one tick on (as a running clock does), or anywhere
SomeClock(f) == IF RandomElement(1..2) = 1 /\ clk[f] < MaxClock THEN clk[f] + 1
                ELSE RandomElement((0..MaxClock) \ {clk[f]})

\* weighted random walk, one successor per step (see check/BUILDING.md)
SimNext ==
  \/ Finish
  \/ /\ Len(hist) < Depth
     /\ \E kind \in {RandomElement(1..24)}, fe \in {SomeFE(0)}, retry \in {RandomElement(1..2)} :
        IF Failed /\ retry = 1
        THEN IF last.op = "GetSTH" THEN GetSTH(last.args.fe, "none")
             ELSE AddChain(last.args.cert, last.args.ep, fe, "none")
        ELSE IF Served /\ RandomElement(1..4) = 1
        THEN \E x \in {RandomElement(RpcFaults)} : Again(last.op, last.args, x)
        ELSE
        CASE kind \in 1..6 -> \E c \in {RandomElement(Certs)}, x \in {SomeFault(AddFaults)} :
                                 AddChain(c, IF RandomElement(1..8) = 1
                                             THEN RandomElement(Endpoints)
                                             ELSE IF c \in Precerts THEN "add-pre-chain" ELSE "add-chain", fe, x)
          [] kind = 7 -> IF now < MaxClock THEN Tick ELSE \E x \in {SomeSTHFault(0)} : GetSTH(fe, x)
          [] kind \in {8, 21, 22} -> \E t \in {SomeClock(fe)} : ClockSet(fe, t)
          [] kind \in 9..11 -> IF Len(queue) > 0 /\ Len(tree) < MaxTree
                               THEN \E k \in {RandomElement(1..(IF Len(queue) < MaxTree - Len(tree) THEN Len(queue) ELSE MaxTree - Len(tree)))},
                                       r \in {RandomElement(Rems)} : Sequence(k, r)
                               ELSE \E x \in {SomeSTHFault(0)} : GetSTH(fe, x)
          [] kind = 12 -> IF rootTs.tick < now THEN \E r \in {RandomElement(Rems)} : Resign(r) ELSE GetSTH(fe, "none")
          [] kind \in {13, 23, 24} -> \E x \in {SomeSTHFault(0)} : GetSTH(fe, x)
          [] kind = 14 -> \E f \in {RandomElement(Sizes)}, s \in {RandomElement(Sizes)}, x \in {SomeFault(ReadFaults)} : GetConsistency(f, s, fe, x)
          [] kind = 15 -> \E s \in {RandomElement(0..Size)}, x \in {SomeFault(ReadFaults)} : \E f \in {RandomElement(0..s)} : GetConsistency(f, s, fe, x)
          [] kind = 16 -> \E c \in {IF Size > 0 /\ RandomElement(1..3) > 1 THEN tree[RandomElement(1..Size)] ELSE RandomElement(Certs)},
                               x \in {SomeFault(ReadFaults)} :
                            \E t \in {IF stored[c] # None /\ RandomElement(1..5) > 1 THEN stored[c] ELSE RandomElement(0..MaxClock)},
                               n \in {IF Size > 0 /\ RandomElement(1..3) > 1 THEN RandomElement(1..Size) ELSE RandomElement(Sizes)} :
                                 GetProofByHash(c, t, n, fe, x)
          [] kind = 17 -> \E s \in {RandomElement(Sizes)}, e \in {RandomElement(Sizes)}, x \in {SomeFault(ReadFaults)} : GetEntries(s, e, fe, x)
          [] kind = 18 -> \E s \in {RandomElement(0..Size)}, x \in {SomeFault(ReadFaults)} : \E e \in {RandomElement(s..(MaxTree + 1))} : GetEntries(s, e, fe, x)
          [] kind = 19 -> \E n \in {RandomElement(Sizes)}, x \in {SomeFault(ReadFaults)} : \E i \in {RandomElement(Sizes)} : GetEntryAndProof(i, n, fe, x)
          [] OTHER -> IF Size > 0 THEN \E n \in {RandomElement(1..Size)}, x \in {SomeFault(ReadFaults)} : \E i \in {RandomElement(0..(n - 1))} : GetEntryAndProof(i, n, fe, x)
                      ELSE GetRoots(fe)
=============================================================================
