CONSTANTS
  Logs = {"X", "Y"}
  Defect = "none"
  Certs = {"x1", "x2", "p1"}
  ChainOf <- MCChainOf
  NoCache = FALSE
  Cap = 1
  MaxTree = 1
  MaxFaults = 1
  Depth = 0
  Dialect = "memory"
INIT Init
NEXT Next
VIEW StateView
CONSTRAINT PendingBound1
INVARIANTS CacheSound CacheBounded FaultClasses AckedServable CacheStandsForStored
PROPERTIES SameAsDirect FaultIsError RangeWhole LegacyUnchanged AckAfterStore CacheFromStore StoreMonotone ServableStays RestartIsCold
  AckedIsStored GarbledLeafIsError RangeOrderIrrelevant LogsIndependent
  DedupIsSuccess FirstAddInserts AddErrorIs5xx AckNeedsLayerOk FindErrorIs5xx MissingRowIsError SoftFaultInvisible
CHECK_DEADLOCK FALSE
