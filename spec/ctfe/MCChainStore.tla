---------------------------- MODULE MCChainStore ----------------------------
EXTENDS ChainStore, Json
CONSTANT Depth
MCChainOf == [c \in {"x1", "x2", "x3", "p1", "p2"} |->
                 CASE c = "x1" -> "cA" [] c = "x2" -> "cA" [] c = "x3" -> "c0" [] c = "p1" -> "cB" [] OTHER -> "cA"]
\* the exhaustive configs bound the number of outstanding detached cache writes
PendingBound == Len(pending) <= 2
StateView == <<queued, tree, known, store, bad, cache, pending, faults>>
End == [op |-> "End"]
Finish == Len(hist) = Depth /\ hist' = Append(hist, End)
          /\ UNCHANGED <<queued, tree, known, store, bad, cache, pending, faults, last>>
ExportFinished == (Len(hist) = Depth + 1) => PrintT(<<"BEH", ToJson([cap |-> IF NoCache THEN -1 ELSE Cap, dialect |-> Dialect, steps |-> SubSeq(hist, 1, Depth),
                                                                   cold |-> [i \in 1..Len(tree) |-> ServableCold(i)]])>>)
SimNext ==
  \/ Finish
  \/ /\ Len(hist) < Depth
     \* the dialects draw from the same seeded generator: extra draws per step give each its own walks
     /\ (Dialect = "mysql" => RandomElement({1, 2}) > 0)
     /\ (Dialect = "postgresql" => RandomElement({1, 2}) + RandomElement({3, 4}) > 0)
     /\ \E kind \in {RandomElement(1..20)} :
        CASE kind \in 1..5 -> \E c \in {RandomElement(Certs)} : Submit(c, "none")
          [] kind = 6 -> \E c \in {RandomElement(Certs)}, f \in {RandomElement(AddFaults)} : Submit(c, f) \/ Submit(c, "none")
          [] kind \in 7..8 -> IF Len(queued) > 0 /\ Len(tree) < MaxTree
                              THEN \E k \in {RandomElement(1..(IF Len(queued) < MaxTree - Len(tree) THEN Len(queued) ELSE MaxTree - Len(tree)))} : Sequence(k)
                              ELSE \E c \in {RandomElement(Certs)} : Submit(c, "none")
          [] kind = 9 -> IF \E c \in Certs : c \notin known /\ Len(tree) < MaxTree
                         THEN \E c \in {RandomElement({x \in Certs : x \notin known})} : Legacy(c)
                         ELSE \E c \in {RandomElement(Certs)} : Submit(c, "none")
          [] kind \in 10..15 -> IF Len(tree) > 0
                                THEN \E i \in {RandomElement(1..Len(tree))}, v \in {RandomElement({"entries", "proof"})} :
                                        IF Len(tree) > 1 /\ RandomElement(1..3) = 1
                                        THEN \E a \in {RandomElement(1..Len(tree) - 1)} : \E b \in {RandomElement(a + 1..Len(tree))} :
                                                IF RandomElement(1..3) = 1 THEN \E f \in {RandomElement(FindFaults)} : (ReadRange(a, b, f) \/ ReadRange(a, b, "none")) ELSE ReadRange(a, b, "none")
                                        ELSE IF RandomElement(1..6) = 1 THEN \E f \in {RandomElement(FindFaults)} : (Read(i, v, f) \/ Read(i, v, "none")) ELSE Read(i, v, "none")
                                ELSE \E c \in {RandomElement(Certs)} : Submit(c, "none")
          [] kind \in 16..18 -> IF Len(pending) > 0 THEN CacheSetFires ELSE \E c \in {RandomElement(Certs)} : Submit(c, "none")
          [] kind = 19 -> IF faults < MaxFaults /\ RandomElement(1..2) = 1 THEN Restart
                          ELSE IF store # {} /\ faults < MaxFaults THEN \E h \in {RandomElement(store)} : DropRow(h)
                          ELSE \E c \in {RandomElement(Certs)} : Submit(c, "none")
          [] OTHER -> IF \E h \in store : bad[h] = "ok" /\ faults < MaxFaults
                      THEN \E h \in {RandomElement({x \in store : bad[x] = "ok"})}, k \in {RandomElement(CorruptClasses)} : Corrupt(h, k)
                      ELSE \E c \in {RandomElement(Certs)} : Submit(c, "none")
=============================================================================
