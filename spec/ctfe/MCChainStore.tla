---------------------------- MODULE MCChainStore ----------------------------
EXTENDS ChainStore, Json
CONSTANT Depth
MCChainOf == [c \in {"x1", "x2", "x3", "p1", "p2"} |->
                 CASE c = "x1" -> "cA" [] c = "x2" -> "cA" [] c = "x3" -> "c0" [] c = "p1" -> "cB" [] OTHER -> "cA"]
\* the exhaustive configs bound the number of outstanding detached cache writes
PendingBound == \A l \in Logs : Len(pending[l]) <= 2
PendingBound1 == \A l \in Logs : Len(pending[l]) <= 1
\* the reply to a page does not depend on the completion order and the garble classes fall into two kinds (no lookup /
\* a lookup that finds nothing).  The large exhaustive configs (one log, every cache kind x dialect) explore one order
\* and, for the in-memory layer, one class without lookup (the garble dimension does not touch the storage layer);
\* ChainStorePages.cfg explores every order and one class of each kind on pages of up to three leaves,
\* ChainStorePagesBig.cfg and the two-log configs explore everything (Next).
NextLean == NextWith({"asc"}, IF SQL THEN {} ELSE {"garbageExtra"})
NextPages == NextWith(Orders, {"garbageExtra", "unknownHash"})
StateView == <<queued, tree, known, store, bad, lost, cache, pending, faults>>
End == [op |-> "End"]
Finish == Len(hist) = Depth /\ hist' = Append(hist, End)
          /\ UNCHANGED <<queued, tree, known, store, bad, lost, cache, pending, faults, last>>
ExportFinished == (Len(hist) = Depth + 1) => PrintT(<<"BEH", ToJson([cap |-> IF NoCache THEN -1 ELSE Cap, dialect |-> Dialect, logs |-> Logs, steps |-> SubSeq(hist, 1, Depth),
                                                                   cold |-> [l \in Logs |-> [i \in 1..Len(tree[l]) |-> ServableCold(l, i)]]])>>)

\* the log of a step: the first log most of the time (its history gets long enough), another one otherwise
OtherLogs == IF Cardinality(Logs) > 1 THEN Logs \ {"X"} ELSE Logs
\* (the parameter keeps TLC from evaluating the draw once and for all as a constant definition)
DrawLog(n) == IF "X" \in Logs /\ RandomElement(1..10) <= 6 THEN "X" ELSE RandomElement(OtherLogs)
\* certificates of the same issuance chain (the same leaf again, or another leaf of the same issuer)
Siblings(c) == {x \in Certs : ChainOf[x] = ChainOf[c]}
\* chains some cache of the process holds or is about to hold
Warm == {h \in Chains : \E m \in Logs : InCache(m, h) \/ \E i \in 1..Len(pending[m]) : pending[m][i] = h}
DrawGarble(a, b) == IF RandomElement(1..4) = 1 THEN [pos |-> RandomElement(a..b), class |-> RandomElement(GarbleClasses)] ELSE NoGarble

SimNext ==
  \/ Finish
  \/ /\ Len(hist) < Depth
     \* the dialects draw from the same seeded generator: extra draws per step give each its own walks
     /\ (Dialect = "mysql" => RandomElement({1, 2}) > 0)
     /\ (Dialect = "postgresql" => RandomElement({1, 2}) + RandomElement({3, 4}) > 0)
     /\ \E kind \in {RandomElement(1..22)}, l \in {DrawLog(Len(hist))} :
        \* the retry: a submission that failed at the storage is sent again (same leaf or a sibling, same log) more often than not,
        \* at once or after the detached writes that are on their way have landed
        IF last.op = "Submit" /\ last.reply.status = 500 /\ RandomElement(1..4) <= 3
        THEN \E c \in {RandomElement(Siblings(last.args.cert))} : Submit(last.args.log, c, "none")
        ELSE IF last.op = "CacheSetFires" /\ Len(hist) > 1 /\ hist[Len(hist) - 1].op = "Submit" /\ hist[Len(hist) - 1].reply.status = 500 /\ RandomElement(1..2) = 1
        THEN \E c \in {RandomElement(Siblings(hist[Len(hist) - 1].args.cert))} : Submit(hist[Len(hist) - 1].args.log, c, "none")
        ELSE
        CASE kind \in 1..5 -> \E c \in {RandomElement(Certs)} : Submit(l, c, "none")
          [] kind \in 6..7 -> \E c \in {RandomElement(Certs)}, f \in {RandomElement(AddFaults)} : Submit(l, c, f) \/ Submit(l, c, "none")
          [] kind \in 8..9 -> IF Len(queued[l]) > 0 /\ Len(tree[l]) < MaxTree
                              THEN \E k \in {RandomElement(1..(IF Len(queued[l]) < MaxTree - Len(tree[l]) THEN Len(queued[l]) ELSE MaxTree - Len(tree[l])))} : Sequence(l, k)
                              ELSE \E c \in {RandomElement(Certs)} : Submit(l, c, "none")
          [] kind = 10 -> IF \E c \in Certs : c \notin known[l] /\ Len(tree[l]) < MaxTree
                          THEN \E c \in {RandomElement({x \in Certs : x \notin known[l]})} : Legacy(l, c)
                          ELSE \E c \in {RandomElement(Certs)} : Submit(l, c, "none")
          [] kind \in 11..16 -> IF Len(tree[l]) > 0
                                THEN \E i \in {RandomElement(1..Len(tree[l]))}, v \in {RandomElement({"entries", "proof"})}, o \in {RandomElement(Orders)} :
                                        IF Len(tree[l]) > 1 /\ RandomElement(1..5) <= 2
                                        THEN \E a \in {RandomElement(1..Len(tree[l]) - 1)} : \E b \in {RandomElement(a + 1..Len(tree[l]))} : \E g \in {DrawGarble(a, b)} :
                                                IF RandomElement(1..3) = 1 THEN \E f \in {RandomElement(FindFaults)} : (ReadRange(l, a, b, f, o, g) \/ ReadRange(l, a, b, "none", o, g)) ELSE ReadRange(l, a, b, "none", o, g)
                                        ELSE IF RandomElement(1..6) = 1 THEN \E f \in {RandomElement(FindFaults)} : (Read(l, i, v, f) \/ Read(l, i, v, "none")) ELSE Read(l, i, v, "none")
                                ELSE \E c \in {RandomElement(Certs)} : Submit(l, c, "none")
          [] kind \in 17..19 -> IF \E m \in Logs : Len(pending[m]) > 0
                                THEN \E m \in {RandomElement({x \in Logs : Len(pending[x]) > 0})} : CacheSetFires(m)
                                ELSE \E c \in {RandomElement(Certs)} : Submit(l, c, "none")
          [] kind = 20 -> IF faults < MaxFaults /\ RandomElement(1..2) = 1 THEN Restart
                          ELSE IF store[l] # {} /\ faults < MaxFaults THEN \E h \in {RandomElement(store[l])} : DropRow(l, h)
                          ELSE \E c \in {RandomElement(Certs)} : Submit(l, c, "none")
          \* a chain that is warm in some cache of the process is submitted to one of its logs (for several logs: the
          \* log another log's cache must not speak for)
          [] kind = 21 -> IF Warm # {}
                          THEN \E h \in {RandomElement(Warm)} : \E c \in {RandomElement({x \in Certs : ChainOf[x] = h})}, m \in {RandomElement(OtherLogs)} : Submit(m, c, "none")
                          ELSE \E c \in {RandomElement(Certs)} : Submit(l, c, "none")
          [] OTHER -> IF \E h \in store[l] : bad[l][h] = "ok" /\ faults < MaxFaults
                      THEN \E h \in {RandomElement({x \in store[l] : bad[l][x] = "ok"})}, k \in {RandomElement(CorruptClasses)} : Corrupt(l, h, k)
                      ELSE \E c \in {RandomElement(Certs)} : Submit(l, c, "none")
=============================================================================
