-------------------------- MODULE ChainAdmissionLog --------------------------
(***************************************************************************)
(* Chain admission over TIME and HISTORY (C02).                            *)
(*                                                                         *)
(* ChainAdmission says which single submission is admitted under which     *)
(* options.  This module says what a log is that serves many submissions   *)
(* one after the other while the clock advances: admission is a FUNCTION   *)
(* of the request, of the configuration the log was set up with, and of    *)
(* the clock AT THE INSTANT OF THAT REQUEST (the property's "expired /     *)
(* unexpired rejection" speaks about the moment of the submission).        *)
(* Nothing else may enter the verdict: not what was submitted before, not  *)
(* when the log served its first request, not what another log of the      *)
(* same process was asked.                                                 *)
(*                                                                         *)
(*   for every sequence of requests, every request is answered as it       *)
(*   would be answered alone                                (JudgedAlone)  *)
(*   serving a request leaves nothing behind             (NothingRemembered,*)
(*                                                          ConfigFixed)   *)
(*                                                                         *)
(* Code: trillian/ctfe/handlers.go (verifyAddChain: every request of a log *)
(* is validated with the one long-lived li.validationOpts),                *)
(* trillian/ctfe/cert_checker.go (ValidateChain reads the clock when the   *)
(* options carry no time), x509/verify.go (path building, a place for      *)
(* memos).  The specification's log has no memory (mem never changes);     *)
(* Memory # "none" switches on two ways of carrying state from one request *)
(* to the next, kept as negative instances: TLC must refuse them           *)
(* (ChainAdmissionLogPinFirst.cfg, ChainAdmissionLogMemo.cfg).             *)
(***************************************************************************)
EXTENDS ChainAdmissionWorld

CONSTANTS LogIds,       \* the logs of one history
          MaxClock,     \* instants are 0..MaxClock (certificates of the world expire at 4 and 5)
          Memory,       \* "none" (the specification) | "pinFirstClock" | "memoByLeaf" (negative instances)
          Configs,      \* the configurations a log may be set up with
          WalkChains,   \* the submissions of the histories
          StartClocks   \* instants at which a history may begin

VARIABLES clock,        \* the instant now
          cfg,          \* log -> its configuration, fixed at set-up
          mem,          \* what the logs carry from one request to the next: nothing
          last,         \* the request served last, with its verdict
          hist          \* everything that happened, in order (history variable)
lvars == <<clock, cfg, mem, last, hist>>

(* ---------- configuration ---------- *)
\* [T: which certificates the log trusts (a name of TSets), k: its admission options (a row of OptTab; the row's own
\*  `now` is not part of a log's configuration), pin: an optional instant]
\* NAMED CLAUSE PinnedTime.  Options handed to ValidateChain directly may carry a time ("only for testing"); expiry is
\* then judged at that instant whatever the clock says.  The configuration of a log server has no such field: a log
\* never pins a time, every request is judged at the instant of that request.
Instant(c, now) == IF c.pin.p THEN c.pin.v ELSE now

\* a window whose limit lies before its start is refused at configuration time
Configurable(k) == LET o == OptTab[k] IN ~(o.start.p /\ o.limit.p /\ o.limit.v < o.start.v)
\* forbidden extensions and the "Any" EKU can be configured for a log only (NewCertValidationOpts has no parameter)
Expressible(k) == OptTab[k].rejExts = {} /\ "any" \notin OptTab[k].ekus
\* how a configuration can be exercised: the two endpoints of a log set up with it, ValidateChain with options built from it
Routes == Endpoints \cup {"validate"}
RoutesOf(c) == (IF c.pin.p THEN {} ELSE Endpoints) \cup (IF Expressible(c.k) THEN {"validate"} ELSE {})
ConfigOK(c) == Configurable(c.k) /\ RoutesOf(c) # {}

(* ---------- the law: the verdict of a request alone ---------- *)
JudgeWith(okv, c, leaf, route, now) ==
  LET o == [OptTab[c.k] EXCEPT !.now = Instant(c, now)]
  IN IF route = "validate" THEN ValidateWith(okv, leaf, o) ELSE AdmitWith(okv, leaf, o, route)
Judge(c, ch, route, now) == JudgeWith(ChainOK(Recs(ch), TRecs(c.T)), c, Cert[ch[1]], route, now)

(* ---------- state machine ---------- *)
None == [op |-> "none"]
NoMemory == [pin |-> [l \in LogIds |-> NoBound], memo |-> {}]

\* a history begins with the set-up of its logs; from then on the configuration is what it is
NotSetUp == [l \in LogIds |-> [T |-> "none", k |-> 0, pin |-> NoBound]]
Init == /\ clock = 0
        /\ cfg = NotSetUp
        /\ mem = NoMemory
        /\ last = None
        /\ hist = <<>>
SetUp(f, t0) == /\ cfg = NotSetUp
                /\ cfg' = f
                /\ clock' = t0
                /\ hist' = <<[op |-> "start", at |-> t0]>>
                /\ UNCHANGED <<mem, last>>

Tick(d) == /\ cfg # NotSetUp
           /\ clock + d <= MaxClock
           /\ clock' = clock + d
           /\ hist' = Append(hist, [op |-> "tick", d |-> d, at |-> clock'])
           /\ UNCHANGED <<cfg, mem, last>>

\* the instant a log judges at.  The specification: Instant(cfg[l], clock).
JudgingInstant(l) == IF Memory = "pinFirstClock" /\ mem.pin[l].p THEN mem.pin[l].v ELSE clock
MemoKey(l, ch, route) == <<l, ch[1], route>>

Serve(l, ch, route) ==
  /\ cfg # NotSetUp
  /\ route \in RoutesOf(cfg[l])
  /\ LET c == cfg[l]
         leaf == Cert[ch[1]]
         okv == ChainOK(Recs(ch), TRecs(c.T))
         hit == {m \in mem.memo : m.key = MemoKey(l, ch, route)}
         v == IF Memory = "memoByLeaf" /\ hit # {} THEN (CHOOSE m \in hit : TRUE).v
              ELSE JudgeWith(okv, c, leaf, route, JudgingInstant(l))
     IN /\ last' = [op |-> "serve", log |-> l, ch |-> ch, route |-> route, at |-> clock, verdict |-> v,
                    \* the instants at which this request, alone, is admitted; the paths the property allows
                    when |-> {n \in 0..MaxClock : JudgeWith(okv, c, leaf, route, n)},
                    paths |-> IF okv THEN {Ids(p) : p \in Paths(Recs(ch), TRecs(c.T))} ELSE {},
                    ok |-> okv, kind |-> IF leaf.parses THEN Kind(leaf) ELSE "unparsable"]
        /\ mem' = CASE Memory = "pinFirstClock" -> [mem EXCEPT !.pin[l] = IF @.p THEN @ ELSE At(clock)]
                    [] Memory = "memoByLeaf" -> [mem EXCEPT !.memo = @ \cup {[key |-> MemoKey(l, ch, route), v |-> v]}]
                    [] OTHER -> mem
  /\ hist' = Append(hist, last')
  /\ UNCHANGED <<clock, cfg>>

Next == \/ \E f \in [LogIds -> {c \in Configs : ConfigOK(c)}], t0 \in StartClocks : SetUp(f, t0)
        \/ \E d \in 1..2 : Tick(d)
        \/ \E l \in LogIds, ch \in WalkChains, route \in Routes : Serve(l, ch, route)

(* ---------- laws ---------- *)
\* every request is answered as it would be answered alone: by the configuration at set-up and the clock at the
\* instant of the request
JudgedAlone == last.op = "serve" => last.verdict = Judge(cfg[last.log], last.ch, last.route, last.at)
\* serving leaves nothing behind
NothingRemembered == mem = NoMemory
ConfigFixed == [][cfg # NotSetUp => cfg' = cfg]_lvars
\* the same request again, judged at the same instant, gets the same answer (whatever was served in between: `last`
\* survives ticks)
Repeatable == [][(/\ last.op = "serve" /\ last'.op = "serve"
                  /\ last'.log = last.log /\ last'.ch = last.ch /\ last'.route = last.route
                  /\ Instant(cfg[last.log], last'.at) = Instant(cfg[last.log], last.at))
                 => last'.verdict = last.verdict]_lvars
\* time only moves forward, and expiry is final: a log that only rejects expired certificates never admits later what
\* it refuses now, a log that only rejects unexpired ones never refuses later what it admits now; a pinned
\* configuration does not see the clock at all
WhenShape == last.op = "serve" =>
  LET o == OptTab[cfg[last.log].k]
      W == last.when
  IN /\ (cfg[last.log].pin.p => W \in {{}, 0..MaxClock})
     /\ (o.rejExp /\ ~o.rejUnexp => \A n, m \in 0..MaxClock : n < m /\ m \in W => n \in W)
     /\ (o.rejUnexp /\ ~o.rejExp => \A n, m \in 0..MaxClock : n < m /\ n \in W => m \in W)
     /\ (~o.rejExp /\ ~o.rejUnexp => W \in {{}, 0..MaxClock})
     /\ (o.rejExp /\ o.rejUnexp => W = {})
     /\ last.verdict = (IF cfg[last.log].pin.p THEN W # {} ELSE last.at \in W)
TimeForward == [][clock' >= clock]_lvars
=============================================================================
