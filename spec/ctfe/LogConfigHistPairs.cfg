\* exhaustive: every session of two validations over the key and the components of the frozen STH; the laws of the history
CONSTANTS
  MaxSize = 4
  FrozenSize = 2
  HDepth = 2
INIT SimInit
NEXT PairNext
VIEW PairView
INVARIANTS HistLaw
CHECK_DEADLOCK FALSE
