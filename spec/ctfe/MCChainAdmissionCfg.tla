------------------------- MODULE MCChainAdmissionCfg -------------------------
(* The admission options AS CONFIGURED.  The option table of ChainAdmissionWorld speaks of the filter a log applies  *)
(* (sets of names); an operator writes LISTS (ext_key_usages, reject_extensions) which ValidateLogConfig and the      *)
(* instance set-up turn into that filter.  Every state is one configuration as written: a list of EKU names (every   *)
(* list up to MaxList names over EkuNames: "any" first / in the middle / last / alone / repeated, duplicates, every   *)
(* order), a list of forbidden extensions (ExtLists) and the rest of the options (RestRows: rows of the option table  *)
(* that leave both filters empty).  In every state the specification's verdicts on the chains CfgChains (in order     *)
(* under T1: one per kind of leaf, and one that is not in order) are computed with the filter the lists MEAN          *)
(* (FilterOf) and exported (CFG); the harness configures a log with the lists as written.                            *)
(* Laws: ListShape (the code-shaped reading of the lists, front to back, is the filter they mean), ListOrderFree     *)
(* (two lists with the same names decide alike), AnyOpens ("any" anywhere admits what no filter admits).             *)
EXTENDS ChainAdmissionWorld, Sequences

CONSTANT MaxList     \* longest configured EKU list

EkuNames == {"any", "server", "client", "email", "ts"}      \* "ts" (time stamping): a name no leaf of the world has
Lists(S, n) == UNION {[1..k -> S] : k \in 0..n}
EkuLists == Lists(EkuNames, MaxList)
ExtLists == Lists({"X", "Y"}, 2)
\* the EKU lists that are combined with every list of forbidden extensions
CrossEku == {<<>>, <<"any", "ts">>, <<"email", "server">>}

Lenient(o) == ~o.start.p /\ ~o.limit.p /\ ~o.onlyCA /\ o.ekus = {} /\ o.rejExts = {}
FirstOf(S) == CHOOSE k \in S : \A j \in S : k <= j
\* the rest of the options: lenient before / after every NotAfter; a window that holds the leaves and rejectExpired;
\* CA certificates only
RestRows == { FirstOf({k \in 1..NOpts : Lenient(OptTab[k]) /\ ~OptTab[k].rejExp /\ ~OptTab[k].rejUnexp /\ OptTab[k].now = 0}),
              FirstOf({k \in 1..NOpts : Lenient(OptTab[k]) /\ ~OptTab[k].rejExp /\ ~OptTab[k].rejUnexp /\ OptTab[k].now = 9}),
              FirstOf({k \in 1..NOpts : LET o == OptTab[k] IN /\ o.start = At(4) /\ o.limit = At(5) /\ o.rejExp /\ ~o.rejUnexp /\ o.now = 0
                                                               /\ ~o.onlyCA /\ o.ekus = {} /\ o.rejExts = {}}),
              FirstOf({k \in 1..NOpts : LET o == OptTab[k] IN /\ ~o.start.p /\ ~o.limit.p /\ ~o.rejExp /\ ~o.rejUnexp /\ o.now = 9
                                                               /\ o.onlyCA /\ o.ekus = {} /\ o.rejExts = {}}) }

CfgChains == << <<"L2", "I2", "I1">>, <<"L1", "I1">>, <<"LE", "I2", "I1", "R1">>, <<"LX", "I2", "I1", "R1">>, <<"LP", "P", "I1">>,
                <<"LQ", "I2", "I1">>, <<"LCA", "I1">>, <<"LNC", "I2", "I1">>, <<"I2", "I1", "R1">>, <<"L1a", "I1a", "R1">>,
                <<"L2", "I1">> >>
CfgT == "T1"
ChainOKs == [i \in 1..Len(CfgChains) |-> ChainOK(Recs(CfgChains[i]), TRecs(CfgT))]
Leaf(i) == Cert[CfgChains[i][1]]

VARIABLE cf      \* [eku, ext : lists, rest : a row of the option table]
Init == cf \in {[eku |-> e, ext |-> <<>>, rest |-> r] : e \in EkuLists, r \in RestRows}
               \cup {[eku |-> e, ext |-> x, rest |-> r] : e \in CrossEku, x \in ExtLists, r \in RestRows}
Next == UNCHANGED cf

O == Configured(OptTab[cf.rest], cf.eku, cf.ext)
Verdict(i) == [val |-> ValidateWith(ChainOKs[i], Leaf(i), O),
               admC |-> AdmitWith(ChainOKs[i], Leaf(i), O, "add-chain"),
               admP |-> AdmitWith(ChainOKs[i], Leaf(i), O, "add-pre-chain")]

Perm3(s) == {s} \cup (IF Len(s) < 2 THEN {} ELSE {[s EXCEPT ![1] = s[2], ![2] = s[1]], [s EXCEPT ![1] = s[Len(s)], ![Len(s)] = s[1]]})
Laws == /\ \A i \in 1..Len(CfgChains) : ListShape(Leaf(i), OptTab[cf.rest], cf.eku, cf.ext)
        \* order and repetition mean nothing
        /\ \A e2 \in Perm3(cf.eku) \cup {cf.eku \o cf.eku, cf.eku \o (IF Len(cf.eku) = 0 THEN <<>> ELSE <<cf.eku[1]>>)}, i \in 1..Len(CfgChains) :
               LeafFilters(Leaf(i), Configured(OptTab[cf.rest], e2, cf.ext)) = LeafFilters(Leaf(i), O)
        \* "any" anywhere: the EKU filter is off
        /\ (\E j \in 1..Len(cf.eku) : cf.eku[j] = "any") =>
               \A i \in 1..Len(CfgChains) : LeafFilters(Leaf(i), O) = LeafFilters(Leaf(i), Configured(OptTab[cf.rest], <<>>, cf.ext))
        \* the endpoints still exclude each other
        /\ \A i \in 1..Len(CfgChains) : ~(Verdict(i).admC /\ Verdict(i).admP)

Row == LET o == OptRow(cf.rest)
       IN [o EXCEPT !.ekus = FilterOf(cf.eku), !.rejExts = FilterOf(cf.ext)] @@ [ekuList |-> cf.eku, extList |-> cf.ext, rest |-> cf.rest]
Export == PrintT(<<"CFG", ToJson([row |-> Row,
                                  chains |-> [i \in 1..Len(CfgChains) |->
                                     [ch |-> CfgChains[i], T |-> CfgT, ok |-> ChainOKs[i],
                                      kind |-> Kind(Leaf(i)),
                                      paths |-> IF ChainOKs[i] THEN {Ids(p) : p \in Paths(Recs(CfgChains[i]), TRecs(CfgT))} ELSE {},
                                      v |-> Verdict(i)]]])>>)
=============================================================================
