CONSTANTS
  MaxSize = 4
  FrozenSize = 2
  Depth = 4
INIT InitInst
NEXT CoverNext
VIEW CoverView
INVARIANTS ExportAtDepth
CHECK_DEADLOCK FALSE
