\* non-vacuity of STHVerifies: with the ordering defect switched on (the new tree head is remembered as signed before
\* the signer has answered) TLC must find a served STH whose signature covers another head
CONSTANTS
  Certs = {"x1", "p1"}
  Precerts = {"p1"}
  MaxClock = 2
  MaxTree = 2
  FrontEnds = {"A"}
  CacheWriteFirst = TRUE
  Depth = 0
INIT Init
NEXT MCNext
VIEW StateView
INVARIANTS STHVerifies
CHECK_DEADLOCK FALSE
