\* seeded random draws from the full product of field states (-simulate, -depth 2)
CONSTANTS
  MaxSize = 4
  FrozenSize = 2
  Depth = 0
INIT InitDraw
NEXT NextDraw
INVARIANTS ExportDraw
CHECK_DEADLOCK FALSE
