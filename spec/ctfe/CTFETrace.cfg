CONSTANTS
  Certs = {"x1", "x2", "x3", "p1", "p2"}
  Precerts = {"p1", "p2"}
  MaxClock = 50
  MaxTree = 50
  FrontEnds = {"A", "B"}
  CacheWriteFirst = FALSE
INIT TraceInit
NEXT TraceNext
VIEW TraceView
CONSTRAINT HighWater
INVARIANTS STHFaithful STHVerifies DupStable SCTBindsStored SingleIndex QueueSound
PROPERTIES TraceAppendOnly TraceSCTOnlyOn200
POSTCONDITION TraceAccepted
CHECK_DEADLOCK FALSE
