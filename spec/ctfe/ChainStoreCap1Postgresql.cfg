CONSTANTS
  Logs = {"X"}
  Defect = "none"
  Certs = {"x1", "x3", "p1"}
  ChainOf <- MCChainOf
  NoCache = FALSE
  Cap = 1
  MaxTree = 2
  MaxFaults = 1
  Depth = 0
  Dialect = "postgresql"
INIT Init
NEXT NextLean
VIEW StateView
CONSTRAINT PendingBound
INVARIANTS CacheSound CacheBounded FaultClasses AckedServable CacheStandsForStored
PROPERTIES SameAsDirect FaultIsError RangeWhole LegacyUnchanged AckAfterStore CacheFromStore StoreMonotone ServableStays RestartIsCold
  AckedIsStored GarbledLeafIsError RangeOrderIrrelevant LogsIndependent
  DedupIsSuccess FirstAddInserts AddErrorIs5xx AckNeedsLayerOk FindErrorIs5xx MissingRowIsError SoftFaultInvisible
CHECK_DEADLOCK FALSE
