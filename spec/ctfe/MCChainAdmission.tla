-------------------------- MODULE MCChainAdmission --------------------------
(* Case analysis of ChainAdmission over one certificate hierarchy: base chains x perturbations (one or two) x sets  *)
(* of trusted certificates are the states; the table of admission options (2160 combinations) x the two endpoints   *)
(* is evaluated inside every state.  The laws of ChainAdmission are invariants; every state is exported (CASE)      *)
(* with the specification's verdicts for every option combination, the option table once (OPTS).                   *)
(* The hierarchy, the chains and the option table are those of ChainAdmissionWorld.  The perturbations include    *)
(* the FORMS of an entry: every submitted certificate, at every position, in every encoding (DER, padded serial /  *)
(* version INTEGER, padded length) followed by every trailer (nothing, one octet, several, an element, a second    *)
(* certificate).                                                                                                  *)
(* MCChainAdmissionCfg.tla adds the options AS CONFIGURED (lists of names) on the chains that are in order.        *)
EXTENDS ChainAdmissionWorld

(* ---------- state ---------- *)
VARIABLE cs
Init == cs \in Cases
Next == UNCHANGED cs

rc == Recs(cs.ch)
TT == TRecs(cs.T)
\* the verdict sets of a state: the options (indices into the table) under which the specification validates / admits
Val(okv) == IF okv THEN {k \in 1..NOpts : ValidateWith(okv, rc[1], OptTab[k])} ELSE {}
Adm(okv, v, e) == {k \in v : AdmitWith(okv, rc[1], OptTab[k], e)}

Laws == LET okv == ChainOK(rc, TT)
            v == Val(okv)
        IN /\ PathLaw(rc, TT)
           /\ CodeShape(rc, TT)
           /\ OneEndpoint(rc, TT, OptTab[1])
           /\ Adm(okv, v, "add-chain") \cap Adm(okv, v, "add-pre-chain") = {}
           /\ Kind(rc[1]) = "malformed" => \A e \in Endpoints : Adm(okv, v, e) = {}
           \* Admit => the path starts with the submitted leaf, contains the submission in order, ends in the trusted pool
           /\ (\E e \in Endpoints : Adm(okv, v, e) # {}) =>
                 \A p \in Paths(rc, TT) : p[1] = rc[1] /\ SubSeq(p, 1, Len(rc)) = rc /\ Last(p) \in TT
           \* an entry that is a certificate plus something, or written with a padded length, is no certificate; a certificate
           \* written with a padded INTEGER is one, and the paths carry it as submitted (on the submissions as they are: every
           \* position x encoding x trailer)
           /\ (cs.tags = <<>> => \A i \in 1..Len(rc), e \in Encs, t \in Trailers : EntryLaw(rc, TT, i, e, t))
           \* the parameterized verdicts are the verdicts (spot check of the definitional identity)
           /\ \A k \in {1, NOpts} : /\ (k \in v) = ValidateOK(rc, TT, OptTab[k])
                                     /\ \A e \in Endpoints : (k \in Adm(okv, v, e)) = Admit(rc, TT, OptTab[k], e)

Case == LET okv == ChainOK(rc, TT)
            v == Val(okv)
        IN [ch |-> cs.ch, T |-> cs.T, tags |-> cs.tags, ok |-> okv,
            kind |-> IF rc[1].parses THEN Kind(rc[1]) ELSE "unparsable",
            \* the search has to go past a trusted candidate that does not link
            decoy |-> Decoys(rc, TT) # {},
            paths |-> IF okv THEN {Ids(p) : p \in Paths(rc, TT)} ELSE {},
            val |-> v, admC |-> Adm(okv, v, "add-chain"), admP |-> Adm(okv, v, "add-pre-chain")]
Export == PrintT(<<"CASE", ToJson(Case)>>)
=============================================================================
