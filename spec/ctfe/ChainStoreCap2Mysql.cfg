CONSTANTS
  Certs = {"x1", "x3", "p1"}
  ChainOf <- MCChainOf
  NoCache = FALSE
  Cap = 2
  MaxTree = 2
  MaxFaults = 1
  Depth = 0
  Dialect = "mysql"
INIT Init
NEXT Next
VIEW StateView
CONSTRAINT PendingBound
INVARIANTS CacheSound CacheBounded FaultClasses
PROPERTIES SameAsDirect FaultIsError RangeWhole LegacyUnchanged AckAfterStore CacheFromStore StoreMonotone ServableStays RestartIsCold
  DedupIsSuccess FirstAddInserts AddErrorIs5xx AckNeedsLayerOk FindErrorIs5xx MissingRowIsError SoftFaultInvisible
CHECK_DEADLOCK FALSE
