\* exhaustive: 3 certificates (one precert), clock 0..2, tree <= 3
CONSTANTS
  Certs = {"x1", "x2", "p1"}
  Precerts = {"p1"}
  MaxClock = 2
  MaxTree = 3
  Depth = 0
INIT Init
NEXT MCNext
VIEW StateView
INVARIANTS TypeOK STHFaithful DupStable SCTBindsStored SingleIndex QueueSound
PROPERTIES AppendOnly
CHECK_DEADLOCK FALSE
