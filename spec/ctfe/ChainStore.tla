----------------------------- MODULE ChainStore -----------------------------
(***************************************************************************)
(* C14: issuance chains stored outside the backend (hash-addressed,        *)
(* de-duplicated, cached) must be invisible to readers.                    *)
(*                                                                         *)
(* Two instances receive the same submissions: D keeps the full chain in   *)
(* the backend leaf, X keeps SHA-256(chain) in the leaf, the chain in a    *)
(* store and recently used chains in an LRU cache that is filled from a    *)
(* detached goroutine (its completion is the separate action CacheSetFires,*)
(* so it interleaves with everything).  The specification gives, for every *)
(* step, X's reply and whether X touches the store; D's reply is always    *)
(* the full chain.  The harness compares X with D byte for byte.           *)
(*                                                                         *)
(* The storage layer below the cache is a refinement detail selected by    *)
(* the constant Dialect: "memory" (a map: Add assigns), "mysql" (INSERT;   *)
(* a duplicate key is refused with error 1062, which Add swallows),        *)
(* "postgresql" (INSERT ... ON CONFLICT DO NOTHING: zero rows, no error).  *)
(* Where the dialects differ observably the specification says how: the    *)
(* de-duplication path (reply.path), what a re-Add does to a damaged row,  *)
(* the error classes of a SQL connection (statement error, cancellation    *)
(* in flight and after the commit, a lost connection that database/sql     *)
(* replaces without the caller noticing, a database that is down), and     *)
(* what the layer itself hands to the service (reply.layer).               *)
(***************************************************************************)
EXTENDS Integers, Sequences, FiniteSets, TLC

CONSTANTS
  Certs,      \* leaf certificates
  ChainOf,    \* [Certs -> chain id]: several certificates share an issuance chain ("c0" = empty chain, leaf-only path)
  NoCache,    \* TRUE: the noop cache
  Cap,        \* LRU capacity: 0 = unbounded, n > 0 = n entries
  MaxTree,
  MaxFaults,
  Dialect     \* storage layer: "memory" | "mysql" | "postgresql"

ASSUME Dialect \in {"memory", "mysql", "postgresql"}
SQL == Dialect # "memory"

\* what the storage layer does with an Add of a key the table already holds
DedupPath == CASE Dialect = "memory" -> "rewrite"                 \* the map entry is assigned again
               [] Dialect = "mysql" -> "dupKeyError"              \* INSERT refused with ER_DUP_ENTRY (1062); Add treats exactly that as success
               [] OTHER -> "conflictSkipped"                      \* ON CONFLICT DO NOTHING: no row written, no error

\* error classes of the storage layer.  Hard: the caller of Add / FindByKey gets an error.
\*   addError / findError   the statement is answered with an error (any but the unique violation), nothing executed
\*   addCancel / findCancel the request context is cancelled while the statement is in flight, nothing executed
\*   addLateCancel          the INSERT is executed, the context is cancelled before the result reaches the caller
\*   findRowsError          the query is accepted, reading its result set fails
\*   addConnDown / findConnDown   every connection (and every new one) fails
\* Soft: addConnLost / findConnLost - the connection is lost before the statement is sent (driver.ErrBadConn);
\*   database/sql sends it again on another connection and the caller notices nothing.
AddFaultsHard == IF SQL THEN {"addError", "addCancel", "addLateCancel", "addConnDown"} ELSE {"addError"}
AddFaultsSoft == IF SQL THEN {"addConnLost"} ELSE {}
FindFaultsHard == IF SQL THEN {"findError", "findCancel", "findRowsError", "findConnDown"} ELSE {"findError"}
FindFaultsSoft == IF SQL THEN {"findConnLost"} ELSE {}
AddFaults == AddFaultsHard \cup AddFaultsSoft
FindFaults == FindFaultsHard \cup FindFaultsSoft

Chains == {ChainOf[c] : c \in Certs}

VARIABLES
  queued,     \* Seq(Certs): submitted, not yet integrated (same in D and X: de-duplication is by certificate)
  tree,       \* Seq([cert, layout]): integrated entries; layout "hash" (written by X) or "full" (legacy, written in direct mode)
  known,      \* set of certificates the backend has seen
  store,      \* set of chain ids in X's storage
  bad,        \* [chain id -> corruption class] for corrupted rows ("ok" otherwise)
  cache,      \* Seq(chain id), least recently used first
  pending,    \* Seq(chain id): detached cache.Set calls not yet executed
  faults,     \* faults injected so far
  hist, last

vars == <<queued, tree, known, store, bad, cache, pending, faults, hist, last>>

InCache(h) == \E i \in 1..Len(cache) : cache[i] = h
Without(s, h) == SelectSeq(s, LAMBDA x : x # h)
Touch(h) == Append(Without(cache, h), h)                  \* a hit moves the entry to the most-recent end
Put(h) == IF NoCache THEN cache
          ELSE LET c1 == Append(Without(cache, h), h)
               IN IF Cap > 0 /\ Len(c1) > Cap THEN Tail(c1) ELSE c1      \* evict the least recently used

Step(op, args, reply) == [op |-> op, args |-> args, reply |-> reply]
Record(s) == last' = s /\ hist' = Append(hist, s)

Init == /\ queued = <<>> /\ tree = <<>> /\ known = {}
        /\ store = {} /\ bad = [h \in Chains |-> "ok"]
        /\ cache = <<>> /\ pending = <<>> /\ faults = 0
        /\ hist = <<>> /\ last = [op |-> "Init"]

\* add-chain on both instances.  X: BuildLogLeaf stores the chain (unless the cache already has it), then queues.
\* reply.add: the storage layer is called; reply.path: what it does; reply.layer: what it returns to the service.
Submit(c, fault) ==
  LET h == ChainOf[c]
      hit == ~NoCache /\ InCache(h)
      present == h \in store
  IN /\ fault \in {"none"} \cup AddFaults
     /\ fault # "none" => faults < MaxFaults /\ ~hit       \* an Add fault can only strike when Add is called
     /\ IF fault \in AddFaultsHard
        THEN /\ faults' = faults + 1
             \* a statement that was executed before the cancellation has written its row (if there was none)
             /\ store' = IF fault = "addLateCancel" THEN store \cup {h} ELSE store
             /\ bad' = IF fault = "addLateCancel" /\ ~present THEN [bad EXCEPT ![h] = "ok"] ELSE bad
             /\ UNCHANGED <<queued, tree, known, cache, pending>>
             /\ Record(Step("Submit", [cert |-> c, fault |-> fault], [status |-> 500, add |-> TRUE, path |-> "error", layer |-> "error"]))
        ELSE /\ store' = IF hit THEN store ELSE store \cup {h}
             \* memory: a re-Add assigns the entry again (and so repairs a damaged one); SQL: the row that is there stays as it is
             /\ bad' = IF hit \/ (SQL /\ present) THEN bad ELSE [bad EXCEPT ![h] = "ok"]
             /\ cache' = IF hit THEN Touch(h) ELSE cache
             /\ pending' = IF hit \/ NoCache THEN pending ELSE Append(pending, h)
             /\ queued' = IF c \in known THEN queued ELSE Append(queued, c)
             /\ known' = known \cup {c}
             /\ faults' = IF fault = "none" THEN faults ELSE faults + 1
             /\ UNCHANGED tree
             /\ Record(Step("Submit", [cert |-> c, fault |-> fault],
                            [status |-> 200, add |-> ~hit,
                             path |-> IF hit THEN "hit" ELSE IF present THEN DedupPath ELSE "inserted",
                             layer |-> IF hit THEN "none" ELSE "ok"]))

Sequence(k) ==
  /\ k \in 1..Len(queued) /\ Len(tree) + k <= MaxTree
  /\ tree' = tree \o [i \in 1..k |-> [cert |-> queued[i], layout |-> "hash"]]
  /\ queued' = SubSeq(queued, k + 1, Len(queued))
  /\ UNCHANGED <<known, store, bad, cache, pending, faults>>
  /\ Record(Step("Sequence", [k |-> k], [status |-> 0]))

\* an entry written before external storage was switched on: full chain in the leaf
Legacy(c) ==
  /\ c \notin known /\ Len(tree) < MaxTree
  /\ tree' = Append(tree, [cert |-> c, layout |-> "full"])
  /\ known' = known \cup {c}
  /\ UNCHANGED <<queued, store, bad, cache, pending, faults>>
  /\ Record(Step("Legacy", [cert |-> c], [status |-> 0]))

\* get-entries (via = "entries") or get-entry-and-proof (via = "proof") for index i (1-based here) on X
\* reply.find: the storage layer is called; reply.layer: what it returns ("data" = the row's bytes as they are in
\* the table, intact or damaged: the layer does not judge them; "error": no bytes at all)
Read(i, via, fault) ==
  LET e == tree[i]
      h == ChainOf[e.cert]
      hit == ~NoCache /\ InCache(h)
      needStore == e.layout = "hash" /\ ~hit
      layer == IF fault \in FindFaultsHard \/ h \notin store THEN "error" ELSE "data"      \* a missing row is an error, never empty data
  IN /\ i \in 1..Len(tree)
     /\ fault \in {"none"} \cup FindFaults
     /\ fault # "none" => faults < MaxFaults /\ needStore
     /\ faults' = IF fault = "none" THEN faults ELSE faults + 1
     /\ IF ~needStore
        THEN /\ cache' = IF e.layout = "hash" THEN Touch(h) ELSE cache
             /\ UNCHANGED pending
             /\ Record(Step("Read", [index |-> i - 1, via |-> via, fault |-> fault],
                            [status |-> 200, cert |-> e.cert, find |-> FALSE, layer |-> "none"]))
        ELSE IF layer = "error" \/ bad[h] # "ok"
        THEN /\ UNCHANGED <<cache, pending>>
             /\ Record(Step("Read", [index |-> i - 1, via |-> via, fault |-> fault],
                            [status |-> 500, cert |-> e.cert, find |-> TRUE, layer |-> layer]))
        ELSE /\ pending' = IF NoCache THEN pending ELSE Append(pending, h)
             /\ UNCHANGED cache
             /\ Record(Step("Read", [index |-> i - 1, via |-> via, fault |-> fault],
                            [status |-> 200, cert |-> e.cert, find |-> TRUE, layer |-> layer]))
     /\ UNCHANGED <<queued, tree, known, store, bad>>

\* get-entries over several indices i..j: the entries are resolved one after the other, the request fails at the first
\* one that cannot be resolved (what was resolved before keeps its effect on the cache); an injected storage fault
\* strikes the first storage lookup of the request.  ls: what the storage layer returned, lookup by lookup.
RECURSIVE RangeFold(_, _, _, _, _, _)
RangeFold(k, j, ca, pe, fl, ls) ==
  IF k > j THEN [ok |-> TRUE, cache |-> ca, pending |-> pe, layers |-> ls, fl |-> fl]
  ELSE LET e == tree[k]
           h == ChainOf[e.cert]
           hit == ~NoCache /\ \E x \in 1..Len(ca) : ca[x] = h
       IN IF e.layout = "full" THEN RangeFold(k + 1, j, ca, pe, fl, ls)
          ELSE IF hit THEN RangeFold(k + 1, j, Append(Without(ca, h), h), pe, fl, ls)
          ELSE IF fl \/ h \notin store
               THEN [ok |-> FALSE, cache |-> ca, pending |-> pe, layers |-> Append(ls, "error"), fl |-> FALSE]
          ELSE IF bad[h] # "ok"
               THEN [ok |-> FALSE, cache |-> ca, pending |-> pe, layers |-> Append(ls, "data"), fl |-> FALSE]
          ELSE RangeFold(k + 1, j, ca, IF NoCache THEN pe ELSE Append(pe, h), fl, Append(ls, "data"))

ReadRange(i, j, fault) ==
  /\ i \in 1..Len(tree) /\ j \in 1..Len(tree) /\ i < j
  /\ fault \in {"none"} \cup FindFaults
  /\ LET r == RangeFold(i, j, cache, pending, fault \in FindFaultsHard, <<>>)
     IN /\ fault \in FindFaultsHard => faults < MaxFaults /\ ~r.fl      \* the fault can only strike when a lookup happens
        /\ fault \in FindFaultsSoft => faults < MaxFaults /\ Len(r.layers) > 0
        /\ faults' = IF fault = "none" THEN faults ELSE faults + 1
        /\ cache' = r.cache /\ pending' = r.pending
        /\ Record(Step("ReadRange", [index |-> i - 1, to |-> j - 1, fault |-> fault],
                       [status |-> IF r.ok THEN 200 ELSE 500, finds |-> Len(r.layers), layers |-> r.layers,
                        sets |-> Len(r.pending) - Len(pending)]))
  /\ UNCHANGED <<queued, tree, known, store, bad>>

\* the detached goroutine runs
CacheSetFires ==
  /\ Len(pending) > 0
  /\ cache' = Put(Head(pending))
  /\ pending' = Tail(pending)
  /\ UNCHANGED <<queued, tree, known, store, bad, faults>>
  /\ Record(Step("CacheSetFires", [chain |-> Head(pending)], [status |-> 0]))

\* storage damage
DropRow(h) ==
  /\ h \in store /\ faults < MaxFaults
  /\ store' = store \ {h} /\ faults' = faults + 1
  /\ UNCHANGED <<queued, tree, known, bad, cache, pending>>
  /\ Record(Step("DropRow", [chain |-> h], [status |-> 0]))

Corrupt(h, class) ==
  /\ h \in store /\ bad[h] = "ok" /\ faults < MaxFaults
  /\ bad' = [bad EXCEPT ![h] = class] /\ faults' = faults + 1
  /\ UNCHANGED <<queued, tree, known, store, cache, pending>>
  /\ Record(Step("Corrupt", [chain |-> h, class |-> class], [status |-> 0]))

\* the front end is restarted, or another replica with its own (cold) cache takes over: store and backend are
\* shared and survive; the cache and the detached writes still on their way die with the process
Restart ==
  /\ faults < MaxFaults
  /\ cache' = <<>> /\ pending' = <<>> /\ faults' = faults + 1
  /\ UNCHANGED <<queued, tree, known, store, bad>>
  /\ Record(Step("Restart", [k |-> 0], [status |-> 0]))

\* "swapped": the row holds the well-formed chain value of another key
CorruptClasses == {"trailing", "notDER", "truncated", "contentFlip", "empty", "swapped"}

Next ==
  \/ \E c \in Certs, f \in {"none"} \cup AddFaults : Submit(c, f)
  \/ \E k \in 1..MaxTree : Sequence(k)
  \/ \E c \in Certs : Legacy(c)
  \/ \E i \in 1..MaxTree, v \in {"entries", "proof"}, f \in {"none"} \cup FindFaults : Read(i, v, f)
  \/ \E i \in 1..MaxTree, j \in 1..MaxTree, f \in {"none"} \cup FindFaults : ReadRange(i, j, f)
  \/ CacheSetFires
  \/ \E h \in Chains : DropRow(h)
  \/ \E h \in Chains, k \in CorruptClasses : Corrupt(h, k)
  \/ Restart

Spec == Init /\ [][Next]_vars

\* what a front end with a cold cache (after Restart, or another replica) can serve from the current state
ServableCold(i) == tree[i].layout = "full" \/ (ChainOf[tree[i].cert] \in store /\ bad[ChainOf[tree[i].cert]] = "ok")

(* ---------------- properties ---------------- *)
\* a reply of 200 always carries the chain of the certificate stored at that index (what D serves):
\* here by construction of Read; stated so that TLC evaluates it on every transition
SameAsDirect == [][last'.op = "Read" /\ last'.reply.status = 200 => last'.reply.cert = tree[last'.args.index + 1].cert]_vars

\* a read that succeeds without the cache had an intact row; a damaged or missing row is an error, never data
FaultIsError == [][(last'.op = "Read" /\ last'.reply.find /\ last'.reply.status = 200) =>
                      LET h == ChainOf[last'.reply.cert] IN h \in store /\ bad[h] = "ok"]_vars

\* a range is served only when every one of its entries is: whole or error, never a part with something else in it
RangeWhole == [][(last'.op = "ReadRange" /\ last'.reply.status = 200) =>
                    \A k \in last'.args.index + 1..last'.args.to + 1 :
                       LET h == ChainOf[tree[k].cert]
                       IN tree[k].layout = "full" \/ (h \in store /\ bad[h] = "ok") \/ (\E x \in 1..Len(cache) : cache[x] = h)]_vars

\* legacy entries never need the store
LegacyUnchanged == [][(last'.op = "Read" /\ tree[last'.args.index + 1].layout = "full") =>
                         last'.reply.status = 200 /\ ~last'.reply.find]_vars

\* durability, whatever the cache state: a submission is acknowledged (and its leaf queued) only once the store has
\* the chain, and rows leave the store only through storage damage.  Together: every acknowledged hash-layout
\* entry can be resolved from the store alone, which is what makes a cold cache (Restart, another replica,
\* eviction) harmless.
AckAfterStore == [][(last'.op = "Submit" /\ last'.reply.status = 200 /\ last'.reply.add) => ChainOf[last'.args.cert] \in store']_vars
\* ... and a cache hit stands for "stored": cache and detached writes only ever carry chains the store holds; every
\* action except storage damage preserves that (stated as the inductive step so that it needs no history)
CacheWithinStore(ca, pe, st) == (\A i \in 1..Len(ca) : ca[i] \in st) /\ (\A i \in 1..Len(pe) : pe[i] \in st)
CacheFromStore == [][(CacheWithinStore(cache, pending, store) /\ last'.op # "DropRow") => CacheWithinStore(cache', pending', store')]_vars
StoreMonotone == [][last'.op # "DropRow" => store \subseteq store']_vars
\* nothing but storage damage makes an integrated entry unservable for a cold front end
ServableStays == [][\A i \in 1..Len(tree) : (ServableCold(i) /\ last'.op \notin {"DropRow", "Corrupt"}) => ServableCold(i)']_vars
RestartIsCold == [][last'.op = "Restart" => cache' = <<>> /\ pending' = <<>>]_vars

(* ---------------- the storage layer (per Dialect) ---------------- *)
\* de-duplication: an Add of a key the table already holds (the same chain hash from another leaf, or from the same
\* leaf again) is a success for the caller, takes the dialect's de-duplication path, and leaves the table as it is -
\* in the SQL dialects down to the row's bytes (a damaged row stays damaged: nothing is written)
DedupIsSuccess == [][(last'.op = "Submit" /\ last'.reply.add /\ last'.args.fault \notin AddFaultsHard /\ ChainOf[last'.args.cert] \in store)
                        => /\ last'.reply.status = 200 /\ last'.reply.path = DedupPath /\ last'.reply.layer = "ok"
                           /\ store' = store
                           /\ SQL => bad' = bad]_vars
FirstAddInserts == [][(last'.op = "Submit" /\ last'.reply.add /\ last'.args.fault \notin AddFaultsHard /\ ChainOf[last'.args.cert] \notin store)
                        => last'.reply.path = "inserted" /\ ChainOf[last'.args.cert] \in store' /\ bad'[ChainOf[last'.args.cert]] = "ok"]_vars
\* any other storage error on Add: the submission is answered 5xx (so: no SCT), nothing is queued, the certificate
\* does not become known to the backend, no cache write is started
AddErrorIs5xx == [][(last'.op = "Submit" /\ last'.args.fault \in AddFaultsHard)
                       => /\ last'.reply.status = 500 /\ last'.reply.layer = "error"
                          /\ queued' = queued /\ known' = known /\ cache' = cache /\ pending' = pending /\ tree' = tree]_vars
\* an acknowledged submission called the layer and got "ok", or found the chain in the cache
AckNeedsLayerOk == [][(last'.op = "Submit" /\ last'.reply.status = 200) => last'.reply.layer = IF last'.reply.add THEN "ok" ELSE "none"]_vars
\* any storage error on FindByKey: the read is answered 5xx, never data
FindErrorIs5xx == [][/\ (last'.op = "Read" /\ (last'.args.fault \in FindFaultsHard \/ last'.reply.layer = "error")) => last'.reply.status = 500
                     /\ (last'.op = "ReadRange" /\ (last'.args.fault \in FindFaultsHard \/ \E k \in 1..Len(last'.reply.layers) : last'.reply.layers[k] = "error"))
                           => last'.reply.status = 500]_vars
\* a missing row is an error of the layer (never "data", in particular never empty chain data)
MissingRowIsError == [][(last'.op = "Read" /\ last'.reply.find /\ ChainOf[last'.reply.cert] \notin store) => last'.reply.layer = "error" /\ last'.reply.status = 500]_vars
\* a connection lost before the statement was sent is invisible: the reply is the one without the fault
SoftFaultInvisible ==
  [][/\ (last'.op = "Submit" /\ last'.args.fault \in AddFaultsSoft) => last'.reply.status = 200 /\ last'.reply.layer = "ok" /\ ChainOf[last'.args.cert] \in store'
     /\ (last'.op = "Read" /\ last'.args.fault \in FindFaultsSoft)
           => LET h == ChainOf[last'.reply.cert] IN last'.reply.status = (IF h \in store /\ bad[h] = "ok" THEN 200 ELSE 500)]_vars
\* only the classes of the dialect occur
FaultClasses == last.op \in {"Submit", "Read", "ReadRange"} => last.args.fault \in {"none"} \cup AddFaults \cup FindFaults

\* the cache only ever holds chains that were stored (it cannot invent data)
CacheSound == \A i \in 1..Len(cache) : cache[i] \in Chains
CacheBounded == Cap > 0 => Len(cache) <= Cap
=============================================================================
